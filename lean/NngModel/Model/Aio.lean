/-
  C02 — small-step interleaving model of ONE nng_aio: the framework fields of
  src/core/aio.c, the task fields of src/core/taskq.c, a generic provider obeying the
  contract every nng provider follows, the user callback, and ghost counters.

  A label is one critical section of aio.c / taskq.c (or a call / return of a public
  function, which only moves a program counter).  Threads are interleaved labels:
  `step cfg s l = none` means `l` is not enabled in `s`.

  C source                                   labels
  nng_aio_set_timeout / set_expire           setTimeout, setExpire
  nng_aio_skip_callback                      skipArm
  nng_aio_start (reset, clock, task_prep)    subCall, prepare
  nni_aio_start critical section (+ park)    begin   (outcomes: stopped / aborted / timed out / parked)
  provider completing without nni_aio_start  direct
  provider completion (test-and-remove)      complete, then finish = nni_aio_finish_impl (+ dispatch/skip)
  nni_aio_abort                              abortCall, abortSec, callCancel
  nni_aio_close                              closeCall, closeSec, callCancel
  nni_aio_stop / nni_aio_fini                stopCall, stopMark, stopTake, stopCancel, stopWait, stopRet
  nni_aio_expire_loop                        expScan, expTake, expCall, expRelease
  nni_taskq_thread                           pop, cbRead (callback reads the result), cbDone
  nng_aio_result                             peek
  virtual clock                              tick

  `Cfg` says which of the two repairs delivered with this check are present in the tree
  (extracted from aio.c on every run, Generated.aioFixExpire / aioFixAbort), so the same
  model mirrors the code before and after them; the theorems are about the repaired code,
  and the defects are theorems about the unrepaired configuration (Props/C02.lean).
-/
import NngModel.Spec.Aio
import NngModel.Generated.C02
namespace Nng.Aio
open Nng.AioSpec

structure Cfg where
  /-- nni_aio_finish_impl leaves the dispatch to the expire thread while `a_expiring` (F14 repair) -/
  fixExpire : Bool
  /-- nni_aio_abort on an unscheduled aio records `a_abort_result`, not `a_result` (F15 repair) -/
  fixAbort : Bool
deriving Repr, DecidableEq

def Cfg.fixed : Cfg := { fixExpire := true, fixAbort := true }
def Cfg.pinned : Cfg := { fixExpire := false, fixAbort := false }

/-- which cancel function is registered: the generic provider's or nni_sleep_cancel -/
inductive Prov | gen | slp
deriving Repr, DecidableEq, Inhabited, BEq, Hashable

structure State where
  now : Nat := 0
  -- aio.c
  timeout : Tmo := .never
  useExpire : Bool := false
  expire : Option Nat := none          -- a_expire, none = NNI_TIME_NEVER
  result : Nat := 0
  stop : Bool := false
  abort : Bool := false
  abortResult : Nat := 0
  sleep : Bool := false
  expireOk : Bool := false
  expiring : Bool := false
  expDispatch : Bool := false          -- a_expire_dispatch
  cancelFn : Option Prov := none
  onExp : Bool := false                -- on eq_list
  skip : Bool := false                 -- a_skipped_callback != NULL
  -- taskq.c
  busy : Nat := 0
  prep : Bool := false
  queued : Nat := 0
  popped : Nat := 0                    -- taken by a task thread, callback not yet reading
  inCb : Nat := 0                      -- callbacks running
  -- generic provider
  parked : Bool := false
  pendFin : Option Nat := none         -- removed from the list, nni_aio_finish(rv) not yet called
  -- program counters of the threads
  subPc : Nat := 0                     -- 0 idle, 1 called, 2 prepared
  subKind : Kind := .gen
  subFromCb : Bool := false            -- the submission is made from inside the callback
  subTmo : Bool := false               -- `timeout` local of nni_aio_start
  subRets : List (Bool × Nat) := []    -- submissions done whose call has not returned yet: (generic?, value)
  aborts : List Nat := []              -- nni_aio_abort(rv) called, section not yet run
  closes : Nat := 0
  calls : List (Prov × Nat) := []      -- cancel functions taken by abort/close, not yet invoked
  stopPc : Nat := 0                    -- 0 idle, 1 called, 2 marked (waiting !expiring), 3 took fn, 4 waiting task, 5 done
  stopFn : Option Prov := none
  stopFree : Bool := false             -- this stop is the one inside nni_aio_fini + free
  freed : Bool := false
  expPc : Nat := 0                     -- 0 idle, 1 scanned, 2 took fn, 3 fn returned
  expFn : Prov := .gen
  expRv : Nat := 0
  -- ghost
  starts : Nat := 0
  completions : Nat := 0
  reported : Nat := 0                  -- callbacks that read the result
  skips : Nat := 0                     -- skip flags set
  opTok : Bool := false                -- the current operation is not yet completed
  final : Nat := 0                     -- result given at the last completion
  opDeadline : Option Nat := none      -- deadline of the current operation
  expGen : Nat := 0                    -- operation the expire thread scanned
  dbl : Bool := false                  -- a completion without an open operation happened
  mismatch : Bool := false             -- a callback read a result other than `final`
  early : Bool := false                -- the expire thread completed an operation not (yet) due
  stoppedAt : Option Nat := none       -- `starts` when a stop last saw the task idle
  lateBad : Bool := false              -- after that, nni_aio_start let an operation in
deriving Repr, DecidableEq, Inhabited

inductive Label
  | setTimeout (t : Tmo) | setExpire (abs : Nat) | skipArm
  | subCall (k : Kind) (fromCb : Bool) | prepare | begin | direct | subRet (gen : Bool) (v : Nat)
  | complete (rv : Nat) | finish
  | abortCall (rv : Nat) | abortSec (rv : Nat) | closeCall | closeSec | callCancel (p : Prov) (rv : Nat)
  | stopCall (free : Bool) | stopMark | stopTake | stopCancel | stopWait | stopRet
  | expScan | expTake | expCall | expRelease
  | pop | cbRead | cbDone
  | peek
  | tick (d : Nat)
deriving Repr, DecidableEq, Inhabited

/-- nni_task_dispatch -/
def dispatch (s : State) : State :=
  if s.prep then { s with prep := false, queued := s.queued + 1 }
  else { s with busy := s.busy + 1, queued := s.queued + 1 }

/-- ghost bookkeeping of a completion with result `rv` -/
def completed (s : State) (rv : Nat) : State :=
  { s with completions := s.completions + 1, final := rv, opTok := false, dbl := s.dbl || !s.opTok }

/-- nni_aio_finish_impl (asynchronous flavour) -/
def finishCore (cfg : Cfg) (s : State) (rv : Nat) : State :=
  let s1 := completed { s with onExp := false, result := rv, cancelFn := none, expire := none,
                               sleep := false, useExpire := false, skip := false } rv
  if cfg.fixExpire && s.expiring then { s1 with expDispatch := true }
  else if s.skip then { s1 with skips := s1.skips + 1 }
  else dispatch s1

/-- the cancel function `p` invoked with `rv`: the generic provider's test-and-remove, or the
    first critical section of nni_sleep_cancel; whoever removes the aio then calls
    nni_aio_finish (label `finish`) -/
def cancelCore (s : State) (p : Prov) (rv : Nat) : State :=
  match p with
  | .gen => if s.parked then { s with parked := false, pendFin := some rv } else s
  | .slp => if s.sleep then { s with sleep := false, onExp := false, pendFin := some rv } else s

/-- is the generic provider's lock held by a submission in progress? -/
def provLocked (s : State) : Bool := (s.subPc != 0 && s.subKind == .gen) || s.subRets.any (·.1)

/-- no operation is pending: everything started has reported (the user contract for
    starting the next operation or reconfiguring the aio) -/
def idle (s : State) : Bool := s.subPc == 0 && s.starts == s.reported + s.skips

/-- all user-side calls have returned (the user contract for nng_aio_free) -/
def userQuiet (s : State) : Bool :=
  (s.subPc == 0 || s.subFromCb) && s.aborts.isEmpty && s.calls.isEmpty && s.closes == 0 && s.stopPc == 0

def takeFn (s : State) : State := { s with onExp := false, stopFn := s.cancelFn, cancelFn := none, stopPc := 3 }

def release (s : State) : State :=
  let s1 := { s with expiring := false, expPc := 0 }
  if s.expDispatch then dispatch { s1 with expDispatch := false } else s1

def step (cfg : Cfg) (s : State) (l : Label) : Option State :=
  match l with
  | .tick d => some { s with now := s.now + d }
  | .setTimeout t => if idle s && !s.freed then some { s with timeout := t, useExpire := false } else none
  | .setExpire e => if idle s && !s.freed then some { s with expire := some e, useExpire := true } else none
  | .skipArm => if idle s && !s.freed then some { s with skip := true } else none
  | .subCall k fromCb =>
    -- (a submission racing with nng_aio_free must come from inside the callback)
    if idle s && !s.freed && (fromCb || !(s.stopPc != 0 && s.stopFree)) && (!fromCb || s.inCb > 0)
       && !(k == .gen && provLocked s) then
      some { s with subPc := 1, subKind := k, subFromCb := fromCb, starts := s.starts + 1, opTok := true, opDeadline := none }
    else none
  | .prepare =>
    if s.subPc != 1 then none else
    match s.subKind with
    | .gen | .ext =>
      -- nni_aio_reset, then the unlocked head of nni_aio_start, then nni_task_prep
      let s1 := { s with result := 0, abort := false, sleep := false, skip := false, expireOk := false }
      let s2 := if !s1.useExpire then
          match s1.timeout with
          | .zero => { s1 with subTmo := true }
          | .never => { s1 with subTmo := false, expire := none }
          | .ms d => { s1 with subTmo := false, expire := some (s1.now + d) }
        else { s1 with subTmo := (match s1.expire with | some e => decide (e ≤ s1.now) | none => false) }
      some { s2 with busy := s2.busy + 1, prep := true, subPc := 2, opDeadline := s2.expire }
    | .slp ms =>
      -- nni_sleep_aio
      let s1 := { s with result := 0, abort := false, skip := false, expireOk := true, sleep := true }
      let (ok, ms') := match s1.timeout with
        | .never => (true, ms)
        | .zero => (false, 0)
        | .ms d => if ms > d then (false, d) else (true, ms)
      let s2 := { s1 with expireOk := ok, expire := some (s1.now + ms') }
      let s3 := { s2 with subTmo := s2.useExpire && decide (s2.now + ms' ≤ s2.now) }
      some { s3 with busy := s3.busy + 1, prep := true, subPc := 2, opDeadline := s3.expire }
    | .direct _ => none
  | .begin =>
    if s.subPc != 2 then none else
    let prov : Prov := match s.subKind with | .slp _ => .slp | _ => .gen
    if s.stop then
      let s1 := { s with sleep := false, expireOk := false, result := ESTOPPED, subPc := 0, subRets := s.subRets ++ [(prov == .gen, 0)] }
      some (dispatch (completed s1 ESTOPPED))
    else if s.abort then
      let r := if cfg.fixAbort then s.abortResult else s.result
      let s1 := { s with sleep := false, abort := false, expireOk := false, result := r, subPc := 0, subRets := s.subRets ++ [(prov == .gen, 0)] }
      some (dispatch (completed s1 r))
    else if s.subTmo then
      let r := if s.expireOk then 0 else ETIMEDOUT
      let s1 := { s with sleep := false, expireOk := false, result := r, subPc := 0, subRets := s.subRets ++ [(prov == .gen, 0)] }
      some (dispatch (completed s1 r))
    else
      some { s with result := 0, cancelFn := some prov, onExp := s.onExp || s.expire.isSome,
                    parked := (prov == .gen), subPc := 0, subRets := s.subRets ++ [(prov == .gen, 1)],
                    lateBad := s.lateBad || s.stoppedAt.isSome }
  | .direct =>
    if s.subPc != 1 then none else
    match s.subKind with
    | .direct rv =>
      let s1 := finishCore cfg s rv
      some { s1 with subPc := 0, subRets := s.subRets ++ [(false, if s.skip && !(cfg.fixExpire && s.expiring) then 1 else 0)] }
    | _ => none
  | .subRet g v => if s.subRets.contains (g, v) then some { s with subRets := s.subRets.erase (g, v) } else none
  | .complete rv =>
    if provLocked s then none
    else if s.parked then some { s with parked := false, pendFin := some rv }
    else some s
  | .finish =>
    match s.pendFin with
    | some rv => some (finishCore cfg { s with pendFin := none } rv)
    | none => none
  | .abortCall rv => if !s.freed && !(s.stopPc != 0 && s.stopFree) then some { s with aborts := rv :: s.aborts } else none
  | .abortSec rv =>
    if s.aborts.contains rv then
      let s1 := { s with aborts := s.aborts.erase rv, onExp := false }
      match s.cancelFn with
      | some p => some { s1 with cancelFn := none, calls := (p, rv) :: s1.calls }
      | none =>
        if cfg.fixAbort then some { s1 with abort := true, abortResult := rv }
        else some { s1 with abort := true, result := rv }
    else none
  | .closeCall => if !s.freed && !(s.stopPc != 0 && s.stopFree) then some { s with closes := s.closes + 1 } else none
  | .closeSec =>
    if s.closes = 0 then none else
    let s1 := { s with closes := s.closes - 1, onExp := false, stop := true }
    match s.cancelFn with
    | some p => some { s1 with cancelFn := none, calls := (p, ESTOPPED) :: s1.calls }
    | none => some s1
  | .callCancel p rv =>
    if s.calls.contains (p, rv) && !(p == .gen && provLocked s) then
      some (cancelCore { s with calls := s.calls.erase (p, rv) } p rv)
    else none
  | .stopCall free =>
    if s.stopPc == 0 && !s.freed && (!free || userQuiet s) then some { s with stopPc := 1, stopFree := free } else none
  | .stopMark =>
    if s.stopPc != 1 then none
    else if s.expiring then some { s with stop := true, stopPc := 2 }
    else some (takeFn { s with stop := true })
  | .stopTake => if s.stopPc == 2 && !s.expiring then some (takeFn s) else none
  | .stopCancel =>
    if s.stopPc != 3 then none else
    match s.stopFn with
    | some p =>
      if p == .gen && provLocked s then none
      else some (cancelCore { s with stopPc := 4, stopFn := none } p ESTOPPED)
    | none => some { s with stopPc := 4 }
  | .stopWait =>
    if s.stopPc == 4 && s.busy == 0 then some { s with stopPc := 5, stoppedAt := some s.starts, freed := s.stopFree } else none
  | .stopRet => if s.stopPc == 5 then some { s with stopPc := 0 } else none
  | .expScan =>
    match s.expire with
    | some e =>
      if s.expPc == 0 && s.onExp && decide (e < s.now) then
        some { s with onExp := false, expiring := true, expPc := 1, expGen := s.starts }
      else none
    | none => none
  | .expTake =>
    if s.expPc != 1 then none else
    let rv := if s.expireOk then 0 else ETIMEDOUT
    let s1 := { s with expireOk := false, cancelFn := none }
    if s.sleep then
      let s2 := completed { s1 with result := rv, sleep := false } rv
      let s3 := { s2 with early := s2.early || !(s.expGen == s.starts && (match s.opDeadline with | some e => decide (e < s.now) | none => false)) }
      some (release (dispatch s3))
    else
      match s.cancelFn with
      | some p => some { s1 with expFn := p, expRv := rv, expPc := 2 }
      | none => some (release s1)
  | .expCall =>
    if s.expPc != 2 || (s.expFn == .gen && provLocked s) then none else
    let wins := match s.expFn with | .gen => s.parked | .slp => s.sleep
    let s1 := cancelCore { s with expPc := 3 } s.expFn s.expRv
    some { s1 with early := s1.early || (wins && !(s.expGen == s.starts && (match s.opDeadline with | some e => decide (e < s.now) | none => false))) }
  | .expRelease => if s.expPc == 3 then some (release s) else none
  | .pop => if s.queued > 0 then some { s with queued := s.queued - 1, popped := s.popped + 1 } else none
  | .cbRead =>
    if s.popped > 0 then
      some { s with popped := s.popped - 1, inCb := s.inCb + 1, reported := s.reported + 1,
                    mismatch := s.mismatch || (s.result != s.final) }
    else none
  | .cbDone =>
    -- (a callback does not return while the submission it makes is still in progress)
    if s.inCb > 0 && (s.inCb ≥ 2 || !(s.subFromCb && s.subPc != 0)) then some { s with inCb := s.inCb - 1, busy := s.busy - 1 } else none
  | .peek => some s

/-- what the harness (or any user + provider) observes of a step -/
def obsOf (s : State) (l : Label) : Option Obs :=
  match l with
  | .tick d => some (.tick d)
  | .setTimeout t => some (.setTimeout t)
  | .setExpire e => some (.setExpire e)
  | .skipArm => some .skipArm
  | .subCall k _ => some (.subCall k)
  | .subRet _ v => some (.subRet v)
  | .complete rv => some (.provDone rv s.parked)
  | .abortCall rv => some (.abortCall rv)
  | .closeCall => some .closeCall
  | .callCancel .gen rv => some (.cancelRan rv s.parked)
  | .stopCall free => some (if free then .freeCall else .stopCall)
  | .stopCancel => if s.stopFn == some .gen then some (.cancelRan ESTOPPED s.parked) else none
  | .stopRet => some (if s.stopFree then .freeRet else .stopRet)
  | .expCall => if s.expFn == .gen then some (.cancelRan s.expRv s.parked) else none
  | .cbRead => some (.cbBegin s.result)
  | .peek => some (.peek s.result)
  | _ => none

/-- run a list of labels; `none` if one of them is not enabled -/
def run (cfg : Cfg) (s : State) : List Label → Option State
  | [] => some s
  | l :: ls => match step cfg s l with
    | some s' => run cfg s' ls
    | none => none

/-- the observations of an execution -/
def trace (cfg : Cfg) (s : State) : List Label → List Obs
  | [] => []
  | l :: ls => match step cfg s l with
    | some s' => (match obsOf s l with | some o => [o] | none => []) ++ trace cfg s' ls
    | none => []

def hiddenLabels (s : State) : List Label :=
  [.prepare, .begin, .direct, .finish, .closeSec, .stopMark, .stopTake, .stopCancel, .stopWait,
   .expScan, .expTake, .expCall, .expRelease, .pop, .cbDone] ++
  s.aborts.eraseDups.map .abortSec ++
  (s.calls.eraseDups.map fun (p, rv) => .callCancel p rv)

end Nng.Aio
