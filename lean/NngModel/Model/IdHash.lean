/-
  Executable model of src/core/idhash.c (nni_id_map_init, id_find, nni_id_get, id_resize,
  nni_id_remove, nni_id_set, nni_id_alloc, nni_id_visit, nni_id_count).

  Representation: `id_entries` is the list of its `id_cap` entries ([] for NULL); a value is
  a natural number, 0 = NULL.  Loops carry explicit fuel (running out of fuel clears `safe`);
  every `id_entries[i]` goes through `rdE`/`wrE` (index < length) and the unsigned decrements
  `id_load--`, `skips--` are checked (operand > 0); all of these feed the `safe` flag.
  Keys and the cursor are uint64 (the fixed cursor step cannot overflow); the uint32 counters
  are assumed not to overflow (fewer than 2^31 entries).  `nni_random()` is the argument `rnd`.
-/
import NngModel.Base.Bytes
import NngModel.Generated.C18

namespace Nng.IdHash

structure Entry where
  key : Nat
  skips : Nat
  val : Nat
deriving Repr, DecidableEq, Inhabited

structure IdMap where
  entries : List Entry
  cap : Nat
  count : Nat
  load : Nat
  minLoad : Nat
  maxLoad : Nat
  minVal : Nat
  maxVal : Nat
  dynVal : Nat
  random : Bool
deriving Repr, DecidableEq, Inhabited

def u64 : Nat := 2 ^ 64
def minCap : Nat := Nng.Generated.c18IdMinCap

/-- nni_id_map_init (NNI_ASSERT(hi > lo) is compiled out in the baseline configuration) -/
def mapInit (lo hi : Nat) (random : Bool) : IdMap :=
  { entries := [], cap := 0, count := 0, load := 0, minLoad := 0, maxLoad := 0,
    minVal := if lo = 0 then Nng.Generated.c18IdDefaultLo else lo,
    maxVal := if hi = 0 then Nng.Generated.c18IdDefaultHi else hi,
    dynVal := 0, random := random }

/-- nni_id_map_fini: the table is released, the bounds, the flags AND THE ID CURSOR stay (the registered static maps
    of the library are finalised at nng_fini and used again after the next nng_init) -/
def mapFini (m : IdMap) : IdMap :=
  if m.cap = 0 then m
  else { m with entries := [], cap := 0, count := 0, load := 0, minLoad := 0, maxLoad := 0 }

def rdE (es : List Entry) (i : Nat) : Entry × Bool :=
  match es[i]? with
  | some e => (e, true)
  | none => (default, false)

def wrE (es : List Entry) (i : Nat) (e : Entry) : List Entry × Bool :=
  if i < es.length then (es.set i e, true) else (es, false)

/-- ID_INDEX(m, j) -/
def idIndex (cap j : Nat) : Nat := j &&& (cap - 1)
/-- ID_NEXT(m, j) -/
def idNext (cap j : Nat) : Nat := (j * Nng.Generated.c18IdProbeMul + Nng.Generated.c18IdProbeAdd) &&& (cap - 1)

/-- the `for (;;)` of id_find -/
def findLoop (es : List Entry) (cap id start : Nat) : Nat → Nat → Bool → Option Nat × Bool
  | 0, _, _ => (none, false)
  | f + 1, index, s =>
    let r := rdE es index
    if r.1.key = id ∧ r.1.val ≠ 0 then (some index, s && r.2)
    else if r.1.skips = 0 then (none, s && r.2)
    else
      let index' := idNext cap index
      if index' = start then (none, s && r.2) else findLoop es cap id start f index' (s && r.2)

/-- id_find; `none` is `(size_t) -1` -/
def idFind (m : IdMap) (id : Nat) : Option Nat × Bool :=
  if m.count = 0 then (none, true)
  else findLoop m.entries m.cap id (idIndex m.cap id) m.cap (idIndex m.cap id) true

/-- nni_id_get -/
def idGet (m : IdMap) (id : Nat) : Nat × Bool :=
  let f := idFind m id
  match f.1 with
  | none => (0, f.2)
  | some i => let r := rdE m.entries i; (r.1.val, f.2 && r.2)

/-- `new_cap = 8; while (new_cap < count * 2) new_cap *= 2;` -/
def capLoop (count : Nat) : Nat → Nat → Nat × Bool
  | 0, a => (a, decide (¬ a < count * 2))
  | f + 1, a => if a < count * 2 then capLoop count f (a * 2) else (a, true)

/-- inner `for (;;)` of id_resize: place (key,val) in the new table; returns (entries, load, safe) -/
def rehashInsert (newCap key val : Nat) : Nat → List Entry → Nat → Nat → Bool → List Entry × Nat × Bool
  | 0, es, _, load, _ => (es, load, false)
  | f + 1, es, index, load, s =>
    let r := rdE es index
    if r.1.val = 0 then
      let w := wrE es index { r.1 with val := val, key := key }
      (w.1, load + 1, s && r.2 && w.2)
    else
      let w := wrE es index { r.1 with skips := r.1.skips + 1 }
      rehashInsert newCap key val f w.1 (idNext newCap index) (load + 1) (s && r.2 && w.2)

/-- outer `for (i = 0; i < old_cap; i++)` of id_resize -/
def rehashAll (old : List Entry) (newCap : Nat) : List Nat → List Entry → Nat → Bool → List Entry × Nat × Bool
  | [], es, load, s => (es, load, s)
  | i :: is, es, load, s =>
    let r := rdE old i
    if r.1.val = 0 then rehashAll old newCap is es load (s && r.2)
    else
      let x := rehashInsert newCap r.1.key r.1.val newCap es (idIndex newCap r.1.key) load (s && r.2)
      rehashAll old newCap is x.1 x.2.1 x.2.2

/-- id_resize: (map, rv, safe) -/
def idResize (m : IdMap) (allocOk : Bool) : IdMap × Nat × Bool :=
  if m.load < m.maxLoad ∧ m.load ≥ m.minLoad then (m, 0, true)
  else
    let nc := capLoop m.count m.count minCap
    let newCap := nc.1
    if newCap = m.cap then (m, 0, nc.2)
    else if !allocOk then (m, Err.enomem, nc.2)
    else
      let fresh : List Entry := List.replicate newCap ⟨0, 0, 0⟩
      let minLoad := if newCap > minCap then newCap / Nng.Generated.c18IdMinLoadDiv else 0
      let maxLoad := if newCap > minCap then newCap * Nng.Generated.c18IdMaxLoadNum / Nng.Generated.c18IdMaxLoadDen
                     else Nng.Generated.c18IdSmallMaxLoad
      let x := rehashAll m.entries newCap (List.range m.cap) fresh 0 true
      ({ m with entries := x.1, cap := newCap, load := x.2.1, minLoad := minLoad, maxLoad := maxLoad },
        0, nc.2 && x.2.2)

/-- the `for (;;)` of nni_id_remove: (entries, load, safe) -/
def removeLoop (cap index : Nat) : Nat → List Entry → Nat → Nat → Bool → List Entry × Nat × Bool
  | 0, es, _, load, _ => (es, load, false)
  | f + 1, es, probe, load, s =>
    let s := s && decide (load > 0)
    let load := load - 1
    let r := rdE es probe
    if probe = index then
      let w := wrE es probe { r.1 with val := 0, key := 0 }
      (w.1, load, s && r.2 && w.2)
    else
      let w := wrE es probe { r.1 with skips := r.1.skips - 1 }
      removeLoop cap index f w.1 (idNext cap probe) load (s && r.2 && w.2 && decide (r.1.skips > 0))

/-- nni_id_remove: (map, rv, safe); the shrink's allocation may fail (`allocOk`), which is ignored -/
def idRemove (m : IdMap) (id : Nat) (allocOk : Bool) : IdMap × Nat × Bool :=
  let f := idFind m id
  match f.1 with
  | none => (m, Err.enoent, f.2)
  | some index =>
    let x := removeLoop m.cap index m.cap m.entries (idIndex m.cap id) m.load true
    let m1 := { m with entries := x.1, load := x.2.1, count := m.count - 1 }
    let r := idResize m1 allocOk
    (r.1, 0, f.2 && x.2.2 && decide (m.count > 0) && r.2.2)

/-- the insertion `for (;;)` of nni_id_set: (entries, load, safe) -/
def setLoop (cap id val : Nat) : Nat → List Entry → Nat → Nat → Bool → List Entry × Nat × Bool
  | 0, es, _, load, _ => (es, load, false)
  | f + 1, es, index, load, s =>
    let r := rdE es index
    if r.1.val = 0 then
      let w := wrE es index { r.1 with key := id, val := val }
      (w.1, load + 1, s && r.2 && w.2)
    else
      let w := wrE es index { r.1 with skips := r.1.skips + 1 }
      setLoop cap id val f w.1 (idNext cap index) (load + 1) (s && r.2 && w.2)

/-- nni_id_set: (map, rv, safe) -/
def idSet (m : IdMap) (id val : Nat) (allocOk : Bool) : IdMap × Nat × Bool :=
  let r := idResize m allocOk
  if r.2.1 ≠ 0 then (m, Err.enomem, r.2.2)
  else
    let m := r.1
    let f := idFind m id
    match f.1 with
    | some index =>
      let e := rdE m.entries index
      let w := wrE m.entries index { e.1 with val := val }
      ({ m with entries := w.1 }, 0, r.2.2 && f.2 && e.2 && w.2)
    | none =>
      let x := setLoop m.cap id val m.cap m.entries (idIndex m.cap id) m.load true
      ({ m with entries := x.1, load := x.2.1, count := m.count + 1 }, 0, r.2.2 && f.2 && x.2.2)

/-- the `for (;;)` of nni_id_alloc: (id, dynVal, wrapped, safe); `wrapped` (ghost) records that the
    cursor was reset to the lower bound during the search -/
def allocLoop (m : IdMap) : Nat → Nat → Bool → Bool → Option Nat × Nat × Bool × Bool
  | 0, dyn, w, _ => (none, dyn, w, false)
  | f + 1, dyn, w, s =>
    let id := dyn
    -- (fixed code) `if (dyn_val >= max_val) dyn_val = min_val; else dyn_val++;`  The pinned tree
    -- increments first and then tests `> max_val`, which wraps to 0 when max_val = UINT64_MAX
    let wrap := decide (dyn ≥ m.maxVal)
    let dyn2 := if wrap then m.minVal else dyn + 1
    let fd := idFind m id
    if fd.1 = none then (some id, dyn2, w || wrap, s && fd.2)
    else allocLoop m f dyn2 (w || wrap) (s && fd.2)

structure AllocRes where
  m : IdMap
  rv : Nat
  id : Nat
  wrapped : Bool
  safe : Bool
deriving Repr

/-- the cursor nni_id_alloc starts from: `if (dyn_val == 0) dyn_val = random ? nni_random() % (max - min + 1) + min : min` -/
def dyn0 (m : IdMap) (rnd : Nat) : Nat :=
  if m.dynVal = 0 then
    (if m.random then (rnd % (m.maxVal - m.minVal + 1) + m.minVal) % u64 else m.minVal)
  else m.dynVal

/-- nni_id_alloc -/
def idAlloc (m : IdMap) (val rnd : Nat) (allocOk : Bool) : AllocRes :=
  if m.count > m.maxVal - m.minVal then ⟨m, Err.enomem, 0, false, true⟩
  else
    let l := allocLoop m (m.count + 1) (dyn0 m rnd) false true
    match l.1 with
    | none => ⟨{ m with dynVal := l.2.1 }, Err.enomem, 0, l.2.2.1, false⟩
    | some id =>
      let m1 := { m with dynVal := l.2.1 }
      let r := idSet m1 id val allocOk
      ⟨r.1, r.2.1, id, l.2.2.1, l.2.2.2 && r.2.2⟩

/-- nni_id_visit: (found, key, val, cursor', safe) -/
def visitLoop (m : IdMap) : Nat → Nat → Bool → Bool × Nat × Nat × Nat × Bool
  | 0, index, _ => (false, 0, 0, index, false)
  | f + 1, index, s =>
    if index < m.cap then
      let r := rdE m.entries index
      if r.1.val ≠ 0 then (true, r.1.key, r.1.val, index + 1, s && r.2)
      else visitLoop m f (index + 1) (s && r.2)
    else (false, 0, 0, index, s)

def idVisit (m : IdMap) (cursor : Nat) : Bool × Nat × Nat × Nat × Bool :=
  visitLoop m (m.cap - cursor + 1) cursor true

/-- full enumeration with nni_id_visit starting from cursor 0 -/
def visitAll (m : IdMap) : Nat → Nat → List (Nat × Nat) → Bool → List (Nat × Nat) × Bool
  | 0, _, acc, _ => (acc, false)
  | f + 1, cursor, acc, s =>
    let v := idVisit m cursor
    if v.1 then visitAll m f v.2.2.2.1 (acc ++ [(v.2.1, v.2.2.1)]) (s && v.2.2.2.2)
    else (acc, s && v.2.2.2.2)

def idCount (m : IdMap) : Nat := m.count

end Nng.IdHash
