/-
  The two pollable levels of src/core/msgqueue.c (mq_sendable, mq_recvable), on top of the queue
  model Model/Msgq.lean.

  `snd` / `rcv` are the `p_raised` flags of the two nni_pollable objects.  nni_pollable_raise and
  nni_pollable_clear are idempotent level setters, so nni_msgq_run_notify is an assignment of both
  flags (`runNotify`); the notification pipe behind a flag is the subject of C15Pollable.  Every
  function below is the queue effect of Model/Msgq.lean plus, branch by branch, whether that branch
  reaches a `nni_msgq_run_notify(mq)` call before it unlocks (`lift … true/false`; the ghost result
  field `notified` records it).  Call sites as in the (fixed) code:

    nni_msgq_init          none   (nni_pollable_init: both flags false)
    nni_msgq_tryput        closed -> ECLOSED: none;  reader waiting: yes;  room: yes;  EAGAIN: none
    nni_msgq_aio_put       must wait and nni_aio_start fails (zero timeout): return, none;
                           else append, run_putq, run_notify
    nni_msgq_aio_get       likewise
    nni_msgq_cancel        always (also when the aio is not on a list)
    nni_msgq_close         none   (the levels keep whatever they were: see Props/C18Notify §closed)
    nni_msgq_resize        ENOMEM before the lock: none;  otherwise at `out:` (fixed code, finding
                           C18N-1: the pinned tree unlocks without it)
    nni_msgq_get_sendable / nni_msgq_get_recvable   always (nothing else)
    nni_msgq_cap           none
-/
import NngModel.Model.Msgq
import NngModel.Spec.MsgqNotify

namespace Nng.MsgqN
open Nng.QSpec (Msg Ev COp NOp)
open Nng.Msgq (Msgq Res)

structure NQ where
  q : Msgq
  snd : Bool      -- mq_sendable.p_raised
  rcv : Bool      -- mq_recvable.p_raised
deriving Repr, DecidableEq, Inhabited

structure NRes where
  s : NQ
  rv : Nat
  evs : List Ev := []
  freed : List Msg := []
  safe : Bool := true
  notified : Bool := false     -- ghost: the call reached a nni_msgq_run_notify site
deriving Repr, DecidableEq

/-- nni_msgq_init: nni_pollable_init leaves both flags false; run_notify is NOT called -/
def init (cap : Nat) : NQ := { q := Msgq.init cap, snd := false, rcv := false }

/-- nni_msgq_run_notify -/
def runNotify (s : NQ) : NQ := { s with snd := (Msgq.notify s.q).1, rcv := (Msgq.notify s.q).2 }

/-- the waiting test of nni_msgq_aio_put:
    `!nni_list_empty(putq) || (mq_len >= mq_cap && nni_list_empty(getq))` -/
def mustWaitPut (q : Msgq) : Bool := !q.putq.isEmpty || (decide (q.len ≥ q.cap) && q.getq.isEmpty)

/-- the waiting test of nni_msgq_aio_get:
    `!nni_list_empty(getq) || (mq_len == 0 && nni_list_empty(putq))` -/
def mustWaitGet (q : Msgq) : Bool := !q.getq.isEmpty || (decide (q.len = 0) && q.putq.isEmpty)

/-- queue effect `r` of a branch, and whether the branch calls run_notify before unlocking -/
def lift (s : NQ) (r : Res) (n : Bool) : NRes :=
  let s' : NQ := { s with q := r.q }
  { s := if n then runNotify s' else s', rv := r.rv, evs := r.evs, freed := r.freed, safe := r.safe,
    notified := n }

/-- a zero-timeout aio that has to wait: nni_aio_start completes it with NNG_ETIMEDOUT and returns
    false; the function unlocks and returns -/
def refuse (s : NQ) (aio : Nat) : NRes := { s, rv := 0, evs := [(aio, Err.etimedout, none)] }

/-- nni_msgq_tryput -/
def tryput (s : NQ) (m : Msg) : NRes :=
  if s.q.closed then lift s (Msgq.tryput s.q m) false
  else match s.q.getq with
    | _ :: _ => lift s (Msgq.tryput s.q m) true
    | [] => if s.q.len < s.q.cap then lift s (Msgq.tryput s.q m) true else lift s (Msgq.tryput s.q m) false

/-- nni_msgq_aio_put with an aio that nni_aio_start accepts (not stopped, timeout not zero) -/
def aioPut (s : NQ) (aio : Nat) (m : Msg) : NRes := lift s (Msgq.aioPut s.q aio m) true

/-- nni_msgq_aio_get, likewise -/
def aioGet (s : NQ) (aio : Nat) : NRes := lift s (Msgq.aioGet s.q aio) true

/-- nni_msgq_aio_put with a zero timeout (NNG_FLAG_NONBLOCK) -/
def nbPut (s : NQ) (aio : Nat) (m : Msg) : NRes :=
  if mustWaitPut s.q then refuse s aio else aioPut s aio m

/-- nni_msgq_aio_get with a zero timeout -/
def nbGet (s : NQ) (aio : Nat) : NRes :=
  if mustWaitGet s.q then refuse s aio else aioGet s aio

/-- nni_msgq_cancel -/
def cancel (s : NQ) (aio rv : Nat) : NRes := lift s (Msgq.cancel s.q aio rv) true

/-- nni_msgq_close: no run_notify -/
def close (s : NQ) : NRes := lift s (Msgq.close s.q) false

/-- nni_msgq_resize: the failing allocation returns before the lock is taken -/
def resize (s : NQ) (cap : Nat) (allocOk : Bool) : NRes :=
  if decide (cap + Msgq.spare > s.q.alloc) && !allocOk then lift s (Msgq.resize s.q cap allocOk) false
  else lift s (Msgq.resize s.q cap allocOk) true

/-- nni_msgq_get_sendable / nni_msgq_get_recvable: lock, run_notify, unlock -/
def getPollable (s : NQ) : NRes := { s := runNotify s, rv := 0, notified := true }

/-- nni_msgq_cap -/
def getCap (s : NQ) : NRes := { s, rv := s.q.cap }

def step (s : NQ) (op : NOp) (allocOk : Bool) : NRes :=
  match op with
  | .base (.tryput m) => tryput s m
  | .base (.aioPut a m) => aioPut s a m
  | .base (.aioGet a) => aioGet s a
  | .base (.cancel a rv) => cancel s a rv
  | .base .close => close s
  | .base (.resize n) => resize s n allocOk
  | .nbPut a m => nbPut s a m
  | .nbGet a => nbGet s a
  | .getSendable => getPollable s
  | .getRecvable => getPollable s
  | .getCap => getCap s

/-- how core/socket.c sock_get_fd (and the harness) comes by a descriptor: the queue is created,
    then the pollables are only reachable through the two getters -/
def attach (cap : Nat) : NQ := runNotify (runNotify (init cap))

def run (s : NQ) : List (NOp × Bool) → List NRes
  | [] => []
  | (op, ok) :: rest => step s op ok :: run (step s op ok).s rest

/-- the state after a sequence of calls -/
def after (s : NQ) : List (NOp × Bool) → NQ
  | [] => s
  | (op, ok) :: rest => after (step s op ok).s rest

end Nng.MsgqN
