/-
  Executable model of src/sp/protocol/survey0/xrespond.c (raw RESPONDENT): `Model/RawSurv.lean`
  with the two functions that are xrespond's own:

    xresp0_recv_cb        the id of the receiving pipe is stored in the header first, then the hop
                          loop with TTL moves the backtrace from the body to the header
                          (`Bt.xrespondRecv`, C13: too many hops ⇒ dropped and the receive re-armed,
                          fewer than four bytes left ⇒ pipe closed)
    xresp0_sock_getq_cb   header shorter than four bytes ⇒ freed; else the first header word is
                          popped (`Bt.xrespondSend`) and names the destination pipe: unknown ⇒
                          freed, else offered to that pipe's send queue (depth `xrsPipeSendq`),
                          full ⇒ freed
-/
import NngModel.Model.RawSurv
namespace Nng.Xrespond
open Nng Nng.Proto Nng.RawMq Nng.RawSurv

/-- canonical id of pipe index `p` -/
def pipeId (p : Nat) : Nat := p + 1

/-- xresp0_recv_cb -/
def recvFn (ttl pipe : Nat) (bytes : Bytes) : Bt.Outcome := Bt.xrespondRecv ttl (pipeId pipe) bytes

/-- xresp0_sock_getq_cb -/
def route (pipes : List Pipe) (m : WMsg) : List Pipe × List Out :=
  match Bt.xrespondSend m.hdr m.body with
  | none => (pipes, [])                                  -- nni_msg_header_len(msg) < 4
  | some (id, _) =>
    if id == 0 then (pipes, [])                          -- no pipe has id 0
    else
      match pipes[id - 1]? with
      | none => (pipes, [])                              -- nni_id_get == NULL
      | some pp =>
        if pp.closed then (pipes, [])                    -- removed from the id map by pipe_close
        else
          let (pp', o) := offer (id - 1) pp ⟨m.hdr.drop 4, m.body⟩
          (pipes.set (id - 1) pp', o)

def kind : Kind :=
  { name := "respondent", peer := Nng.Generated.xrsProtoPeer, sqCap := Nng.Generated.xrsPipeSendq,
    ttlInit := Nng.Generated.xrsTtlInit, ttlMin := Nng.Generated.xrsTtlMin, recvFn := recvFn, route := route }

abbrev State := RawSurv.State
def step : State → Ev → State × List Out := RawSurv.step kind
def run : State → List Ev → State × List (List Out) := RawSurv.run kind

end Nng.Xrespond
