/-
  Executable model of src/core/message.c (nni_chunk_* and nni_msg_*) and of the
  nng_msg_* wrappers in src/nng.c.

  Representation.  A chunk is the C struct with pointers replaced by offsets:
    cap = ch_cap, len = ch_len, buf = the bytes of ch_buf (length cap; [] for NULL),
    off = ch_ptr - ch_buf (0 when ch_ptr is NULL; with an empty buffer the C test
    "ptr inside the backing store" is false in both representations).
  Every memcpy/memmove is a `readAt`/`writeAt` pair, and each operation returns a
  `safe` flag that is the conjunction of "range inside the buffer" over all of its
  memory accesses.  "No out-of-bounds access" is then the theorem `safe = true`.

  Allocation: each operation takes `fail : Option Nat`, the index (within that
  operation) of the allocation that fails, `none` when all succeed.  nni_zalloc(0)
  returns NULL, which the C code treats as failure; the model does the same.
-/
import NngModel.Base.Bytes
import NngModel.Generated.Base
import NngModel.Spec.Msg

namespace Nng.Msg

def sizeMax : Nat := 2 ^ 64 - 1

structure Chunk where
  cap : Nat
  len : Nat
  off : Nat
  buf : Bytes
deriving Repr, DecidableEq, Inhabited

/-- result of a chunk/message operation -/
structure R (α : Type) where
  rv : Nat
  c : α
  safe : Bool
deriving Repr

def zeros (n : Nat) : Bytes := List.replicate n 0

/-- bytes `[off, off+n)` of `b` (memcpy source) -/
def readAt (b : Bytes) (off n : Nat) : Bytes := (b.drop off).take n

/-- overwrite `b` at `off` with `d` (memcpy/memmove destination) -/
def writeAt (b : Bytes) (off : Nat) (d : Bytes) : Bytes :=
  b.take off ++ d ++ b.drop (off + d.length)

/-- the range check for an access of `n` bytes at `off` in a buffer of `cap`
    bytes; a zero-length access is never performed by the C code (guarded) or is
    harmless, so it is always safe. -/
def inRange (cap off n : Nat) : Bool := n == 0 || decide (off + n ≤ cap)

def emptyChunk : Chunk := { cap := 0, len := 0, off := 0, buf := [] }

/-- nni_chunk_grow.  (`max a b` renders the C idiom `if (a < b) a = b;`.) -/
def grow (ch : Chunk) (newsz headwanted : Nat) (allocOk : Bool) : R Chunk :=
  let newsz := max newsz ch.len                      -- no shrinking
  if headwanted > sizeMax - newsz then ⟨Err.enomem, ch, true⟩
  else if ch.off < ch.cap then                       -- ptr inside the backing store
    let headroom := ch.off
    let headwanted := max headwanted headroom        -- never shrink this
    if newsz + headwanted ≤ ch.cap ∧ headwanted ≤ headroom then ⟨0, ch, true⟩
    else
      let newsz := max newsz (ch.cap - headroom)     -- at least as much tail room as before
      if headwanted > sizeMax - newsz then ⟨Err.enomem, ch, true⟩
      else
        let allocsz := newsz + headwanted
        if !allocOk || allocsz == 0 then ⟨Err.enomem, ch, true⟩
        else
          let data := readAt ch.buf ch.off ch.len
          let nb := writeAt (zeros allocsz) headwanted data
          ⟨0, { cap := allocsz, len := ch.len, off := headwanted, buf := nb },
            inRange ch.cap ch.off ch.len && inRange allocsz headwanted ch.len⟩
  else
    let allocsz := newsz + headwanted
    if allocsz ≥ ch.cap then
      if !allocOk || allocsz == 0 then ⟨Err.enomem, ch, true⟩
      else ⟨0, { cap := allocsz, len := ch.len, off := headwanted, buf := zeros allocsz }, true⟩
    else ⟨0, { ch with off := headwanted }, true⟩

/-- nni_chunk_chop -/
def chop (ch : Chunk) (n : Nat) : R Chunk :=
  if ch.len < n then ⟨Err.einval, ch, true⟩ else ⟨0, { ch with len := ch.len - n }, true⟩

/-- nni_chunk_trim -/
def trim (ch : Chunk) (n : Nat) : R Chunk :=
  if ch.len < n then ⟨Err.einval, ch, true⟩
  else
    let len' := ch.len - n
    ⟨0, { ch with len := len', off := if len' != 0 then ch.off + n else ch.off }, true⟩

/-- nni_chunk_clear -/
def clear (ch : Chunk) : Chunk := { ch with len := 0 }

/-- nni_chunk_dup (allocation of src.cap bytes; zalloc(0) = NULL = failure) -/
def dup (src : Chunk) (allocOk : Bool) : R Chunk :=
  if !allocOk || src.cap == 0 then ⟨Err.enomem, emptyChunk, true⟩
  else
    let data := readAt src.buf src.off src.len
    ⟨0, { cap := src.cap, len := src.len, off := src.off,
          buf := writeAt (zeros src.cap) src.off data },
      inRange src.cap src.off src.len⟩

/-- nni_chunk_append; `data = none` is the C NULL (region grown, not written).
    Contract of the caller: `data = some d → d.length = n`. -/
def append (ch : Chunk) (data : Option Bytes) (n : Nat) (allocOk : Bool) : R Chunk :=
  if n == 0 then ⟨0, ch, true⟩
  else if n > sizeMax - ch.len then ⟨Err.enomem, ch, true⟩
  else
    let r := grow ch (n + ch.len) 0 allocOk
    if r.rv != 0 then ⟨r.rv, ch, r.safe⟩
    else
      let c := r.c
      match data with
      | some d =>
        ⟨0, { c with buf := writeAt c.buf (c.off + c.len) d, len := c.len + n },
          r.safe && inRange c.cap (c.off + c.len) n⟩
      | none => ⟨0, { c with len := c.len + n }, r.safe && inRange c.cap (c.off + c.len) n⟩

/-- round up to a multiple of sizeof(uint64_t): `(x + 7) & ~7` -/
def roundUp8 (x : Nat) : Nat := (x + 7) / 8 * 8

/-- first half of nni_chunk_insert: make room for `n` bytes in front of the data and
    move ch_ptr to the new start (ch_len is not yet updated). -/
def insertPlace (ch : Chunk) (n : Nat) (allocOk : Bool) : R Chunk :=
  let needed := ch.len + n
  if ch.off < ch.cap then
    if n ≤ ch.off then ⟨0, { ch with off := ch.off - n }, true⟩      -- enough headroom
    else if needed ≤ sizeMax - 8 ∧ needed + 8 ≤ ch.cap then
      -- split the slack between head and tail, 8-byte aligned
      let shift := roundUp8 ((ch.cap - needed) / 2)
      let data := readAt ch.buf ch.off ch.len
      ⟨0, { ch with buf := writeAt ch.buf (shift + n) data, off := shift },
        inRange ch.cap ch.off ch.len && inRange ch.cap (shift + n) ch.len⟩
    else
      let r := grow ch 0 n allocOk
      if r.rv != 0 then r else ⟨0, { r.c with off := r.c.off - n }, r.safe && decide (n ≤ r.c.off)⟩
  else
    let r := grow ch 0 n allocOk
    if r.rv != 0 then r else ⟨0, { r.c with off := r.c.off - n }, r.safe && decide (n ≤ r.c.off)⟩

/-- nni_chunk_insert -/
def insert (ch : Chunk) (data : Option Bytes) (n : Nat) (allocOk : Bool) : R Chunk :=
  if n > sizeMax - ch.len then ⟨Err.enomem, ch, true⟩
  else
    let placed := insertPlace ch n allocOk
    if placed.rv != 0 then ⟨placed.rv, ch, placed.safe⟩
    else
      let c := placed.c
      match data with
      | some d =>
        ⟨0, { c with len := c.len + n, buf := writeAt c.buf c.off d },
          placed.safe && inRange c.cap c.off n⟩
      | none => ⟨0, { c with len := c.len + n }, placed.safe && inRange c.cap c.off n⟩

/-- the live bytes of a chunk: what nng_msg_body .. +nng_msg_len shows -/
def Chunk.data (ch : Chunk) : Bytes := readAt ch.buf ch.off ch.len

/-- nni_msg_capacity: (buf + cap) - ptr -/
def Chunk.capacity (ch : Chunk) : Nat := ch.cap - ch.off

/-! ### messages -/

def hdrCap : Nat := Nng.Generated.headerCap

structure Msg where
  hbuf : Bytes      -- m_header_buf viewed as bytes, length hdrCap
  hlen : Nat
  body : Chunk
deriving Repr, DecidableEq, Inhabited

def Msg.header (m : Msg) : Bytes := m.hbuf.take m.hlen

/-- the body allocation of nni_msg_alloc: small or non-power-of-two sizes get
    `msgHeadroom` bytes of headroom and as much extra tail room -/
def allocGrow (sz : Nat) (ok : Bool) : R Chunk :=
  if sz < Nng.Generated.msgBigThreshold ∨ sz &&& (sz - 1) ≠ 0 then
    grow emptyChunk (sz + Nng.Generated.msgHeadroom) Nng.Generated.msgHeadroom ok
  else grow emptyChunk sz 0 ok

/-- nni_msg_alloc.  Allocation 0 is the struct, allocation 1 the body. -/
def alloc (sz : Nat) (fail : Option Nat) : R (Option Msg) :=
  if fail == some 0 then ⟨Err.enomem, none, true⟩
  else
    let r := allocGrow sz (fail != some 1)
    if r.rv != 0 then ⟨r.rv, none, r.safe⟩
    else
      -- the C code panics if this append fails; with `allocOk := false` the
      -- model reports that as ENOMEM with safe = false (never reached: theorem)
      let a := append r.c none sz false
      ⟨a.rv, some { hbuf := zeros hdrCap, hlen := 0, body := a.c }, r.safe && a.safe && a.rv == 0⟩

/-- nni_msg_dup -/
def msgDup (src : Msg) (fail : Option Nat) : R (Option Msg) :=
  if fail == some 0 then ⟨Err.enomem, none, true⟩
  else
    let hb := writeAt (zeros hdrCap) 0 (readAt src.hbuf 0 src.hlen)
    let r := dup src.body (fail != some 1)
    if r.rv != 0 then ⟨r.rv, none, r.safe⟩
    else ⟨0, some { hbuf := hb, hlen := src.hlen, body := r.c },
          r.safe && inRange hdrCap 0 src.hlen⟩

def liftBody (m : Msg) (r : R Chunk) : R Msg := ⟨r.rv, { m with body := r.c }, r.safe⟩

def msgAppend (m : Msg) (d : Bytes) (ok : Bool) : R Msg := liftBody m (append m.body (some d) d.length ok)
def msgInsert (m : Msg) (d : Bytes) (ok : Bool) : R Msg := liftBody m (insert m.body (some d) d.length ok)
def msgTrim (m : Msg) (n : Nat) : R Msg := liftBody m (trim m.body n)
def msgChop (m : Msg) (n : Nat) : R Msg := liftBody m (chop m.body n)
def msgClear (m : Msg) : Msg := { m with body := clear m.body }

/-- nni_msg_realloc -/
def msgRealloc (m : Msg) (sz : Nat) (ok : Bool) : R Msg :=
  if m.body.len < sz then liftBody m (append m.body none (sz - m.body.len) ok)
  else ⟨0, { m with body := (chop m.body (m.body.len - sz)).c }, true⟩

/-- nni_msg_reserve -/
def msgReserve (m : Msg) (capacity : Nat) (ok : Bool) : R Msg := liftBody m (grow m.body capacity 0 ok)

/-- user store through the pointer returned by nng_msg_body (done by the harness, not
    by nng; stores that would leave the live region are not performed) -/
def msgPoke (m : Msg) (off : Nat) (d : Bytes) : R Msg :=
  if off + d.length ≤ m.body.len then
    ⟨0, { m with body := { m.body with buf := writeAt m.body.buf (m.body.off + off) d } }, true⟩
  else ⟨0, m, true⟩

/-- nng_msg_trim_u16/32/64 (src/nng.c): read big-endian at the front, then trim -/
def msgTrimU (m : Msg) (w : Nat) : R Msg × Nat :=
  if m.body.len < w then (⟨Err.einval, m, true⟩, 0)
  else
    let v := beDecode (readAt m.body.buf m.body.off w)
    let r := msgTrim m w
    (⟨0, r.c, inRange m.body.cap m.body.off w⟩, v)

/-- nng_msg_chop_u16/32/64: read big-endian at the back, then chop -/
def msgChopU (m : Msg) (w : Nat) : R Msg × Nat :=
  if m.body.len < w then (⟨Err.einval, m, true⟩, 0)
  else
    let v := beDecode (readAt m.body.buf (m.body.off + m.body.len - w) w)
    let r := msgChop m w
    (⟨0, r.c, inRange m.body.cap (m.body.off + m.body.len - w) w⟩, v)

/-! header operations (nni_msg_header_*) -/

def hdrAppend (m : Msg) (d : Bytes) : R Msg :=
  if d.length + m.hlen > hdrCap then ⟨Err.einval, m, true⟩
  else ⟨0, { m with hbuf := writeAt m.hbuf m.hlen d, hlen := m.hlen + d.length },
        inRange hdrCap m.hlen d.length⟩

def hdrInsert (m : Msg) (d : Bytes) : R Msg :=
  if d.length + m.hlen > hdrCap then ⟨Err.einval, m, true⟩
  else
    let old := readAt m.hbuf 0 m.hlen
    let b1 := writeAt m.hbuf d.length old
    ⟨0, { m with hbuf := writeAt b1 0 d, hlen := m.hlen + d.length },
      inRange hdrCap d.length m.hlen && inRange hdrCap 0 d.length⟩

def hdrTrim (m : Msg) (n : Nat) : R Msg :=
  if n > m.hlen then ⟨Err.einval, m, true⟩
  else
    let rest := readAt m.hbuf n (m.hlen - n)
    ⟨0, { m with hbuf := writeAt m.hbuf 0 rest, hlen := m.hlen - n },
      inRange hdrCap n (m.hlen - n)⟩

def hdrChop (m : Msg) (n : Nat) : R Msg :=
  if n > m.hlen then ⟨Err.einval, m, true⟩ else ⟨0, { m with hlen := m.hlen - n }, true⟩

def hdrClear (m : Msg) : Msg := { m with hlen := 0 }

def hdrTrimU (m : Msg) (w : Nat) : R Msg × Nat :=
  if m.hlen < w then (⟨Err.einval, m, true⟩, 0)
  else
    let v := beDecode (readAt m.hbuf 0 w)
    let r := hdrTrim m w
    (⟨0, r.c, r.safe && inRange hdrCap 0 w⟩, v)

def hdrChopU (m : Msg) (w : Nat) : R Msg × Nat :=
  if m.hlen < w then (⟨Err.einval, m, true⟩, 0)
  else
    let v := beDecode (readAt m.hbuf (m.hlen - w) w)
    (⟨0, (hdrChop m w).c, inRange hdrCap (m.hlen - w) w⟩, v)

/-! ### one public-API step, indexed by the same `Op` type as the specification -/

open Nng.MsgSpec (Op)

/-- what src/nng.c + message.c do for each public operation; `ok = false` makes the
    (single) allocation the operation may attempt fail. -/
def step (m : Msg) (op : Op) (ok : Bool) : R Msg × Option Nat :=
  match op with
  | .append d => (msgAppend m d ok, none)
  | .insert d => (msgInsert m d ok, none)
  | .trim n => (msgTrim m n, none)
  | .chop n => (msgChop m n, none)
  | .appendU w v => (msgAppend m (beEncode w v) ok, none)
  | .insertU w v => (msgInsert m (beEncode w v) ok, none)
  | .trimU w => let (r, v) := msgTrimU m w; (r, if r.rv == 0 then some v else none)
  | .chopU w => let (r, v) := msgChopU m w; (r, if r.rv == 0 then some v else none)
  | .realloc n fill =>
    let old := m.body.len
    let r := msgRealloc m n ok
    if r.rv == 0 && old < n then
      let p := msgPoke r.c old (List.replicate (n - old) fill)
      (⟨0, p.c, r.safe && p.safe⟩, none)
    else (r, none)
  | .reserve n => (msgReserve m n ok, none)
  | .clear => (⟨0, msgClear m, true⟩, none)
  | .poke off d => (msgPoke m off d, none)
  | .hAppend d => (hdrAppend m d, none)
  | .hInsert d => (hdrInsert m d, none)
  | .hTrim n => (hdrTrim m n, none)
  | .hChop n => (hdrChop m n, none)
  | .hAppendU w v => (hdrAppend m (beEncode w v), none)
  | .hInsertU w v => (hdrInsert m (beEncode w v), none)
  | .hTrimU w => let (r, v) := hdrTrimU m w; (r, if r.rv == 0 then some v else none)
  | .hChopU w => let (r, v) := hdrChopU m w; (r, if r.rv == 0 then some v else none)
  | .hClear => (⟨0, hdrClear m, true⟩, none)

/-- abstraction function: the two byte strings a message denotes -/
def abs (m : Msg) : Nng.MsgSpec.Abs := ⟨m.header, m.body.data⟩

end Nng.Msg
