/- what harness/u_reap.c can see of reap.c, and the C10/C03 clauses for the reaper as a predicate on it -/
import NngModel.Model.Reap
namespace Nng.Reap

structure Obs where
  subm : List Nat              -- objects whose nni_reap section has run, in order
  done : List Nat              -- objects whose reap function has been entered, in order
  fin : List Nat               -- objects whose reap function has returned, in order
  res : List (List Bool)       -- per client: results of its nni_reap_sys_drain calls
  live : Bool                  -- some thread can move
  allFin : Bool                -- every client has returned from all of its calls
  deriving Repr, DecidableEq, Inhabited

def allTids (s : State) : List Tid := .w :: (List.range s.clients.length).map .c

def obsOf (s : State) : Obs :=
  { subm := s.subm, done := s.done, fin := s.fin, res := s.res,
    live := (allTids s).any (enabled s), allFin := s.clients.all Client.finished }

/-- the property, on one step of a contract-respecting run: `none` = accepted -/
def judge (prev cur : Obs) : Option String :=
  if !decide cur.done.Nodup then some "reaped-twice"
  else if !cur.done.all (cur.subm.contains ·) then some "reaped-unsubmitted"
  else if cur.res != prev.res && !cur.subm.isPerm cur.fin then some "drain-returned-early"
  else if !cur.live && !(cur.allFin && cur.subm.isPerm cur.fin) then some "stuck"
  else none

end Nng.Reap
