/- driver components for the protocol-independent judges (C15 poll/non-blocking, C03 ownership) -/
import NngModel.Driver.Pipeline
import NngModel.Spec.Generic
namespace Nng.Driver.Generic
open Nng Nng.Proto Nng.Driver Nng.Driver.Pipeline

/-- like `judgeComponent`, but the `fini` line (allocator balance) is passed to the judge as an
    `Out.other` of a harmless event -/
def judgeWithFini {σ : Type} (init : σ) (step : σ → Ev → List Out → σ) (err : σ → Option String) : Component :=
  { σ := σ, init := init,
    step := fun s ws =>
      let (evw, outw) := ws.span (· ≠ "=>")
      match evw with
      | "sched" :: _ => (s, "ok")
      | ["fini"] =>
        let s' := step s .poll [Out.other (" ".intercalate (outw.drop 1))]
        (s', match err s' with | some e => "VIOLATION " ++ e | none => "ok")
      | _ =>
        match parseEv evw with
        | some ev =>
          let s' := step s ev (parseOuts (" ".intercalate (outw.drop 1)))
          (s', match err s' with | some e => "VIOLATION " ++ e | none => "ok")
        | none => (s, "ok") }

def components : List (String × Component) := [
  ("poll-judge", judgeComponent ({} : Nng.GenericSpec.PollJ) Nng.GenericSpec.pollStep (·.err)),
  ("own-judge", judgeWithFini ({} : Nng.GenericSpec.OwnJ) Nng.GenericSpec.ownStep (·.err))
]

end Nng.Driver.Generic
