/- driver components for the WebSocket receive queue: `wsq-model` (Model/WsQueue.lean) and `wsq-spec`
   (Spec/WsQueue.lean, a judge over the implementation's trace) on the queue-mode op lines of harness/u_ws.c:
     qcfg <server> <isstream> <recvtext> <sendtext> <maxframe> <recvmax> <fragsize> <alloclimit>
     rx <hex> | post <i> <cap> | cancel <i> [rv] | close | fini
   answer: `<op> want= closed= inmsg= ev=<frames written> done=<i:rv | i:0:len:fnv64, by id> used=<bytes consumed> q=<|rxq|> w=<|recvq|>` -/
import NngModel.Driver.Common
import NngModel.Driver.Ws
import NngModel.Model.WsQueue
import NngModel.Spec.WsQueue
namespace Nng.Driver.WsQueue
open Nng Nng.Driver.Ws

def insertById (x : Nat × String) : List (Nat × String) → List (Nat × String)
  | [] => [x]
  | y :: ys => if x.1 ≤ y.1 then x :: y :: ys else y :: insertById x ys

def sortById (xs : List (Nat × String)) : List (Nat × String) := xs.foldr insertById []

def doneStr (outs : List WsQ.Out) : String :=
  let ds := outs.filterMap fun o => match o with
    | .done id rv d => some (id, if rv = 0 then s!"{id}:0:{digest d}" else s!"{id}:{rv}")
    | _ => none
  joinEv ((sortById ds).map (·.2))

def txStr (outs : List WsQ.Out) : String :=
  joinEv (outs.filterMap fun o => match o with | .tx b => some s!"t:{toHex b}" | _ => none)

structure MState where
  cfg : Option Nng.Ws.Cfg := none
  q : WsQ.QSt := {}

def qstatus (op : String) (q : WsQ.QSt) (outs : List WsQ.Out) : String :=
  s!"{op} want={q.w.want} closed={b01 q.w.closed} inmsg={b01 q.w.inmsg} ev={txStr outs} done={doneStr outs} " ++
  s!"used={q.used.length} q={q.w.rxq.length} w={q.recvq.length}"

def mstep (m : MState) (ws : List String) : MState × String :=
  match ws with
  | ["verbose"] => (m, "ok")
  | "qcfg" :: rest =>
    match parseCfg rest with
    | some c => ({ cfg := some c, q := {} }, qstatus "qcfg" {} [])
    | none => (m, "bad-op")
  | _ =>
    match m.cfg with
    | none => (m, "no-ws")
    | some cfg =>
      let ev? : Option (String × WsQ.QEv) :=
        match ws with
        | ["rx", h] => (parseHex h).map fun bs => ("rx", .bytes bs)
        | ["post", i, c] => match i.toNat?, c.toNat? with | some i, some c => some ("post", .post i c) | _, _ => none
        | ["cancel", i] => i.toNat?.map fun i => ("cancel", .cancel i 20)
        | ["cancel", i, rv] => match i.toNat?, rv.toNat? with | some i, some rv => some ("cancel", .cancel i rv) | _, _ => none
        | ["close"] => some ("close", .close)
        | _ => none
      match ev? with
      | some (name, ev) =>
        let r := WsQ.step cfg m.q ev
        ({ m with q := r.1 }, qstatus name r.1 r.2)
      | none =>
        if ws == ["fini"] then
          let r := WsQ.qFini cfg m.q
          ({ cfg := none, q := {} }, s!"fini ev={txStr r.2} done={doneStr r.2}")
        else (m, "bad-op")

def model : Component := { σ := MState, init := {}, step := mstep }

/-! spec: the op lines are rewritten as `chk <want> <used> <done> <op...>` with what the implementation reported -/
structure SState where
  cfg : Option Nng.Ws.Cfg := none
  j : WsQSpec.JSt := {}

def parseDone (s : String) : Option (List WsQSpec.Done) :=
  if s == "-" then some []
  else (s.splitOn ",").mapM fun t =>
    match t.splitOn ":" with
    | [i, rv] => match i.toNat?, rv.toNat? with
      | some i, some rv => some { id := i, rv := rv, dig := "", len := 0 }
      | _, _ => none
    | [i, rv, len, h] => match i.toNat?, rv.toNat?, len.toNat? with
      | some i, some rv, some len => some { id := i, rv := rv, dig := s!"{len}:{h}", len := len }
      | _, _, _ => none
    | _ => none

def parseOp (ws : List String) : Option WsQSpec.Op :=
  match ws with
  | ["rx", h] => (parseHex h).map .rx
  | ["post", i, c] => match i.toNat?, c.toNat? with | some i, some c => some (.post i c) | _, _ => none
  | ["cancel", i] => i.toNat?.map fun i => .cancel i 20
  | ["cancel", i, rv] => match i.toNat?, rv.toNat? with | some i, some rv => some (.cancel i rv) | _, _ => none
  | ["close"] => some .close
  | ["fini"] => some .fini
  | _ => none

def sstep (m : SState) (ws : List String) : SState × String :=
  match ws with
  | ["verbose"] => (m, "ok")
  | "qcfg" :: rest =>
    match parseCfg rest with
    | some c => ({ cfg := some c, j := {} }, "ok")
    | none => (m, "bad-op")
  | "chk" :: want :: used :: done :: op =>
    match m.cfg, want.toNat?, used.toNat?, parseDone done, parseOp op with
    | some cfg, some want, some used, some done, some op =>
      let r := WsQSpec.judge cfg.server (limOf cfg) m.j op { want := want, used := used, done := done }
      ({ m with j := r.1 }, r.2)
    | none, _, _, _, _ => (m, "no-ws")
    | _, _, _, _, _ => (m, "bad-op")
  | _ => (m, if m.cfg.isNone then "no-ws" else "bad-op")

def spec : Component := { σ := SState, init := {}, step := sstep }

def components : List (String × Component) := [("wsq-model", model), ("wsq-spec", spec)]

end Nng.Driver.WsQueue
