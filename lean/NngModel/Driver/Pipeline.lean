/- driver components for the PUSH / PULL models -/
import NngModel.Driver.Common
import NngModel.Model.Push
import NngModel.Model.Pull
import NngModel.Spec.Pipeline
namespace Nng.Driver.Pipeline
open Nng Nng.Proto Nng.Driver

/-- wrap a protocol model as a line-protocol component -/
def protoComponent {σ : Type} (init : σ) (step : σ → Ev → σ × List Out) : Component :=
  { σ := σ, init := init,
    step := fun s ws =>
      match ws with
      | ["sched", _] => (s, "ok")
      | ["sched", _, _, _] => (s, "ok")
      -- `fini`: everything is closed, nng_fini runs, the accounting allocator reports what it
      -- still holds.  The model's prediction is the property (C03): nothing, and no mismatched free.
      | ["fini"] => (init, "fini live=0 bytes=0 badfree=0")
      | _ =>
        match parseEv ws with
        | some ev => let (s', o) := step s ev; (s', showOuts o)
        | none => (s, "bad-op") }

/-- a judge component: lines are `<event words> => <observed outputs>`; the answer is
    `ok` or `VIOLATION <clause>` (sticky until reset) -/
def judgeComponent {σ : Type} (init : σ) (step : σ → Ev → List Out → σ) (err : σ → Option String) : Component :=
  { σ := σ, init := init,
    step := fun s ws =>
      let (evw, outw) := ws.span (· ≠ "=>")
      match evw with
      | "sched" :: _ => (s, "ok")
      | _ =>
        match parseEv evw with
        | some ev =>
          let s' := step s ev (parseOuts (" ".intercalate (outw.drop 1)))
          (s', match err s' with | some e => "VIOLATION " ++ e | none => "ok")
        | none => (s, "ok") }

def components : List (String × Component) := [
  ("push-judge", judgeComponent ({} : Nng.PipelineSpec.PushJ) Nng.PipelineSpec.pushStep (·.err)),
  ("pull-judge", judgeComponent ({} : Nng.PipelineSpec.PullJ) Nng.PipelineSpec.pullStep (·.err)),
  ("push-model", protoComponent ({} : Nng.Push.State) Nng.Push.step),
  ("pull-model", protoComponent ({} : Nng.Pull.State) Nng.Pull.step)
]

end Nng.Driver.Pipeline
