/- driver components for the BUS model and judge (C09) -/
import NngModel.Driver.Common
import NngModel.Driver.Pipeline
import NngModel.Model.Bus
import NngModel.Spec.Bus
namespace Nng.Driver.Bus
open Nng Nng.Proto Nng.Driver

/-- the model, plus the harness' `pipe_id <p>` probe (answers the canonical id) -/
def modelComponent : Component :=
  let c := Nng.Driver.Pipeline.protoComponent ({} : Nng.Bus.State) Nng.Bus.step
  { σ := Nng.Bus.State, init := {},
    step := fun s ws =>
      match ws with
      | ["pipe_id", p] =>
        match p.toNat? with
        | some p => (s, showOuts [Out.rv2 0 (Nng.Bus.pipeIdOf s p)])
        | none => (s, "bad-op")
      | _ => c.step s ws }

/-- the judge; `pipe_id <p> => rv 0 <id>` lines teach it the pipe ids -/
def judgeComponent : Component :=
  let c := Nng.Driver.Pipeline.judgeComponent ({} : Nng.BusSpec.BusJ) Nng.BusSpec.busStep (·.err)
  { σ := Nng.BusSpec.BusJ, init := {},
    step := fun s ws =>
      match ws with
      | ["pipe_id", p, "=>", "rv", "0", id] =>
        match p.toNat?, id.toNat? with
        | some p, some id =>
          let s' := Nng.BusSpec.learnId s p id
          (s', match s'.err with | some e => "VIOLATION " ++ e | none => "ok")
        | _, _ => (s, "ok")
      | _ => c.step s ws }

def components : List (String × Component) := [
  ("bus-model", modelComponent),
  ("bus-judge", judgeComponent)
]

end Nng.Driver.Bus
