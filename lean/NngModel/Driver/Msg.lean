/- driver for the message component: `msg-model` runs Model/Msg.lean, `msg-spec`
   runs Spec/Msg.lean on the same op lines. -/
import NngModel.Driver.Common
import NngModel.Model.Msg
namespace Nng.Driver.Msg
open Nng Nng.MsgSpec

def parseOp (ws : List String) : Option Op :=
  match ws with
  | ["append", h] => (parseHex h).map .append
  | ["insert", h] => (parseHex h).map .insert
  | ["trim", n] => n.toNat?.map .trim
  | ["chop", n] => n.toNat?.map .chop
  | ["append_u", w, v] => do pure (.appendU (← w.toNat?) (← v.toNat?))
  | ["insert_u", w, v] => do pure (.insertU (← w.toNat?) (← v.toNat?))
  | ["trim_u", w] => w.toNat?.map .trimU
  | ["chop_u", w] => w.toNat?.map .chopU
  | ["realloc", n, f] => do pure (.realloc (← n.toNat?) (UInt8.ofNat (← f.toNat?)))
  | ["reserve", n] => n.toNat?.map .reserve
  | ["clear"] => some .clear
  | ["poke", o, h] => do pure (.poke (← o.toNat?) (← parseHex h))
  | ["hdr_append", h] => (parseHex h).map .hAppend
  | ["hdr_insert", h] => (parseHex h).map .hInsert
  | ["hdr_trim", n] => n.toNat?.map .hTrim
  | ["hdr_chop", n] => n.toNat?.map .hChop
  | ["hdr_append_u", w, v] => do pure (.hAppendU (← w.toNat?) (← v.toNat?))
  | ["hdr_insert_u", w, v] => do pure (.hInsertU (← w.toNat?) (← v.toNat?))
  | ["hdr_trim_u", w] => w.toNat?.map .hTrimU
  | ["hdr_chop_u", w] => w.toNat?.map .hChopU
  | ["hdr_clear"] => some .hClear
  | _ => none

def showVal : Option Nat → String
  | some v => s!" v={v}"
  | none => ""

/-! model side -/
structure MState where
  slots : List (Option Nng.Msg.Msg) := [none, none, none, none]
  failNext : Bool := false
  verbose : Bool := false

def getSlot (l : List (Option α)) (i : Nat) : Option α := (l[i]?).join
def showM (verbose : Bool) (m : Nng.Msg.Msg) : String :=
  let h := m.header; let b := m.body.data
  let base := s!"h={digest h} b={digest b} cap={m.body.capacity} al={m.body.off % 8}"
  if verbose then base ++ s!" H={toHex h} B={toHex b}" else base

/-- "fail" applies to the very next line only, whatever it is -/
def mstep (s0 : MState) (ws : List String) : MState × String :=
  let armed := s0.failNext
  let s : MState := { s0 with failNext := armed && ws == ["fail"] }
  match ws with
  | ["verbose"] => ({ s with verbose := true }, "ok")
  | ["fail"] => ({ s with failNext := true }, "ok")
  | ["alloc", i, sz, f] =>
    match i.toNat?, sz.toNat?, f.toNat? with
    | some i, some sz, some f =>
      let r := Nng.Msg.alloc sz (if armed then some 1 else none)
      match r.c with
      | some m =>
        let m := (Nng.Msg.msgPoke m 0 (List.replicate sz (UInt8.ofNat f))).c
        ({ s with slots := s.slots.set i (some m), failNext := false }, s!"{r.rv} {showM s.verbose m}" ++ (if r.safe then "" else " UNSAFE"))
      | none => ({ s with failNext := false }, s!"{r.rv}")
    | _, _, _ => (s, "bad-op")
  | ["dup", d, i] =>
    match d.toNat?, i.toNat? with
    | some d, some i =>
      match getSlot s.slots i with
      | some src =>
        let r := Nng.Msg.msgDup src (if armed then some 1 else none)
        match r.c with
        | some m => ({ s with slots := s.slots.set d (some m), failNext := false }, s!"{r.rv} {showM s.verbose m}" ++ (if r.safe then "" else " UNSAFE"))
        | none => ({ s with failNext := false }, s!"{r.rv}")
      | none => (s, "bad-slot")
    | _, _ => (s, "bad-op")
  | ["free", i] =>
    match i.toNat? with
    | some i => ({ s with slots := s.slots.set i none }, "0")
    | none => (s, "bad-op")
  | i :: rest =>
    match i.toNat?, parseOp rest with
    | some i, some op =>
      match getSlot s.slots i with
      | some m =>
        let (r, v) := Nng.Msg.step m op (!armed)
        ({ s with slots := s.slots.set i (some r.c), failNext := false },
          s!"{r.rv}{showVal v} {showM s.verbose r.c}" ++ (if r.safe then "" else " UNSAFE"))
      | none => (s, "bad-slot")
    | _, _ => (s, "bad-op")
  | _ => (s, "bad-op")

def model : Component := { σ := MState, init := {}, step := mstep }

/-! spec side -/
structure SState where
  slots : List (Option Abs) := [none, none, none, none]
  verbose : Bool := false

def showA (verbose : Bool) (a : Abs) : String :=
  let base := s!"h={digest a.hdr} b={digest a.body}"
  if verbose then base ++ s!" H={toHex a.hdr} B={toHex a.body}" else base

def sstep (s : SState) (ws : List String) : SState × String :=
  match ws with
  | ["verbose"] => ({ s with verbose := true }, "ok")
  | ["fail"] => (s, "ok")
  -- an operation on which the implementation reported NNG_ENOMEM is a no-op (Explains)
  | ["enomem"] => (s, "2")
  | ["enomem", i] =>
    match i.toNat? with
    | some i =>
      match getSlot s.slots i with
      | some a => (s, s!"2 {showA s.verbose a}")
      | none => (s, "bad-slot")
    | none => (s, "bad-op")
  | ["alloc", i, sz, f] =>
    match i.toNat?, sz.toNat?, f.toNat? with
    | some i, some sz, some f =>
      let a := MsgSpec.alloc sz (UInt8.ofNat f)
      ({ s with slots := s.slots.set i (some a) }, s!"0 {showA s.verbose a}")
    | _, _, _ => (s, "bad-op")
  | ["dup", d, i] =>
    match d.toNat?, i.toNat? with
    | some d, some i =>
      match getSlot s.slots i with
      | some a => ({ s with slots := s.slots.set d (some a) }, s!"0 {showA s.verbose a}")
      | none => (s, "bad-slot")
    | _, _ => (s, "bad-op")
  | ["free", i] =>
    match i.toNat? with
    | some i => ({ s with slots := s.slots.set i none }, "0")
    | none => (s, "bad-op")
  | i :: rest =>
    match i.toNat?, parseOp rest with
    | some i, some op =>
      match getSlot s.slots i with
      | some a =>
        let r := MsgSpec.step a op
        ({ s with slots := s.slots.set i (some r.a) }, s!"{r.rv}{showVal r.val} {showA s.verbose r.a}")
      | none => (s, "bad-slot")
    | _, _ => (s, "bad-op")
  | _ => (s, "bad-op")

def spec : Component := { σ := SState, init := {}, step := sstep }

def components : List (String × Component) := [("msg-model", model), ("msg-spec", spec)]

end Nng.Driver.Msg
