/- driver for the URL component (C19): `url-model` runs Model/Url.lean; `url-spec` judges the
   implementation's reported fields with Spec/Url.lean.

   ops:    url <hex>            parse, print, re-parse, clone
           canon <hex>          nni_url_canonify_uri, twice
   spec:   judge <hex> <implementation output words>
           judgecanon <hex> <implementation output words>
   output (implementation and model):
           <rv>                                                       (rejected)
           0 s= u= h= p= P= q= f= bz= S= rt=<rv> [rs= ru= ... rf=] cl=<rv> [cs= ... cf= cbz=]
           "~" = NULL, "-" = empty string -/
import NngModel.Driver.Common
import NngModel.Model.Url
import NngModel.Model.UrlBuf
import NngModel.Spec.Url
namespace Nng.Driver.Url
open Nng

def optHex : Option Bytes → String
  | none => "~"
  | some b => toHex b

def showUrl (pre : String) (u : Nng.Url.Url) : String :=
  s!"{pre}s={toHex u.scheme} {pre}u={optHex u.userinfo} {pre}h={optHex u.hostname} {pre}p={u.port} " ++
  s!"{pre}P={toHex u.path} {pre}q={optHex u.query} {pre}f={optHex u.fragment} {pre}bz={u.bufsz}"

/-- the in-place buffer model (Model/UrlBuf.lean) must give the same result as the functional
    model and must not have touched anything outside the buffer; otherwise the line differs from
    the implementation's and the correspondence check reports it -/
def bufAgrees (raw : Bytes) (r : Nng.Url.R) : String :=
  let b := Nng.UrlBuf.parse raw
  if b.rv = r.rv && b.url = r.url && b.mem.safe then "" else " BUFFER-MODEL-DIFFERS"

def canonBufAgrees (raw : Bytes) (o : Option Bytes) : String :=
  let m : Nng.UrlBuf.Mem := ⟨(raw ++ [0]).toArray, true⟩
  let c := Nng.UrlBuf.canonifyAt (raw.length + 2) m 0
  let got : Option Bytes := if c.2 then some (Nng.UrlBuf.cstr (raw.length + 2) c.1 0).2 else none
  if got = o && c.1.safe then "" else " BUFFER-MODEL-DIFFERS"

def modelUrl (raw : Bytes) : String :=
  let r := Nng.Url.parse raw
  match r.url with
  | none => s!"{r.rv}" ++ bufAgrees raw r
  | some u =>
    let s := Nng.Url.sprintf u
    let r2 := Nng.Url.parse s
    let rt := match r2.url with
      | none => s!"rt={r2.rv}"
      | some u2 => s!"rt=0 {showUrl "r" u2}"
    let r3 := Nng.Url.clone u true
    let cl := match r3.url with
      | none => s!"cl={r3.rv}"
      | some u3 => s!"cl=0 {showUrl "c" u3}"
    s!"0 {showUrl "" u} S={toHex s} {rt} {cl}" ++ bufAgrees raw r

def modelCanon (raw : Bytes) : String :=
  match Nng.Url.canonify raw with
  | none => s!"{Err.einval}" ++ canonBufAgrees raw none
  | some o =>
    (match Nng.Url.canonify o with
    | none => s!"0 o={toHex o} again={Err.einval}"
    | some o2 => s!"0 o={toHex o} again=0 o2={toHex o2}") ++ canonBufAgrees raw (some o)

def mstep (_ : Unit) (ws : List String) : Unit × String :=
  match ws with
  | ["verbose"] => ((), "ok")
  | ["url", h] =>
    match parseHex h with
    | some raw => ((), modelUrl raw)
    | none => ((), "bad-op")
  | ["canon", h] =>
    match parseHex h with
    | some raw => ((), modelCanon raw)
    | none => ((), "bad-op")
  | _ => ((), "bad-op")

def model : Component := { σ := Unit, init := (), step := mstep }

/-! spec side: parse the implementation's key=value words -/

def kv (ws : List String) (k : String) : Option String :=
  ws.findSome? fun w => if w.startsWith (k ++ "=") then some ((w.drop (k.length + 1)).toString) else none

def optBytes (s : String) : Option (Option Bytes) :=
  if s == "~" then some none else (parseHex s).map some

def fields (ws : List String) (pre : String) : Option UrlSpec.Fields := do
  let s ← (← kv ws (pre ++ "s")) |> parseHex
  let u ← (← kv ws (pre ++ "u")) |> optBytes
  let h ← (← kv ws (pre ++ "h")) |> optBytes
  let p ← (← kv ws (pre ++ "p")).toNat?
  let P ← (← kv ws (pre ++ "P")) |> parseHex
  let q ← (← kv ws (pre ++ "q")) |> optBytes
  let f ← (← kv ws (pre ++ "f")) |> optBytes
  pure ⟨s, u, h, p, P, q, f⟩

def judgeUrl (input : Bytes) (ws : List String) : String :=
  match ws with
  | [] => "bad-op"
  | rv :: rest =>
    if rv ≠ "0" then "ok"      -- the property restricts acceptance only
    else
      match fields rest "" with
      | none => "bad unparsable-fields"
      | some f =>
        match UrlSpec.judgeAccepted input f with
        | some why => "bad " ++ why
        | none =>
          -- sprintf / parse round trip
          match kv rest "rt" with
          | some "0" =>
            match fields rest "r" with
            | none => "bad unparsable-roundtrip-fields"
            | some g =>
              if !UrlSpec.sameButUserinfo f g then "bad printed URL parses to different components"
              else
                match kv rest "cl" with
                | some "0" =>
                  match fields rest "c" with
                  | some c => if c = f then "ok" else "bad clone differs from the original"
                  | none => "bad unparsable-clone-fields"
                | some e => "bad clone failed with " ++ e
                | none => "bad no-clone-result"
          | some e => "bad printed URL is rejected with " ++ e
          | none => "bad no-roundtrip-result"

def judgeCanon (ws : List String) : String :=
  match ws with
  | [] => "bad-op"
  | rv :: rest =>
    if rv ≠ "0" then "ok"
    else
      match (kv rest "o").bind parseHex with
      | none => "bad unparsable-output"
      | some o =>
        if !UrlSpec.canonicalb o then "bad output is not canonical"
        else if !UrlSpec.wellFormedUtf8b o then "bad output is not well-formed UTF-8"
        else if kv rest "again" ≠ some "0" then "bad canonical output rejected on second application"
        else if (kv rest "o2").bind parseHex ≠ some o then "bad not idempotent"
        else "ok"

def sstep (_ : Unit) (ws : List String) : Unit × String :=
  match ws with
  | ["verbose"] => ((), "ok")
  | "judge" :: h :: rest =>
    match parseHex h with
    | some raw => ((), judgeUrl raw rest)
    | none => ((), "bad-op")
  | "judgecanon" :: _ :: rest => ((), judgeCanon rest)
  | _ => ((), "bad-op")

def spec : Component := { σ := Unit, init := (), step := sstep }

def components : List (String × Component) := [("url-model", model), ("url-spec", spec)]

end Nng.Driver.Url
