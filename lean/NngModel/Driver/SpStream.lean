/- driver for C01: `spstream-model` runs Model/SpStream.lean, `spstream-spec` runs
   Spec/SpStream.lean, on the op lines of harness/u_sp.c and on the transcripts of
   harness/r_stream.c (see vlib/props/c01.py).

   byte strings on the line: `-` (empty), hex, or `g<seed>:<len>` (a generated pattern,
   the same generator as harness/rawpeer.c `rp_pattern`). -/
import NngModel.Driver.Common
import NngModel.Model.SpStream
import NngModel.Spec.SpStream
namespace Nng.Driver.SpStream
open Nng Nng.Sp

def patGo : Nat → UInt64 → Bytes → Bytes
  | 0, _, acc => acc.reverse
  | n + 1, x, acc =>
    let x' := x * 6364136223846793005 + 1442695040888963407
    patGo n x' ((x' >>> 56).toUInt8 :: acc)

/-- pattern generator shared with the C harness -/
def pat (seed len : Nat) : Bytes := patGo len (UInt64.ofNat seed * 0x9E3779B97F4A7C15 + 1) []

def parseBytes (s : String) : Option Bytes :=
  if s.startsWith "g" then
    match (s.drop 1).toString.splitOn ":" with
    | [a, b] => do pure (pat (← a.toNat?) (← b.toNat?))
    | _ => none
  else parseHex s

def parseKind : String → Option Kind
  | "tcp" => some .tcp
  | "ipc" => some .ipc
  | "sfd" => some .tcp       -- socket:// uses the tcp framing
  | _ => none

def parseNats (s : String) : Option (List Nat) :=
  if s == "-" then some [] else (s.splitOn ",").mapM (·.toNat?)

def showB (verbose : Bool) (b : Bytes) : String :=
  if verbose then s!"{digest b}/{toHex b}" else digest b

def showAio (a : Aio) : String :=
  s!"count={iovCount a} pend={digest (pending a)} nio={a.nio} iov=" ++
    ",".intercalate (a.iov.map fun e => if e.isEmpty then "0" else digest e) ++ (if a.safe then "" else " UNSAFE")

/-- cut `d` at the (ascending, absolute) positions `cuts` -/
def cutAt (d : Bytes) (cuts : List Nat) : List Bytes :=
  let rec go (d : Bytes) (base : Nat) : List Nat → List Bytes
    | [] => [d]
    | c :: cs => d.take (c - base) :: go (d.drop (c - base)) (max c base) cs
  go d 0 cuts

structure MState where
  aio : Aio := Aio.fresh
  cfg : Cfg := ⟨.tcp, 0⟩
  rx : Rx := rxInit .tcp
  verbose : Bool := false

def showNew (verbose : Bool) (old new : Rx) : String :=
  let fresh := new.out.drop old.out.length
  s!"err={new.err} want={new.want} out=" ++
    (if fresh.isEmpty then "-" else ",".intercalate (fresh.map (showB verbose)))

open Nng.Msg in
/-- build the message harness/u_sp.c builds for a `pullup` line -/
def buildMsg (sz seed tr ch : Nat) (h : Bytes) : Option Msg.Msg := do
  let m ← (alloc sz none).c
  let m := (msgPoke m 0 (pat seed sz)).c
  let m := (msgTrim m tr).c
  let m := (msgChop m ch).c
  pure (hdrAppend m h).c

def mstep (s : MState) (ws : List String) : MState × String :=
  match ws with
  | ["verbose"] => ({ s with verbose := true }, "ok")
  | ["enc", k, h, b] =>
    match parseKind k, parseBytes h, parseBytes b with
    | some k, some h, some b => (s, s!"enc {showB s.verbose (encode k ⟨h, b⟩)}")
    | _, _, _ => (s, "bad-op")
  | ["hs", p] =>
    match p.toNat? with
    | some p => (s, s!"hs {toHex (handshake p)} {match handshakeCheck (handshake p) with | some q => toString q | none => "rejected"}")
    | none => (s, "bad-op")
  | ["rx", k, mx] =>
    match parseKind k, mx.toNat? with
    | some k, some mx => ({ s with cfg := ⟨k, mx⟩, rx := rxInit k }, "ok")
    | _, _ => (s, "bad-op")
  | ["feed", d] =>
    match parseBytes d with
    | some d => let r := rxFeed s.cfg s.rx d; ({ s with rx := r }, showNew s.verbose s.rx r)
    | none => (s, "bad-op")
  | ["feedenc", h, b, cuts] =>
    match parseBytes h, parseBytes b, (if cuts == "*" then some [] else parseNats cuts) with
    | some h, some b, some cutl =>
      let f := encode s.cfg.kind ⟨h, b⟩
      let cutl := if cuts == "*" then List.range' 1 (f.length - 1) else cutl
      let r := rxRun s.cfg s.rx (cutAt f cutl)
      ({ s with rx := r }, showNew s.verbose s.rx r)
    | _, _, _ => (s, "bad-op")
  | "iov" :: es =>
    match es.mapM parseBytes with
    | some es =>
      let (a, rv) := setIov s.aio es
      ({ s with aio := a }, s!"rv={rv} {showAio a}")
    | none => (s, "bad-op")
  | ["adv", n] =>
    match n.toNat? with
    | some n =>
      let (a, rv) := iovAdvance s.aio n
      ({ s with aio := a }, s!"rv={rv} {showAio a}")
    | none => (s, "bad-op")
  | ["txstart", k, h, b] =>
    match parseKind k, parseBytes h, parseBytes b with
    | some k, some h, some b =>
      let a := txStart k s.aio ⟨h, b⟩
      ({ s with aio := a }, s!"rv=0 {showAio a}")
    | _, _, _ => (s, "bad-op")
  | ["txrun", ns] =>
    match parseNats ns with
    | some ns =>
      let (a, w) := txRun s.aio ns
      ({ s with aio := a }, s!"wire={digest w} {showAio a}")
    | none => (s, "bad-op")
  | ["pullup", sz, seed, tr, ch, h, refs, fail] =>
    match sz.toNat?, seed.toNat?, tr.toNat?, ch.toNat?, parseBytes h, refs.toNat? with
    | some sz, some seed, some tr, some ch, some h, some refs =>
      match buildMsg sz seed tr ch h with
      | some m =>
        let (r, safe) := pullUp m refs fail.toNat?
        let sfx := if safe then "" else " UNSAFE"
        match r with
        | none => (s, "null" ++ sfx)
        | some m' => (s, s!"h={showB s.verbose m'.header} b={showB s.verbose m'.body.data}" ++ sfx)
      | none => (s, "bad-msg")
    | _, _, _, _, _, _ => (s, "bad-op")
  | _ => (s, "bad-op")

def model : Component := { σ := MState, init := {}, step := mstep }

/-! spec side: abstract views only -/
structure SState where
  pend : Bytes := []
  judge : SpSpec.Judge := {}
  verbose : Bool := false

def sstep (s : SState) (ws : List String) : SState × String :=
  match ws with
  | ["verbose"] => ({ s with verbose := true }, "ok")
  -- the bytes a scatter/gather list designates, and what remains after consuming n of them
  | "iov" :: es =>
    match es.mapM parseBytes with
    | some es =>
      if es.length > 8 then (s, s!"rv={Err.einval} count={s.pend.length} pend={digest s.pend}")
      else let p := es.flatten; ({ s with pend := p }, s!"rv=0 count={p.length} pend={digest p}")
    | none => (s, "bad-op")
  | ["adv", n] =>
    match n.toNat? with
    | some n => let p := s.pend.drop n; ({ s with pend := p }, s!"rv=0 count={p.length} pend={digest p}")
    | none => (s, "bad-op")
  -- inproc merge: header ++ body in the body, or nothing at all
  | ["pullup", sz, seed, tr, ch, h, _, _] =>
    match sz.toNat?, seed.toNat?, tr.toNat?, ch.toNat?, parseBytes h with
    | some sz, some seed, some tr, some ch, some h =>
      let b := pat seed sz
      let b := if tr ≤ b.length then b.drop tr else b
      let b := if ch ≤ b.length then b.take (b.length - ch) else b
      (s, s!"h={showB s.verbose []} b={showB s.verbose (SpSpec.payload h b)}")
    | _, _, _, _, _ => (s, "bad-op")
  | ["pullup-null"] => (s, "null")
  -- the delivery judge
  | ["sent", h, b] =>
    match parseBytes h, parseBytes b with
    | some h, some b => ({ s with judge := s.judge.sent h b }, "ok")
    | _, _ => (s, "bad-op")
  | ["recvd", x] =>
    -- a long delivery reported by its digest `<len>:<fnv64>` only
    match s.judge.queue with
    | q :: _ =>
      if digest q == x then
        let (j, _) := s.judge.recv q
        ({ s with judge := j }, "ok")
      else (s, s!"BAD altered-or-misplaced at {s.judge.nrecv}")
    | [] => (s, s!"BAD spurious at {s.judge.nrecv}")
  | ["recv", x] =>
    match parseBytes x with
    | some x =>
      let (j, v) := s.judge.recv x
      ({ s with judge := j }, match v with | none => "ok" | some why => s!"BAD {why} at {j.nrecv}")
    | none => (s, "bad-op")
  -- end of one direction of one connection: verdict on completeness, then a fresh judge
  | ["end"] => ({ s with judge := {} }, match s.judge.finish with | none => "ok" | some why => s!"BAD {why}")
  | _ => (s, "bad-op")

def spec : Component := { σ := SState, init := {}, step := sstep }

def components : List (String × Component) := [("spstream-model", model), ("spstream-spec", spec)]

end Nng.Driver.SpStream
