/- driver components for the WebSocket opening handshake (harness/u_wsup.c): `wsup-model` (Model/WsUpgrade.lean,
   Model/WsAccept.lean) and `wsup-spec` (Spec/WsUpgrade.lean part 2, with RFC 7230's reading of header lines and the
   extracted choice of the protocol rule variant:
   optional white space around a value removed, repeated fields joined with ", ").  The status line and the
   "Name: value CRLF" layout of the head are the HTTP layer's (http_conn.c, part H of C16); both components render
   the same way. -/
import NngModel.Driver.Common
import NngModel.Model.WsUpgrade
import NngModel.Spec.WsUpgrade
namespace Nng.Driver.WsUpgrade
open Nng

def optHex (x : String) : Option (Option Bytes) :=
  if x == "~" then some none else (parseHex x).map some

/-- "6e=76;6e=76" → header lines -/
def parseLines (x : String) : Option (List (Bytes × Bytes)) :=
  if x == "-" then some []
  else (x.splitOn ";").filter (· ≠ "") |>.mapM fun p =>
    match p.splitOn "=" with
    | [n, v] => match parseHex n, parseHex v with
      | some n, some v => some (n, v)
      | _, _ => none
    | _ => none

def crlf : Bytes := [13, 10]

def renderHead (first : Bytes) (h : List (Bytes × Bytes)) : Bytes :=
  first ++ crlf ++ (h.map fun (n, v) => n ++ [58, 32] ++ v ++ crlf).flatten ++ crlf

def line101 : Bytes := WsSpec.s "HTTP/1.1 101 Switching Protocols"
def lineGet : Bytes := WsSpec.s "GET /x HTTP/1.1"

/-! model -/
def mstep (_ : Unit) (ws : List String) : Unit × String :=
  match ws with
  | ["verbose"] => ((), "ok")
  | ["srv", closed, lp, meth, vers, hd] =>
    match optHex lp, parseHex meth, parseHex vers, parseLines hd with
    | some lp, some meth, some vers, some lines =>
      let d := WsUp.serverDecide { closed := closed != "0", proto := lp } { method := meth, version := vers, headers := WsUp.store lines }
      match d with
      | .error st => ((), s!"srv st={st}")
      | .upgrade _ _ => ((), s!"srv st=101 res={toHex (renderHead line101 (WsUp.serverResponse d).headers)}")
    | _, _, _, _ => ((), "bad-op")
  | ["cli", nonce, dp, status, _reason, hd] =>
    match parseHex nonce, optHex dp, status.toNat?, parseLines hd with
    | some nonce, some dp, some status, some lines =>
      let k := WsAccept.genKey nonce
      let req := WsUp.clientRequest { proto := dp } (WsSpec.s "h") k.accept
      let rv := WsUp.clientDecide { proto := dp } k.accept { status := status, headers := WsUp.store lines }
      ((), s!"cli rv={rv} req={toHex (renderHead lineGet req.headers)}" ++ (if k.safe then "" else " UNSAFE"))
    | _, _, _, _ => ((), "bad-op")
  | ["accept", k] =>
    match parseHex k with
    | some k =>
      let a := WsAccept.makeAccept k Generated.wsHandlerKeyBuf
      if a.rv = 0 then ((), s!"accept rv=0 a={toHex a.accept}" ++ (if a.safe then "" else " UNSAFE")) else ((), s!"accept rv={a.rv}")
    | none => ((), "bad-op")
  | ["word", p, w] =>
    match parseHex p, parseHex w with
    | some p, some w => ((), s!"word {if WsUp.containsWord p w then 1 else 0}")
    | _, _ => ((), "bad-op")
  | _ => ((), "bad-op")

/-! specification -/

/-- RFC 7230 3.2.2 / 3.2.4: one entry per field name (first spelling kept), values trimmed and joined with ", " -/
def combine (lines : List (Bytes × Bytes)) : List (Bytes × Bytes) :=
  lines.foldl (fun acc (n, v) =>
    let v := WsSpec.trim v
    if acc.any (fun e => WsSpec.ciEq e.1 n) then acc.map (fun e => if WsSpec.ciEq e.1 n then (e.1, e.2 ++ [44, 32] ++ v) else e)
    else acc ++ [(n, v)]) []

def sstep (_ : Unit) (ws : List String) : Unit × String :=
  match ws with
  | ["verbose"] => ((), "ok")
  | ["srv", closed, lp, meth, vers, hd] =>
    match optHex lp, parseHex meth, parseHex vers, parseLines hd with
    | some lp, some meth, some vers, some lines =>
      match WsSpec.serverExpected Generated.wsSrvSingleOffer (closed != "0") lp meth vers (combine lines) with
      | .error st => ((), s!"srv st={st}")
      | .upgrade a p => ((), s!"srv st=101 res={toHex (renderHead line101 (WsSpec.serverResponse a p))}")
    | _, _, _, _ => ((), "bad-op")
  | ["cli", nonce, dp, status, _reason, hd] =>
    match parseHex nonce, optHex dp, status.toNat?, parseLines hd with
    | some nonce, some dp, some status, some lines =>
      let key := Base64Spec.encode (nonce.take 16)
      let rv := WsSpec.clientExpected dp key status (combine lines)
      ((), s!"cli rv={rv} req={toHex (renderHead lineGet (WsSpec.clientRequest dp (WsSpec.s "h") key))}")
    | _, _, _, _ => ((), "bad-op")
  | ["accept", k] =>
    match parseHex k with
    | some k => if k.length = 24 then ((), s!"accept rv=0 a={toHex (WsSpec.acceptFor k)}") else ((), "accept rv=3")
    | none => ((), "bad-op")
  | ["word", p, w] =>
    match parseHex p, parseHex w with
    | some p, some w => ((), s!"word {if WsSpec.hasWord p w then 1 else 0}")
    | _, _ => ((), "bad-op")
  | _ => ((), "bad-op")

/-! conformance judge: what a conforming RFC 6455 client requires of a response the IMPLEMENTATION emitted
    (`conf <key> <offered|~> <status> <response header lines>`), independent of nng's own rule table -/
def cstep (_ : Unit) (ws : List String) : Unit × String :=
  match ws with
  | ["verbose"] => ((), "ok")
  | ["conf", key, offer, status, hd] =>
    match parseHex key, optHex offer, status.toNat?, parseLines hd with
    | some key, some offer, some status, some lines =>
      ((), s!"conf {if WsSpec.clientRequiresB key (offer.map WsSpec.trim) status (combine lines) then 1 else 0}")
    | _, _, _, _ => ((), "bad-op")
  | _ => ((), "bad-op")

def components : List (String × Component) :=
  [("wsup-model", { σ := Unit, init := (), step := mstep }),
   ("wsup-spec", { σ := Unit, init := (), step := sstep }),
   ("wsup-conf", { σ := Unit, init := (), step := cstep })]

end Nng.Driver.WsUpgrade
