/- driver components for the chunked decoder and base64: `chunk-model`, `chunk-spec`,
   `b64-model`, `b64-spec` (one component pair serves both op families of harness/u_codec.c) -/
import NngModel.Driver.Common
import NngModel.Model.HttpChunk
import NngModel.Spec.HttpChunk
import NngModel.Model.Base64
import NngModel.Spec.Base64
namespace Nng.Driver.Codec
open Nng

def b64eModel (h n : String) : String :=
  match parseHex h, n.toNat? with
  | some b, some n =>
    match Base64.encode b n with
    | some o => s!"b64e rv={o.length} nul=1 o={toHex o}"
    | none => "b64e rv=-1"
  | _, _ => "bad-op"

def b64dModel (h n : String) : String :=
  match parseHex h, n.toNat? with
  | some b, some n =>
    match Base64.decode b n with
    | some o => s!"b64d rv={o.length} o={toHex o}"
    | none => "b64d rv=-1"
  | _, _ => "bad-op"

def b64eSpec (h n : String) : String :=
  match parseHex h, n.toNat? with
  | some b, some n =>
    let o := Base64Spec.encode b
    -- the result and its terminating NUL must fit
    if o.length + 1 ≤ n then s!"b64e rv={o.length} nul=1 o={toHex o}" else "b64e rv=-1"
  | _, _ => "bad-op"

def b64dSpec (h n : String) : String :=
  match parseHex h, n.toNat? with
  | some b, some n =>
    let o := Base64Spec.decode b
    if o.length ≤ n then s!"b64d rv={o.length} o={toHex o}" else "b64d rv=-1"
  | _, _ => "bad-op"

/-! chunk model -/
structure MState where
  st : Option Chunk.St := none
  dead : Bool := false

def mstep (m : MState) (ws : List String) : MState × String :=
  match ws with
  | ["verbose"] => (m, "ok")
  | ["init", mx, al] =>
    match mx.toNat?, al.toNat? with
    | some mx, some al => ({ st := some { maxsz := mx, allocLimit := al }, dead := false }, "init rv=0")
    | _, _ => (m, "bad-op")
  | ["parse", h] =>
    match m.st, parseHex h with
    | some s, some b =>
      if m.dead then (m, "parse dead")
      else
        let r := Chunk.parse s b
        let s' := r.1
        let base := s!"parse rv={r.2.2} n={r.2.1} total={s'.total} chunks={s'.chunksR.length}"
        let line := if r.2.2 == 0 then base ++ s!" body={digest (Chunk.body s')}" else base
        ({ st := some s', dead := r.2.2 != Chunk.rvAgain }, line)
    | none, some _ => (m, "parse dead")
    | _, _ => (m, "bad-op")
  | ["b64e", h, n] => (m, b64eModel h n)
  | ["b64d", h, n] => (m, b64dModel h n)
  | ["sha1", _, _] => (m, "sha1 d=-")
  | _ => (m, "bad-op")

def model : Component := { σ := MState, init := {}, step := mstep }

/-! chunk spec: the whole byte string received so far is judged against the grammar -/
structure SState where
  cfg : Option (Nat × Nat) := none
  all : Bytes := []
  dead : Bool := false

def rvOf : ChunkSpec.Outcome → Nat
  | .done => 0 | .more => 8 | .malformed => 13 | .tooBig => 17 | .noMem => 2

def sstep (m : SState) (ws : List String) : SState × String :=
  match ws with
  | ["verbose"] => (m, "ok")
  | ["init", mx, al] =>
    match mx.toNat?, al.toNat? with
    | some mx, some al => ({ cfg := some (mx, al) }, "init rv=0")
    | _, _ => (m, "bad-op")
  | ["parse", h] =>
    match m.cfg, parseHex h with
    | some (mx, al), some b =>
      if m.dead then (m, "parse dead")
      else
        let all := m.all ++ b
        let r := ChunkSpec.decode mx al all
        let n := r.consumed - m.all.length
        let base := s!"parse rv={rvOf r.outcome} n={n} total={r.declared}"
        let line := if r.outcome == .done then base ++ s!" body={digest r.chunks.flatten}" else base
        ({ m with all := all, dead := r.outcome != .more }, line)
    | none, some _ => (m, "parse dead")
    | _, _ => (m, "bad-op")
  | ["b64e", h, n] => (m, b64eSpec h n)
  | ["b64d", h, n] => (m, b64dSpec h n)
  | ["sha1", _, _] => (m, "sha1 d=-")
  | _ => (m, "bad-op")

def spec : Component := { σ := SState, init := {}, step := sstep }

def components : List (String × Component) := [("codec-model", model), ("codec-spec", spec)]

end Nng.Driver.Codec
