/- driver components for the PUB / SUB models and judges (C05) -/
import NngModel.Driver.Pipeline
import NngModel.Model.Sub
import NngModel.Model.Pub
import NngModel.Model.Xsub
import NngModel.Spec.PubSub
namespace Nng.Driver.PubSub
open Nng Nng.Proto Nng.Driver Nng.Driver.Pipeline

def components : List (String × Component) := [
  ("sub-judge", judgeComponent ({} : Nng.PubSubSpec.SubJ) Nng.PubSubSpec.subStep (·.err)),
  ("pub-judge", judgeComponent ({} : Nng.PubSubSpec.PubJ) Nng.PubSubSpec.pubStep (·.err)),
  ("sub-model", protoComponent ({} : Nng.Sub.State) Nng.Sub.step),
  ("pub-model", protoComponent ({} : Nng.Pub.State) Nng.Pub.step),
  ("xsub-judge", judgeComponent ({} : Nng.PubSubSpec.XsubJ) Nng.PubSubSpec.xsubStep (·.err)),
  ("xsub-model", protoComponent ({} : Nng.Xsub.State) Nng.Xsub.step)
]

end Nng.Driver.PubSub
