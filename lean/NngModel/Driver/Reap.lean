/- driver components for the reaper part of C10 (src/core/reap.c):
   `reap-model` : `init <nl> <progs>` (progs = comma separated programs, a program = calls separated by `.`:
                  `r<l>:<id>` nni_reap of object id on list l, `r<l>:<id>:<cl>:<cid>` the same with a reap function
                  that reaps object cid on list cl, `d` nni_reap_sys_drain, `f` nni_reap_sys_fini; `-` = empty),
                  `step <w|c<i>>` -> one observation line per input line
   `reap-judge` : reads observation lines (of the implementation), answers `ok` / `VIOLATION <clause>`; the first
                  line of a case is the initial observation -/
import NngModel.Driver.Common
import NngModel.Model.ReapObs
namespace Nng.Driver.Reap
open Nng Nng.Driver Nng.Reap

def b01 (b : Bool) : String := if b then "1" else "0"
def showIds (l : List Nat) : String := if l.isEmpty then "-" else ".".intercalate (l.map toString)
def showRes (l : List Bool) : String := if l.isEmpty then "-" else String.join (l.map fun b => if b then "t" else "f")

def showObs (o : Obs) : String :=
  let res := if o.res.isEmpty then "none" else ",".intercalate (o.res.map showRes)
  s!"subm={showIds o.subm} done={showIds o.done} fin={showIds o.fin} res={res} live={b01 o.live} allfin={b01 o.allFin}"

/-- implementation state beyond the specification's observation -/
def showImpl (s : State) : String :=
  s!" empty={b01 s.empty} exit={b01 s.exit} q=" ++ ",".intercalate (s.lists.map fun rl => showIds (nodeIds rl.nodes)) ++
    s!" order={showIds s.order} next={s.worker.next}|" ++ ",".intercalate (s.clients.map Client.next)

def parseOp (w : String) : Option Op :=
  if w == "d" then some .drain else if w == "f" then some .fini else
  match w.toList with
  | 'r' :: r =>
    match (String.ofList r).splitOn ":" with
    | [l, i] => do some (.reap (← l.toNat?) { id := ← i.toNat? })
    | [l, i, cl, ci] => do some (.reap (← l.toNat?) { id := ← i.toNat?, child := some (← cl.toNat?, ← ci.toNat?) })
    | _ => none
  | _ => none

def parseProgs (w : String) : Option (List (List Op)) :=
  if w == "none" then some [] else
    (w.splitOn ",").mapM fun p => if p == "-" then some [] else (p.splitOn ".").mapM parseOp

def parseTid (w : String) : Option Tid :=
  match w.toList with
  | ['w'] => some .w
  | 'c' :: r => (String.ofList r).toNat?.map .c
  | _ => none

structure M where
  st : Option State := none

def modelStep (m : M) (ws : List String) : M × String :=
  match ws, m.st with
  | ["init", n, ps], _ =>
    match n.toNat?, parseProgs ps with
    | some n, some ps =>
      let s := Reap.init n ps
      ({ st := some s }, showObs (obsOf s) ++ showImpl s)
    | _, _ => (m, "bad-op")
  | ["step", t], some s =>
    match parseTid t with
    | some tid =>
      let s' := Reap.step s tid
      ({ st := some s' }, showObs (obsOf s') ++ showImpl s')
    | none => (m, "bad-op")
  | _, _ => (m, "bad-op")

def kv (ws : List String) (k : String) : Option String :=
  ws.findSome? fun w => if w.startsWith (k ++ "=") then some (w.drop (k.length + 1)).toString else none

def parseIds (w : String) : Option (List Nat) :=
  if w == "-" then some [] else (w.splitOn ".").mapM (·.toNat?)

def parseBool (w : String) : Option Bool :=
  if w == "1" then some true else if w == "0" then some false else none

def parseObs (ws : List String) : Option Obs := do
  let ids := fun k => (kv ws k).bind parseIds
  let b := fun k => (kv ws k).bind parseBool
  let resw ← kv ws "res"
  let res ← if resw == "none" then some [] else
    (resw.splitOn ",").mapM fun w => if w == "-" then some [] else
      w.toList.mapM fun c => if c == 't' then some true else if c == 'f' then some false else none
  pure { subm := ← ids "subm", done := ← ids "done", fin := ← ids "fin", res := res, live := ← b "live",
         allFin := ← b "allfin" }

structure JD where
  prev : Option Obs := none

def judgeLine (d : JD) (ws : List String) : JD × String :=
  match parseObs ws with
  | none => (d, "bad-obs")
  | some o =>
    let p := d.prev.getD o
    ({ prev := some o }, match judge p o with
      | none => "ok"
      | some c => "VIOLATION " ++ c)

def components : List (String × Component) := [
  ("reap-model", { σ := M, init := {}, step := modelStep }),
  ("reap-judge", { σ := JD, init := {}, step := judgeLine })
]

end Nng.Driver.Reap
