/- driver for the option plumbing (C03, option part): `opt-model` runs Model/Options.lean (byte level, table
   walks, wrappers), `opt-spec` runs Spec/Options.lean (typed key-value store) on the op lines of
   harness/u_options.c. -/
import NngModel.Driver.Common
import NngModel.Model.Options
namespace Nng.Driver.Options
open Nng Nng.Opt

def strGuard : Bool := Nng.Generated.c03oCopyinStrGuarded
def nullGuard : Bool := Nng.Generated.c03oCheckStringNullGuard

structure Obj where
  setL : List Table := []
  getL : List GLayer := []
  st : Store := []
  live : Bool := false

structure St where
  s : Obj := {}
  c : Obj := {}
  d : Obj := {}
  l : Obj := {}
  p : Obj := {}
  openFn : String := ""

def objOf (k : String) : Option Obj := (objKind k).map (fun o => { setL := o.setL, getL := o.getL, st := [], live := true })

def scheme (url : String) : String := ((url.splitOn "://").headD "")

def St.obj (s : St) (o : String) : Option Obj :=
  match o with
  | "s" => some s.s | "c" => some s.c | "d" => some s.d | "l" => some s.l | "p" => some s.p | _ => none

def St.setObj (s : St) (o : String) (x : Obj) : St :=
  match o with
  | "s" => { s with s := x } | "c" => { s with c := x } | "d" => { s with d := x } | "l" => { s with l := x } | "p" => { s with p := x }
  | _ => s

/-- value literal of the line protocol -/
def parseVal (tag val : String) : Option Val :=
  match tag with
  | "int" => val.toInt?.map .int
  | "ms" => val.toInt?.map .ms
  | "size" => val.toNat?.map .size
  | "bool" => val.toNat?.map (fun n => .bool (n != 0))
  | "str" => (parseHex val).map .str
  | "addr" => (parseHex val).map (fun b => .addr (b.take (csize .addr) ++ List.replicate (csize .addr - b.length) 0))
  | _ => none

def showVal : Val → String
  | .bool b => if b then "1" else "0"
  | .int i => toString i
  | .ms d => toString d
  | .size n => toString n
  | .str s => toHex s
  | .addr a => toHex a

/-- is there a typed public wrapper for (object, direction, tag)?  (Generated.c03oWrappers) -/
def hasWrapper (o : String) (dir : String) (tag : String) : Bool :=
  let g := (match o with | "s" => "socket" | "c" => "ctx" | "d" => "dialer" | "l" => "listener" | "p" => "pipe" | _ => "?") ++ "_" ++ dir
  Nng.Generated.c03oWrappers.any (fun w => w.2.1 == g && w.2.2.2.2.2.2 == tag)

def unsafeMark (b : Bool) : String := if b then "" else " UNSAFE"

/-- the byte-level ops (same for model and spec components except where noted) -/
def cinModel (ws : List String) : Option String :=
  match ws with
  | ["cin", fn, tg, lo, hi, hx] => do
    let t ← Tag.ofName tg
    let b ← parseHex hx
    match fn with
    | "int" =>
      let r := copyinInt 1515870810 b b.length (← lo.toInt?) (← hi.toInt?) t
      pure ((if r.rv == 0 then s!"0 v={r.val}" else s!"{r.rv} " ++ (if r.val == 1515870810 then "keep" else "CHANGED")) ++ unsafeMark r.safe)
    | "ms" =>
      let r := copyinMs 1515870810 b b.length t
      pure ((if r.rv == 0 then s!"0 v={r.val}" else s!"{r.rv} " ++ (if r.val == 1515870810 then "keep" else "CHANGED")) ++ unsafeMark r.safe)
    | "size" =>
      let r := copyinSize 6510615555426900570 b b.length (← lo.toNat?) (← hi.toNat?) t
      pure ((if r.rv == 0 then s!"0 v={r.val}" else s!"{r.rv} " ++ (if r.val == 6510615555426900570 then "keep" else "CHANGED")) ++ unsafeMark r.safe)
    | "bool" =>
      let r := copyinBool false b b.length t
      pure ((if r.rv == 0 then s!"0 v={if r.val then 1 else 0}" else s!"{r.rv} keep") ++ unsafeMark r.safe)
    | "addr" =>
      let r := copyinSockaddr [] b t
      pure ((if r.rv == 0 then s!"0 v={toHex r.val}" else s!"{r.rv} " ++ (if r.val == [] then "keep" else "CHANGED")) ++ unsafeMark r.safe)
    | _ => none
  | _ => none

def coutModel (ws : List String) : Option String :=
  match ws with
  | ["cout", fn, tg, val, size] => do
    let t ← Tag.ofName tg
    let n ← size.toNat?
    let dst : Bytes := List.replicate n 0xAA
    let r ← match fn with
      | "int" => (val.toInt?).map (fun i => copyoutInt i dst t)
      | "ms" => (val.toInt?).map (fun i => copyoutMs i dst t)
      | "size" => (val.toNat?).map (fun i => copyoutSize i dst t)
      | "bool" => (val.toNat?).map (fun i => copyoutBool (i != 0) dst t)
      | "str" => (val.toNat?).map (fun i => copyoutStr i dst t)
      | "addr" => (parseHex val).map (fun a => copyoutSockaddr a dst t)
      | _ => none
    pure (s!"{r.rv} b={toHex r.val}" ++ unsafeMark r.safe)
  | _ => none

def strModel (ws : List String) : Option String :=
  match ws with
  | ["cinstr", maxsz, tg, dcap, hx] => do
    let t ← Tag.ofName tg
    let src ← parseHex hx
    let r := copyinStr strGuard (List.replicate (← dcap.toNat?) 0xAA) src (← maxsz.toNat?) t
    pure (s!"{r.rv} b={toHex r.val}" ++ unsafeMark r.safe)
  | ["strlcpy", len, dcap, hx] => do
    let src ← parseHex hx
    let r := strlcpy (List.replicate (← dcap.toNat?) 0xAA) src (← len.toNat?)
    pure (s!"{r.rv} b={toHex r.val}" ++ unsafeMark r.safe)
  | _ => none

/-! specification of the byte-level functions, written independently of the model's loads and stores -/

def twos (bits : Nat) (n : Nat) : Int := if n < 2 ^ (bits - 1) then (n : Int) else (n : Int) - (2 ^ bits : Nat)
def leVal (b : Bytes) : Nat := (List.range b.length).foldl (fun acc i => acc + (b.getD i 0).toNat * 256 ^ i) 0
def leBytes (w : Nat) (v : Nat) : Bytes := (List.range w).map (fun i => UInt8.ofNat (v / 256 ^ i % 256))
def overwrite (dst d : Bytes) : Bytes := d ++ dst.drop d.length

def cinSpec (ws : List String) : Option String :=
  match ws with
  | ["cin", fn, tg, lo, hi, hx] => do
    let b ← parseHex hx
    if fn != tg then pure s!"{Err.ebadtype} keep"
    else
      let t ← Tag.ofName tg
      if b.length < csize t then none   -- outside the contract: never generated
      else
        let raw := b.take (csize t)
        match fn with
        | "int" =>
          let i := twos 32 (leVal raw)
          pure (if i < (← lo.toInt?) ∨ i > (← hi.toInt?) then s!"{Err.einval} keep" else s!"0 v={i}")
        | "ms" =>
          let i := twos 32 (leVal raw)
          pure (if i < -1 then s!"{Err.einval} keep" else s!"0 v={i}")
        | "size" =>
          let n := leVal raw
          pure (if n < (← lo.toNat?) ∨ n > (← hi.toNat?) then s!"{Err.einval} keep" else s!"0 v={n}")
        | "bool" => pure s!"0 v={if leVal raw != 0 then 1 else 0}"
        | "addr" => pure s!"0 v={toHex raw}"
        | _ => none
  | _ => none

def coutSpec (ws : List String) : Option String :=
  match ws with
  | ["cout", fn, tg, val, size] => do
    let n ← size.toNat?
    let dst : Bytes := List.replicate n 0xAA
    if fn != tg then pure s!"{Err.ebadtype} b={toHex dst}"
    else
      let t ← Tag.ofName tg
      if n < csize t then none
      else
        let w := csize t
        let d ← match fn with
          | "int" | "ms" => (val.toInt?).map (fun (i : Int) => leBytes w (i % ((2 ^ (8 * w) : Nat) : Int)).toNat)
          | "size" | "str" => (val.toNat?).map (fun i => leBytes w i)
          | "bool" => (val.toNat?).map (fun i => leBytes w (if i != 0 then 1 else 0))
          | "addr" => (parseHex val).map (fun a => a.take w ++ List.replicate (w - a.length) 0)
          | _ => none
        pure s!"0 b={toHex (overwrite dst d)}"
  | _ => none

def strSpec (ws : List String) : Option String :=
  match ws with
  | ["cinstr", maxsz, tg, dcap, hx] => do
    let src ← parseHex hx
    let m ← maxsz.toNat?
    let dst : Bytes := List.replicate (← dcap.toNat?) 0xAA
    if tg != "str" then pure s!"{Err.ebadtype} b={toHex dst}"
    else if !(src.take m).contains 0 then pure s!"{Err.einval} b={toHex dst}"   -- no terminator inside maxsz
    else pure s!"0 b={toHex (overwrite dst (src.takeWhile (· != 0) ++ [0]))}"
  | ["strlcpy", len, dcap, hx] => do
    let src ← parseHex hx
    let n ← len.toNat?
    let dst : Bytes := List.replicate (← dcap.toNat?) 0xAA
    pure (s!"{src.length} b=" ++ toHex (if n == 0 then dst else overwrite dst (src.take (n - 1) ++ [0])))
  | _ => none

/-! object-level ops -/

def openStep (s : St) (ws : List String) : Option (St × String) :=
  match ws with
  | ["open", fn] => (objOf ("sock:" ++ fn)).map (fun o => ({ s := o, openFn := fn }, "0"))
  | ["wspipe", path] =>
    -- a live websocket pipe; the listener side sees the request URI = the path of the URL
    (objOf "pipe:ws").map (fun o => ({ p := { o with st := o.st.put "ws:request-uri" (.str path.toUTF8.toList) } }, "0"))
  | ["ctx"] =>
    if !s.s.live then none else
    match objOf ("ctx:" ++ s.openFn) with
    | some o => some ({ s with c := o }, "0")
    | none => some (s, s!"{Err.enotsup}")
  | ["dialer", url] => if !s.s.live then none else (objOf ("dialer:" ++ scheme url)).map (fun o => ({ s with d := o }, "0"))
  | ["listener", url] => if !s.s.live then none else (objOf ("listener:" ++ scheme url)).map (fun o => ({ s with l := o }, "0"))
  | ["dflt", o, nm, tg, val] => do
    let x ← s.obj o
    let v ← parseVal tg val
    pure (s.setObj o { x with st := x.st.put nm v }, "ok")
  | _ => none

def parentStore (s : St) (o : String) : Store := if o == "d" || o == "l" then s.s.st else []

/-- nni_pipe_getopt(pipe, name, &s, NULL, NNI_TYPE_STRING) as nng_pipe_get_strcpy/strlen/strdup call it: the code and the string -/
def pipeStrModel (x : Obj) (nm : String) : Nat × Option Bytes × Bool :=
  let r := wrapGet x.getL x.st [] nm Tag.str
  if r.rv != 0 then (r.rv, none, r.safe)
  else match decodeVal Tag.str r.val (whichStore x.getL nm x.st []) nm with
    | some (.str b) => (0, some b, r.safe)
    | _ => (0, none, r.safe)

def pipeStrSpec (x : Obj) (nm : String) : Nat × Option Bytes :=
  match OptSpec.get x.getL x.st [] nm Tag.str with
  | (0, some (.str b)) => (0, some b)
  | (rv, _) => (rv, none)

def pipeOpsModel (s : St) (ws : List String) : Option String :=
  if !s.p.live then none else
  match ws with
  | ["pstrcpy", nm, len, dcap] => do
    let g := pipeStrModel s.p nm
    let r := pipeGetStrcpy g.1 g.2.1 (List.replicate (← dcap.toNat?) 0xAA) (← len.toNat?)
    pure (s!"{r.rv} b={toHex r.val}" ++ unsafeMark (r.safe && g.2.2))
  | ["pstrlen", nm] =>
    let g := pipeStrModel s.p nm
    some (if g.1 == 0 then s!"0 v={(g.2.1.getD []).length}" else s!"{g.1} untouched")
  | ["pstrdup", nm] =>
    let g := pipeStrModel s.p nm
    some (if g.1 == 0 then s!"0 v={toHex (g.2.1.getD [])}" else s!"{g.1} untouched")
  | _ => none

def pipeOpsSpec (s : St) (ws : List String) : Option String :=
  if !s.p.live then none else
  match ws with
  | ["pstrcpy", nm, len, dcap] => do
    let g := pipeStrSpec s.p nm
    let n ← len.toNat?
    let dst : Bytes := List.replicate (← dcap.toNat?) 0xAA
    let str := g.2.getD []
    pure (if g.1 != 0 then s!"{g.1} b={toHex dst}"
          else if str.length + 1 ≤ n then s!"0 b={toHex (overwrite dst (str ++ [0]))}"
          else s!"{Err.enospc} b=" ++ toHex (if n == 0 then dst else overwrite dst (str.take (n - 1) ++ [0])))
  | ["pstrlen", nm] =>
    let g := pipeStrSpec s.p nm
    some (if g.1 == 0 then s!"0 v={(g.2.getD []).length}" else s!"{g.1} untouched")
  | ["pstrdup", nm] =>
    let g := pipeStrSpec s.p nm
    some (if g.1 == 0 then s!"0 v={toHex (g.2.getD [])}" else s!"{g.1} untouched")
  | _ => none

def mstep (s : St) (ws : List String) : St × String :=
  match ws with
  | ["verbose"] => (s, "ok")
  | ["set", o, nm, tg, val] =>
    match s.obj o with
    | some x =>
      if !x.live then (s, "noobj")
      else if !hasWrapper o "set" tg then (s, "nowrapper")
      else if tg == "str" && val == "NULL" then
        let r := wrapSetNull nullGuard x.setL x.st nm
        (s.setObj o { x with st := r.val }, s!"{r.rv}" ++ unsafeMark r.safe)
      else
        match parseVal tg val with
        | some v =>
          let r := wrapSet nullGuard x.setL x.st nm v
          (s.setObj o { x with st := r.val }, s!"{r.rv}" ++ unsafeMark r.safe)
        | none => (s, "bad-op")
    | none => (s, "bad-op")
  | "get" :: o :: nm :: tg :: rest =>
    match s.obj o, Tag.ofName tg with
    | some x, some t =>
      if !x.live then (s, "noobj")
      else if !hasWrapper o "get" tg then (s, "nowrapper")
      else
        let par := parentStore s o
        let r := wrapGet x.getL x.st par nm t
        if r.rv != 0 then (s, s!"{r.rv} " ++ (if r.val == canary t then "untouched" else "TOUCHED") ++ unsafeMark r.safe)
        else if rest == ["nv"] then (s, "0 v=*" ++ unsafeMark r.safe)
        else
          match decodeVal t r.val (whichStore x.getL nm x.st par) nm with
          | some v => (s, s!"0 v={showVal v}" ++ unsafeMark r.safe)
          | none => (s, "0 v=?" ++ unsafeMark r.safe)
    | _, _ => (s, "bad-op")
  | _ =>
    match openStep s ws with
    | some r => r
    | none => (s, ((pipeOpsModel s ws).orElse (fun _ => (cinModel ws).orElse (fun _ => (coutModel ws).orElse (fun _ => strModel ws)))).getD "bad-op")

def sstep (s : St) (ws : List String) : St × String :=
  match ws with
  | ["verbose"] => (s, "ok")
  | ["set", o, nm, tg, val] =>
    match s.obj o with
    | some x =>
      if !x.live then (s, "noobj")
      else if !hasWrapper o "set" tg then (s, "nowrapper")
      else if tg == "str" && val == "NULL" then
        let r := OptSpec.setNull x.setL x.st nm
        (s.setObj o { x with st := r.2 }, s!"{r.1}")
      else
        match parseVal tg val with
        | some v =>
          let r := OptSpec.set x.setL x.st nm v
          (s.setObj o { x with st := r.2 }, s!"{r.1}")
        | none => (s, "bad-op")
    | none => (s, "bad-op")
  | "get" :: o :: nm :: tg :: rest =>
    match s.obj o, Tag.ofName tg with
    | some x, some t =>
      if !x.live then (s, "noobj")
      else if !hasWrapper o "get" tg then (s, "nowrapper")
      else
        let r := OptSpec.get x.getL x.st (parentStore s o) nm t
        if r.1 != 0 then (s, s!"{r.1} untouched")
        else if rest == ["nv"] then (s, "0 v=*")
        else
          match r.2 with
          | some v => (s, s!"0 v={showVal v}")
          | none => (s, "0 v=?")
    | _, _ => (s, "bad-op")
  | _ =>
    match openStep s ws with
    | some r => r
    | none => (s, ((pipeOpsSpec s ws).orElse (fun _ => (cinSpec ws).orElse (fun _ => (coutSpec ws).orElse (fun _ => strSpec ws)))).getD "bad-op")

/-- the specification judges with the documented ranges (Spec/Options.lean docRange) -/
def docObj (o : Obj) : Obj :=
  { o with setL := o.setL.map (fun tb => tb.map OptSpec.docOverride),
           getL := o.getL.map (fun l => (l.1, l.2.map OptSpec.docOverride)) }

def sstepDoc (s : St) (ws : List String) : St × String :=
  let (s', out) := sstep s ws
  match ws with
  | ["open", _] => ({ s' with s := docObj s'.s }, out)
  | ["ctx"] => ({ s' with c := docObj s'.c }, out)
  | ["dialer", _] => ({ s' with d := docObj s'.d }, out)
  | ["listener", _] => ({ s' with l := docObj s'.l }, out)
  | ["wspipe", _] => ({ s' with p := docObj s'.p }, out)
  | _ => (s', out)

def model : Component := { σ := St, init := {}, step := mstep }
def spec : Component := { σ := St, init := {}, step := sstepDoc }

def components : List (String × Component) := [("opt-model", model), ("opt-spec", spec)]

end Nng.Driver.Options
