/- driver components for the HTTP request/response layer: `http-model`, `http-spec`
   (line protocol of harness/u_http.c) -/
import NngModel.Driver.Common
import NngModel.Model.HttpConn
import NngModel.Spec.HttpConn
namespace Nng.Driver.HttpConn
open Nng

def renderHdrs (hs : List (Bytes × Bytes)) : Bytes :=
  hs.foldr (fun h acc => h.1 ++ [0x3A, 0x20] ++ h.2 ++ [0x0A] ++ acc) []

def hdrText (verbose : Bool) (hs : List (Bytes × Bytes)) : String :=
  let t := renderHdrs hs
  s!" nh={hs.length} hd={digest t}" ++ (if verbose then s!" hdrs={toHex t}" else "")

def reqText (verbose : Bool) (status : Nat) (meth uri vers : Bytes) (hs : List (Bytes × Bytes)) : String :=
  s!" status={status} meth={toHex meth} uri={toHex uri} vers={toHex vers}" ++ hdrText verbose hs

def resText (verbose : Bool) (status : Nat) (rsn vers : Bytes) (hs : List (Bytes × Bytes)) : String :=
  s!" status={status} rsn={toHex rsn} vers={toHex vers}" ++ hdrText verbose hs

/-! ## model -/
open Nng.HttpConn in
inductive Cur where
  | none
  | req
  | res
  | full (got : Bytes) (need : Nat) (direct : Bool)
  | disc (left : Nat)

structure MState where
  c : Option HttpConn.Conn := none
  client : Bool := false
  cur : Cur := .none
  rv : Nat := 0
  want : Nat := 0
  inq : Bytes := []
  taken : Nat := 0
  body : Bytes := []
  verbose : Bool := false

namespace M
open Nng.HttpConn

def pairs (hs : List Hdr) : List (Bytes × Bytes) := hs.map fun h => (h.name, h.value)

def tail (s : MState) (c : Conn) (w : Nat) : String := s!" | g={c.get} p={c.put} w={w}"

/-- built-in reason for the few codes the tests leave without an explicit reason -/
def reasonOf (m : Msg) : Bytes :=
  match m.rsn with
  | some r => r
  | none => if getStatus m = 200 then ofNats [79, 75] else ofNats [63]

/-- one delivery step of the pending physical read; returns none when nothing can move -/
def pumpStep (s : MState) (c : Conn) : Option (MState × Conn) :=
  if s.inq.isEmpty then none
  else
    match s.cur with
    | .none => none
    | .req | .res =>
      let isReq := match s.cur with | .req => true | _ => false
      if s.rv ≠ rvAgain || s.want = 0 then none
      else
        let k := min s.want s.inq.length
        let r := rdCb isReq c (s.inq.take k)
        some ({ s with inq := s.inq.drop k, taken := s.taken + k, rv := r.rv, want := r.want }, r.c)
    | .full got need direct =>
      if s.rv ≠ rvAgain || need = 0 then none
      else
        -- direct read into the user buffer (the connection buffer is drained)
        let _ := direct
        let k := min need s.inq.length
        let u := rdBufFull false c (got ++ s.inq.take k) (need - k)
        some ({ s with inq := s.inq.drop k, taken := s.taken + k, cur := .full u.got u.need u.direct,
                       rv := if u.fin then rvOk else rvAgain, want := u.need }, u.c)
    | .disc left =>
      if s.rv ≠ rvAgain || s.want = 0 then none
      else
        let k := min s.want s.inq.length
        let r := rdBufDiscard { c with pend := c.pend ++ s.inq.take k } left
        some ({ s with inq := s.inq.drop k, taken := s.taken + k, cur := .disc r.2.1,
                       rv := if r.2.1 = 0 then rvOk else rvAgain, want := r.2.2 }, r.1)

def pump : Nat → MState → Conn → MState × Conn
  | 0, s, c => (s, c)
  | fuel + 1, s, c =>
    match pumpStep s c with
    | none => (s, c)
    | some (s', c') => pump fuel s' c'

/-- report after an op line -/
def status (op : String) (s : MState) (c : Conn) : MState × String :=
  match s.cur with
  | .none => ({ s with c := some c }, s!"{op} idle" ++ tail s c 0)
  | cur =>
    if s.rv = rvAgain then ({ s with c := some c }, s!"{op} wait" ++ tail s c s.want)
    else
      let s' := { s with c := some c, cur := Cur.none, want := 0 }
      if s.rv ≠ rvOk then (s', s!"{op} err rv={s.rv}" ++ tail s c 0)
      else
        let body := match cur with
          | .req => reqText s.verbose (getStatus c.m) c.m.meth (getUri c.m) c.m.vers (pairs c.m.reqHdrs)
          | .res => resText s.verbose (getStatus c.m) (reasonOf c.m) c.m.vers (pairs c.m.resHdrs)
          | .full got _ _ => s!" data={digest got}"
          | _ => ""
        (s', s!"{op} done rv=0" ++ body ++ s!" pos={s.taken - c.pend.length}" ++ tail s c 0)

def run (op : String) (s : MState) (c : Conn) : MState × String :=
  let (s1, c1) := pump (s.inq.length + 1) s c
  status op s1 c1

def hexArg (h : String) : Option Bytes := parseHex h

def step (s : MState) (ws : List String) : MState × String :=
  match ws with
  | ["verbose"] => ({ s with verbose := true }, "ok")
  | ["conn", cl] => ({ c := some {}, client := cl != "0", verbose := s.verbose }, "conn ok")
  | ["scan", h] =>
    match parseHex h with
    | some b =>
      match scanLine b with
      | .line l cr => (s, s!"scan rv=0 cnt={l + 1} line={toHex (lineOf b l cr)}")
      | .proto => (s, s!"scan rv={rvProto}")
      | .again => (s, s!"scan rv={rvAgain}")
    | none => (s, "bad-op")
  | op :: args =>
    match s.c with
    | none => (s, "no-conn")
    | some c =>
      let busy := match s.cur with | .none => false | _ => true
      match op, args with
      | "rx", [h] =>
        match parseHex h with
        | some b => run "rx" { s with inq := s.inq ++ b } c
        | none => (s, "bad-op")
      | "req", [] =>
        if busy then (s, "req busy") else
        let r := readReq c
        run "req" { s with cur := .req, rv := r.rv, want := r.want, body := [] } r.c
      | "res", [] =>
        if busy then (s, "res busy") else
        let r := readRes c
        run "res" { s with cur := .res, rv := r.rv, want := r.want } r.c
      | "full", [n] =>
        if busy then (s, "full busy") else
        match n.toNat? with
        | some n =>
          if c.closed then status "full" { s with cur := .full [] n false, rv := rvClosed } c else
          let u := rdBufFull false c [] n
          run "full" { s with cur := .full u.got u.need u.direct, rv := if u.fin then rvOk else rvAgain, want := u.need } u.c
        | none => (s, "bad-op")
      | "disc", [n] =>
        if busy then (s, "disc busy") else
        match n.toNat? with
        | some n =>
          if c.closed then status "disc" { s with cur := .disc n, rv := rvClosed } c else
          let r := rdBufDiscard c n
          run "disc" { s with cur := .disc r.2.1, rv := if r.2.1 = 0 then rvOk else rvAgain, want := r.2.2 } r.1
        | none => (s, "bad-op")
      | "setm", [h] =>
        match parseHex h with
        | some b => ({ s with c := some { c with m := setMethod c.m b } }, "setm ok")
        | none => (s, "bad-op")
      | "seturi", [h] =>
        match parseHex h with
        | some b => ({ s with c := some { c with m := setUri c.m b } }, "seturi rv=0")
        | none => (s, "bad-op")
      | "setv", [h] =>
        match parseHex h with
        | some b =>
          match setVersion c.m b with
          | some m => ({ s with c := some { c with m := m } }, "setv rv=0")
          | none => (s, s!"setv rv={rvNotSup}")
        | none => (s, "bad-op")
      | "sets", [code, h] =>
        match code.toNat?, parseHex h with
        | some code, some b => ({ s with c := some { c with m := setStatusReason c.m code b } }, "sets ok")
        | _, _ => (s, "bad-op")
      | "seth", [k, v] =>
        match parseHex k, parseHex v with
        | some k, some v => ({ s with c := some { c with m := setHeader c.m s.client k v } }, "seth rv=0")
        | _, _ => (s, "bad-op")
      | "addh", [k, v] =>
        match parseHex k, parseHex v with
        | some k, some v => ({ s with c := some { c with m := addHeader c.m s.client k v } }, "addh rv=0")
        | _, _ => (s, "bad-op")
      | "body", [h] =>
        match parseHex h with
        | some b =>
          -- nni_http_copy_body: the body and the Content-Length header
          let m := withHdrs c.m s.client (setStatic (hdrsOf c.m s.client) 3 sContentLength (decimal b.length))
          ({ s with c := some { c with m := m }, body := b }, "body rv=0")
        | none => (s, "bad-op")
      | "emit", [] =>
        if c.closed then (s, s!"emit rv={rvClosed} n=0" ++ tail s c 0) else
        let head := if s.client then emitReq c.m else emitRes c.m (reasonOf c.m)
        let b := head ++ s.body
        let fields := if s.client then reqText s.verbose (getStatus c.m) c.m.meth (getUri c.m) c.m.vers (pairs c.m.reqHdrs)
                      else resText s.verbose (getStatus c.m) (reasonOf c.m) c.m.vers (pairs c.m.resHdrs)
        (s, s!"emit rv=0 n={b.length} b={toHex b}" ++ fields ++ s!" body={digest s.body}" ++ tail s c 0)
      | _, _ => (s, "bad-op")
  | _ => (s, "bad-op")

end M

def model : Component := { σ := MState, init := {}, step := M.step }

/-! ## specification: everything is computed from the whole byte stream received so far -/

def params : HttpSpec.Params where
  maxLine := HttpConn.bufsz
  mark := HttpConn.marker
  versions := HttpConn.versions
  methMax := HttpConn.methSize - 1
  hostMax := HttpConn.hostSize - 1
  ctypeMax := HttpConn.ctypeSize - 1
  clenMax := HttpConn.clenSize - 1
  statusMin := HttpConn.statusMin
  statusMax := HttpConn.statusMax
  canon := Url.canonify

inductive SCur where
  | none | req | res | full (n : Nat) | disc (n : Nat)

structure SState where
  live : Bool := false
  dead : Bool := false
  client : Bool := false
  stream : Bytes := []
  pos : Nat := 0
  cur : SCur := .none
  host : Bytes := []          -- the connection remembers the last Host value (see hand-over note)
  res : HttpSpec.Res := { vers := HttpConn.defaultVersion }
  rq : HttpSpec.St HttpSpec.Req := .fail 0     -- decoder state of the outstanding `req` (a fold: fed incrementally)
  rs : HttpSpec.St HttpSpec.Res := .fail 0
  verbose : Bool := false

namespace S
open Nng.HttpSpec

def reqInit (host : Bytes) : Req :=
  { vers := HttpConn.defaultVersion, hdrs := if host.isEmpty then [] else [(sHost, host)] }

def hostOf (hs : List Field) (old : Bytes) : Bytes :=
  match hs.find? fun h => h.1 == sHost with
  | some h => h.2
  | none => old

/-- `decode` is a left fold over the stream, so the bytes of one `rx` are folded into the state reached
    before (List.foldl_append) -/
def feedReq (st : St Req) (b : Bytes) : St Req := b.foldl (stepByte (reqSem params) params.maxLine params.mark) st
def feedRes (st : St Res) (b : Bytes) : St Res := b.foldl (stepByte (resSem params) params.maxLine params.mark) st

def eval (op : String) (s : SState) : SState × String :=
  if s.dead then
    match s.cur with
    | .none => (s, s!"{op} idle")
    | _ => ({ s with cur := .none }, s!"{op} err rv={Err.eclosed}")
  else
  let avail := s.stream.drop s.pos
  match s.cur with
  | .none => (s, s!"{op} idle")
  | .req =>
    match s.rq with
    | .run _ _ _ _ => (s, s!"{op} wait")
    | .fail rv => ({ s with dead := true, cur := .none }, s!"{op} err rv={rv}")
    | .done r n =>
      ({ s with pos := s.pos + n, cur := .none, host := hostOf r.hdrs s.host },
       s!"{op} done rv=0" ++ Nng.Driver.HttpConn.reqText s.verbose r.effStatus r.meth r.uri r.vers r.hdrs ++ s!" pos={s.pos + n}")
  | .res =>
    match s.rs with
    | .run _ _ _ _ => (s, s!"{op} wait")
    | .fail rv => ({ s with dead := true, cur := .none }, s!"{op} err rv={rv}")
    | .done r n =>
      ({ s with pos := s.pos + n, cur := .none, res := r },
       s!"{op} done rv=0" ++ Nng.Driver.HttpConn.resText s.verbose (if r.status ≠ 0 then r.status else 200) (r.reason.getD []) r.vers r.hdrs
         ++ s!" pos={s.pos + n}")
  | .full n =>
    if avail.length ≥ n then
      ({ s with pos := s.pos + n, cur := .none }, s!"{op} done rv=0 data={digest (avail.take n)} pos={s.pos + n}")
    else (s, s!"{op} wait")
  | .disc n =>
    if avail.length ≥ n then ({ s with pos := s.pos + n, cur := .none }, s!"{op} done rv=0 pos={s.pos + n}")
    else (s, s!"{op} wait")

/-- what an emitted head decodes to -/
def chkEmit (s : SState) (b : Bytes) : String :=
  if s.client then
    match decodeReq params (reqInit []) b with
    | .done r n => s!"emit rv=0 n={b.length}" ++ Nng.Driver.HttpConn.reqText s.verbose r.effStatus r.meth r.uri r.vers r.hdrs
                     ++ s!" body={digest (b.drop n)}"
    | .run _ _ _ _ => "emit undecodable: head incomplete"
    | .fail rv => s!"emit undecodable: rv={rv}"
  else
    match decodeRes params { vers := HttpConn.defaultVersion } b with
    | .done r n => s!"emit rv=0 n={b.length}" ++ Nng.Driver.HttpConn.resText s.verbose r.status (r.reason.getD []) r.vers r.hdrs
                     ++ s!" body={digest (b.drop n)}"
    | .run _ _ _ _ => "emit undecodable: head incomplete"
    | .fail rv => s!"emit undecodable: rv={rv}"

def busy (s : SState) : Bool := match s.cur with | .none => false | _ => true

def step (s : SState) (ws : List String) : SState × String :=
  match ws with
  | ["verbose"] => ({ s with verbose := true }, "ok")
  | ["conn", cl] => ({ live := true, client := cl != "0", verbose := s.verbose }, "conn ok")
  | ["scan", _] => (s, "scan")
  | op :: args =>
    if !s.live then (s, "no-conn") else
    match op, args with
    | "rx", [h] =>
      match parseHex h with
      | some b => eval "rx" { s with stream := s.stream ++ b, rq := feedReq s.rq b, rs := feedRes s.rs b }
      | none => (s, "bad-op")
    | "req", [] =>
      if busy s then (s, "req busy")
      else eval "req" { s with cur := .req, rq := feedReq (.run (reqInit s.host) [] 0 0) (s.stream.drop s.pos), rs := .fail 0 }
    | "res", [] =>
      if busy s then (s, "res busy")
      else eval "res" { s with cur := .res, rs := feedRes (.run s.res [] 0 0) (s.stream.drop s.pos), rq := .fail 0 }
    | "full", [n] =>
      match n.toNat? with
      | some n => if busy s then (s, "full busy") else eval "full" { s with cur := .full n }
      | none => (s, "bad-op")
    | "disc", [n] =>
      match n.toNat? with
      | some n => if busy s then (s, "disc busy") else eval "disc" { s with cur := .disc n }
      | none => (s, "bad-op")
    | "setm", [_] => (s, "setm ok")
    | "seturi", [_] => (s, "seturi rv=0")
    | "setv", [_] => (s, "setv")
    | "sets", [_, _] => (s, "sets ok")
    | "seth", [_, _] => (s, "seth rv=0")
    | "addh", [_, _] => (s, "addh rv=0")
    | "body", [_] => (s, "body rv=0")
    | "chk-emit", [h] =>
      match parseHex h with
      | some b => (s, chkEmit s b)
      | none => (s, "bad-op")
    | "emit", [] => (s, "emit skipped")
    | _, _ => (s, "bad-op")
  | _ => (s, "bad-op")

end S

def spec : Component := { σ := SState, init := {}, step := S.step }

def components : List (String × Component) := [("http-model", model), ("http-spec", spec)]

end Nng.Driver.HttpConn
