/- line-protocol plumbing shared by all component drivers -/
import NngModel.Base.Bytes
namespace Nng.Driver

def words (line : String) : List String :=
  (line.trimAscii.toString.splitOn " ").filter (· ≠ "")

/-- a component driver: state, initial state, one line in → state and one line out -/
structure Component where
  σ : Type
  init : σ
  step : σ → List String → σ × String

partial def loop (c : Component) (h : IO.FS.Stream) (out : IO.FS.Stream) (s : c.σ) : IO Unit := do
  let line ← h.getLine
  if line.isEmpty then return ()
  let ws := words line
  if ws.isEmpty then loop c h out s
  else if ws == ["reset"] then
    out.putStrLn "reset"
    loop c h out c.init
  else
    let (s', o) := c.step s ws
    out.putStrLn o
    loop c h out s'

def run (c : Component) : IO Unit := do
  let i ← IO.getStdin
  let o ← IO.getStdout
  loop c i o c.init
  o.flush

def natArg (s : String) : Option Nat := s.toNat?

end Nng.Driver
