/- driver components for the REP / XREP / XREQ models and the C04 (replier half) judges -/
import NngModel.Driver.Common
import NngModel.Driver.Pipeline
import NngModel.Model.Rep
import NngModel.Model.Xrep
import NngModel.Model.Xreq
import NngModel.Spec.Rep
import NngModel.Spec.RawReqRep
namespace Nng.Driver.Rep
open Nng Nng.Proto Nng.Driver Nng.Driver.Pipeline

/-- the check writes the header of an XREP send as `P<pipe>+<hex>`: "this pipe's id, then <hex>";
    the models use the canonical id `pipe + 1` -/
def canonHdr (w : String) : String :=
  if w.startsWith "P" then
    match (w.drop 1).toString.splitOn "+" with
    | [p, rest] =>
      match p.toNat? with
      | some p => toHex (Nng.Xrep.idWord p) ++ (if rest == "-" then "" else rest)
      | none => w
    | _ => w
  else w

def canonWords (ws : List String) : List String :=
  match ws with
  | ["send", c, a, h, b, m] => ["send", c, a, canonHdr h, b, m]
  | _ => ws

/-- model component for XREP: `pipe_id <p>` answers the canonical id, headers are canonicalised -/
def xrepComponent : Component :=
  let inner := protoComponent ({} : Nng.Xrep.State) Nng.Xrep.step
  { σ := inner.σ, init := inner.init,
    step := fun s ws =>
      match ws with
      | ["pipe_id", p] => (s, match p.toNat? with | some p => s!"rv 0 {p + 1}" | none => "bad-op")
      | _ => inner.step s (canonWords ws) }

/-- judge component for XREP: send headers are canonicalised like in the model component -/
def xrepJudgeComponent : Component :=
  let inner := judgeComponent ({} : Nng.RawSpec.RawJ) (Nng.RawSpec.rawStep true) (·.err)
  { σ := inner.σ, init := inner.init,
    step := fun s ws =>
      let (evw, outw) := ws.span (· ≠ "=>")
      inner.step s (canonWords evw ++ outw) }

def components : List (String × Component) := [
  ("rep-model", protoComponent ({} : Nng.Rep.State) Nng.Rep.step),
  ("rep-judge", judgeComponent ({} : Nng.RepSpec.RepJ) Nng.RepSpec.repStep (·.err)),
  ("xrep-model", xrepComponent),
  ("xreq-model", protoComponent ({} : Nng.Xreq.State) Nng.Xreq.step),
  ("xrep-judge", xrepJudgeComponent),
  ("xreq-judge", judgeComponent ({} : Nng.RawSpec.RawJ) (Nng.RawSpec.rawStep false) (·.err))
]

end Nng.Driver.Rep
