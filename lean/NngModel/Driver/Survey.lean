/- driver components for the SURVEYOR / RESPONDENT models and the C07 judges -/
import NngModel.Driver.Common
import NngModel.Driver.Pipeline
import NngModel.Model.Survey
import NngModel.Model.Respond
import NngModel.Spec.Survey
namespace Nng.Driver.Survey
open Nng Nng.Proto Nng.Driver

/-- `reseed <n>` (harness: restart the random stream behind id allocation) is answered
    `ok` and changes nothing: the models use canonical ids -/
def withReseed (c : Component) : Component :=
  { σ := c.σ, init := c.init,
    step := fun s ws =>
      match ws with
      | "reseed" :: _ => (s, "ok")
      | _ => c.step s ws }

def components : List (String × Component) := [
  ("surveyor-model", withReseed (Nng.Driver.Pipeline.protoComponent ({} : Nng.Survey.State) Nng.Survey.step)),
  ("respondent-model", withReseed (Nng.Driver.Pipeline.protoComponent ({} : Nng.Respond.State) Nng.Respond.step)),
  ("surveyor-judge", withReseed (Nng.Driver.Pipeline.judgeComponent ({} : Nng.SurveySpec.SurvJ) Nng.SurveySpec.survStep (·.err))),
  ("respondent-judge", withReseed (Nng.Driver.Pipeline.judgeComponent ({} : Nng.SurveySpec.RespJ) Nng.SurveySpec.respStep (·.err)))
]

end Nng.Driver.Survey
