/- driver components for C11:
   `hostile-model`  evaluates Model/Hostile.lean on one hostile session (prediction),
   `hostile-judge`  checks what the implementation delivered from a session against
                    Spec/Hostile.lean (+ the C13 specification of protocol headers) only,
   both stateless: one line in, one line out.

   session line:
     sess <tcp|ipc|sfd> <rcvmax> <proto> <raw 0|1> <ttl> <subprefix-hex> <busy 0|1> <chunk-hex>...
   model answer:
     phase=<nego|up|dead> err=<n> tp=<k> pclose=<0|1> n=<k> [D <hdr-hex> <body-hex>]...
       (tp: messages the transport handed to the protocol; raw REP/RESPONDENT/BUS headers carry
        pipe id 0 in their first word — the checker substitutes the real one)
   judge line:  <session line> => <closed 0|1> [D <hdr-hex> <body-hex>]...     answer: ok | VIOLATION <clause>
   other model lines:
     gen <tcp|ipc|sfd> <peer-proto> [<payload-hex>...]      -> hex of handshake ++ frames
     udp <known 0|1> <rcvmax-option> <datagram-hex>         -> decision
   judge: udp <known> <rcvmax-option> <datagram-hex> => <none | D <payload-hex>> -/
import NngModel.Driver.Common
import NngModel.Model.Hostile
import NngModel.Spec.Hostile
import NngModel.Spec.Backtrace
import NngModel.Generated.Base
import NngModel.Generated.C01
namespace Nng.Driver.Hostile
open Nng Nng.Sp Nng.Hostile Nng.Driver

def parseKind : String → Option Kind
  | "tcp" => some .tcp
  | "ipc" => some .ipc
  | "sfd" => some .tcp
  | _ => none

def parseProto : String → Option Proto
  | "pair0" => some .pair0
  | "pair1" => some .pair1
  | "rep" => some .rep
  | "req" => some .req
  | "sub" => some .sub
  | "pull" => some .pull
  | "bus" => some .bus
  | "surveyor" => some .surveyor
  | "respondent" => some .respondent
  | _ => none

structure Sess where
  cfg : Cfg
  pc : PCfg
  chunks : List Bytes

def parseSess : List String → Option Sess
  | k :: rm :: p :: raw :: ttl :: sp :: busy :: chunks => do
    let kind ← parseKind k
    let proto ← parseProto p
    pure { cfg := ⟨kind, ← rm.toNat?⟩,
           pc := { proto := proto, raw := raw == "1", ttl := ← ttl.toNat?, subPrefix := ← parseHex sp,
                   busy := busy == "1" },
           chunks := ← chunks.mapM parseHex }
  | _ => none

def showPhase : Phase → String
  | .nego => "nego"
  | .up => "up"
  | .dead => "dead"

def modelSess (s : Sess) : String :=
  let c := connRun s.cfg s.pc (connInit s.cfg.kind) s.chunks
  let tp := c.rx.out
  let (ds, pclose) := appOut s.pc 0 none tp
  let acc := c.phase == .up || (c.phase == .dead && c.rx.err != 0)
  s!"phase={showPhase c.phase} acc={if acc then 1 else 0} err={c.err} tp={tp.length} pclose={if pclose then 1 else 0} n={ds.length}" ++
    String.join (ds.map fun (h, b) => s!" D {toHex h} {toHex b}")

def showUdp : UdpAct → String
  | .ignore => "ignore"
  | .noMatch => "nomatch"
  | .data p => s!"data {toHex p}"
  | .discMsgsize => "disc-msgsize"
  | .creq t r f => s!"creq {t} {r} {f}"
  | .cack t r f => s!"cack {t} {r} {f}"
  | .disc r => s!"disc {r}"
  | .discProto => "disc-proto"

def modelStep (ws : List String) : String :=
  let r : Option String :=
    match ws with
    | "sess" :: rest => do pure (modelSess (← parseSess rest))
    | "gen" :: k :: peer :: payloads => do
      let kind ← parseKind k
      let ps ← payloads.mapM parseHex
      pure (toHex (handshake (← peer.toNat?) ++ stream kind (ps.map fun p => ⟨[], p⟩)))
    | ["udp", known, rm, d] => do
      pure (showUdp (udpRxCb (← parseHex d) (known == "1") (udpSetRecvMax (← rm.toNat?))))
    | _ => none
  r.getD "bad-op"

/-! ### judge (specification only) -/

open Nng.HostileSpec Nng.BtSpec

def specFraming (k : Kind) (rcvmax : Nat) : Framing :=
  { typeByte := match k with
      | .ipc => some (UInt8.ofNat Generated.c01IpcMsgType)
      | .tcp => none,
    maxValid := Generated.c01MaxStreamMsgSz, rcvmax := rcvmax }

/-- the specification's verdict on one transport message for a socket of this kind:
    `some (bt, payload)` accept, `none` with flag malformed -/
def verdictOf (pc : PCfg) (w : Bytes) : Verdict :=
  match pc.proto, pc.raw with
  | .rep, _ => classify pc.ttl w
  | .respondent, _ => classify pc.ttl w
  | .pair1, _ => classifyHop pc.ttl w
  | .req, true => classifyNoTtl (Generated.maxMaxTtl + 1) w
  | .surveyor, true => classifyNoTtl (Generated.maxMaxTtl + 1) w
  | .req, false => if w.length < 4 then .malformed else .drop      -- nothing outstanding in these sessions
  | .surveyor, false => if w.length < 4 then .malformed else .drop
  | .sub, _ => if pc.subPrefix.length ≤ w.length && w.take pc.subPrefix.length == pc.subPrefix
               then .accept [] w else .drop
  | _, _ => .accept [] w

/-- does the observed (header, body) fit an accepted message with backtrace `bt`? raw sockets
    show the backtrace (REP/RESPONDENT/BUS behind a 4-byte pipe id), cooked ones nothing -/
def headerFits (pc : PCfg) (bt h : Bytes) : Bool :=
  match pc.proto, pc.raw with
  | .rep, true => h.drop 4 == bt && h.length == bt.length + 4
  | .respondent, true => h.drop 4 == bt && h.length == bt.length + 4
  | .bus, true => h.length == 4
  | .req, true => h == bt
  | .surveyor, true => h == bt
  | .pair1, _ => h == bt
  | _, _ => true     -- cooked: the header is not part of what the application is promised

/-- an observed body: the bytes, or (for long ones) the digest form `L<len>:<fnv64>` the harness prints -/
inductive Obs where
  | bytes (b : Bytes)
  | dig (len : Nat) (s : String)

def Obs.length : Obs → Nat
  | .bytes b => b.length
  | .dig n _ => n

def Obs.isPayload (o : Obs) (p : Bytes) : Bool :=
  match o with
  | .bytes b => p == b
  | .dig n s => p.length == n && ("L" ++ digest p) == s

def parseObs (t : String) : Option Obs :=
  if t.startsWith "L" then
    match (t.drop 1).toString.splitOn ":" with
    | [n, _] => do pure (.dig (← n.toNat?) t)
    | _ => none
  else do pure (.bytes (← parseHex t))

/-- greedy in-order matching of the deliveries against the deliverable, acceptable frames -/
def matchDeliveries (pc : PCfg) : List Bytes → List (Bytes × Obs) → Option String
  | _, [] => none
  | [], _ :: _ => some "delivered a message that is not a deliverable frame of the peer's stream"
  | w :: ws, (h, b) :: ds =>
    match verdictOf pc w with
    | .malformed => some "delivered a message from or after a frame with a malformed protocol header"
    | .drop => matchDeliveries pc ws ((h, b) :: ds)
    | .accept bt p =>
      if b.isPayload p && headerFits pc bt h then matchDeliveries pc ws ds
      else matchDeliveries pc ws ((h, b) :: ds)

def parseDeliveries : List String → Option (List (Bytes × Obs))
  | [] => some []
  | "D" :: h :: b :: rest => do
    let r ← parseDeliveries rest
    pure ((← parseHex h, ← parseObs b) :: r)
  | _ => none

def judgeSess (s : Sess) (ds : List (Bytes × Obs)) : Option String :=
  let stream := s.chunks.flatten
  if ds.isEmpty then none
  else if stream.take 8 ≠ exactHandshake s.pc.proto.peer then
    some "delivery on a connection whose negotiation header is not the exact 8 bytes for the peer protocol"
  else if s.pc.busy then some "delivery from a second connection on a PAIR socket"
  else if s.cfg.rcvmax ≠ 0 ∧ ds.any (fun hb => decide (hb.2.length > s.cfg.rcvmax)) then
    some "delivered a message larger than NNG_OPT_RECVMAXSZ"
  else
    let frames := (parse (specFraming s.cfg.kind s.cfg.rcvmax) (stream.drop 8)).1
    matchDeliveries s.pc frames ds

def judgeStep (ws : List String) : String :=
  let (q, o) := ws.span (· ≠ "=>")
  let obs := o.drop 1
  let r : Option (Option String) :=
    match q with
    | "sess" :: rest => do
      let s ← parseSess rest
      let ds ← parseDeliveries (obs.drop 1)
      pure (judgeSess s ds)
    | ["udp", known, rm, d] => do
      let d ← parseHex d
      let rmv ← rm.toNat?
      let lim := if rmv = 0 ∨ rmv > 65000 then 65000 else rmv
      match obs with
      | ["none"] => pure none
      | ["D", p] =>
        let p ← parseHex p
        pure (if udpAllowed d (known == "1") lim p then none
              else some "a datagram payload was delivered that the SP/UDP rules forbid (unknown peer, wrong version/opcode, declared length beyond the datagram or the limit, or not the declared part)")
      | _ => none
    | _ => none
  match r with
  | none => "bad-op"
  | some none => "ok"
  | some (some c) => s!"VIOLATION {c}"

def model : Component := { σ := Unit, init := (), step := fun _ ws => ((), modelStep ws) }
def judge : Component := { σ := Unit, init := (), step := fun _ ws => ((), judgeStep ws) }

def components : List (String × Component) := [("hostile-model", model), ("hostile-judge", judge)]

end Nng.Driver.Hostile
