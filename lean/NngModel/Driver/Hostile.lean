/- driver components for C11:
   `hostile-model`  evaluates Model/Hostile.lean on one hostile session (prediction),
   `hostile-judge`  checks what the implementation delivered from a session against
                    Spec/Hostile.lean (+ the C13 specification of protocol headers) only,
   both stateless: one line in, one line out.

   session line:
     sess <tcp|ipc|sfd> <rcvmax> <proto> <raw 0|1> <ttl> <subprefix-hex> <busy 0|1> <chunk-hex>...
   model answer:
     phase=<nego|up|dead> err=<n> tp=<k> pclose=<0|1> n=<k> [D <hdr-hex> <body-hex>]...
       (tp: messages the transport handed to the protocol; raw REP/RESPONDENT/BUS headers carry
        pipe id 0 in their first word — the checker substitutes the real one)
   judge line:  <session line> => <closed 0|1> [D <hdr-hex> <body-hex>]...     answer: ok | VIOLATION <clause>
   other model lines:
     gen <tcp|ipc|sfd> <peer-proto> [<payload-hex>...]      -> hex of handshake ++ frames
     udp <known 0|1> <rcvmax-option> <datagram-hex>         -> decision
   judge: udp <known> <rcvmax-option> <datagram-hex> => <none | D <payload-hex>>
   SP/UDP session (C11B):
     udps <rcvmax-option> <proto> <raw> <ttl> <subprefix-hex> <busy> <others> <src>:<datagram-hex>...
       -> n=<k> then per datagram  <act>/<replies c|d<reason>,..|->/<adds>/<reaps>/<-|hdr-hex:body-hex>
   ws:// session (C11B):
     wss <rcvmax> <proto> <raw> <ttl> <subprefix-hex> <busy> <host-hex> <subprotocol-hex> <chunk-hex>...
       -> st=<status,..|-> up=<0|1> sclose=<0|1> wsclosed=<0|1> tx=<frame-hex,..|-> tp=<k> pclose=<0|1> n=<k> [D <hdr> <body>]...
     judge: <wss line> => 0 [D <hdr> <body>]...  (specification only: RFC 6455 reference decoder of Spec/Ws.lean) -/
import NngModel.Driver.Common
import NngModel.Model.Hostile
import NngModel.Model.HostileNet
import NngModel.Spec.Ws
import NngModel.Spec.Hostile
import NngModel.Spec.Backtrace
import NngModel.Generated.Base
import NngModel.Generated.C01
namespace Nng.Driver.Hostile
open Nng Nng.Sp Nng.Hostile Nng.Driver

def parseKind : String → Option Kind
  | "tcp" => some .tcp
  | "ipc" => some .ipc
  | "sfd" => some .tcp
  | _ => none

def parseProto : String → Option Proto
  | "pair0" => some .pair0
  | "pair1" => some .pair1
  | "rep" => some .rep
  | "req" => some .req
  | "sub" => some .sub
  | "pull" => some .pull
  | "bus" => some .bus
  | "surveyor" => some .surveyor
  | "respondent" => some .respondent
  | _ => none

structure Sess where
  cfg : Cfg
  pc : PCfg
  chunks : List Bytes

def parseSess : List String → Option Sess
  | k :: rm :: p :: raw :: ttl :: sp :: busy :: chunks => do
    let kind ← parseKind k
    let proto ← parseProto p
    pure { cfg := ⟨kind, ← rm.toNat?⟩,
           pc := { proto := proto, raw := raw == "1", ttl := ← ttl.toNat?, subPrefix := ← parseHex sp,
                   busy := busy == "1" },
           chunks := ← chunks.mapM parseHex }
  | _ => none

def showPhase : Phase → String
  | .nego => "nego"
  | .up => "up"
  | .dead => "dead"

def modelSess (s : Sess) : String :=
  let c := connRun s.cfg s.pc (connInit s.cfg.kind) s.chunks
  let tp := c.rx.out
  let (ds, pclose) := appOut s.pc 0 none tp
  let acc := c.phase == .up || (c.phase == .dead && c.rx.err != 0)
  s!"phase={showPhase c.phase} acc={if acc then 1 else 0} err={c.err} tp={tp.length} pclose={if pclose then 1 else 0} n={ds.length}" ++
    String.join (ds.map fun (h, b) => s!" D {toHex h} {toHex b}")

def showUdp : UdpAct → String
  | .ignore => "ignore"
  | .noMatch => "nomatch"
  | .data p => s!"data {toHex p}"
  | .discMsgsize => "disc-msgsize"
  | .creq t r f => s!"creq {t} {r} {f}"
  | .cack t r f => s!"cack {t} {r} {f}"
  | .disc r => s!"disc {r}"
  | .discProto => "disc-proto"

def showAct : UdpAct → String
  | .ignore => "ignore"
  | .noMatch => "nomatch"
  | .data _ => "data"
  | .discMsgsize => "disc-msgsize"
  | .creq .. => "creq"
  | .cack .. => "cack"
  | .disc .. => "disc"
  | .discProto => "disc-proto"

def showRep : URep → String
  | .cack => "c"
  | .disc r => s!"d{r}"

def showUOut (o : UOut) : String :=
  let reps := if o.replies.isEmpty then "-" else ",".intercalate (o.replies.map showRep)
  let dl := match o.deliver with
    | none => "-"
    | some (h, b) => s!"{toHex h}:{toHex b}"
  s!"{showAct o.act}/{reps}/{o.adds}/{o.reaps}/{dl}"

def parseDg (t : String) : Option (Nat × Bytes) :=
  match t.splitOn ":" with
  | [a, b] => do pure (← a.toNat?, ← parseHex b)
  | _ => none

def parsePc (p raw ttl sp busy : String) : Option PCfg := do
  pure { proto := ← parseProto p, raw := raw == "1", ttl := ← ttl.toNat?, subPrefix := ← parseHex sp, busy := busy == "1" }

def modelUdps : List String → Option String
  | rm :: p :: raw :: ttl :: sp :: busy :: others :: dgs => do
    let pc ← parsePc p raw ttl sp busy
    let ds ← dgs.mapM parseDg
    let ep : UEp := { rcvmax := udpSetRecvMax (← rm.toNat?), others := ← others.toNat? }
    let outs := udpRun pc ep ds
    pure (s!"n={outs.length}" ++ String.join (outs.map fun o => " " ++ showUOut o))
  | _ => none

structure WsQ where
  l : WsL
  pc : PCfg
  stream : Bytes

def parseWss : List String → Option WsQ
  | rm :: p :: raw :: ttl :: sp :: busy :: host :: sub :: chunks => do
    let pc ← parsePc p raw ttl sp busy
    let cs ← chunks.mapM parseHex
    pure { l := { proto := ← parseHex sub, host := ← parseHex host, recvmax := ← rm.toNat? }, pc := pc, stream := cs.flatten }
  | _ => none

def b01 (b : Bool) : String := if b then "1" else "0"

def modelWss (ws : List String) : Option String := do
  let q ← parseWss ws
  let o := wsSess q.l q.pc q.stream
  let sts := if o.conn.statuses.isEmpty then "-" else ",".intercalate (o.conn.statuses.map toString)
  let tx := if o.closeTx.isEmpty then "-" else ",".intercalate (o.closeTx.map toHex)
  pure (s!"st={sts} up={b01 o.conn.upgraded} sclose={b01 o.conn.closedByServer} wsclosed={b01 o.wsClosed} tx={tx} tp={o.tp.length} " ++
    s!"pclose={b01 o.pclose} n={o.deliver.length}" ++ String.join (o.deliver.map fun (h, b) => s!" D {toHex h} {toHex b}"))

def modelStep (ws : List String) : String :=
  let r : Option String :=
    match ws with
    | "sess" :: rest => do pure (modelSess (← parseSess rest))
    | "gen" :: k :: peer :: payloads => do
      let kind ← parseKind k
      let ps ← payloads.mapM parseHex
      pure (toHex (handshake (← peer.toNat?) ++ stream kind (ps.map fun p => ⟨[], p⟩)))
    | ["udp", known, rm, d] => do
      pure (showUdp (udpRxCb (← parseHex d) (known == "1") (udpSetRecvMax (← rm.toNat?))))
    | "udps" :: rest => modelUdps rest
    | "wss" :: rest => modelWss rest
    | _ => none
  r.getD "bad-op"

/-! ### judge (specification only) -/

open Nng.HostileSpec Nng.BtSpec

def specFraming (k : Kind) (rcvmax : Nat) : Framing :=
  { typeByte := match k with
      | .ipc => some (UInt8.ofNat Generated.c01IpcMsgType)
      | .tcp => none,
    maxValid := Generated.c01MaxStreamMsgSz, rcvmax := rcvmax }

/-- the specification's verdict on one transport message for a socket of this kind:
    `some (bt, payload)` accept, `none` with flag malformed -/
def verdictOf (pc : PCfg) (w : Bytes) : Verdict :=
  match pc.proto, pc.raw with
  | .rep, _ => classify pc.ttl w
  | .respondent, _ => classify pc.ttl w
  | .pair1, _ => classifyHop pc.ttl w
  | .req, true => classifyNoTtl (Generated.maxMaxTtl + 1) w
  | .surveyor, true => classifyNoTtl (Generated.maxMaxTtl + 1) w
  | .req, false => if w.length < 4 then .malformed else .drop      -- nothing outstanding in these sessions
  | .surveyor, false => if w.length < 4 then .malformed else .drop
  | .sub, _ => if pc.subPrefix.length ≤ w.length && w.take pc.subPrefix.length == pc.subPrefix
               then .accept [] w else .drop
  | _, _ => .accept [] w

/-- does the observed (header, body) fit an accepted message with backtrace `bt`? raw sockets
    show the backtrace (REP/RESPONDENT/BUS behind a 4-byte pipe id), cooked ones nothing -/
def headerFits (pc : PCfg) (bt h : Bytes) : Bool :=
  match pc.proto, pc.raw with
  | .rep, true => h.drop 4 == bt && h.length == bt.length + 4
  | .respondent, true => h.drop 4 == bt && h.length == bt.length + 4
  | .bus, true => h.length == 4
  | .req, true => h == bt
  | .surveyor, true => h == bt
  | .pair1, _ => h == bt
  | _, _ => true     -- cooked: the header is not part of what the application is promised

/-- an observed body: the bytes, or (for long ones) the digest form `L<len>:<fnv64>` the harness prints -/
inductive Obs where
  | bytes (b : Bytes)
  | dig (len : Nat) (s : String)

def Obs.length : Obs → Nat
  | .bytes b => b.length
  | .dig n _ => n

def Obs.isPayload (o : Obs) (p : Bytes) : Bool :=
  match o with
  | .bytes b => p == b
  | .dig n s => p.length == n && ("L" ++ digest p) == s

def parseObs (t : String) : Option Obs :=
  if t.startsWith "L" then
    match (t.drop 1).toString.splitOn ":" with
    | [n, _] => do pure (.dig (← n.toNat?) t)
    | _ => none
  else do pure (.bytes (← parseHex t))

/-- greedy in-order matching of the deliveries against the deliverable, acceptable frames -/
def matchDeliveries (pc : PCfg) : List Bytes → List (Bytes × Obs) → Option String
  | _, [] => none
  | [], _ :: _ => some "delivered a message that is not a deliverable frame of the peer's stream"
  | w :: ws, (h, b) :: ds =>
    match verdictOf pc w with
    | .malformed => some "delivered a message from or after a frame with a malformed protocol header"
    | .drop => matchDeliveries pc ws ((h, b) :: ds)
    | .accept bt p =>
      if b.isPayload p && headerFits pc bt h then matchDeliveries pc ws ds
      else matchDeliveries pc ws ((h, b) :: ds)

def parseDeliveries : List String → Option (List (Bytes × Obs))
  | [] => some []
  | "D" :: h :: b :: rest => do
    let r ← parseDeliveries rest
    pure ((← parseHex h, ← parseObs b) :: r)
  | _ => none

def judgeSess (s : Sess) (ds : List (Bytes × Obs)) : Option String :=
  let stream := s.chunks.flatten
  if ds.isEmpty then none
  else if stream.take 8 ≠ exactHandshake s.pc.proto.peer then
    some "delivery on a connection whose negotiation header is not the exact 8 bytes for the peer protocol"
  else if s.pc.busy then some "delivery from a second connection on a PAIR socket"
  else if s.cfg.rcvmax ≠ 0 ∧ ds.any (fun hb => decide (hb.2.length > s.cfg.rcvmax)) then
    some "delivered a message larger than NNG_OPT_RECVMAXSZ"
  else
    let frames := (parse (specFraming s.cfg.kind s.cfg.rcvmax) (stream.drop 8)).1
    matchDeliveries s.pc frames ds

/-- positions just behind a blank line (LF LF or LF CR LF): where a request head can end -/
def headEnds : Nat → Bytes → List Nat
  | _, [] => []
  | i, c :: r =>
    let here := if c == 0x0A && (r.take 1 == [0x0A] ) then [i + 2]
                else if c == 0x0A && (r.take 2 == [0x0D, 0x0A]) then [i + 3] else []
    here ++ headEnds (i + 1) r

/-- specification-only judgement of what a ws:// connection delivered: every message within RECVMAXSZ, and the
    deliveries are, in order, messages the RFC 6455 reference decoder (client frames, binary only, nng's limits)
    yields from the bytes behind some request head of the stream, with a protocol header the socket may accept -/
def judgeWss (q : WsQ) (ds : List (Bytes × Obs)) : Option String :=
  if ds.isEmpty then none
  else if q.pc.busy then some "delivery from a second connection on a PAIR socket"
  else if q.l.recvmax ≠ 0 ∧ ds.any (fun hb => decide (hb.2.length > q.l.recvmax)) then
    some "delivered a message larger than NNG_OPT_RECVMAXSZ"
  else
    let lim : WsSpec.Limits := { maxframe := Generated.c11bWsDefMaxRxFrame, recvmax := q.l.recvmax, recvText := false }
    let ok := (headEnds 0 q.stream).any fun p =>
      (matchDeliveries q.pc (WsSpec.feed true lim {} (q.stream.drop p)).2 ds).isNone
    if ok then none
    else some "delivered a message that no sequence of valid client frames behind a request head of the stream carries"

/-- the transport payload the SP/UDP rules allow for datagram `d` of a sender with an association -/
def specUdpPayload (lim : Nat) (d : Bytes) : Option Bytes :=
  let p := (d.drop 8).take ((d.getD 4 0).toNat + 256 * (d.getD 5 0).toNat)
  if udpAllowed d true lim p then some p else none

def isCreq (d : Bytes) : Bool := decide (d.length ≥ 8) && d.getD 0 0 == 1 && d.getD 1 0 == 1

/-- payloads a sender may get delivered: allowed DATA datagrams behind a connection request of that sender, up to
    the first one whose protocol header is malformed (that ends the association; a new request starts another) -/
def udpFrames (pc : PCfg) (lim src : Nat) : Bool → List (Nat × Bytes) → List Bytes
  | _, [] => []
  | live, (s, d) :: r =>
    if s ≠ src then udpFrames pc lim src live r
    else if isCreq d then udpFrames pc lim src true r
    else
      match live, specUdpPayload lim d with
      | true, some p =>
        match verdictOf pc p with
        | .malformed => udpFrames pc lim src false r
        | _ => p :: udpFrames pc lim src live r
      | _, _ => udpFrames pc lim src live r

def parseSrcDeliveries : List String → Option (List (Nat × Bytes × Obs))
  | [] => some []
  | "D" :: s :: h :: b :: rest => do
    let r ← parseSrcDeliveries rest
    pure ((← s.toNat?, ← parseHex h, ← parseObs b) :: r)
  | _ => none

/-- specification-only judgement of an SP/UDP session -/
def judgeUdps (lim : Nat) (pc : PCfg) (dgs : List (Nat × Bytes)) (ds : List (Nat × Bytes × Obs)) : Option String :=
  if ds.any (fun x => decide (x.2.2.length > lim)) then some "delivered a message larger than the SP/UDP receive limit"
  else
    let srcs := (ds.map (·.1)).eraseDups
    srcs.findSome? fun s =>
      match matchDeliveries pc (udpFrames pc lim s false dgs) ((ds.filter (·.1 == s)).map (·.2)) with
      | none => none
      | some _ => some "a payload was delivered that no datagram of that sender justifies (association by CREQ, version 1, DATA, declared length within the datagram and the limit, exactly the declared part, acceptable protocol header)"

def judgeStep (ws : List String) : String :=
  let (q, o) := ws.span (· ≠ "=>")
  let obs := o.drop 1
  let r : Option (Option String) :=
    match q with
    | "sess" :: rest => do
      let s ← parseSess rest
      let ds ← parseDeliveries (obs.drop 1)
      pure (judgeSess s ds)
    | "udps" :: rm :: p :: raw :: ttl :: sp :: busy :: _others :: dgs => do
      let pc ← parsePc p raw ttl sp busy
      let dg ← dgs.mapM parseDg
      let rmv ← rm.toNat?
      let lim := if rmv = 0 ∨ rmv > 65000 then 65000 else rmv
      let ds ← parseSrcDeliveries (obs.drop 1)
      pure (judgeUdps lim pc dg ds)
    | "wss" :: rest => do
      let qq ← parseWss rest
      let ds ← parseDeliveries (obs.drop 1)
      pure (judgeWss qq ds)
    | ["udp", known, rm, d] => do
      let d ← parseHex d
      let rmv ← rm.toNat?
      let lim := if rmv = 0 ∨ rmv > 65000 then 65000 else rmv
      match obs with
      | ["none"] => pure none
      | ["D", p] =>
        let p ← parseHex p
        pure (if udpAllowed d (known == "1") lim p then none
              else some "a datagram payload was delivered that the SP/UDP rules forbid (unknown peer, wrong version/opcode, declared length beyond the datagram or the limit, or not the declared part)")
      | _ => none
    | _ => none
  match r with
  | none => "bad-op"
  | some none => "ok"
  | some (some c) => s!"VIOLATION {c}"

def model : Component := { σ := Unit, init := (), step := fun _ ws => ((), modelStep ws) }
def judge : Component := { σ := Unit, init := (), step := fun _ ws => ((), judgeStep ws) }

def components : List (String × Component) := [("hostile-model", model), ("hostile-judge", judge)]

end Nng.Driver.Hostile
