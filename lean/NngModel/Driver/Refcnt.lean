/- driver components for src/core/refcnt.c (C10 / C03):
   `refcnt-model` : `init <own0,own1,...>` (references owned by each thread at nni_refcnt_init; value = their sum),
                    `hold <t>` / `rele <t>` -> `cnt=<rc_cnt> finis=<calls of rc_fini>`
   `refcnt-judge` : reads such lines (of the implementation), answers `ok` / `VIOLATION fini-count` -/
import NngModel.Driver.Common
import NngModel.Model.Refcnt
namespace Nng.Driver.Refcnt
open Nng Nng.Driver Nng.Refcnt

structure M where
  st : Option State := none

def showSt (s : State) : String := s!"cnt={s.cnt} finis={s.finis}"

def modelStep (m : M) (ws : List String) : M × String :=
  match ws, m.st with
  | ["init", o], _ =>
    match (o.splitOn ",").mapM (·.toNat?) with
    | some own => let s := Refcnt.init own; ({ st := some s }, showSt s)
    | none => (m, "bad-op")
  | ["hold", t], some s =>
    match t.toNat? with
    | some t => let s' := Refcnt.step s (.hold t); ({ st := some s' }, showSt s')
    | none => (m, "bad-op")
  | ["rele", t], some s =>
    match t.toNat? with
    | some t => let s' := Refcnt.step s (.rele t); ({ st := some s' }, showSt s')
    | none => (m, "bad-op")
  | _, _ => (m, "bad-op")

def kv (ws : List String) (k : String) : Option String :=
  ws.findSome? fun w => if w.startsWith (k ++ "=") then some (w.drop (k.length + 1)).toString else none

def judgeLine (u : Unit) (ws : List String) : Unit × String :=
  match (kv ws "cnt").bind (·.toInt?), (kv ws "finis").bind (·.toNat?) with
  | some c, some f => (u, if judge c f then "ok" else "VIOLATION fini-count")
  | _, _ => (u, "bad-obs")

def components : List (String × Component) := [
  ("refcnt-model", { σ := M, init := {}, step := modelStep }),
  ("refcnt-judge", { σ := Unit, init := (), step := judgeLine })
]

end Nng.Driver.Refcnt
