/- driver components for the PAIR0 / PAIR1 models, the C08 judges and the pure hop decision -/
import NngModel.Driver.Common
import NngModel.Driver.Pipeline
import NngModel.Model.Pair0
import NngModel.Model.Pair1
import NngModel.Spec.Pair
namespace Nng.Driver.Pair
open Nng Nng.Proto Nng.Driver Nng.Driver.Pipeline

/-- `hop <len> <hdr> <ttl>` → the verdict of the pure decision function -/
def hopComponent : Component :=
  { σ := Unit, init := (),
    step := fun s ws =>
      match ws with
      | ["hop", l, h, t] =>
        match l.toNat?, h.toNat?, t.toNat? with
        | some l, some h, some t => (s, Nng.Pair1.showVerdict (Nng.Pair1.hopDecision l h t))
        | _, _, _ => (s, "bad-op")
      | ["rawhdr", h] =>
        match parseHex h with
        | some b => (s, if Nng.Pair1.rawHeaderOk b then "ok" else "eproto")
        | none => (s, "bad-op")
      | _ => (s, "bad-op") }

/-- judge component that also understands the `nq` line prefix and ignores `delay` lines -/
def pairJudgeComponent (init : Nng.PairSpec.PairJ) : Component :=
  { σ := Nng.PairSpec.PairJ, init := init,
    step := fun s ws =>
      let (evw, outw) := ws.span (· ≠ "=>")
      let (nq, evw) := match evw with
        | "nq" :: rest => (true, rest)
        | _ => (false, evw)
      match evw with
      | "sched" :: _ => (s, "ok")
      | "delay" :: _ => (s, "ok")
      | _ =>
        match parseEv evw with
        | some ev =>
          let s' := Nng.PairSpec.pairStepWith nq s ev (parseOuts (" ".intercalate (outw.drop 1)))
          (s', match s'.err with | some e => "VIOLATION " ++ e | none => "ok")
        | none => (s, "ok") }

def components : List (String × Component) := [
  ("pair0-model", protoComponent ({} : Nng.Pair0.State) Nng.Pair0.step0),
  ("pair1-model", protoComponent ({} : Nng.Pair0.State) Nng.Pair1.step1),
  ("pair0-judge", pairJudgeComponent Nng.PairSpec.init0),
  ("pair1-judge", pairJudgeComponent Nng.PairSpec.init1),
  ("pair1-hop", hopComponent)
]

end Nng.Driver.Pair
