/- driver components for C18N (pollable levels of nni_msgq): `msgqn-model` (Model/MsgqNotify.lean)
   and `msgqn-spec` (Spec/MsgqNotify.lean).  Line protocol of harness/u_msgq.c in `norefresh` mode:
   the ops of `msgq-model` plus `nbput <aio> <tag>`, `nbget <aio>`, `getsnd`, `getrcv`, `levels`;
   `init <cap>` = nni_msgq_init followed by the two getters (the harness fetches the pollables and
   their descriptors once, there).  Every result line ends with
   ` snd=<flag> rcv=<flag> ps=<polled> pr=<polled>`; the specification prints `x` for a level it does
   not constrain (closed channel). -/
import NngModel.Driver.Queues
import NngModel.Model.MsgqNotify
namespace Nng.Driver.MsgqNotify
open Nng Nng.QSpec Nng.Driver.Queues

def parseNOp : List String → Option NOp
  | ["nbput", a, t] => do pure (.nbPut (← a.toNat?) (← t.toNat?))
  | ["nbget", a] => a.toNat?.map .nbGet
  | ["getsnd"] => some .getSendable
  | ["getrcv"] => some .getRecvable
  | ws => (parseCOp ws).map .base

def nopAio : NOp → Option Nat
  | .base op => opAio op
  | .nbPut a _ => some a
  | .nbGet a => some a
  | _ => none

def isCancel : NOp → Option Nat
  | .base (.cancel a _) => some a
  | _ => none

def bit (b : Bool) : String := if b then "1" else "0"
def levelTail (s r : String) : String := s!" snd={s} rcv={r} ps={s} pr={r}"

structure M where
  s : Option MsgqN.NQ := none
  failNext : Bool := false

def parked (putq : List (Nat × Msg)) (getq : List Nat) (a : Nat) : Bool :=
  getq.contains a || (putq.map (·.1)).contains a

def modelStep (m0 : M) (ws : List String) : M × String :=
  let armed := m0.failNext
  let m : M := { m0 with failNext := false }
  let show_ (rv : Nat) (evs : List Ev) (freed : List Nat) (s : MsgqN.NQ) (safe : Bool) : String :=
    msgqLine rv evs freed s.q.cap ++ levelTail (bit s.snd) (bit s.rcv) ++ unsafeTag safe
  match ws with
  | ["fail"] => ({ m with failNext := true }, "ok")
  | ["verbose"] => (m, "ok")
  | ["norefresh"] => (m, "ok")
  | ["init", c] => match c.toNat? with
    | some c => let s := MsgqN.attach c; ({ m with s := some s }, show_ 0 [] [] s true)
    | none => (m, "bad-op")
  | ["levels"] => match m.s with
    | some s => (m, show_ 0 [] [] s true)
    | none => (m, "bad-op")
  | _ =>
    match parseNOp ws, m.s with
    | some op, some s =>
      let busy : Bool := match nopAio op with
        | some a => parked s.q.putq s.q.getq a
        | none => false
      -- the harness only calls nni_aio_abort for an aio that is parked
      let idleCancel : Bool := match isCancel op with
        | some a => !parked s.q.putq s.q.getq a
        | none => false
      if busy then (m, "busy")
      else if idleCancel then (m, show_ 0 [] [] s true)
      else
        let r := MsgqN.step s op (!armed)
        ({ m with s := some r.s }, show_ r.rv r.evs r.freed r.s r.safe)
    | _, _ => (m, "bad-op")

def specStep (c0 : Option Chan) (ws : List String) : Option Chan × String :=
  let show_ (rv : Nat) (evs : List Ev) (freed : List Nat) (c : Chan) : String :=
    msgqLine rv evs freed c.cap ++
      (match c.wantLevels with
       | some (a, b) => levelTail (bit a) (bit b)
       | none => levelTail "x" "x")
  match ws with
  | ["fail"] => (c0, "ok")
  | ["verbose"] => (c0, "ok")
  | ["norefresh"] => (c0, "ok")
  | ["enomem"] => match c0 with
    | some c => (c0, show_ Err.enomem [] [] c)
    | none => (c0, "bad-op")
  | ["init", n] => match n.toNat? with
    | some n => (some (Chan.init n), show_ 0 [] [] (Chan.init n))
    | none => (c0, "bad-op")
  | ["levels"] => match c0 with
    | some c => (c0, show_ 0 [] [] c)
    | none => (c0, "bad-op")
  | _ =>
    match parseNOp ws, c0 with
    | some op, some c =>
      let busy : Bool := match nopAio op with
        | some a => parked c.putq c.getq a
        | none => false
      if busy then (c0, "busy")
      else
        let r := c.nstep op
        (some r.c, show_ r.rv r.evs r.freed r.c)
    | _, _ => (c0, "bad-op")

def components : List (String × Component) := [
  ("msgqn-model", { σ := M, init := {}, step := modelStep }),
  ("msgqn-spec", { σ := Option Chan, init := none, step := specStep })
]

end Nng.Driver.MsgqNotify
