/- driver components for the task-queue part of C02:
   `taskq-model` : `init <hasCb 0|1> <W> <progs>` (progs = comma separated words over p d x w b, `-` = empty
                   program, `none` = no client), `step <w<j>|c<i>> [pick]` -> one observation line per input line
   `taskq-judge` : reads observation lines (of the implementation), answers `ok` / `VIOLATION <clause>` /
                   `CONTRACT <clause>` (the schedule broke the contract at this step) / `off` (after that);
                   the first line of a case is the initial observation -/
import NngModel.Driver.Common
import NngModel.Model.TaskqObs
namespace Nng.Driver.Taskq
open Nng Nng.Driver Nng.Taskq Nng.TaskqSpec

def b01 (b : Bool) : String := if b then "1" else "0"

def showRes : Res → String
  | .waited => "w"
  | .busy true => "t"
  | .busy false => "f"

def showResList (l : List Res) : String := if l.isEmpty then "-" else String.join (l.map showRes)

def showObs (o : Obs) : String :=
  let res := if o.res.isEmpty then "none" else ",".intercalate (o.res.map showResList)
  s!"busy={o.busy} sd={o.sd} sx={o.sx} pr={o.pr} bw={o.bw} bx={o.bx} ce={o.ce} dn={o.dn} panic={b01 o.panic} live={b01 o.live} fin={b01 o.fin} res={res}"

/-- implementation state beyond the specification's observation, and where each thread is parked -/
def showImpl (s : State) : String :=
  s!" prep={b01 s.prep} q={b01 s.onq} next=" ++ ",".intercalate (s.ws.map WPc.next) ++ "|" ++
    ",".intercalate (s.cs.map Client.next)

def parseOp (c : Char) : Option Op :=
  if c == 'p' then some .prep else if c == 'd' then some .dispatch else if c == 'x' then some .exec
  else if c == 'w' then some .wait else if c == 'b' then some .busy else none

def parseProgs (w : String) : Option (List (List Op)) :=
  if w == "none" then some [] else
    (w.splitOn ",").mapM fun p => if p == "-" then some [] else p.toList.mapM parseOp

def parseBool (w : String) : Option Bool :=
  if w == "1" then some true else if w == "0" then some false else none

def parseTid (w : String) : Option Tid :=
  match w.toList with
  | 'w' :: r => (String.ofList r).toNat?.map .w
  | 'c' :: r => (String.ofList r).toNat?.map .c
  | _ => none

structure M where
  st : Option (Bool × State) := none

def modelStep (m : M) (ws : List String) : M × String :=
  match ws, m.st with
  | ["init", f, n, ps], _ =>
    match parseBool f, n.toNat?, parseProgs ps with
    | some f, some n, some ps =>
      let s := Taskq.init n ps
      ({ st := some (f, s) }, showObs (obsOf s) ++ showImpl s)
    | _, _, _ => (m, "bad-op")
  | "step" :: t :: rest, some (f, s) =>
    match parseTid t with
    | some tid =>
      let pick := match rest with | [p] => p.toNat?.getD 0 | _ => 0
      let s' := Taskq.step f s { tid := tid, pick := pick }
      ({ st := some (f, s') }, showObs (obsOf s') ++ showImpl s')
    | none => (m, "bad-op")
  | _, _ => (m, "bad-op")

def kv (ws : List String) (k : String) : Option String :=
  ws.findSome? fun w => if w.startsWith (k ++ "=") then some (w.drop (k.length + 1)).toString else none

def parseResChar (c : Char) : Option Res :=
  if c == 'w' then some .waited else if c == 't' then some (.busy true) else if c == 'f' then some (.busy false) else none

def parseObs (ws : List String) : Option Obs := do
  let n := fun k => (kv ws k).bind (·.toNat?)
  let b := fun k => (kv ws k).bind parseBool
  let resw ← kv ws "res"
  let res ← if resw == "none" then some [] else
    (resw.splitOn ",").mapM fun w => if w == "-" then some [] else w.toList.mapM parseResChar
  pure { busy := ← n "busy", sd := ← n "sd", sx := ← n "sx", pr := ← n "pr", bw := ← n "bw", bx := ← n "bx",
         ce := ← n "ce", dn := ← n "dn", panic := ← b "panic", live := ← b "live", fin := ← b "fin", res := res }

structure JD where
  j : Option J := none

def judgeLine (d : JD) (ws : List String) : JD × String :=
  match parseObs ws with
  | none => (d, "bad-obs")
  | some o =>
    let j := match d.j with | some j => j | none => { prev := o }
    let (j', v) := judgeStep j o
    ({ j := some j' }, match v with
      | .ok => "ok"
      | .off => "off"
      | .contract k => "CONTRACT " ++ k
      | .violation c => "VIOLATION " ++ c)

def components : List (String × Component) := [
  ("taskq-model", { σ := M, init := {}, step := modelStep }),
  ("taskq-judge", { σ := JD, init := {}, step := judgeLine })
]

end Nng.Driver.Taskq
