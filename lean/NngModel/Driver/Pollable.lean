/- driver components for the pollable part of C15:
   `pollable-model` : `init <fixed 0|1> <n> <raised0 0|1> <prog1|-> <prog2|->` (prog = word over r,c),
                      `step <m|n|k> [fail]` -> one observation line per input line
   `pollable-judge` : reads observation lines (of the implementation), answers `ok` / `VIOLATION <clause>`;
                      the first line of a case is the initial observation -/
import NngModel.Driver.Common
import NngModel.Model.PollableObs
namespace Nng.Driver.Pollable
open Nng Nng.Driver Nng.Pollable Nng.PollSpec

def b01 (b : Bool) : String := if b then "1" else "0"

def showRes : Res → String
  | .pending => "."
  | .err => "e"
  | .ok p => toString p

def showObs (o : Obs) : String :=
  let fd := match o.inst with | some p => toString p | none => "-"
  let res := if o.res.isEmpty then "none" else ",".intercalate (o.res.map showRes)
  s!"R={b01 o.raised} fd={fd} rd={b01 o.readable} b={o.bytes} open={o.nopen} q={b01 o.quiet} res={res} bad={b01 o.bad}"

def showNext (s : State) : String :=
  " next=" ++ ",".intercalate ([s.m1.next, s.m2.next] ++ s.gs.map GPc.next)

def parseProg (w : String) : Option (List Op) :=
  if w == "-" then some [] else
    w.toList.mapM fun c => if c == 'r' then some Op.raise else if c == 'c' then some Op.clear else none

def parseBool (w : String) : Option Bool :=
  if w == "1" then some true else if w == "0" then some false else none

def parseTid (w : String) : Option Tid :=
  if w == "m" then some .m1 else if w == "n" then some .m2 else w.toNat?.map .g

structure M where
  st : Option (Bool × State) := none

def modelStep (m : M) (ws : List String) : M × String :=
  match ws, m.st with
  | ["init", f, n, r0, p1, p2], _ =>
    match parseBool f, n.toNat?, parseBool r0, parseProg p1, parseProg p2 with
    | some f, some n, some r0, some p1, some p2 =>
      let s := Pollable.init r0 n p1 p2
      ({ st := some (f, s) }, showObs (obsOf s) ++ showNext s)
    | _, _, _, _, _ => (m, "bad-op")
  | "step" :: t :: rest, some (f, s) =>
    match parseTid t with
    | some tid =>
      let s' := Pollable.step f s { tid := tid, openOk := rest != ["fail"] }
      ({ st := some (f, s') }, showObs (obsOf s') ++ showNext s')
    | none => (m, "bad-op")
  | _, _ => (m, "bad-op")

def kv (ws : List String) (k : String) : Option String :=
  ws.findSome? fun w => if w.startsWith (k ++ "=") then some (w.drop (k.length + 1)).toString else none

def parseRes (w : String) : Option Res :=
  if w == "." then some .pending else if w == "e" then some .err else w.toNat?.map .ok

def parseObs (ws : List String) : Option Obs := do
  let r ← (kv ws "R").bind parseBool
  let fdw ← kv ws "fd"
  let fd ← if fdw == "-" then some none else fdw.toNat?.map some
  let rd ← (kv ws "rd").bind parseBool
  let b ← (kv ws "b").bind (·.toNat?)
  let op ← (kv ws "open").bind (·.toNat?)
  let q ← (kv ws "q").bind parseBool
  let resw ← kv ws "res"
  let res ← if resw == "none" then some [] else (resw.splitOn ",").mapM parseRes
  let bad ← (kv ws "bad").bind parseBool
  pure { raised := r, inst := fd, readable := rd, bytes := b, nopen := op, quiet := q, res := res, bad := bad }

structure J where
  prev : Option Obs := none

def judgeLine (j : J) (ws : List String) : J × String :=
  match parseObs ws with
  | none => (j, "bad-obs")
  | some o =>
    match j.prev with
    | none => ({ prev := some o }, match judgeStep o o with | some e => "VIOLATION " ++ e | none => "ok")
    | some p => ({ prev := some o }, match judgeStep p o with | some e => "VIOLATION " ++ e | none => "ok")

def components : List (String × Component) := [
  ("pollable-model", { σ := M, init := {}, step := modelStep }),
  ("pollable-judge", { σ := J, init := {}, step := judgeLine })
]

end Nng.Driver.Pollable
