/- driver components for the lifecycle judges and model (C14, C10) -/
import NngModel.Driver.Common
import NngModel.Spec.Life
import NngModel.Model.Life
namespace Nng.Driver.Life
open Nng Nng.Life Nng.Driver

/-- judge component: lines are `<op words> => <observed events>`; answers `ok` or
    `VIOLATION <clause>` (sticky until reset) -/
def judge (err : LifeSpec.J → Option String) : Component :=
  { σ := LifeSpec.J, init := {},
    step := fun s ws =>
      let (opw, outw) := ws.span (· ≠ "=>")
      match opw with
      | "sched" :: _ => (s, "ok")
      | _ =>
        match parseOp opw with
        | some op =>
          let s' := LifeSpec.step s op (parseOuts (" ".intercalate (outw.drop 1)))
          (s', match err s' with | some e => "VIOLATION " ++ e | none => "ok")
        | none => (s, "ok") }

/-- the endpoints seen arming in the observed events (the model's oracle for redial instants) -/
def oracle (outs : List LOut) : List Nat :=
  outs.filterMap fun | .earm e => some e | _ => none

/-- model component: lines are `<op words> => <observed events>`; the answer is the model's
    predicted event line for that op -/
def model : Component :=
  { σ := LifeModel.State, init := {},
    step := fun s ws =>
      let (opw, outw) := ws.span (· ≠ "=>")
      match opw with
      | "sched" :: _ => (s, "ok")
      | _ =>
        match parseOp opw with
        | some op =>
          let r := LifeModel.step s op (oracle (parseOuts (" ".intercalate (outw.drop 1))))
          (r.1, showOuts r.2)
        | none => (s, "bad-op") }

def components : List (String × Component) := [
  ("life-model", model),
  ("life-c14-judge", judge (·.err14)),
  ("life-c10-judge", judge (·.err10))
]

end Nng.Driver.Life
