/- driver components for the WebSocket frame layer: `ws-model` (Model/Ws.lean) and `ws-spec`
   (Spec/Ws.lean) on the op lines of harness/u_ws.c -/
import NngModel.Driver.Common
import NngModel.Model.Ws
import NngModel.Spec.Ws
namespace Nng.Driver.Ws
open Nng

def b01 (b : Bool) : String := if b then "1" else "0"

def joinEv (xs : List String) : String := if xs.isEmpty then "-" else ",".intercalate xs

def showEv : Nng.Ws.Ev → String
  | .msg b => s!"m:{digest b}"
  | .data b => s!"d:{digest b}"
  | .tx b => s!"t:{toHex b}"
  | .err rv => s!"e:{rv}"

def parseCfg (ws : List String) : Option Nng.Ws.Cfg :=
  match ws.map String.toNat? with
  | [some sv, some st, some rt, some stx, some mf, some rm, some fs, some al] =>
    some { server := sv != 0, isstream := st != 0, recvText := rt != 0, sendText := stx != 0, maxframe := mf,
           recvmax := rm, fragsize := fs, allocLimit := al }
  | _ => none

/-! model -/
structure MState where
  cfg : Option Nng.Ws.Cfg := none
  st : Nng.Ws.St := {}

def status (op : String) (s : Nng.Ws.St) (evs : List Nng.Ws.Ev) : String :=
  s!"{op} want={s.want} closed={b01 s.closed} inmsg={b01 s.inmsg} ev={joinEv (evs.map showEv)}"

def mstep (m : MState) (ws : List String) : MState × String :=
  match ws with
  | ["verbose"] => (m, "ok")
  | "cfg" :: rest =>
    match parseCfg rest with
    | some c => ({ cfg := some c, st := {} }, status "cfg" {} [])
    | none => (m, "bad-op")
  | ["mask", k, _off, d] =>
    match parseHex k, parseHex d with
    | some k, some d => (m, s!"mask o={toHex (Nng.Ws.applyMask k d)}")
    | _, _ => (m, "bad-op")
  | _ =>
    match m.cfg with
    | none => (m, "no-ws")
    | some cfg =>
      match ws with
      | ["rx", h] =>
        match parseHex h with
        | some bs =>
          let r := Nng.Ws.rxFold cfg m.st bs
          ({ m with st := r.1 }, status "rx" r.1 r.2)
        | none => (m, "bad-op")
      | ["send", h, b, seed] =>
        match parseHex h, parseHex b, seed.toNat? with
        | some h, some b, some seed =>
          let seed := seed % 2 ^ 32
          if m.st.closed then
            -- ws_frame_prep_tx ran (and drew a key on the client) before the closed test
            ({ m with st := { m.st with rng := if cfg.server then seed else Nng.Ws.nextRand seed } },
              s!"send rv=7 n=0 closed=1 ev=-")
          else
            let r := Nng.Ws.sendMsg cfg seed (if cfg.isstream then b else h ++ b)
            ({ m with st := { m.st with rng := r.rng } },
              s!"send rv=0 n={r.count} closed=0 ev={joinEv (r.frames.map fun f => s!"t:{toHex f}")}")
        | _, _, _ => (m, "bad-op")
      | ["ctl", op, p, seed] =>
        match op.toNat?, parseHex p, seed.toNat? with
        | some op, some p, some seed =>
          match Nng.Ws.encodeControl cfg.server (seed % 2 ^ 32) op p with
          | some (fr, rng) => ({ m with st := { m.st with rng := rng } }, s!"ctl rv=0 f={toHex fr}")
          | none => ({ m with st := { m.st with rng := seed % 2 ^ 32 } }, "ctl rv=3")
        | _, _, _ => (m, "bad-op")
      | ["close"] =>
        let r := Nng.Ws.userClose cfg m.st
        ({ m with st := r.1 }, status "close" r.1 r.2)
      | ["end"] => (m, s!"end closed={b01 m.st.closed} peer={b01 m.st.peerClosed}")
      | _ => (m, "bad-op")

def model : Component := { σ := MState, init := {}, step := mstep }

/-! spec -/
structure SState where
  cfg : Option Nng.Ws.Cfg := none
  dec : WsSpec.Dec := {}
  userClosed : Bool := false

def limOf (c : Nng.Ws.Cfg) : WsSpec.Limits :=
  { maxframe := c.maxframe, recvmax := c.recvmax, recvText := c.recvText, stream := c.isstream }

def splitFrames (s : String) : Option (List Bytes) :=
  if s == "-" then some [] else (s.splitOn ",").mapM parseHex

def sstep (m : SState) (ws : List String) : SState × String :=
  match ws with
  | ["verbose"] => (m, "ok")
  | "cfg" :: rest =>
    match parseCfg rest with
    | some c => ({ cfg := some c }, "cfg ev=-")
    | none => (m, "bad-op")
  | ["mask", k, _off, d] =>
    match parseHex k, parseHex d with
    | some k, some d => (m, s!"mask o={toHex (WsSpec.unmask k d)}")
    | _, _ => (m, "bad-op")
  | _ =>
    match m.cfg with
    | none => (m, "no-ws")
    | some cfg =>
      -- frames arriving at us come from a client iff we are the server
      let inFromClient := cfg.server
      let outFromClient := !cfg.server
      match ws with
      | ["rx", h] =>
        match parseHex h with
        | some bs =>
          if m.userClosed then (m, "rx ev=-")
          else
            let r := WsSpec.feed inFromClient (limOf cfg) m.dec bs
            let tag := if cfg.isstream then "d:" else "m:"
            ({ m with dec := r.1 }, s!"rx ev={joinEv (r.2.map fun b => tag ++ digest b)}")
        | none => (m, "bad-op")
      -- the op is rewritten with what the implementation emitted: judge it
      | ["chk-send", h, b, rv, n, frames] =>
        match parseHex h, parseHex b, rv.toNat?, n.toNat?, splitFrames frames with
        | some h, some b, some rv, some n, some frames =>
          if rv != 0 then (m, s!"send rv={rv}")
          else
            let data := if cfg.isstream then b else h ++ b
            let conf := WsSpec.emittedOk outFromClient frames
            let r := WsSpec.emittedMsgs outFromClient frames
            let good :=
              if cfg.isstream then
                -- one frame carrying a non-empty prefix of the data (all of it if it fits), count = its length
                (frames.length == 1) && (r.2.flatten == data.take n) && (decide (n ≤ data.length)) &&
                (decide (n > 0) || data.isEmpty)
              else (r.2 == [data]) && (n == data.length)
            if conf && good && r.1.buf.isEmpty && r.1.status == .running && r.1.frags.isNone then (m, "send ok")
            else (m, s!"send bad conf={b01 conf} good={b01 good}")
        | _, _, _, _, _ => (m, "bad-op")
      | ["chk-ctl", op, p, rv, frame] =>
        match op.toNat?, parseHex p, rv.toNat?, splitFrames frame with
        | some op, some p, some rv, some frames =>
          if p.length > 125 then (m, if rv == 3 then "ctl ok" else "ctl bad: oversize control accepted")
          else
            match frames with
            | [f] =>
              match WsSpec.parseFrame f with
              | some (fr, []) =>
                if rv == 0 && WsSpec.conforming outFromClient f && fr.opcode == op && fr.payload == p then (m, "ctl ok")
                else (m, "ctl bad")
              | _ => (m, "ctl bad: not one frame")
            | _ => (m, "ctl bad: no frame")
        | _, _, _, _ => (m, "bad-op")
      | ["close"] => ({ m with userClosed := true }, "close ev=-")
      | ["chk-end", closed, frames] =>
        match closed.toNat?, splitFrames frames with
        | some closed, some frames =>
          let conf := WsSpec.emittedOk outFromClient frames
          let closed := closed != 0
          let specDone := m.dec.status != .running || m.userClosed
          -- failed / peer close / user close ⇒ closed; closed ⇒ one of those, or a frame still incomplete
          let ok := (!specDone || closed) && (!closed || specDone || !m.dec.buf.isEmpty)
          if conf && ok then (m, "end ok")
          else (m, s!"end bad conf={b01 conf} closed={b01 closed} specdone={b01 specDone} pending={m.dec.buf.length}")
        | _, _ => (m, "bad-op")
      | _ => (m, "bad-op")

def spec : Component := { σ := SState, init := {}, step := sstep }

def components : List (String × Component) := [("ws-model", model), ("ws-spec", spec)]

end Nng.Driver.Ws
