/- driver components for C18: `lmq-model`/`lmq-spec`, `msgq-model`/`msgq-spec`,
   `idmap-model`/`idmap-spec`.  One op line in, one result line out; the `*-spec` components print
   the specification's projection, the `*-model` components add the model-only fields
   (ring indices, table capacity and load, UNSAFE). -/
import NngModel.Driver.Common
import NngModel.Spec.Queues
import NngModel.Model.Lmq
import NngModel.Model.Msgq
import NngModel.Model.IdHash
namespace Nng.Driver.Queues
open Nng Nng.QSpec

def insNat (x : Nat) : List Nat → List Nat
  | [] => [x]
  | y :: r => if x ≤ y then x :: y :: r else y :: insNat x r
def sortNat (l : List Nat) : List Nat := l.foldr insNat []

def showList (l : List String) : String := if l.isEmpty then "-" else ",".intercalate l
def showFreed (l : List Nat) : String := showList ((sortNat l).map toString)
def showOut : Option Nat → String
  | some m => s!"{m}"
  | none => "-"

def insEv (x : Ev) : List Ev → List Ev
  | [] => [x]
  | y :: r => if x.1 ≤ y.1 then x :: y :: r else y :: insEv x r
def showEvs (l : List Ev) : String :=
  showList ((l.foldr insEv []).map fun e => s!"{e.1}:{e.2.1}:{showOut e.2.2}")

def unsafeTag (safe : Bool) : String := if safe then "" else " UNSAFE"

/-! ### lmq -/
structure LmqM where
  q : Option Lmq.Lmq := none
  failNext : Bool := false

def lmqLine (rv : Nat) (out : Option Nat) (freed : List Nat) (len cap : Nat) : String :=
  s!"{rv} m={showOut out} freed={showFreed freed} len={len} cap={cap}"

def lmqModelStep (s0 : LmqM) (ws : List String) : LmqM × String :=
  let armed := s0.failNext
  let s : LmqM := { s0 with failNext := false }
  let fin (r : Lmq.Res) : LmqM × String :=
    ({ s with q := some r.q },
      lmqLine r.rv r.out r.freed r.q.len r.q.cap ++ s!" g={r.q.get} p={r.q.put} al={r.q.alloc}" ++ unsafeTag r.safe)
  match ws, s.q with
  | ["fail"], _ => ({ s with failNext := true }, "ok")
  | ["verbose"], _ => (s, "ok")
  | ["init", c], _ =>
    match c.toNat? with
    | some c =>
      let r := Lmq.init c (!armed)
      ({ s with q := some r.1 },
        lmqLine 0 none [] r.1.len r.1.cap ++ s!" g={r.1.get} p={r.1.put} al={r.1.alloc}" ++ unsafeTag r.2)
    | none => (s, "bad-op")
  | ["put", t], some q => match t.toNat? with
    | some t => fin (Lmq.put q t)
    | none => (s, "bad-op")
  | ["get"], some q => fin (Lmq.get q)
  | ["flush"], some q => fin (Lmq.flush q)
  | ["resize", c], some q => match c.toNat? with
    | some c => fin (Lmq.resize q c (!armed))
    | none => (s, "bad-op")
  | _, _ => (s, "bad-op")

def lmqSpecStep (s : Option Fifo) (ws : List String) : Option Fifo × String :=
  let fin (r : FRes) : Option Fifo × String :=
    (some r.q, lmqLine r.rv r.out r.freed r.q.items.length r.q.cap)
  match ws, s with
  | ["fail"], _ => (s, "ok")
  | ["verbose"], _ => (s, "ok")
  | ["enomem"], some q => (s, lmqLine Err.enomem none [] q.items.length q.cap)
  | ["init", c], _ => match c.toNat? with
    | some c => (some (Fifo.init c), lmqLine 0 none [] 0 c)
    | none => (s, "bad-op")
  | ["put", t], some q => match t.toNat? with
    | some t => fin (q.put t)
    | none => (s, "bad-op")
  | ["get"], some q => fin q.get
  | ["flush"], some q => fin q.flush
  | ["resize", c], some q => match c.toNat? with
    | some c => fin (q.resize c)
    | none => (s, "bad-op")
  | _, _ => (s, "bad-op")

/-! ### msgq -/
structure MsgqM where
  q : Option Msgq.Msgq := none
  failNext : Bool := false

def msgqLine (rv : Nat) (evs : List Ev) (freed : List Nat) (cap : Nat) : String :=
  s!"{rv} ev={showEvs evs} freed={showFreed freed} cap={cap}"

def parseCOp : List String → Option COp
  | ["tryput", t] => t.toNat?.map .tryput
  | ["aput", a, t] => do pure (.aioPut (← a.toNat?) (← t.toNat?))
  | ["aget", a] => a.toNat?.map .aioGet
  | ["cancel", a] => a.toNat?.map (fun a => .cancel a Err.ecanceled)
  | ["close"] => some .close
  | ["resize", c] => c.toNat?.map .resize
  | _ => none

def opAio : COp → Option Nat
  | .aioPut a _ => some a
  | .aioGet a => some a
  | _ => none

def msgqModelStep (s0 : MsgqM) (ws : List String) : MsgqM × String :=
  let armed := s0.failNext
  let s : MsgqM := { s0 with failNext := false }
  match ws with
  | ["fail"] => ({ s with failNext := true }, "ok")
  | ["verbose"] => (s, "ok")
  | ["init", c] => match c.toNat? with
    | some c =>
      let n := Msgq.notify (Msgq.init c)
      ({ s with q := some (Msgq.init c) }, msgqLine 0 [] [] c ++
        s!" snd={if n.1 then 1 else 0} rcv={if n.2 then 1 else 0}")
    | none => (s, "bad-op")
  | _ =>
    match parseCOp ws, s.q with
    | some op, some q =>
      let busy : Bool := match opAio op with
        | some a => q.getq.contains a || (q.putq.map (·.1)).contains a
        | none => false
      if busy then (s, "busy")
      else
        let r := Msgq.step q op (!armed)
        let n := Msgq.notify r.q
        ({ s with q := some r.q }, msgqLine r.rv r.evs r.freed r.q.cap ++
          s!" snd={if n.1 then 1 else 0} rcv={if n.2 then 1 else 0}" ++ unsafeTag r.safe)
    | _, _ => (s, "bad-op")

def msgqSpecStep (s : Option Chan) (ws : List String) : Option Chan × String :=
  match ws with
  | ["fail"] => (s, "ok")
  | ["verbose"] => (s, "ok")
  | ["enomem"] => match s with
    | some c => (s, msgqLine Err.enomem [] [] c.cap)
    | none => (s, "bad-op")
  | ["init", c] => match c.toNat? with
    | some c => (some (Chan.init c), msgqLine 0 [] [] c)
    | none => (s, "bad-op")
  | _ =>
    match parseCOp ws, s with
    | some op, some c =>
      let busy : Bool := match opAio op with
        | some a => c.getq.contains a || (c.putq.map (·.1)).contains a
        | none => false
      if busy then (s, "busy")
      else
        let r := c.step op
        (some r.c, msgqLine r.rv r.evs r.freed r.c.cap)
    | _, _ => (s, "bad-op")

/-! ### idmap -/
structure IdM where
  m : Option IdHash.IdMap := none
  failNext : Bool := false

def showKv (l : List (Nat × Nat)) : String := showList (l.map fun p => s!"{p.1}:{p.2}")

def idLine (rv : Nat) (extra : String) (cnt : Nat) : String := s!"{rv} {extra} cnt={cnt}"

def idModelStep (s0 : IdM) (ws : List String) : IdM × String :=
  let armed := s0.failNext
  let s : IdM := { s0 with failNext := false }
  let tail (m : IdHash.IdMap) (safe : Bool) : String :=
    s!" tcap={m.cap} load={m.load} dyn={m.dynVal}" ++ unsafeTag safe
  match ws, s.m with
  | ["fail"], _ => ({ s with failNext := true }, "ok")
  | ["verbose"], _ => (s, "ok")
  | ["init", lo, hi, rnd], _ =>
    match lo.toNat?, hi.toNat?, rnd.toNat? with
    | some lo, some hi, some rnd =>
      let m := IdHash.mapInit lo hi (rnd ≠ 0)
      ({ s with m := some m }, idLine 0 "-" 0 ++ tail m true)
    | _, _, _ => (s, "bad-op")
  | ["set", k, v], some m =>
    match k.toNat?, v.toNat? with
    | some k, some v =>
      let r := IdHash.idSet m k v (!armed)
      ({ s with m := some r.1 }, idLine r.2.1 "-" r.1.count ++ tail r.1 r.2.2)
    | _, _ => (s, "bad-op")
  | ["get", k], some m =>
    match k.toNat? with
    | some k =>
      let r := IdHash.idGet m k
      (s, idLine 0 s!"v={r.1}" m.count ++ tail m r.2)
    | none => (s, "bad-op")
  | ["remove", k], some m =>
    match k.toNat? with
    | some k =>
      let r := IdHash.idRemove m k (!armed)
      ({ s with m := some r.1 }, idLine r.2.1 "-" r.1.count ++ tail r.1 r.2.2)
    | none => (s, "bad-op")
  | ["alloc", v, rnd], some m =>
    match v.toNat?, rnd.toNat? with
    | some v, some rnd =>
      let r := IdHash.idAlloc m v rnd (!armed)
      ({ s with m := some r.m }, idLine r.rv (if r.rv = 0 then s!"id={r.id}" else "-") r.m.count ++ tail r.m r.safe)
    | _, _ => (s, "bad-op")
  | ["fini"], some m =>
    let m' := IdHash.mapFini m
    ({ s with m := some m' }, idLine 0 "-" m'.count ++ tail m' true)
  | ["visit"], some m =>
    let r := IdHash.visitAll m (m.cap + 1) 0 [] true
    (s, idLine 0 s!"kv={showKv (sortPairs r.1)}" m.count ++ tail m r.2)
  | _, _ => (s, "bad-op")

def idSpecStep (s : Option IdSpec) (ws : List String) : Option IdSpec × String :=
  match ws, s with
  | ["fail"], _ => (s, "ok")
  | ["verbose"], _ => (s, "ok")
  | ["enomem"], some m => (s, idLine Err.enomem "-" m.count)
  | ["init", lo, hi, rnd], _ =>
    match lo.toNat?, hi.toNat?, rnd.toNat? with
    | some lo, some hi, some rnd => (some (IdSpec.init lo hi (rnd ≠ 0)), idLine 0 "-" 0)
    | _, _, _ => (s, "bad-op")
  | ["set", k, v], some m =>
    match k.toNat?, v.toNat? with
    | some k, some v => let m' := m.set k v; (some m', idLine 0 "-" m'.count)
    | _, _ => (s, "bad-op")
  | ["get", k], some m =>
    match k.toNat? with
    | some k => (s, idLine 0 s!"v={m.get k}" m.count)
    | none => (s, "bad-op")
  | ["remove", k], some m =>
    match k.toNat? with
    | some k => let r := m.remove k; (some r.1, idLine r.2 "-" r.1.count)
    | none => (s, "bad-op")
  | ["alloc", v, rnd], some m =>
    match v.toNat?, rnd.toNat? with
    | some v, some rnd =>
      let r := m.alloc v rnd
      (some r.1, idLine r.2.1 (if r.2.1 = 0 then s!"id={r.2.2}" else "-") r.1.count)
    | _, _ => (s, "bad-op")
  | ["alloc_fail", _, rnd], some m =>
    match rnd.toNat? with
    | some rnd => let m' := m.allocFail rnd; (some m', idLine Err.enomem "-" m'.count)
    | none => (s, "bad-op")
  | ["fini"], some m => (some m.fini, idLine 0 "-" 0)
  | ["visit"], some m => (s, idLine 0 s!"kv={showKv m.visit}" m.count)
  | _, _ => (s, "bad-op")

def components : List (String × Component) := [
  ("lmq-model", { σ := LmqM, init := {}, step := lmqModelStep }),
  ("lmq-spec", { σ := Option Fifo, init := none, step := lmqSpecStep }),
  ("msgq-model", { σ := MsgqM, init := {}, step := msgqModelStep }),
  ("msgq-spec", { σ := Option Chan, init := none, step := msgqSpecStep }),
  ("idmap-model", { σ := IdM, init := {}, step := idModelStep }),
  ("idmap-spec", { σ := Option IdSpec, init := none, step := idSpecStep })]

end Nng.Driver.Queues
