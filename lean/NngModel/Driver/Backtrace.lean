/- driver components for C13: `bt-model` evaluates the pure functions of Model/Backtrace.lean,
   `bt-spec` the specification (Spec/Backtrace.lean), `bt-judge` checks an observed outcome of
   the implementation against the specification only.  Stateless: one line in, one line out. -/
import NngModel.Driver.Common
import NngModel.Model.Backtrace
import NngModel.Generated.Base
namespace Nng.Driver.Backtrace
open Nng Nng.Bt Nng.BtSpec Nng.Driver

def showOutcome : Outcome → String
  | .deliver h b => s!"deliver {toHex h} {toHex b}"
  | .drop => "drop"
  | .closePipe => "closePipe"
  | .dropEinval => "drop !einval"
  | .panic => "panic"

def showDest : Option (Nat × Bytes) → String
  | some (p, w) => s!"to {p} {toHex w}"
  | none => "none"

def showWire : Option Bytes → String
  | some w => s!"wire {toHex w}"
  | none => "none"

def parseStage (s : String) : Option Stage :=
  match s.splitOn ":" with
  | [t, p] => do pure ⟨← t.toNat?, ← p.toNat?⟩
  | _ => none

def showFate : Fate → String
  | .answered rb route id rep =>
    s!"answered {toHex rb} {",".intercalate (route.map toString)} {toHex id} {toHex rep}"
  | .discardedAt j => s!"discardedAt {j}"
  | .replyLost => "replyLost"

def parseStages (ws : List String) : Option (List Stage) := ws.mapM parseStage

def modelStep (ws : List String) : String :=
  let r : Option String :=
    match ws with
    | ["xrepRecv", t, p, w] => do pure (showOutcome (xrepRecv (← t.toNat?) (← p.toNat?) (← parseHex w)))
    | ["xrespondRecv", t, p, w] => do pure (showOutcome (xrespondRecv (← t.toNat?) (← p.toNat?) (← parseHex w)))
    | ["repRecv", t, w] => do pure (showOutcome (repRecv (← t.toNat?) (← parseHex w)))
    | ["respondRecv", t, w] => do pure (showOutcome (respondRecv (← t.toNat?) (← parseHex w)))
    | ["xreqRecv", w] => do pure (showOutcome (xreqRecv (← parseHex w)))
    | ["xsurveyRecv", w] => do pure (showOutcome (xsurveyRecv (← parseHex w)))
    | ["pair1Recv", t, w] => do pure (showOutcome (pair1Recv (← t.toNat?) (← parseHex w)))
    | ["pair1RawSend", h, b] => do pure (showWire (pair1RawSend (← parseHex h) (← parseHex b)))
    | ["pair1CookedSend", b] => do pure (showWire (some (pair1CookedSend (← parseHex b))))
    | ["reqRecv", w] => do pure (showOutcome (reqRecv (← parseHex w)))
    | ["xrepSend", h, b] => do pure (showDest (xrepSend (← parseHex h) (← parseHex b)))
    | ["xrespondSend", h, b] => do pure (showDest (xrespondSend (← parseHex h) (← parseHex b)))
    | ["xreqSend", h, b] => do pure (showWire (some (xreqSend (← parseHex h) (← parseHex b))))
    | ["xsurveySend", h, b] => do pure (showWire (some (xsurveySend (← parseHex h) (← parseHex b))))
    | ["repSend", s, u, b] => do pure (showWire (repSend (← parseHex s) (← parseHex u) (← parseHex b)))
    | ["respondSend", s, u, b] => do pure (showWire (respondSend (← parseHex s) (← parseHex u) (← parseHex b)))
    | "chain" :: kind :: tR :: id :: b :: r :: st => do
      let stages ← parseStages st
      let f := if kind == "survey" then surveyRoundTrip else roundTrip
      pure (showFate (f stages (← tR.toNat?) (← id.toNat?) (← parseHex b) (← parseHex r)))
    | _ => none
  r.getD "bad-op"

def showVerdict : Verdict → String
  | .accept bt p => s!"accept {toHex bt} {toHex p}"
  | .drop => "drop"
  | .malformed => "malformed"

def specStep (ws : List String) : String :=
  let r : Option String :=
    match ws with
    | ["classify", t, w] => do pure (showVerdict (classify (← t.toNat?) (← parseHex w)))
    | ["classifyHop", t, w] => do pure (showVerdict (classifyHop (← t.toNat?) (← parseHex w)))
    | ["classifyNoTtl", c, w] => do pure (showVerdict (classifyNoTtl (← c.toNat?) (← parseHex w)))
    | "chain" :: _ :: tR :: id :: b :: r :: st => do
      pure (showFate (expected (← parseStages st) (← tR.toNat?) (← id.toNat?) (← parseHex b) (← parseHex r)))
    | _ => none
  r.getD "bad-op"

/-! ### judge: the implementation's observed outcome against the specification -/

/-- expected observation for a responder-side receive: `pre` = what the socket itself puts
    in front of the backtrace (the pipe id for raw sockets, nothing for cooked ones) -/
def judgeRecv (v : Verdict) (pre : Bytes) (ttlWords : Nat) (obs : List String) : Option String :=
  match v, obs with
  | .accept bt p, ["deliver", h, b] =>
    match parseHex h, parseHex b with
    | some h, some b =>
      if h ≠ pre ++ bt then some "delivered header is not (arrival pipe id ·) hops · id"
      else if b ≠ p then some "delivered body differs from the payload sent"
      else if h.length > 4 * ttlWords then some "delivered header longer than the hop limit allows"
      else if h.length > Nng.Generated.headerCap then some "delivered header exceeds the header capacity"
      else none
    | _, _ => some "unparsable observation"
  | .accept _ _, _ => some "a well-formed message within the hop limit was not delivered"
  | .drop, ["drop"] => none
  | .drop, "deliver" :: _ => some "a message beyond the hop limit was delivered"
  | .drop, _ => some "a message beyond the hop limit must be dropped without disconnecting the sender"
  | .malformed, ["closePipe"] => none
  | .malformed, "deliver" :: _ => some "a malformed backtrace was delivered"
  | .malformed, _ => some "a malformed backtrace must disconnect its sender"

def judgeStep (ws : List String) : String :=
  let (q, o) := ws.span (· ≠ "=>")
  let obs := o.drop 1
  let r : Option (Option String) :=
    match q with
    | [fn, t, p, w] =>
      if fn == "xrepRecv" || fn == "xrespondRecv" then do
        let t ← t.toNat?
        pure (judgeRecv (classify t (← parseHex w)) (idWord (← p.toNat?)) (t + 1) obs)
      else if fn == "repSend" || fn == "respondSend" then do
        -- repSend <saved> <userhdr> <body>: a reply goes out iff a request is outstanding, as saved · body
        let s ← parseHex t
        let b ← parseHex w
        pure (match obs with
          | ["wire", x] => if s.isEmpty then some "reply sent without an outstanding request"
                           else if parseHex x == some (s ++ b) then none else some "reply is not saved backtrace · body"
          | ["none"] => if s.isEmpty then none else some "reply with an outstanding request refused"
          | _ => some "unparsable observation")
      else none
    | [fn, t, w] =>
      if fn == "repRecv" || fn == "respondRecv" then do
        let t ← t.toNat?
        pure (judgeRecv (classify t (← parseHex w)) [] t obs)
      else if fn == "pair1Recv" then do
        pure (judgeRecv (classifyHop (← t.toNat?) (← parseHex w)) [] 1 obs)
      else if fn == "pair1RawSend" then do
        -- pair1RawSend <hdr> <body> => wire <x> | none: count + 1, body unchanged; refused unless one word < 255
        let h ← parseHex t
        let b ← parseHex w
        pure (match obs with
          | ["wire", x] =>
            if h.length ≠ 4 || beDecode h ≥ 255 then some "message with a malformed hop count was sent"
            else if parseHex x == some (idWord (beDecode h + 1) ++ b) then none else some "forwarded bytes are not (count+1) · body"
          | ["none"] => if h.length ≠ 4 || beDecode h ≥ 255 then none else some "forwardable message refused"
          | _ => some "unparsable observation")
      else if fn == "xrepSend" || fn == "xrespondSend" then do
        -- xrepSend <hdr> <body> => to <pipe> <wire> | none : unwind exactly one word
        let h ← parseHex t
        let b ← parseHex w
        pure (match obs with
          | ["to", p, x] =>
            if h.length < 4 then some "message without a destination word was sent"
            else if p.toNat? ≠ some (beDecode (h.take 4)) then some "reply routed to a pipe other than the one named by the first header word"
            else if parseHex x ≠ some (h.drop 4 ++ b) then some "reply bytes are not rest-of-header · body"
            else none
          | ["none"] => if h.length < 4 then none else some "routable reply was not sent"
          | _ => some "unparsable observation")
      else if fn == "xreqSend" || fn == "xsurveySend" then do
        let h ← parseHex t
        let b ← parseHex w
        pure (match obs with
          | ["wire", x] => if parseHex x == some (h ++ b) then none else some "forwarded bytes are not header · body"
          | _ => some "request was not forwarded")
      else none
    | [fn, w] =>
      if fn == "pair1CookedSend" then do
        let b ← parseHex w
        pure (match obs with
          | ["wire", x] => if parseHex x == some (idWord 1 ++ b) then none else some "cooked PAIR1 message does not start with hop count 1"
          | _ => some "message was not sent")
      else if fn == "xreqRecv" || fn == "xsurveyRecv" then do
        pure (judgeRecv (classifyNoTtl (Nng.Generated.maxMaxTtl + 1) (← parseHex w)) [] (Nng.Generated.maxMaxTtl + 1) obs)
      else none
    | "chain" :: _ :: tR :: id :: b :: r :: st => do
      let e := showFate (expected (← parseStages st) (← tR.toNat?) (← id.toNat?) (← parseHex b) (← parseHex r))
      pure (if " ".intercalate obs == e then none else some s!"chain outcome differs from the specification: expected {e}")
    | _ => none
  match r with
  | some none => "ok"
  | some (some e) => "VIOLATION " ++ e
  | none => "bad-op"

def stateless (f : List String → String) : Component :=
  { σ := Unit, init := (), step := fun _ ws => ((), f ws) }

def components : List (String × Component) := [
  ("bt-model", stateless modelStep),
  ("bt-spec", stateless specStep),
  ("bt-judge", stateless judgeStep)
]

end Nng.Driver.Backtrace
