/- driver components for the REQ model and the C04 (requester half) / C12 judges -/
import NngModel.Driver.Pipeline
import NngModel.Model.Req
import NngModel.Spec.Req
namespace Nng.Driver.Req
open Nng Nng.Proto Nng.Driver

def components : List (String × Component) := [
  ("req-model", Nng.Driver.Pipeline.protoComponent ({} : Nng.Req.State) Nng.Req.step),
  ("req-judge-c04", Nng.Driver.Pipeline.judgeComponent ({} : Nng.ReqSpec.J) Nng.ReqSpec.step (·.err04)),
  ("req-judge-c12", Nng.Driver.Pipeline.judgeComponent ({} : Nng.ReqSpec.J) Nng.ReqSpec.step (·.err12))
]

end Nng.Driver.Req
