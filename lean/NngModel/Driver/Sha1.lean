/- driver components for SHA-1 (harness/u_sha1.c): `sha1-model` (Model/Sha1.lean, the incremental code) and
   `sha1-spec` (Spec/Sha1.lean, FIPS 180-4 one shot on everything fed since `init`) -/
import NngModel.Driver.Common
import NngModel.Model.Sha1
import NngModel.Spec.Sha1
namespace Nng.Driver.Sha1
open Nng

def hex20 (b : Bytes) : String := String.join (b.map hexByte)

/-! model -/
def mstep (m : Option Sha1.Ctx) (ws : List String) : Option Sha1.Ctx × String :=
  match ws with
  | ["verbose"] => (m, "ok")
  | ["init", g] =>
    let c := Sha1.init (Sha1.raw (List.replicate 64 (UInt8.ofNat (g.toNat?.getD 0))))
    (some c, s!"init idx={c.idx} len={c.len}")
  | ["update", h] =>
    match m, parseHex h with
    | some c, some b =>
      let c := Sha1.update c b
      (some c, s!"update idx={c.idx} len={c.len}" ++ (if c.safe then "" else " UNSAFE"))
    | _, _ => (m, "bad-op")
  | ["final"] =>
    match m with
    | some c =>
      let r := Sha1.final c
      (some r.1, s!"final {hex20 r.2} idx={r.1.idx}" ++ (if r.1.safe then "" else " UNSAFE"))
    | none => (m, "bad-op")
  | ["hash", h] =>
    match parseHex h with
    | some b => (m, s!"hash {hex20 (Sha1.hash b)}")
    | none => (m, "bad-op")
  | _ => (m, "bad-op")

/-! specification: the message fed since `init`; after `final` the context has no specified meaning -/
def sstep (m : Option Bytes) (ws : List String) : Option Bytes × String :=
  match ws with
  | ["verbose"] => (m, "ok")
  | ["init", _] => (some [], "init idx=0 len=0")
  | ["update", h] =>
    match m, parseHex h with
    | some msg, some b =>
      let msg := msg ++ b
      (some msg, s!"update idx={msg.length % 64} len={8 * msg.length % 2 ^ 64}")
    | none, some _ => (none, "unspecified")
    | _, _ => (m, "bad-op")
  | ["final"] =>
    match m with
    | some msg => (none, s!"final {hex20 (Sha1Spec.sha1 msg)} idx=0")
    | none => (none, "unspecified")
  | ["hash", h] =>
    match parseHex h with
    | some b => (m, s!"hash {hex20 (Sha1Spec.sha1 b)}")
    | none => (m, "bad-op")
  | _ => (m, "bad-op")

def components : List (String × Component) :=
  [("sha1-model", { σ := Option Sha1.Ctx, init := none, step := mstep }),
   ("sha1-spec", { σ := Option Bytes, init := none, step := sstep })]

end Nng.Driver.Sha1
