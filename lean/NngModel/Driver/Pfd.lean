/- driver components for the poller part of C10:
   `pfd-model` : `init <progs> <scripts>` (progs = comma separated words over i o b (arm POLLIN / POLLOUT / both)
                 c (close) s (stop) f (fini) x (free) k (another pfd's stop writes the eventfd), `-` = empty program, `none` = no client; scripts = the same
                 syntax, one word per callback invocation), `step <p|c<i>> [ready [w|f]]` (ready = letters over
                 i o e h or `-`; `f` = the pfd entry precedes the wake entry) -> one observation line per input line
   `pfd-judge` : reads observation lines (of the implementation), answers `ok` / `VIOLATION <clause>` /
                 `CONTRACT <clause>` (the schedule broke the contract at this step) / `off` (after that);
                 the first line of a case is the initial observation -/
import NngModel.Driver.Common
import NngModel.Model.PfdObs
namespace Nng.Driver.Pfd
open Nng Nng.Driver Nng.Pfd Nng.PfdSpec

def b01 (b : Bool) : String := if b then "1" else "0"

def evsNat (e : Evs) : Nat := (if e.i then 1 else 0) + (if e.o then 4 else 0) + (if e.e then 8 else 0) + (if e.h then 16 else 0)

def natEvs (n : Nat) : Evs := ⟨n % 2 == 1, (n / 4) % 2 == 1, (n / 8) % 2 == 1, (n / 16) % 2 == 1⟩

def showR : R → String
  | .k => "k"
  | .x => "x"
  | .n => "n"
  | .b => "b"

def showResList (l : List R) : String := if l.isEmpty then "-" else String.join (l.map showR)

def showTid : Option Tid → String
  | none => "-"
  | some .p => "p"
  | some (.c i) => s!"c{i}"

def showObs (o : Obs) : String :=
  let res := if o.res.isEmpty then "none" else ",".intercalate (o.res.map showResList)
  s!"reg={b01 o.reg} en={b01 o.en} mask={evsNat o.mask} fd={b01 o.fd} nb={o.nb} nr={o.nr} ab={o.ab} kb={o.kb} sb={o.sb} sr={o.sr} " ++
  s!"fb={o.fb} fr={o.fr} xr={o.xr} pb={o.pb} sec={b01 o.sec} cd={b01 o.cd} hv={o.hv} cbB={o.cbB} cbE={o.cbE} hm={evsNat o.hm} " ++
  s!"cm={evsNat o.cm} la={evsNat o.la} uaf={b01 o.uaf} badfd={b01 o.badfd} regc={b01 o.regc} live={b01 o.live} fin={b01 o.fin} res={res}"

/-- implementation state beyond the specification's observation, and where each thread is parked -/
def showImpl (s : State) : String :=
  let g := s.g
  s!" ev={evsNat g.events} add={b01 g.added} clg={b01 g.closing} stp={b01 g.stopped} rq={b01 g.onReap} mtx={showTid g.mtx} " ++
  s!"efd={g.evfd} shut={b01 g.shut} next={s.p.next}|" ++ ",".intercalate (s.cs.map Client.next)

def parseOp (c : Char) : Option Op :=
  if c == 'i' then some (.arm ⟨true, false, false, false⟩) else if c == 'o' then some (.arm ⟨false, true, false, false⟩)
  else if c == 'b' then some (.arm ⟨true, true, false, false⟩) else if c == 'c' then some .close
  else if c == 's' then some .stop else if c == 'f' then some .fini else if c == 'x' then some .free else if c == 'k' then some .kick else none

def parseProgs (w : String) : Option (List (List Op)) :=
  if w == "none" then some [] else
    (w.splitOn ",").mapM fun p => if p == "-" then some [] else p.toList.mapM parseOp

def parseBool (w : String) : Option Bool :=
  if w == "1" then some true else if w == "0" then some false else none

def parseTid (w : String) : Option Tid :=
  if w == "p" then some .p else
  match w.toList with
  | 'c' :: r => (String.ofList r).toNat?.map .c
  | _ => none

def parseReady (w : String) : Option Evs :=
  if w == "-" then some Evs.none else
  if w.toList.all (fun c => c == 'i' || c == 'o' || c == 'e' || c == 'h') then
    some ⟨w.toList.contains 'i', w.toList.contains 'o', w.toList.contains 'e', w.toList.contains 'h'⟩
  else none

structure M where
  st : Option State := none

def modelStep (m : M) (ws : List String) : M × String :=
  match ws, m.st with
  | ["init", ps, sc], _ =>
    match parseProgs ps, parseProgs sc with
    | some ps, some sc =>
      let s := Pfd.init ps sc
      ({ st := some s }, showObs (obsOf s) ++ showImpl s)
    | _, _ => (m, "bad-op")
  | "step" :: t :: rest, some s =>
    match parseTid t with
    | some tid =>
      let ready := match rest with | r :: _ => (parseReady r).getD Evs.none | [] => Evs.none
      let wf := match rest with | [_, "f"] => false | _ => true
      let s' := Pfd.step s { tid := tid, ready := ready, wakeFirst := wf }
      ({ st := some s' }, showObs (obsOf s') ++ showImpl s')
    | none => (m, "bad-op")
  | _, _ => (m, "bad-op")

def kv (ws : List String) (k : String) : Option String :=
  ws.findSome? fun w => if w.startsWith (k ++ "=") then some (w.drop (k.length + 1)).toString else none

def parseRChar (c : Char) : Option R :=
  if c == 'k' then some .k else if c == 'x' then some .x else if c == 'n' then some .n else if c == 'b' then some .b else none

def parseObs (ws : List String) : Option Obs := do
  let n := fun k => (kv ws k).bind (·.toNat?)
  let b := fun k => (kv ws k).bind parseBool
  let e := fun k => (n k).map natEvs
  let resw ← kv ws "res"
  let res ← if resw == "none" then some [] else
    (resw.splitOn ",").mapM fun w => if w == "-" then some [] else w.toList.mapM parseRChar
  pure { reg := ← b "reg", en := ← b "en", mask := ← e "mask", fd := ← b "fd", nb := ← n "nb", nr := ← n "nr", ab := ← n "ab",
         kb := ← n "kb", sb := ← n "sb", sr := ← n "sr", fb := ← n "fb", fr := ← n "fr", xr := ← n "xr", pb := ← n "pb",
         sec := ← b "sec", cd := ← b "cd", hv := ← n "hv", cbB := ← n "cbB", cbE := ← n "cbE", hm := ← e "hm", cm := ← e "cm",
         la := ← e "la", uaf := ← b "uaf", badfd := ← b "badfd", regc := ← b "regc", live := ← b "live", fin := ← b "fin", res := res }

structure JD where
  j : Option J := none

def judgeLine (d : JD) (ws : List String) : JD × String :=
  match parseObs ws with
  | none => (d, "bad-obs")
  | some o =>
    let j := match d.j with | some j => j | none => { prev := o }
    let (j', v) := judgeStep j o
    ({ j := some j' }, match v with
      | .ok => "ok"
      | .off => "off"
      | .contract k => "CONTRACT " ++ k
      | .violation c => "VIOLATION " ++ c)

def components : List (String × Component) := [
  ("pfd-model", { σ := M, init := {}, step := modelStep }),
  ("pfd-judge", { σ := JD, init := {}, step := judgeLine })
]

end Nng.Driver.Pfd
