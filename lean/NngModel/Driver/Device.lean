/- driver components for the nng_device model (C13, device half) -/
import NngModel.Driver.Common
import NngModel.Model.Device
import NngModel.Model.RawHeaders
import NngModel.Spec.Device
import NngModel.Spec.DeviceSim
namespace Nng.Driver.Device
open Nng Nng.Driver Nng.Device

/-! ### `dev-model`: the model side of harness/u_device.c (same lines in, same lines out) -/

structure US where
  info : List (Nat × SockInfo) := []
  sys : System := { dev := {}, socks := List.replicate 4 {} }
  used : Bool := false

def showMsgOpt : Option Msg → String
  | none => "NULL"
  | some m => s!"{toHex m.hdr} {toHex m.body}"

def showAct : Act → String
  | .sockRecv s i => s!"recv {s} {i}"
  | .sockSend s i m => s!"send {s} {i} {showMsgOpt m}"
  | .msgFree _ none => "free NULL"
  | .msgFree i (some m) => s!"free {i} {toHex m.hdr} {toHex m.body}"
  | .abort i rv => s!"abort {i} {rv}"
  | .hold a b => s!"hold {a} {b}"
  | .sockClose s => s!"close {s}"
  | .userFinish rv => s!"finish {rv}"
  | .reap => "reap"

def showActs (as : List Act) : String :=
  if as.isEmpty then "-" else " ; ".intercalate (as.map showAct)

def stChar : PState → String
  | .init => "I" | .recv => "R" | .send => "S" | .fini => "F"

def b2s (b : Bool) : String := if b then "1" else "0"

def showDev (d : Dev) : String :=
  if d.reaps > 0 then "gone"
  else if d.paths.isEmpty then "none"
  else
    let st := String.join (d.paths.map fun p => stChar p.state)
    let dirs := ",".intercalate (d.paths.map fun p => s!"{p.src}>{p.dst}")
    let msgs := ",".intercalate (d.paths.map fun p =>
      match p.amsg with | none => "-" | some m => toHex (m.body.take 24))
    s!"st={st} run={d.running} rv={d.rv} user={b2s d.user} owned={b2s d.owned} dirs={dirs} msg={msgs}"

def infoFn (tab : List (Nat × SockInfo)) (s : Nat) : SockInfo :=
  (tab.lookup s).getD ⟨0, 0, 0⟩

def sockArg (tab : List (Nat × SockInfo)) (w : String) : Option Nat :=
  match w.toNat? with
  | some k => if (tab.lookup k).isSome then some k else none
  | none => none

def parseHexNat (s : String) : Option Nat :=
  s.toList.foldlM (fun acc c => (hexVal c).map (acc * 16 + ·)) 0

def holdArg (ws : List String) : Nat :=
  (ws.filterMap fun w => if w.startsWith "hold=" then (w.drop 5).toString.toNat? else none).headD 0

def unitStep (u : US) (ws : List String) : US × String :=
  match ws with
  | ["sock", k, pr, pe, fl] =>
    match k.toNat?, parseHexNat pr, parseHexNat pe, fl.toNat? with
    | some k, some pr, some pe, some fl =>
      if k < 4 then ({ u with info := (k, ⟨pr, pe, fl⟩) :: u.info.filter (·.1 != k) }, s!"- | {showDev u.sys.dev}")
      else (u, "bad-op")
    | _, _, _, _ => (u, "bad-op")
  | "device" :: a :: b :: opts =>
    if u.used then (u, "bad-op")
    else
      let r := nniDevice (infoFn u.info) (sockArg u.info a) (sockArg u.info b)
        (!opts.contains "noalloc") (!opts.contains "nostart") (holdArg opts)
      -- the receives posted by device_start are served by the fake sockets (messages may be queued already)
      let sy : System := absorb { dev := r.1, socks := u.sys.socks, ready := List.replicate r.1.paths.length none } r.2
      ({ u with sys := sy, used := r.1.user || r.1.reaps > 0 }, s!"{showActs r.2} | {showDev r.1}")
  | _ =>
    let ev : Option SEv :=
      match ws with
      | ["arrive", s, h, b] => do
        let s ← s.toNat?
        if s < 4 && (u.info.lookup s).isSome then pure (.arrive s ⟨← parseHex h, ← parseHex b⟩) else none
      | ["run", i] => i.toNat?.map .run
      | ["recvfail", i, e] => do pure (.recvFail (← i.toNat?) (← e.toNat?))
      | ["senddone", i, rv] => do pure (.sendDone (← i.toNat?) (← rv.toNat?))
      | ["cancel", rv] => rv.toNat?.map .cancel
      | _ => none
    match ev with
    | none => (u, "bad-op")
    | some e =>
      let sy' := sstep { u.sys with trace := [] } e
      ({ u with sys := sy' }, s!"{showActs sy'.trace} | {showDev sy'.dev}")

def unitComponent : Component := { σ := US, init := {}, step := unitStep }

/-! ### judges: lines are `<operation words> => <what the implementation printed>` -/

def splitJudgeLine (ws : List String) : List String × String :=
  let (op, rest) := ws.span (· ≠ "=>")
  (op, " ".intercalate (rest.drop 1))

def unitJudgeComponent : Component :=
  { σ := Nng.DeviceSpec.UJ, init := {},
    step := fun j ws =>
      let (op, out) := splitJudgeLine ws
      let j' := Nng.DeviceSpec.uStep j op out
      (j', match j'.err with | some e => "VIOLATION " ++ e | none => "ok") }

def simJudgeComponent : Component :=
  { σ := Nng.DeviceSim.SJ, init := {},
    step := fun j ws =>
      let (op, out) := splitJudgeLine ws
      match op with
      | "sched" :: _ => (j, "ok")
      | _ =>
        let j' := Nng.DeviceSim.step j op out
        (j', match j'.err with | some e => "VIOLATION " ++ e | none => "ok") }

/-! ### `dev-sim-model`: the device model between FIFO sockets with the raw protocols' header rules,
    run to quiescence after every line (the model side of harness/s_device.c).  Lines are the harness
    ops with the environment's answers appended by the Python side: `open s proto raw <proto-hex>
    <peer-hex> <flags>`, `pipe_add s peer <id>`, `recv_done p hex <accepted 0|1>`.  Output: `done <rv>`
    on the line on which the user aio completes, the per-pipe byte strings at `end`, else `-`. -/

structure SimSock where
  proto : String
  info : SockInfo
  ttl : Nat := Nng.Generated.btTtlDefault

structure SM where
  socks : List (Nat × SimSock) := []
  pipes : List (Nat × Nat × Bool) := []         -- socket, id, closed
  sys : System := { dev := {}, socks := List.replicate 4 {} }
  started : Bool := false
  pout : List (Nat × Bytes) := []               -- (pipe, bytes) in the order handed over
  sout : List (Nat × Bytes) := []               -- (socket, bytes) for load-balanced sockets
  seen : Nat := 0                               -- length of sys.trace already interpreted

def SM.infoFn (m : SM) (s : Nat) : SockInfo := ((m.socks.lookup s).map (·.info)).getD ⟨0, 0, 0⟩
def SM.pipeId (m : SM) (p : Nat) : Nat := (m.pipes[p]?.map (·.2.1)).getD 0
def SM.livePipes (m : SM) (s : Nat) : List Nat :=
  (List.range m.pipes.length).filter fun p => match m.pipes[p]? with | some (k, _, c) => k == s && !c | none => false

/-- interpret the device's new submissions: the destination socket's raw send rule decides the pipes -/
def SM.absorbSends (m : SM) : SM :=
  let acts := m.sys.trace.drop m.seen
  let m := { m with seen := m.sys.trace.length }
  acts.foldl (fun m a =>
    match a with
    | .sockSend d _ (some msg) =>
      match m.socks.lookup d with
      | some k =>
        match Nng.RawHdr.rawSend k.proto msg.hdr msg.body with
        | some (sel, some w) =>
          let lp := m.livePipes d
          match sel with
          | .all => { m with pout := m.pout ++ lp.map (·, w) }
          | .allExcept id => { m with pout := m.pout ++ (lp.filter fun q => m.pipeId q != id).map (·, w) }
          | .pipeId id => { m with pout := m.pout ++ (lp.filter fun q => m.pipeId q == id).map (·, w) }
          | .anyOne => if lp.isEmpty then m else { m with sout := m.sout ++ [(d, w)] }
        | _ => m
      | none => m
    | _ => m) m

/-- the canonical schedule: run every completed receive, complete every outstanding send at once
    (refused sends with the socket's error), until nothing is left to do -/
def SM.settle : Nat → SM → SM
  | 0, m => m
  | fuel + 1, m =>
    match (List.range m.sys.ready.length).find? (fun i => (m.sys.ready[i]?.getD none).isSome) with
    | some i => SM.settle fuel ({ m with sys := sstep m.sys (.run i) }).absorbSends
    | none =>
      match (List.range m.sys.dev.paths.length).find? (fun i =>
          match m.sys.dev.paths[i]? with | some p => p.state == .send | none => false) with
      | some i =>
        let rv := match m.sys.dev.paths[i]? with
          | some p =>
            match p.amsg, m.socks.lookup p.dst with
            | some msg, some k => if (Nng.RawHdr.rawSend k.proto msg.hdr msg.body).isNone then Nng.Err.eproto else 0
            | _, _ => 0
          | none => 0
        SM.settle fuel ({ m with sys := sstep m.sys (.sendDone i rv) }).absorbSends
      | none =>
        -- a failed device: the aborted receives complete with the abort's error
        if m.sys.dev.rv != 0 then
          match (List.range m.sys.dev.paths.length).find? (fun i =>
              match m.sys.dev.paths[i]? with | some p => p.state == .recv | none => false) with
          | some i => SM.settle fuel ({ m with sys := sstep m.sys (.recvFail i m.sys.dev.rv) }).absorbSends
          | none => m
        else m

def SM.fuel (m : SM) : Nat :=
  8 + 4 * (m.sys.ready.length + (m.sys.socks.map (·.rxq.length)).sum + m.sys.dev.paths.length)

def showDone (before after : List Nat) : String :=
  match after.drop before.length with
  | [] => "-"
  | l => " ; ".intercalate (l.map fun rv => s!"done {rv}")

def simModelStep (m : SM) (ws : List String) : SM × String :=
  match ws with
  | "sched" :: _ => (m, "ok")
  | ["open", s, proto, _, pr, pe, fl] | ["open", s, proto, pr, pe, fl] =>
    match s.toNat?, parseHexNat pr, parseHexNat pe, fl.toNat? with
    | some s, some pr, some pe, some fl =>
      ({ m with socks := (s, { proto := proto, info := ⟨pr, pe, fl⟩ }) :: m.socks }, "-")
    | _, _, _, _ => (m, "-")
  | ["setopt", s, name, _, v, ok] =>
    match s.toNat?, v.toNat? with
    | some s, some v =>
      if name == Nng.Generated.btOptMaxTtl && ok == "1" then
        ({ m with socks := m.socks.map fun (k, x) => if k == s then (k, { x with ttl := v }) else (k, x) }, "-")
      else (m, "-")
    | _, _ => (m, "-")
  | ["pipe_add", s, _, id] =>
    match s.toNat?, id.toNat? with
    | some s, some id => ({ m with pipes := m.pipes ++ [(s, id, id == 0)] }, "-")
    | _, _ => (m, "-")
  | ["recv_done", p, w, acc] =>
    if acc != "1" || w.startsWith "!" then (m, "-") else
    match p.toNat?, Nng.DeviceSim.expand m.pipeId w with
    | some p, some wire =>
      match m.pipes[p]? with
      | some (s, id, _) =>
        match m.socks.lookup s with
        | some k =>
          -- a socket that cannot receive never arms its pipes; a finished device's sockets are closed
          match Nng.RawHdr.rawRecv k.proto k.ttl id wire with
          | .deliver h b =>
            let before := m.sys.dev.userDone
            let m := { m with sys := sstep m.sys (.arrive s ⟨h, b⟩) }
            let m := (SM.settle m.fuel m).absorbSends
            (m, showDone before m.sys.dev.userDone)
          | _ => (m, "-")
        | none => (m, "-")
      | none => (m, "-")
    | _, _ => (m, "-")
  | ["device", a, b] =>
    if m.started then (m, "bad-op") else
    let tab := m.socks.map fun (k, x) => (k, x.info)
    let r := nniDevice (infoFn tab) (sockArg tab a) (sockArg tab b) true true 0
    let sy : System := absorb { dev := r.1, socks := m.sys.socks, ready := List.replicate r.1.paths.length none } r.2
    let m := { m with sys := sy, started := true }
    let m := (SM.settle m.fuel m.absorbSends).absorbSends
    (m, showDone [] m.sys.dev.userDone)
  | "cancel" :: _ | "abort" :: _ | "stop" :: _ =>
    let rv := match ws with
      | ["abort", rv] => rv.toNat?.getD 0
      | ["stop"] => Nng.Generated.devErrStopped
      | _ => Nng.Generated.devErrCanceled
    let before := m.sys.dev.userDone
    let m := { m with sys := sstep m.sys (.cancel rv) }
    let m := (SM.settle m.fuel m).absorbSends
    (m, showDone before m.sys.dev.userDone)
  | ["end"] =>
    let perPipe := (List.range m.pipes.length).filterMap fun q =>
      let ws := (m.pout.filter (·.1 == q)).map (toHex ·.2)
      if ws.isEmpty then none else some s!"p{q}={",".intercalate ws}"
    let perSock := (List.range 4).filterMap fun s =>
      let ws := ((m.sout.filter (·.1 == s)).map (toHex ·.2)).mergeSort
      if ws.isEmpty then none else some s!"s{s}~{",".intercalate ws}"
    (m, " ".intercalate ("end" :: perPipe ++ perSock))
  | ["fini"] => ({}, "fini live=0 bytes=0 badfree=0")
  | _ => (m, "-")

def simModelComponent : Component := { σ := SM, init := {}, step := simModelStep }

def components : List (String × Component) := [
  ("dev-model", unitComponent),
  ("dev-unit-judge", unitJudgeComponent),
  ("dev-sim-judge", simJudgeComponent),
  ("dev-sim-model", simModelComponent)
]

end Nng.Driver.Device
