/- driver components for C02: `aio-judge` (the trace monitor of Spec/Aio.lean run on an
   implementation trace) and `aio-accept` (the model of Model/Aio.lean as an acceptor:
   is the observed trace a trace of the model?  subset construction over hidden steps). -/
import NngModel.Driver.Common
import NngModel.Model.Aio
import NngModel.Spec.Aio
import NngModel.Generated.C02
namespace Nng.Driver.Aio
open Nng Nng.Driver Nng.AioSpec Nng.Aio

structure Ev where
  actor : String
  obs : Option Obs
deriving Repr

def parseTmo (s : String) : Tmo :=
  if s == "inf" || s == "def" then .never
  else match s.toNat? with
    | some 0 => .zero
    | some n => .ms n
    | none => .never

def nat (s : String) : Nat := s.toNat?.getD 0

/-- one harness event (words without the trailing @time) -/
def parseEvent (ws : List String) : Ev :=
  match ws with
  | a :: rest =>
    let o : Option Obs := match rest with
      | ["to", v] => some (.setTimeout (parseTmo v))
      | ["ex", e] => some (.setExpire (nat e))
      | ["skip"] => some .skipArm
      | ["c", "sub"] => some (.subCall .gen)
      | ["c", "slp", ms] => some (.subCall (.slp (nat ms)))
      | ["c", "subi", rv] => some (.subCall (.direct (nat rv)))
      | ["c", "rcv"] => some (.subCall .ext)
      | ["c", "snd"] => some (.subCall .ext)
      | ["c", "dial"] => some (.subCall .ext)
      | ["r", "sub", v] => some (.subRet (nat v))
      | ["r", "subi", v] => some (.subRet (nat v))
      | ["r", "slp"] => some (.subRet 2)
      | ["r", "rcv"] => some (.subRet 2)
      | ["r", "snd"] => some (.subRet 2)
      | ["r", "dial"] => some (.subRet 2)
      | ["pc", rv, f] => some (.provDone (nat rv) (f == "1"))
      | ["xc", rv, f] => some (.cancelRan (nat rv) (f == "1"))
      | ["c", "abt", rv] => some (.abortCall (nat rv))
      | ["r", "abt"] => some .abortRet
      | ["auxdup", _] => some .auxBad
      | ["auxmiss", _] => some .auxBad
      | ["c", "cls"] => some .closeCall
      | ["cb", r] => some (.cbBegin (nat r))
      | ["ce", r] => some (.peek (nat r))
      | ["cx"] => some .cbEnd
      | ["c", "stp"] => some .stopCall
      | ["r", "stp"] => some .stopRet
      | ["c", "fre"] => some .freeCall
      | ["r", "fre"] => some .freeRet
      | ["r", "wt", r] => some (.peek (nat r))
      | ["adv", d] => some (.tick (nat d))
      | ["end"] => some .quiet
      | ["idle"] => some .settled
      | _ => none
    { actor := a, obs := o }
  | [] => { actor := "", obs := none }

/-- split the words of a trace line at ";" and drop the @time words -/
def splitEvents (ws : List String) : List (List String) :=
  let rec go (ws : List String) (cur : List String) (acc : List (List String)) : List (List String) :=
    match ws with
    | [] => (cur.reverse :: acc).reverse
    | w :: r =>
      if w == ";" then go r [] (cur.reverse :: acc)
      else if w.startsWith "@" then go r cur acc
      else go r (w :: cur) acc
  (go ws [] []).filter (· ≠ [])

def parseTrace (ws : List String) : List Ev := (splitEvents ws).map parseEvent

def judgeLine (ws : List String) : String :=
  let obs := (parseTrace ws).filterMap (·.obs)
  match judge obs with
  | none => "ok"
  | some e => "VIOLATION " ++ e

-- acceptor ---------------------------------------------------------------------------

def treeCfg : Cfg := { fixExpire := Nng.Generated.aioFixExpire, fixAbort := Nng.Generated.aioFixAbort }

def tauSucc (cfg : Cfg) (s : State) : List State :=
  (hiddenLabels s).filterMap fun l => if (obsOf s l).isNone then step cfg s l else none

def addNew (seen : List State) (xs : List State) : List State × List State :=
  xs.foldl (fun (acc : List State × List State) x =>
    if acc.1.contains x then acc else (x :: acc.1, x :: acc.2)) (seen, [])

def closure (cfg : Cfg) : Nat → List State → List State → List State
  | 0, _, seen => seen
  | _ + 1, [], seen => seen
  | n + 1, s :: rest, seen =>
    let (seen', fresh) := addNew seen (tauSucc cfg s)
    closure cfg n (rest ++ fresh) seen'

def cands (actor : String) (o : Obs) : List Label :=
  match o with
  | .tick d => [.tick d]
  | .setTimeout t => [.setTimeout t]
  | .setExpire e => [.setExpire e]
  | .skipArm => [.skipArm]
  | .subCall k => [.subCall k (actor == "T")]
  | .subRet 2 => [.subRet false 0, .subRet false 1]
  | .subRet v => [.subRet true v, .subRet false v]
  | .provDone rv _ => [.complete rv]
  | .cancelRan rv _ => [.callCancel .gen rv, .stopCancel, .expCall]
  | .abortCall rv => [.abortCall rv]
  | .closeCall => [.closeCall]
  | .cbBegin _ => [.cbRead]
  | .peek _ => [.peek]
  | .stopCall => [.stopCall false]
  | .freeCall => [.stopCall true]
  | .stopRet => [.stopRet]
  | .freeRet => [.stopRet]
  | .cbEnd => []
  | .abortRet => []
  | .auxBad => []
  | .quiet => []
  | .settled => []

def obsMatch (want : Obs) (got : Obs) : Bool :=
  match want, got with
  | .subRet 2, .subRet _ => true
  | a, b => a == b

def visSucc (cfg : Cfg) (actor : String) (o : Obs) (s : State) : List State :=
  (cands actor o).filterMap fun l =>
    match obsOf s l with
    | some o' => if obsMatch o o' then step cfg s l else none
    | none => none

def acceptLoop (cfg : Cfg) (evs : List Ev) (idx : Nat) (front : List State) (peak : Nat) : String :=
  match evs with
  | [] => s!"ok {peak}"
  | e :: rest =>
    match e.obs with
    | none => acceptLoop cfg rest (idx + 1) front peak
    | some .cbEnd => acceptLoop cfg rest (idx + 1) front peak
    | some .quiet => acceptLoop cfg rest (idx + 1) front peak
    | some .settled => acceptLoop cfg rest (idx + 1) front peak
    | some .abortRet => acceptLoop cfg rest (idx + 1) front peak
    | some .auxBad => acceptLoop cfg rest (idx + 1) front peak
    | some o =>
      let cl := closure cfg 20000 front front
      let (nxt, _) := addNew [] (cl.flatMap (visSucc cfg e.actor o))
      if nxt.isEmpty then s!"REJECT {idx} {e.actor} {repr o} states={cl.length}"
      else acceptLoop cfg rest (idx + 1) nxt (max peak cl.length)

def acceptLine (cfg : Cfg) (ws : List String) : String :=
  acceptLoop cfg (parseTrace ws) 0 [({} : State)] 1

def lineComponent (f : List String → String) : Component :=
  { σ := Unit, init := (),
    step := fun _ ws =>
      match ws with
      | "sched" :: _ => ((), "ok")
      | "setup" :: _ => ((), "ok")
      | "cb" :: _ => ((), "ok")
      | "A" :: _ => ((), "ok")
      | _ => ((), f ws) }

def components : List (String × Component) := [
  ("aio-judge", lineComponent judgeLine),
  ("aio-accept", lineComponent (acceptLine treeCfg)),
  ("aio-accept-fixed", lineComponent (acceptLine Cfg.fixed)),
  ("aio-accept-pinned", lineComponent (acceptLine Cfg.pinned))
]

end Nng.Driver.Aio
