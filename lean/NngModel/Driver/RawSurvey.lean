/- driver components for the raw SURVEYOR / raw RESPONDENT models and the raw C07 judges -/
import NngModel.Driver.Common
import NngModel.Driver.Pipeline
import NngModel.Model.Xsurvey
import NngModel.Model.Xrespond
import NngModel.Spec.RawSurvey
namespace Nng.Driver.RawSurvey
open Nng Nng.Proto Nng.Driver Nng.Driver.Pipeline

/-- the check writes the header of a raw RESPONDENT send as `P<pipe>+<hex>`: "this pipe's id, then
    <hex>"; models and judges use the canonical id `pipe + 1` -/
def canonHdr (w : String) : String :=
  if w.startsWith "P" then
    match (w.drop 1).toString.splitOn "+" with
    | [p, rest] =>
      match p.toNat? with
      | some p => toHex (Nng.RawSurveySpec.idWord p) ++ (if rest == "-" then "" else rest)
      | none => w
    | _ => w
  else w

def canonWords (ws : List String) : List String :=
  match ws with
  | ["send", c, a, h, b, m] => ["send", c, a, canonHdr h, b, m]
  | _ => ws

/-- model component: `pipe_id <p>` answers the canonical id, send headers are canonicalised -/
def modelComponent (k : Nng.RawSurv.Kind) : Component :=
  let inner := protoComponent ({} : Nng.RawSurv.State) (Nng.RawSurv.step k)
  { σ := inner.σ, init := inner.init,
    step := fun s ws =>
      match ws with
      | ["pipe_id", p] => (s, match p.toNat? with | some p => s!"rv 0 {p + 1}" | none => "bad-op")
      | _ => inner.step s (canonWords ws) }

def judgeComp (resp : Bool) : Component :=
  let inner := judgeComponent ({} : Nng.RawSurveySpec.XJ) (Nng.RawSurveySpec.xStep resp) (·.err)
  { σ := inner.σ, init := inner.init,
    step := fun s ws =>
      let (evw, outw) := ws.span (· ≠ "=>")
      inner.step s (canonWords evw ++ outw) }

def components : List (String × Component) := [
  ("xsurveyor-model", modelComponent Nng.Xsurvey.kind),
  ("xrespondent-model", modelComponent Nng.Xrespond.kind),
  ("xsurveyor-judge", judgeComp false),
  ("xrespondent-judge", judgeComp true)
]

end Nng.Driver.RawSurvey
