/- driver components for the HTTP server layer (harness/u_httpsrv.c): `httpsrv-model` (Model/HttpServer.lean, with the
   repair flags extracted from the tree under test) and `httpsrv-spec` (Spec/HttpServer.lean: the repaired behaviour,
   stated over the byte stream and the handlers in registration order). -/
import NngModel.Driver.Common
import NngModel.Driver.HttpConn
import NngModel.Model.HttpServer
import NngModel.Spec.HttpServer
import NngModel.Model.HttpClient
import NngModel.Spec.HttpClient
namespace Nng.Driver.HttpServer
open Nng

def hexOr (b : Bytes) : String := if b.isEmpty then "-" else toHex b

/-- the words of an `h` line, decoded: (id, kind word, uri, method, host, tree, getbody, maxbody, args) -/
structure HLine where
  id : Nat
  kind : String
  uri : Option Bytes
  method : Option (Option Bytes)      -- none = leave, some none = NULL
  host : Option Bytes                 -- none = leave
  tree : Bool
  getbody : Option Bool
  maxbody : Option Nat
  args : List String

def optWord {α : Type} (w : String) (f : String → Option α) : Option (Option α) :=
  if w == "-" then some none else (f w).map some

def parseH (ws : List String) : Option HLine :=
  match ws with
  | id :: kind :: uri :: meth :: host :: tree :: gb :: mb :: args =>
    match id.toNat?, optWord uri parseHex, (if meth == "~" then some (some none) else (optWord meth parseHex).map (·.map some)),
          optWord host parseHex, optWord gb String.toNat?, optWord mb String.toNat? with
    | some id, some uri, some meth, some host, some gb, some mb =>
      some { id := id, kind := kind, uri := uri, method := meth, host := host, tree := tree != "0", getbody := gb.map (· != 0),
             maxbody := mb, args := args }
    | _, _, _, _, _, _ => none
  | _ => none

/-! ## model -/
namespace M
open Nng.HttpSrv

structure MState where
  srv : Option Server := none
  conn : Bool := false
  stream : Bytes := []
  shown : Nat := 0
  closed : Bool := false
  eof : Bool := false
  cli : Bool := false                 -- client mode: a client connection exists
  cm : HttpConn.Msg := {}             -- its message state
  active : Bool := false              -- a transaction is waiting for response bytes
  cbody : Bytes := []                 -- the request body attached to the client connection

/-- a client connection after nni_http_set_host(conn, "h") -/
def cliInit : HttpConn.Msg := { host := asc "h", reqHdrs := HttpConn.setHostHdr [] (asc "h") }

/-- completion of the transaction over the bytes available, if it completes -/
def cliProgress (s : MState) : MState × List String :=
  match HttpCli.transactAs HttpCli.cliResets HttpCli.readResHead s.cm s.stream with
  | .waiting =>
    if s.eof then ({ s with active := false, closed := true }, [s!"T rv={Err.econnshut}"]) else ({ s with active := true }, [])
  | .error rv => ({ s with active := false, closed := true }, [s!"T rv={rv}"])
  | .ok m body used =>
    ({ s with active := false, cm := m, stream := s.stream.drop used },
     [s!"T rv=0 st={HttpConn.getStatus m} b={hexOr body}"])

def joinEv (op : String) (evs : List String) : String := if evs.isEmpty then s!"{op} -" else s!"{op} " ++ " ; ".intercalate evs

def evText : Ev → String
  | .handler id m u v b => s!"H{id} m={hexOr m} u={hexOr u} v={hexOr v} b={hexOr b}"
  | .write b => s!"W {toHex b}"
  | .close => "C"

def render (op : String) (evs : List Ev) : String :=
  if evs.isEmpty then s!"{op} -" else s!"{op} " ++ " ; ".intercalate (evs.map evText)

/-- the handler an `h` line describes (the init function's defaults, then the setters) -/
def mkHandler (l : HLine) : Option Handler :=
  let base : Option Handler :=
    match l.kind, l.args with
    | "echo", _ => some { id := l.id, uri := initUri l.uri }
    | "err", st :: _ => st.toNat?.map fun st => { id := l.id, uri := initUri l.uri, kind := .err st }
    | "static", d :: ct :: _ =>
      match parseHex d, (if ct == "~" then some none else (parseHex ct).map some) with
      | some d, some ct => some { id := l.id, uri := initUri l.uri, maxbody := 0, kind := .static d (ct.getD staticCtype) }
      | _, _ => none
    | "redir", st :: wh :: _ =>
      match st.toNat?, parseHex wh with
      | some st, some wh =>
        some { id := l.id, uri := initUri l.uri, method := [], getbody := false, maxbody := 0,
               kind := .redirect (if st = 0 then stMoved else st) wh (l.uri.getD []) }
      | _, _ => none
    | _, _ => none
  base.map fun h =>
    let h := match l.method with | some m => { h with method := setMethodOf m } | none => h
    let h := match l.host with | some v => { h with host := setHostOf (some v) } | none => h
    let h := if l.tree then { h with tree := true } else h
    if l.getbody.isSome || l.maxbody.isSome then
      { h with getbody := l.getbody.getD h.getbody, maxbody := l.maxbody.getD h.maxbody }
    else h

/-- client mode ops -/
def cliStep (s : MState) (op : String) (args : List String) : MState × String :=
  match op, args with
  | "txn", m :: u :: b :: rest =>
    if s.active then (s, "txn busy") else
    match parseHex m, parseHex u, parseHex b with
    | some m, some u, some b =>
      let keep := rest == ["1"]
      let cm := HttpCli.prepare keep s.cm m u b
      let body := HttpCli.prepareBody keep s.cbody b
      if s.closed then ({ s with cm := cm, cbody := body }, s!"txn T rv={Err.eclosed}")
      else
        let (s2, evs) := cliProgress { s with cm := cm, cbody := body }
        (s2, joinEv "txn" (s!"W {toHex (HttpCli.requestOut HttpSrv.wrStrict cm body)}" :: evs))
    | _, _, _ => (s, "bad-op")
  | "rx", [hex] =>
    match parseHex hex with
    | none => (s, "bad-op")
    | some b =>
      if s.closed || s.eof then (s, "rx -")
      else
        let s1 := { s with stream := s.stream ++ b }
        if !s.active then (s1, "rx -")
        else
          let (s2, evs) := cliProgress s1
          (s2, joinEv "rx" evs)
  | "eof", [] =>
    if s.active then ({ s with eof := true, active := false, closed := true }, s!"eof T rv={Err.econnshut}")
    else ({ s with eof := true }, "eof -")
  | _, _ => (s, "bad-op")

def step (s : MState) (ws : List String) : MState × String :=
  match ws with
  | ["verbose"] => (s, "ok")
  | ["srv"] => ({ srv := some {} }, "srv rv=0")
  | ["cli"] => ({ s with conn := false, cli := true, cm := cliInit, cbody := [], stream := [], active := false, closed := false, eof := false },
                "cli ok")
  | "txn" :: args => if s.cli then cliStep s "txn" args else (s, "no-cli")
  | op :: args =>
    if s.cli && (op == "rx" || op == "eof") then cliStep s op args else
    match s.srv with
    | none => if op == "h" || op == "tbl" || op == "errpage" || op == "conn" then (s, "no-srv") else
              if op == "rx" || op == "eof" then (s, "no-conn") else (s, "bad-op")
    | some srv =>
      match op, args with
      | "h", _ =>
        if args.length < 8 then (s, "bad-op") else
        match parseH args with
        | none => (s, "bad-op")
        | some l =>
          match mkHandler l with
          | none => (s, "bad-op")
          | some h =>
            match addHandler srv.handlers h with
            | .ok t => ({ s with srv := some { srv with handlers := t } }, "h rv=0")
            | .error rv => (s, s!"h rv={rv}")
      | "tbl", [] => (s, "tbl" ++ String.join (srv.handlers.map fun h => s!" {h.id}"))
      | "errpage", [code, html] =>
        match code.toNat?, parseHex html with
        | some code, some html => ({ s with srv := some { srv with pages := setPage srv.pages code html } }, "errpage rv=0")
        | _, _ => (s, "bad-op")
      | "conn", [] => ({ s with conn := true, cli := false, stream := [], shown := 0, closed := false, eof := false }, "conn -")
      | "rx", [hex] =>
        if !s.conn then (s, "no-conn") else
        match parseHex hex with
        | none => (s, "bad-op")
        | some b =>
          if s.closed || s.eof then (s, "rx -")
          else
            let stream := s.stream ++ b
            let evs := serve flags srv stream
            let delta := evs.drop s.shown
            ({ s with stream := stream, shown := evs.length, closed := evs.getLast? == some .close }, render "rx" delta)
      | "eof", [] =>
        if !s.conn then (s, "no-conn")
        else if s.closed then ({ s with eof := true }, "eof -")
        else ({ s with eof := true, closed := true }, "eof C")
      | _, _ => (s, "bad-op")
  | [] => (s, "bad-op")

end M

def model : Component := { σ := M.MState, init := {}, step := M.step }

/-! ## specification -/
namespace S
open Nng.HttpSrvSpec

structure SState where
  live : Bool := false
  routes : List Route := []            -- in registration order
  pages : List (Nat × Bytes) := []
  conn : Bool := false
  stream : Bytes := []
  shown : Nat := 0
  closed : Bool := false
  eof : Bool := false
  cli : Bool := false
  method : Bytes := []                 -- of the transaction in progress
  active : Bool := false
  vers : Bytes := Nng.HttpSrv.asc "HTTP/1.1"   -- the version the next kept request line carries (see `request`)
  cbody : Bytes := []                  -- the body of the request the application keeps

def joinEv (op : String) (evs : List String) : String := if evs.isEmpty then s!"{op} -" else s!"{op} " ++ " ; ".intercalate evs

def cliProgress (s : SState) : SState × List String :=
  match HttpCliSpec.transact Nng.Driver.HttpConn.params s.method s.stream with
  | .waiting =>
    if s.eof then ({ s with active := false, closed := true }, [s!"T rv={Err.econnshut}"]) else ({ s with active := true }, [])
  | .error rv => ({ s with active := false, closed := true }, [s!"T rv={rv}"])
  | .ok st body used vers => ({ s with active := false, stream := s.stream.drop used, vers := vers }, [s!"T rv=0 st={st} b={hexOr body}"])

def cliStep (s : SState) (op : String) (args : List String) : SState × String :=
  match op, args with
  | "txn", m :: u :: b :: rest =>
    if s.active then (s, "txn busy") else
    match parseHex m, parseHex u, parseHex b with
    | some m, some u, some b =>
      let keep := rest == ["1"]
      let m := m.take (Nng.Driver.HttpConn.params.methMax)
      -- a fresh request is HTTP/1.1 without body; a kept one carries the version of the last response read on the
      -- connection (the connection object has ONE version field) and keeps its body unless a new one is given
      let vers := if keep then s.vers else Nng.HttpSrv.asc "HTTP/1.1"
      let body := if b.isEmpty then (if keep then s.cbody else []) else b
      let s1 := { s with method := m, vers := vers, cbody := body }
      if s.closed then (s1, s!"txn T rv={Err.eclosed}")
      else
        let (s2, evs) := cliProgress s1
        (s2, joinEv "txn" (s!"W {toHex (HttpCliSpec.request m u (Nng.HttpSrv.asc "h") vers body)}" :: evs))
    | _, _, _ => (s, "bad-op")
  | "rx", [hex] =>
    match parseHex hex with
    | none => (s, "bad-op")
    | some b =>
      if s.closed || s.eof then (s, "rx -")
      else
        let s1 := { s with stream := s.stream ++ b }
        if !s.active then (s1, "rx -")
        else
          let (s2, evs) := cliProgress s1
          (s2, joinEv "rx" evs)
  | "eof", [] =>
    if s.active then ({ s with eof := true, active := false, closed := true }, s!"eof T rv={Err.econnshut}")
    else ({ s with eof := true }, "eof -")
  | _, _ => (s, "bad-op")

def evText : Ev → String
  | .handler id m u v b => s!"H{id} m={hexOr m} u={hexOr u} v={hexOr v} b={hexOr b}"
  | .write b => s!"W {toHex b}"
  | .close => "C"

def render (op : String) (evs : List Ev) : String :=
  if evs.isEmpty then s!"{op} -" else s!"{op} " ++ " ; ".intercalate (evs.map evText)

def params : SrvParams where
  http := Nng.Driver.HttpConn.params
  reasons := Nng.HttpSrv.reasons
  unknownReason := Nng.HttpSrv.unknownReason
  page := fun status reason => Nng.HttpSrv.page status reason none
  pageRedirect := fun status reason loc => Nng.HttpSrv.page status reason (some loc)
  pageCtype := Nng.HttpSrv.pageCtype
  defMaxBody := Nng.HttpSrv.defMaxBody
  staticCtype := Nng.HttpSrv.staticCtype
  uriMax := Nng.HttpSrv.uriSize - 1
  methodMax := Nng.HttpSrv.methodSize - 1
  hostMax := Nng.HttpSrv.hostSize - 1

def mkRoute (l : HLine) : Option Route :=
  let path : Bytes := match l.uri with
    | none => []
    | some u => if u == [0x2F] then [] else u.take params.uriMax
  let base : Option Route :=
    match l.kind, l.args with
    | "echo", _ => some { id := l.id, path := path, method := some (Nng.HttpSrv.asc "GET"), wantBody := true, maxBody := params.defMaxBody,
                          action := .echo }
    | "err", st :: _ => st.toNat?.map fun st =>
        { id := l.id, path := path, method := some (Nng.HttpSrv.asc "GET"), wantBody := true, maxBody := params.defMaxBody, action := .fail st }
    | "static", d :: ct :: _ =>
      match parseHex d, (if ct == "~" then some none else (parseHex ct).map some) with
      | some d, some ct => some { id := l.id, path := path, method := some (Nng.HttpSrv.asc "GET"), wantBody := true, maxBody := 0,
                                  action := .content d (ct.getD params.staticCtype) }
      | _, _ => none
    | "redir", st :: wh :: _ =>
      match st.toNat?, parseHex wh with
      | some st, some wh => some { id := l.id, path := path, method := none, wantBody := false, maxBody := 0,
                                   action := .redirect (if st = 0 then 301 else st) wh (l.uri.getD []) }
      | _, _ => none
    | _, _ => none
  base.map fun r =>
    let r := match l.method with
      | some none => { r with method := none }
      | some (some m) => { r with method := if m.isEmpty then none else some (m.take params.methodMax) }
      | none => r
    let r := match l.host with
      | some v => { r with host := if v.isEmpty || v == [0x2A] then none else some (v.take params.hostMax) }
      | none => r
    let r := if l.tree then { r with tree := true } else r
    if l.getbody.isSome || l.maxbody.isSome then
      { r with wantBody := l.getbody.getD r.wantBody, maxBody := l.maxbody.getD r.maxBody }
    else r

def step (s : SState) (ws : List String) : SState × String :=
  match ws with
  | ["verbose"] => (s, "ok")
  | ["srv"] => ({ live := true }, "srv rv=0")
  | ["cli"] => ({ s with conn := false, cli := true, stream := [], active := false, closed := false, eof := false, cbody := [],
                         vers := Nng.HttpSrv.asc "HTTP/1.1" }, "cli ok")
  | "txn" :: args => if s.cli then cliStep s "txn" args else (s, "no-cli")
  | op :: args =>
    if s.cli && (op == "rx" || op == "eof") then cliStep s op args else
    if !s.live then (if op == "h" || op == "tbl" || op == "errpage" || op == "conn" then (s, "no-srv") else
                     if op == "rx" || op == "eof" then (s, "no-conn") else (s, "bad-op")) else
    match op, args with
    | "h", _ =>
      if args.length < 8 then (s, "bad-op") else
      match parseH args with
      | none => (s, "bad-op")
      | some l =>
        match mkRoute l with
        | none => (s, "bad-op")
        | some r =>
          match register s.routes r with
          | .ok t => ({ s with routes := t }, "h rv=0")
          | .error rv => (s, s!"h rv={rv}")
    | "tbl", [] => (s, "tbl" ++ String.join ((precedence s.routes).map fun r => s!" {r.id}"))
    | "errpage", [code, html] =>
      match code.toNat?, parseHex html with
      | some code, some html => ({ s with pages := (s.pages.filter fun p => p.1 != code) ++ [(code, html)] }, "errpage rv=0")
      | _, _ => (s, "bad-op")
    | "conn", [] => ({ s with conn := true, cli := false, stream := [], shown := 0, closed := false, eof := false }, "conn -")
    | "rx", [hex] =>
      if !s.conn then (s, "no-conn") else
      match parseHex hex with
      | none => (s, "bad-op")
      | some b =>
        if s.closed || s.eof then (s, "rx -")
        else
          let stream := s.stream ++ b
          let evs := connection params s.routes s.pages stream
          let delta := evs.drop s.shown
          ({ s with stream := stream, shown := evs.length, closed := evs.getLast? == some .close }, render "rx" delta)
    | "eof", [] =>
      if !s.conn then (s, "no-conn")
      else if s.closed then ({ s with eof := true }, "eof -")
      else ({ s with eof := true, closed := true }, "eof C")
    | _, _ => (s, "bad-op")
  | [] => (s, "bad-op")

end S

def spec : Component := { σ := S.SState, init := {}, step := S.step }

def components : List (String × Component) := [("httpsrv-model", model), ("httpsrv-spec", spec)]

end Nng.Driver.HttpServer
