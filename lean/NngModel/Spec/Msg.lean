/-
  C17 specification: an nng_msg is a pair of byte strings (header, body).
  This file is the property, executable; it mentions no buffer, offset or capacity.
-/
import NngModel.Base.Bytes
import NngModel.Generated.Base

namespace Nng.MsgSpec

structure Abs where
  hdr : Bytes
  body : Bytes
deriving Repr, DecidableEq, Inhabited

def hdrCap : Nat := Nng.Generated.headerCap

/-- operations of the public message API, with their arguments -/
inductive Op
  | append (d : Bytes) | insert (d : Bytes) | trim (n : Nat) | chop (n : Nat)
  | appendU (w v : Nat) | insertU (w v : Nat) | trimU (w : Nat) | chopU (w : Nat)
  | realloc (n : Nat) (fill : UInt8) | reserve (n : Nat) | clear
  | poke (off : Nat) (d : Bytes)
  | hAppend (d : Bytes) | hInsert (d : Bytes) | hTrim (n : Nat) | hChop (n : Nat)
  | hAppendU (w v : Nat) | hInsertU (w v : Nat) | hTrimU (w : Nat) | hChopU (w : Nat)
  | hClear
deriving Repr, DecidableEq

/-- result: return code, new value, and the integer handed back by the *_uNN removers -/
structure Res where
  rv : Nat
  a : Abs
  val : Option Nat := none
deriving Repr, DecidableEq

/-- the string semantics.  Removing more than is present, or exceeding the header
    capacity, is EINVAL with no change. -/
def step (a : Abs) : Op → Res
  | .append d => ⟨0, { a with body := a.body ++ d }, none⟩
  | .insert d => ⟨0, { a with body := d ++ a.body }, none⟩
  | .trim n => if n > a.body.length then ⟨Err.einval, a, none⟩ else ⟨0, { a with body := a.body.drop n }, none⟩
  | .chop n => if n > a.body.length then ⟨Err.einval, a, none⟩ else ⟨0, { a with body := a.body.take (a.body.length - n) }, none⟩
  | .appendU w v => ⟨0, { a with body := a.body ++ beEncode w v }, none⟩
  | .insertU w v => ⟨0, { a with body := beEncode w v ++ a.body }, none⟩
  | .trimU w =>
    if a.body.length < w then ⟨Err.einval, a, none⟩
    else ⟨0, { a with body := a.body.drop w }, some (beDecode (a.body.take w))⟩
  | .chopU w =>
    if a.body.length < w then ⟨Err.einval, a, none⟩
    else ⟨0, { a with body := a.body.take (a.body.length - w) }, some (beDecode (a.body.drop (a.body.length - w)))⟩
  | .realloc n fill =>
    if n ≤ a.body.length then ⟨0, { a with body := a.body.take n }, none⟩
    else ⟨0, { a with body := a.body ++ List.replicate (n - a.body.length) fill }, none⟩
  | .reserve _ => ⟨0, a, none⟩
  | .clear => ⟨0, { a with body := [] }, none⟩
  | .poke off d =>
    -- a store through the body pointer; only stores inside the body are allowed, others are ignored
    if off + d.length ≤ a.body.length then
      ⟨0, { a with body := a.body.take off ++ d ++ a.body.drop (off + d.length) }, none⟩
    else ⟨0, a, none⟩
  | .hAppend d => if a.hdr.length + d.length > hdrCap then ⟨Err.einval, a, none⟩ else ⟨0, { a with hdr := a.hdr ++ d }, none⟩
  | .hInsert d => if a.hdr.length + d.length > hdrCap then ⟨Err.einval, a, none⟩ else ⟨0, { a with hdr := d ++ a.hdr }, none⟩
  | .hTrim n => if n > a.hdr.length then ⟨Err.einval, a, none⟩ else ⟨0, { a with hdr := a.hdr.drop n }, none⟩
  | .hChop n => if n > a.hdr.length then ⟨Err.einval, a, none⟩ else ⟨0, { a with hdr := a.hdr.take (a.hdr.length - n) }, none⟩
  | .hAppendU w v => if a.hdr.length + w > hdrCap then ⟨Err.einval, a, none⟩ else ⟨0, { a with hdr := a.hdr ++ beEncode w v }, none⟩
  | .hInsertU w v => if a.hdr.length + w > hdrCap then ⟨Err.einval, a, none⟩ else ⟨0, { a with hdr := beEncode w v ++ a.hdr }, none⟩
  | .hTrimU w =>
    if a.hdr.length < w then ⟨Err.einval, a, none⟩
    else ⟨0, { a with hdr := a.hdr.drop w }, some (beDecode (a.hdr.take w))⟩
  | .hChopU w =>
    if a.hdr.length < w then ⟨Err.einval, a, none⟩
    else ⟨0, { a with hdr := a.hdr.take (a.hdr.length - w) }, some (beDecode (a.hdr.drop (a.hdr.length - w)))⟩
  | .hClear => ⟨0, { a with hdr := [] }, none⟩

/-- a fresh message of `sz` bytes, all set to `fill` by the caller -/
def alloc (sz : Nat) (fill : UInt8) : Abs := ⟨[], List.replicate sz fill⟩

end Nng.MsgSpec
