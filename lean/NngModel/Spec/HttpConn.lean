/-
  C16 (HTTP layer) — the specification: what a byte stream decodes to, as a function of the byte stream
  ALONE.  Nothing here mentions reads, a receive buffer, or any state of http_conn.c.

  `decode sem maxLine mark s` reads the stream `s` one byte at a time (so by construction it cannot depend on
  how `s` was cut into reads): bytes are collected into lines ended by LF (a CR directly before the LF
  belongs to the terminator); any other control character, or a CR not followed by LF, is a protocol error;
  the empty line ends the head; a line that reaches `maxLine` bytes without its LF is over-long
  (`onLong`: requests note 414/431 and the line is replaced by the placeholder `mark` + its remainder;
  responses fail with "message too large").

  `reqSem` / `resSem` give the meaning of the lines: request line `method SP uri SP version`
  (400 / 505), status line `version SP code SP reason`, header lines `name ":" value` with the value
  trimmed, repeated headers combined with ", ", Host / Content-Type / Content-Length singular and clipped to
  the fixed field sizes.  The URI normaliser is a parameter (it is property C19's subject).
  Core Lean only; imports nothing of the model.
-/
import NngModel.Base.Bytes
namespace Nng.HttpSpec
open Nng

def LF : UInt8 := 0x0A
def CR : UInt8 := 0x0D
def SP : UInt8 := 0x20
def HT : UInt8 := 0x09
def COLON : UInt8 := 0x3A

def ofNats (l : List Nat) : Bytes := l.map UInt8.ofNat
def sGET : Bytes := ofNats [71, 69, 84]
def sHost : Bytes := ofNats [72, 111, 115, 116]
def sContentType : Bytes := ofNats [67, 111, 110, 116, 101, 110, 116, 45, 84, 121, 112, 101]
def sContentLength : Bytes := ofNats [67, 111, 110, 116, 101, 110, 116, 45, 76, 101, 110, 103, 116, 104]
def sCommaSp : Bytes := ofNats [44, 32]
def sSlash : Bytes := ofNats [47]

def eProto : Nat := Err.eproto
def eMsgSize : Nat := Err.emsgsize
def eNotSup : Nat := Err.enotsup

/-! ## the serial decoder -/

/-- meaning of the lines of a head over a decoder state `σ` -/
structure LineSem (σ : Type) where
  /-- a non-empty line: the new state and 0, or an error number that fails the connection -/
  onLine : σ → Bytes → σ × Nat
  /-- a line longer than the limit: `some` = note an error status and go on, `none` = fail (message too large) -/
  onLong : σ → Option σ
  /-- the empty line: the head is complete (0), or an error number (a head may not be empty) -/
  finish : σ → σ × Nat

/-- decoder state: still reading (state, the bytes of the current line in REVERSE order and their number,
    stream bytes read), head complete (state, length of the head in the stream), or connection failed -/
inductive St (σ : Type) where
  | run (s : σ) (racc : Bytes) (len : Nat) (n : Nat)
  | done (s : σ) (n : Nat)
  | fail (rv : Nat)

def endsWithCR (racc : Bytes) : Bool := racc.head? == some CR
def isBadCtl (c : UInt8) : Bool := c < 0x20 && c != CR
/-- the line collected so far, without the CR that precedes the LF -/
def lineOfAcc (racc : Bytes) : Bytes := (if endsWithCR racc then racc.tail else racc).reverse

def stepByte {σ : Type} (sem : LineSem σ) (maxLine : Nat) (mark : Bytes) : St σ → UInt8 → St σ
  | .run s racc len n, c =>
    if c = LF then
      let line := lineOfAcc racc
      if line.isEmpty then
        let r := sem.finish s
        if r.2 ≠ 0 then .fail r.2 else .done r.1 (n + 1)
      else
        let r := sem.onLine s line
        if r.2 ≠ 0 then .fail r.2 else .run r.1 [] 0 (n + 1)
    else if isBadCtl c || endsWithCR racc then .fail eProto
    else if len + 1 = maxLine then
      match sem.onLong s with
      | some s' => .run s' mark.reverse mark.length (n + 1)
      | none => .fail eMsgSize
    else .run s (c :: racc) (len + 1) (n + 1)
  | st, _ => st

/-- THE decoding of a byte stream -/
def decode {σ : Type} (sem : LineSem σ) (maxLine : Nat) (mark : Bytes) (init : σ) (s : Bytes) : St σ :=
  s.foldl (stepByte sem maxLine mark) (.run init [] 0 0)

/-! ## meaning of request and response lines -/

structure Params where
  maxLine : Nat
  mark : Bytes
  versions : List Bytes
  methMax : Nat
  hostMax : Nat
  ctypeMax : Nat
  clenMax : Nat
  statusMin : Nat
  statusMax : Nat
  canon : Bytes → Option Bytes

abbrev Field := Bytes × Bytes

def lower (c : UInt8) : UInt8 := if 0x41 ≤ c && c ≤ 0x5A then c + 0x20 else c
/-- header names are compared without regard to ASCII case -/
def sameName (a b : Bytes) : Bool := a.map lower == b.map lower

/-- split at the first occurrence of `ch` -/
def splitFirst (ch : UInt8) (s : Bytes) : Option (Bytes × Bytes) :=
  if s.contains ch then some (s.takeWhile (· != ch), (s.dropWhile (· != ch)).drop 1) else none

def isWs (c : UInt8) : Bool := c == SP || c == HT
def trim (v : Bytes) : Bytes := ((v.dropWhile isWs).reverse.dropWhile isWs).reverse

/-- a repeated header is folded into the first one: "old, new" -/
def combine : List Field → Bytes → Bytes → List Field
  | [], k, v => [(k, v)]
  | h :: r, k, v => if sameName k h.1 then (h.1, h.2 ++ sCommaSp ++ v) :: r else h :: combine r k v

def without (hs : List Field) (k : Bytes) : List Field := hs.filter fun h => !sameName k h.1

/-- a header field received for a request (`isReq`) or response -/
def addField (p : Params) (isReq : Bool) (hs : List Field) (k v : Bytes) : List Field :=
  if sameName k sContentType then without hs sContentType ++ [(sContentType, v.take p.ctypeMax)]
  else if sameName k sContentLength then without hs sContentLength ++ [(sContentLength, v.take p.clenMax)]
  else if isReq && sameName k sHost then (sHost, v.take p.hostMax) :: without hs sHost
  else combine hs k v

/-- `name ":" value`; `none`: no colon -/
def headerLine (line : Bytes) : Option Field :=
  match splitFirst COLON line with
  | none => none
  | some (k, v) => some (k, trim v)

/-- a request as decoded so far.  `status` 0 = no error noted; 400/414/431/505 = the error status the
    server answers with instead of delivering the request -/
structure Req where
  started : Bool := false
  status : Nat := 0
  meth : Bytes := sGET
  uri : Bytes := sSlash
  vers : Bytes
  hdrs : List Field := []
deriving Repr, DecidableEq

def Req.effStatus (r : Req) : Nat := if r.status ≠ 0 then r.status else 200

/-- `method SP uri SP version`: 400 when a separator is missing or the URI is not acceptable, 505 when the
    version is not one of the known ones; nothing is looked at once an error status was noted -/
def requestLine (p : Params) (r : Req) (line : Bytes) : Req :=
  if r.effStatus ≥ 400 then r
  else
    match splitFirst SP line with
    | none => { r with status := 400 }
    | some (method, rest) =>
      match splitFirst SP rest with
      | none => { r with status := 400 }
      | some (uri, version) =>
        match p.canon uri with
        | none => { r with status := 400 }
        | some u =>
          if p.versions.contains version then
            { r with vers := version, meth := method.take p.methMax, uri := if u.isEmpty then sSlash else u }
          else { r with status := 505 }

def reqSem (p : Params) : LineSem Req where
  onLine r line :=
    if r.started then
      -- a header line without a colon is skipped
      match headerLine line with
      | some (k, v) => ({ r with hdrs := addField p true r.hdrs k v }, 0)
      | none => (r, 0)
    else (requestLine p { r with started := true } line, 0)
  onLong r := some { r with status := if r.started then 431 else 414 }
  finish r := ({ r with started := false }, 0)

/-- THE decoding of a request stream -/
def decodeReq (p : Params) (init : Req) (s : Bytes) : St Req := decode (reqSem p) p.maxLine p.mark init s

/-- a response as decoded so far -/
structure Res where
  started : Bool := false
  status : Nat := 0
  reason : Option Bytes := none
  vers : Bytes
  hdrs : List Field := []
deriving Repr, DecidableEq

def isDigit (c : UInt8) : Bool := 0x30 ≤ c && c ≤ 0x39
def digitsVal : Nat → Bytes → Nat
  | acc, [] => acc
  | acc, c :: r => if isDigit c then digitsVal (acc * 10 + (c.toNat - 48)) r else acc

/-- the status-code field is read with C `atoi` (sign, leading digits, conversion to a 32-bit int) -/
def cAtoi (s : Bytes) : Int :=
  let (neg, d) := match s with
    | c :: r => if c = 0x2D then (true, r) else if c = 0x2B then (false, r) else (false, s)
    | [] => (false, [])
  let v := digitsVal 0 d
  let l : Int := if neg then (if v > 2 ^ 63 then -(2 ^ 63 : Int) else -(v : Int)) else (if v > 2 ^ 63 - 1 then (2 ^ 63 - 1 : Int) else (v : Int))
  let w := l.emod (2 ^ 32)
  if w ≥ 2 ^ 31 then w - 2 ^ 32 else w

/-- `version SP code SP reason`: protocol error when a separator is missing or the code is outside the
    accepted range, "not supported" when the version is unknown -/
def statusLine (p : Params) (r : Res) (line : Bytes) : Res × Nat :=
  match splitFirst SP line with
  | none => (r, eProto)
  | some (version, rest) =>
    match splitFirst SP rest with
    | none => (r, eProto)
    | some (codestr, reason) =>
      let code := cAtoi codestr
      if code < (p.statusMin : Int) || code > (p.statusMax : Int) then (r, eProto)
      else
        let r1 := { r with status := code.toNat, reason := some reason }
        if p.versions.contains version then ({ r1 with vers := version, started := true }, 0)
        else (r1, eNotSup)

def resSem (p : Params) : LineSem Res where
  onLine r line :=
    if r.started then
      match headerLine line with
      | some (k, v) => ({ r with hdrs := addField p false r.hdrs k v }, 0)
      | none => (r, eProto)
    else statusLine p r line
  onLong _ := none
  -- a response needs its status line: the empty line as the first line is a protocol error
  finish r := if r.started then ({ r with started := false }, 0) else (r, eProto)

/-- THE decoding of a response stream -/
def decodeRes (p : Params) (init : Res) (s : Bytes) : St Res := decode (resSem p) p.maxLine p.mark init s

end Nng.HttpSpec
