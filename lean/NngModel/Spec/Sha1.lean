/-
  SHA-1 as defined by FIPS 180-4 (sections 2.2.2, 3.2, 4.1.1, 4.2.1, 5.1.1, 5.2.1, 5.3.1, 6.1), one shot
  on a list of bytes: pad the whole message, cut it into 512-bit blocks M(1)..M(N), fold the
  compression function over them, write H0..H4 big-endian.  Nothing here refers to the structure of
  sha1.c (no block buffer, no index, no running bit counter); the constants are the FIPS literals.
  For messages of 2^61 bytes or more (ℓ ≥ 2^64 bits) FIPS 180-4 defines nothing; `lenField` takes the
  low 64 bits of ℓ there.  Core Lean only.
-/
import NngModel.Base.Bytes
namespace Nng.Sha1Spec

abbrev Word := BitVec 32

/-- the hash value H(i): five words -/
abbrev State := Word × Word × Word × Word × Word

/-- 5.3.1 -/
def H0 : State := (0x67452301#32, 0xefcdab89#32, 0x98badcfe#32, 0x10325476#32, 0xc3d2e1f0#32)

/-- 3.2: ROTL^n(x) = (x << n) ∨ (x >> w - n) -/
def rotl (n : Nat) (x : Word) : Word := x.rotateLeft n

/-- 4.1.1: Ch for 0..19, Parity for 20..39 and 60..79, Maj for 40..59 -/
def f (t : Nat) (x y z : Word) : Word :=
  if t < 20 then (x &&& y) ^^^ (~~~x &&& z)
  else if t < 40 then x ^^^ y ^^^ z
  else if t < 60 then (x &&& y) ^^^ (x &&& z) ^^^ (y &&& z)
  else x ^^^ y ^^^ z

/-- 4.2.1 -/
def K (t : Nat) : Word :=
  if t < 20 then 0x5a827999#32 else if t < 40 then 0x6ed9eba1#32 else if t < 60 then 0x8f1bbcdc#32 else 0xca62c1d6#32

/-- a 32-bit word from four bytes, most significant first -/
def be32 (a b c d : UInt8) : Word :=
  BitVec.ofNat 32 (a.toNat * 2 ^ 24 + b.toNat * 2 ^ 16 + c.toNat * 2 ^ 8 + d.toNat)

/-- 5.2.1: the sixteen words M0..M15 of a block -/
def toWords : Bytes → List Word
  | a :: b :: c :: d :: r => be32 a b c d :: toWords r
  | _ => []

/-- 6.1.2 step 1: W_t = M_t for t < 16, ROTL^1(W_{t-3} ⊕ W_{t-8} ⊕ W_{t-14} ⊕ W_{t-16}) after; `n` more words -/
def schedule : Nat → List Word → List Word
  | 0, w => w
  | n + 1, w =>
    let t := w.length
    schedule n (w ++ [rotl 1 (w.getD (t - 3) 0 ^^^ w.getD (t - 8) 0 ^^^ w.getD (t - 14) 0 ^^^ w.getD (t - 16) 0)])

/-- 6.1.2 step 3 -/
def step (w : List Word) (s : State) (t : Nat) : State :=
  let (a, b, c, d, e) := s
  let T := rotl 5 a + f t b c d + e + K t + w.getD t 0
  (T, a, rotl 30 b, c, d)

/-- 6.1.2: one block -/
def compress (h : State) (block : Bytes) : State :=
  let w := schedule 64 (toWords block)
  let (a, b, c, d, e) := (List.range 80).foldl (step w) h
  (h.1 + a, h.2.1 + b, h.2.2.1 + c, h.2.2.2.1 + d, h.2.2.2.2 + e)

/-- the 64-bit big-endian block that ends the padding: ℓ (low 64 bits) -/
def lenField (l : Nat) : Bytes :=
  (List.range 8).map fun i => UInt8.ofNat (l / 2 ^ (8 * (7 - i)) % 256)

/-- 5.1.1 in bytes: the bit "1" (0x80), k zero bits with ℓ + 1 + k ≡ 448 (mod 512), k ≥ 0 smallest,
    i.e. z zero bytes with (len + 1 + z) % 64 = 56, then ℓ = 8·len on 64 bits -/
def zeros (len : Nat) : Nat := (119 - len % 64) % 64

def pad (m : Bytes) : Bytes :=
  m ++ [0x80] ++ List.replicate (zeros m.length) 0 ++ lenField (8 * m.length)

/-- 5.2.1: block i (from 0) of the padded message -/
def block (p : Bytes) (i : Nat) : Bytes := (p.drop (64 * i)).take 64

/-- 6.1.2: for i = 1 to N -/
def hashBlocks (h : State) (p : Bytes) : State :=
  (List.range (p.length / 64)).foldl (fun h i => compress h (block p i)) h

def wordBytes (w : Word) : Bytes :=
  [UInt8.ofNat (w.toNat / 2 ^ 24 % 256), UInt8.ofNat (w.toNat / 2 ^ 16 % 256), UInt8.ofNat (w.toNat / 2 ^ 8 % 256),
   UInt8.ofNat (w.toNat % 256)]

/-- the 160-bit message digest H0 ‖ H1 ‖ H2 ‖ H3 ‖ H4 -/
def sha1 (m : Bytes) : Bytes :=
  let (a, b, c, d, e) := hashBlocks H0 (pad m)
  wordBytes a ++ wordBytes b ++ wordBytes c ++ wordBytes d ++ wordBytes e

end Nng.Sha1Spec
