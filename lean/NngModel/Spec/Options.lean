/-
  C03, option part — the specification: an object's options are a typed key-value store.

  No buffers, sizes, tags-as-numbers or table walks here: a set stores the value iff the option exists,
  is settable, has the value's type and the value is inside the option's range; otherwise it reports which
  of these failed and changes nothing.  A get returns the stored value iff the option exists, is gettable and
  is asked for with its own type; otherwise it reports the failure and writes nothing.

  (The interface types shared with the model are defined here: `Tag`, `Val`, `Row`, `Store`.)
-/
import NngModel.Base.Bytes
import NngModel.Generated.C03O
import NngModel.Generated.Base

namespace Nng.Opt
open Nng

/-! ### type tags (enum nni_type) -/

inductive Tag
  | none | bool | int | size | ms | str | addr
deriving DecidableEq, Repr, Inhabited

def Tag.name : Tag → String
  | .none => "none" | .bool => "bool" | .int => "int" | .size => "size"
  | .ms => "ms" | .str => "str" | .addr => "addr"

def Tag.all : List Tag := [.none, .bool, .int, .size, .ms, .str, .addr]

def Tag.ofName (s : String) : Option Tag := Tag.all.find? (fun t => t.name == s)

/-- the enum value (extracted) -/
def Tag.num (t : Tag) : Nat := (Nng.Generated.c03oTypeTags.lookup t.name).getD 0

/-- sizeof of the C type the tag stands for: bool, int, size_t, nng_duration, const char *, nng_sockaddr -/
def csize (t : Tag) : Nat := (Nng.Generated.c03oTypeSizes.lookup t.name).getD 0

/-! ### option values, rows, tables -/

inductive Val
  | bool (b : Bool) | int (i : Int) | size (n : Nat) | ms (d : Int) | str (s : Bytes) | addr (a : Bytes)
deriving DecidableEq, Repr, Inhabited

def Val.tag : Val → Tag
  | .bool _ => .bool | .int _ => .int | .size _ => .size | .ms _ => .ms | .str _ => .str | .addr _ => .addr

/-- one nni_option entry with what its handlers do (extracted: Generated.c03oRows) -/
structure Row where
  name : String
  tag : Tag            -- `Tag.none`: handlers of a shape the extraction does not recognise
  lo : Int
  hi : Int
  flags : Nat          -- 1 = o_get present, 2 = o_set present, 4 = setter has further conditions, 8 = value is object state
deriving Repr, DecidableEq, Inhabited

def Row.hasGet (r : Row) : Bool := r.flags % 2 == 1
def Row.hasSet (r : Row) : Bool := r.flags / 2 % 2 == 1

abbrev Table := List Row

/-- the option values of one object, by option name -/
abbrev Store := List (String × Val)

def Store.get (s : Store) (nm : String) : Option Val := s.lookup nm
def Store.put (s : Store) (nm : String) (v : Val) : Store := (nm, v) :: s.filter (fun p => p.1 != nm)

/-- a table searched by a get, with whose values it reads: `true` = the owning socket's (nni_dialer_getopt and
    nni_listener_getopt end with nni_sock_getopt) -/
abbrev GLayer := Bool × Table

/-- return code for a handler the extraction could not classify (never produced on generated inputs) -/
def rvUnmodelled : Nat := 9999

end Nng.Opt

namespace Nng.OptSpec
open Nng Nng.Opt

/-- the value is representable in the C type of its tag -/
def wfVal : Val → Bool
  | .bool _ => true
  | .int i => decide (-2147483648 ≤ i ∧ i < 2147483648)
  | .size n => decide (n < 18446744073709551616)
  | .ms d => decide (-2147483648 ≤ d ∧ d < 2147483648)
  | .str s => !s.contains 0
  | .addr a => a.length == csize .addr

/-- the value is inside the option's range (durations: not below NNG_DURATION_INFINITE = -1) -/
def inRange (r : Row) : Val → Bool
  | .int i => decide (r.lo ≤ i ∧ i ≤ r.hi)
  | .size n => decide (r.lo.toNat ≤ n ∧ n ≤ r.hi.toNat)
  | .ms d => decide (-1 ≤ d)
  | _ => true

/-- the entry that answers for a name: the first one in search order -/
def findRow (layers : List Table) (nm : String) : Option Row :=
  layers.flatten.find? (fun r => r.name == nm)

/-- set: return code and the store afterwards -/
def set (layers : List Table) (st : Store) (nm : String) (v : Val) : Nat × Store :=
  match findRow layers nm with
  | none => (Err.enotsup, st)
  | some r =>
    if !r.hasSet then (Err.ereadonly, st)
    else if r.tag = .none then (rvUnmodelled, st)
    else if v.tag ≠ r.tag then (Err.ebadtype, st)
    else if !inRange r v then (Err.einval, st)
    else (0, st.put nm v)

/-- a string option set to the NULL pointer -/
def setNull (layers : List Table) (st : Store) (nm : String) : Nat × Store :=
  match findRow layers nm with
  | none => (Err.enotsup, st)
  | some r =>
    if !r.hasSet then (Err.ereadonly, st)
    else if r.tag = .none then (rvUnmodelled, st)
    else if r.tag ≠ .str then (Err.ebadtype, st)
    else (Err.einval, st)

/-- the entry that answers a get and whose values it reads (`true` = the owning socket's) -/
def findG : List GLayer → String → Option (Bool × Row)
  | [], _ => none
  | (par, tb) :: rest, nm =>
    match tb.find? (fun r => r.name == nm) with
    | some r => some (par, r)
    | none => findG rest nm

/-- get with type `t`: return code and the value handed to the caller (`none`: nothing is written; on success
    `none` only when no value was ever recorded for the option) -/
def get (layers : List GLayer) (own parent : Store) (nm : String) (t : Tag) : Nat × Option Val :=
  match findG layers nm with
  | none => (Err.enotsup, none)
  | some (par, r) =>
    if !r.hasGet then (Err.ewriteonly, none)
    else if r.tag = .none then (rvUnmodelled, none)
    else if t ≠ r.tag then (Err.ebadtype, none)
    else (0, (if par then parent else own).get nm)

/-- ranges fixed by the public documentation, independent of what a protocol's setter happens to test:
    NNG_OPT_MAXTTL is 1 .. NNI_MAX_MAX_TTL (core/defs.h); NNG_OPT_RECVBUF / NNG_OPT_SENDBUF are at most 8192 messages
    (lower bound 0, or 1 for the protocols that cannot work unbuffered) -/
def docRange (r : Row) : Option (Int × Int) :=
  if r.name == "ttl-max" then some (1, (Nng.Generated.maxMaxTtl : Int))
  else if r.name == "recv-buffer" || r.name == "send-buffer" then some (if r.lo = 1 then 1 else 0, 8192)
  else none

/-- a row as the specification judges it -/
def docOverride (r : Row) : Row :=
  match docRange r with
  | some (lo, hi) => if r.tag == .int then { r with lo := lo, hi := hi } else r
  | none => r

end Nng.OptSpec
