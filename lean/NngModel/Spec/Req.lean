/-
  C04 (requester half) and C12 as executable trace predicates over the harness events and
  the outputs observed for them.  No protocol-internal state is mentioned: the judge follows
  what the application asked for (send / recv / cancel / options), what went on the wire
  (`psend`), what the peers answered (`recv_done`), which connections exist, and the clock.

  Message identity: request bodies are pairwise distinct within a case (the check
  generates them so); ids are whatever the implementation put in front of a request.

  One state, two verdicts: `err04` (C04: delivery only of the matching reply, at most once,
  discards, ESTATE) and `err12` (C12: retransmission on connection loss / after the resend
  time, ECONNRESET with resending disabled, same id and body on every transmission).
  Lines the harness refused (`Out.other`) are skipped.
-/
import NngModel.Proto.Base
import NngModel.Generated.C04REQ
namespace Nng.ReqSpec
open Nng Nng.Proto

structure RJ where                 -- the outstanding request of one context
  body : Bytes
  sendAio : Nat
  id : Option Bytes := none        -- as first seen on the wire
  wired : Bool := false
  answered : Bool := false
  lastPipe : Nat := 0
  txCount : Nat := 0
  deadline : Option Nat := none    -- resend deadline: (send or loss time) + resend time then in force
  everRetry : Bool := false        -- resend time was > 0 at some point since the send
  clean : Bool := true             -- resend time unchanged since the send
  needTx : Bool := false           -- lost its connection / overdue: must go out when a connection is idle
  txSince : Bool := false          -- transmitted since the deadline passed
deriving Repr, Inhabited

structure CJ where
  opened : Bool := false
  retry : Int := 0
  req : Option RJ := none
  stash : Option Bytes := none     -- reply taken for this context, not yet handed to the application
  recvWait : Option Nat := none
  latched : Bool := false          -- connection lost with resending disabled, nobody was receiving
deriving Repr, Inhabited

structure J where
  ctx : Nat → CJ := fun _ => {}
  idle : List Nat := []
  busy : List Nat := []
  now : Nat := 0
  tick : Int := 0
  tickStable : Bool := true        -- req:resend-tick not changed after the first send
  anySend : Bool := false
  sockRetry : Int := 0
  seen : List (Bytes × Bytes) := []   -- (id, body) pairs seen on the wire
  opened : Bool := false
  closed : Bool := false
  err04 : Option String := none
  err12 : Option String := none
deriving Inhabited

def J.fail04 (j : J) (m : String) : J := match j.err04 with | some _ => j | none => { j with err04 := some m }
def J.fail12 (j : J) (m : String) : J := match j.err12 with | some _ => j | none => { j with err12 := some m }

def setC (j : J) (k : Nat) (c : CJ) : J := { j with ctx := fun x => if x = k then c else j.ctx x }
def keys : List Nat := List.range 9
def keyOf : Option Nat → Nat | none => 0 | some c => c + 1

def notExecuted (outs : List Out) : Bool := outs.any fun o => match o with | .other _ => true | _ => false

def hasDone (outs : List Out) (a rv : Nat) (m : Option WMsg) : Bool :=
  outs.any fun o => match o with | .done a' rv' m' _ => a' == a && rv' == rv && m' == m | _ => false

def doneOf (outs : List Out) (a : Nat) : Option (Nat × Option WMsg) :=
  outs.findSome? fun o => match o with | .done a' rv m _ => if a' == a then some (rv, m) else none | _ => none

/-- an error completion of an aio that was parked before this step -/
def oldDone (j : J) (a _rv : Nat) : J :=
  keys.foldl (fun j k =>
    let c := j.ctx k
    let j := match c.req with
      | some r => if r.sendAio == a && !r.wired then setC j k { c with req := none } else j
      | none => j
    let c := j.ctx k
    if c.recvWait == some a then
      -- a receive that fails ends the exchange: the request is cancelled
      setC j k { c with recvWait := none, req := none, stash := none }
    else j) j

def onPclosed (outs : List Out) (closing : Bool) (j : J) (p : Nat) : J :=
  let j := { j with idle := j.idle.filter (· != p), busy := j.busy.filter (· != p) }
  keys.foldl (fun j k =>
    let c := j.ctx k
    match c.req with
    | some r =>
      if r.wired && !r.answered && r.lastPipe == p then
        if c.retry ≤ 0 then
          match c.recvWait with
          | some a =>
            let j := if hasDone outs a Err.econnreset none || closing then j
              else j.fail12 s!"connection {p} lost with resending disabled: receive {a} was not failed with ECONNRESET"
            setC j k { c with req := none, recvWait := none }
          | none => setC j k { c with req := none, latched := true }
        else
          setC j k { c with req := some { r with needTx := true, deadline := some (j.now + c.retry.toNat), txSince := false } }
      else j
    | none => j) j

def onPsend (j : J) (p : Nat) (m : WMsg) : J :=
  let j := if j.idle.contains p then j else j.fail12 s!"request handed to connection {p} which is not idle"
  let j := { j with idle := j.idle.filter (· != p), busy := j.busy ++ [p] }
  -- same id and body on every transmission
  let j := match j.seen.find? (·.2 == m.body) with
    | some (id, _) => if id == m.hdr then j else j.fail12 "a retransmission carries a different request id"
    | none =>
      if j.seen.any (·.1 == m.hdr) then j.fail12 "two different requests were sent with the same id"
      else { j with seen := j.seen ++ [(m.hdr, m.body)] }
  match keys.find? (fun k => match (j.ctx k).req with | some r => r.body == m.body && !r.answered | none => false) with
  | none => j.fail12 "a request was transmitted that is not outstanding (answered, cancelled or replaced)"
  | some k =>
    let c := j.ctx k
    match c.req with
    | none => j
    | some r =>
      let j := if r.txCount ≥ 1 && !r.everRetry then
          j.fail12 "resending disabled, yet the request was put on the wire a second time" else j
      let j := match r.deadline with
        | some d => if r.txCount ≥ 1 && r.clean && !r.needTx && j.now < d then
            j.fail12 "request retransmitted before its resend time elapsed although its connection is alive" else j
        | none => j
      let past := match r.deadline with | some d => decide (d ≤ j.now) | none => false
      setC j k { c with req := some { r with id := some m.hdr, wired := true, lastPipe := p, txCount := r.txCount + 1,
                                              needTx := false, txSince := r.txSince || past } }

/-- a reply arrived on a connection -/
def onReply (j : J) (b : Bytes) (outs : List Out) : J × List Nat :=
  if b.length < 4 then (j, [])
  else
    let id := b.take 4
    let body := b.drop 4
    match keys.find? (fun k => match (j.ctx k).req with
        | some r => r.wired && !r.answered && r.id == some id | none => false) with
    | none => (j, [])
    | some k =>
      let c := j.ctx k
      match c.recvWait with
      | some a =>
        let j := if hasDone outs a 0 (some ⟨[], body⟩) then j
          else j.fail04 s!"the reply to the outstanding request was not delivered to the waiting receive {a}"
        (setC j k { c with req := none, recvWait := none }, [a])
      | none =>
        (setC j k { c with req := c.req.map fun r => { r with answered := true, needTx := false }, stash := some body }, [])

def quiescent (j : J) : J :=
  if j.closed then j
  else
    let stalled := keys.any fun k => match (j.ctx k).req with
      | some r => r.needTx && !r.answered | none => false
    let j := if stalled && !j.idle.isEmpty then
        j.fail12 "an outstanding request that must be retransmitted is held back although a connection is idle" else j
    let unsent := keys.any fun k => match (j.ctx k).req with
      | some r => !r.wired && !r.answered | none => false
    if unsent && !j.idle.isEmpty then j.fail12 "a new request is held back although a connection is idle" else j

def step (j : J) (ev : Ev) (outs : List Out) : J :=
  if notExecuted outs then j else
  if j.closed then j else
  let ok := outs.contains (.rv 0)
  -- 1. the event itself, judged against the state before it
  let evAio : Option Nat := match ev with | .send _ a _ _ => some a | .recv _ a _ => some a | _ => none
  -- completions of operations that were pending before this step
  let j := outs.foldl (fun j o => match o with
    | .done a rv none _ => if some a != evAio && rv != 0 && rv != Err.econnreset then oldDone j a rv else j
    | _ => j) j
  let (j, expected) : J × List Nat := match ev with
    | .openSock _ _ =>
      let r : Int := Nng.Generated.reqResendTimeDefault
      ({ j with opened := ok, sockRetry := r, tick := (Nng.Generated.reqResendTickDefault : Int),
                ctx := fun x => if x = 0 then { opened := true, retry := r } else j.ctx x }, [])
    | .advance ms => ({ j with now := j.now + ms }, [])
    | .ctxOpen c => if ok then (setC j (c + 1) { opened := true, retry := j.sockRetry }, []) else (j, [])
    | .ctxClose c => if ok then (setC j (c + 1) {}, []) else (j, [])
    | .setopt c name ty v =>
      if ok && ty == "ms" then
        if name == "req:resend-time" then
          let cj := j.ctx (keyOf c)
          let j := setC j (keyOf c) { cj with retry := v, req := cj.req.map fun r => { r with clean := false, everRetry := r.everRetry || decide (v > 0) } }
          (if c.isNone then { j with sockRetry := v } else j, [])
        else if name == "req:resend-tick" && c.isNone then
          ({ j with tick := v, tickStable := !j.anySend }, [])
        else (j, [])
      else (j, [])
    | .sendDone p rv =>
      if ok && rv == 0 && j.busy.contains p then ({ j with busy := j.busy.filter (· != p), idle := j.idle ++ [p] }, []) else (j, [])
    | .recvDone _ (.ok b) => if ok then onReply j b outs else (j, [])
    | .send c a m _ =>
      let k := keyOf c
      let cj := j.ctx k
      -- a new request replaces the old one: a waiting receive must not survive it
      let j := match cj.recvWait with
        | some ra => if (doneOf outs ra).isSome then j else j.fail04 s!"receive {ra} still waits for a request that was replaced"
        | none => j
      let dl : Option Nat := if cj.retry > 0 then some (j.now + cj.retry.toNat) else none
      let r : RJ := { body := m.body, sendAio := a, deadline := dl, everRetry := decide (cj.retry > 0) }
      let j := { j with anySend := true }
      (setC j k { cj with req := some r, stash := none, recvWait := none, latched := false }, [])
    | .recv c a mode =>
      let k := keyOf c
      let cj := j.ctx k
      let res := doneOf outs a
      if !cj.opened then (j, []) else
      if cj.recvWait.isSome then
        ((if res == some (Err.estate, none) then j else j.fail04 "a second concurrent receive did not fail with ESTATE"), [])
      else match cj.stash with
        | some b =>
          let j := if res == some (0, some ⟨[], b⟩) then j else j.fail04 s!"receive {a}: the reply already taken for this context was not delivered"
          (setC j k { cj with stash := none, req := none }, [a])
        | none =>
          match cj.req with
          | none =>
            if cj.latched then
              let j := if res == some (Err.econnreset, none) then j
                else j.fail12 "connection was lost with resending disabled: the next receive did not report ECONNRESET"
              (setC j k { cj with latched := false }, [])
            else
              let j := if res == some (Err.estate, none) then j
                else if res == some (Err.econnreset, none) then j.fail12 "ECONNRESET reported although no request lost its connection"
                else j
              ((if res == some (Err.estate, none) then j
                else j.fail04 "receive without an outstanding request did not fail with ESTATE"), [])
          | some _ =>
            match mode with
            | .nb => (j, [])
            | .ms 0 => (j, [])
            | _ => if res.isNone then (setC j k { cj with recvWait := some a }, []) else (j, [])
    | .close => ({ j with closed := true }, [])
    | _ => (j, [])
  let closing := j.closed
  -- 2. connections: new ones become idle, lost ones drop their requests
  let j := outs.foldl (fun j o => match o with
    | .pipe p => if p ≥ 0 && !(outs.contains (.pclosed p.toNat)) then { j with idle := j.idle ++ [p.toNat] } else j
    | _ => j) j
  let j := outs.foldl (fun j o => match o with | .pclosed p => onPclosed outs closing j p | _ => j) j
  -- an ECONNRESET that no lost connection explains
  let j := outs.foldl (fun j o => match o with
    | .done a rv none _ =>
      if some a != evAio && rv == Err.econnreset then
        let j := if keys.any (fun k => (j.ctx k).recvWait == some a) && !closing then
            j.fail12 s!"receive {a} failed with ECONNRESET although its request did not lose its connection with resending disabled" else j
        oldDone j a rv
      else j
    | _ => j) j
  -- 3. transmissions
  let j := if closing then j else outs.foldl (fun j o => match o with | .psend p m => onPsend j p m | _ => j) j
  -- 4. completions in this step
  let j := outs.foldl (fun j o => match o with
    | .done a 0 (some _) _ =>
      if expected.contains a then j else j.fail04 s!"receive {a} completed with a message that does not answer its outstanding request (or answers it twice)"
    | .done a rv none _ =>
      if some a == evAio && rv != 0 then
        match ev with
        | .send c _ _ _ => setC j (keyOf c) { j.ctx (keyOf c) with req := none }
        | _ => j
      else j
    | _ => j) j
  -- poll: the socket is readable iff a reply is waiting for the socket's own context, writable iff a connection is idle
  let j := outs.foldl (fun j o => match o with
    | .poll (some r) (some w) =>
      let j := if r == (j.ctx 0).stash.isSome then j else j.fail04 s!"poll: readable={r} disagrees with whether a reply is waiting on the socket"
      if w == !j.idle.isEmpty then j else j.fail04 s!"poll: writable={w} but idle connections: {j.idle.length}"
    | _ => j) j
  -- 5. overdue requests (only with an unchanged resend time and tick): by the first quiescent point
  --    later than deadline + tick the resend timer has fired at or after the deadline
  let j := match ev with
    | .advance _ =>
      if j.tickStable && j.tick > 0 then
        keys.foldl (fun j k =>
          let c := j.ctx k
          match c.req with
          | some r =>
            match r.deadline with
            | some d =>
              if r.wired && !r.answered && r.clean && !r.txSince && c.retry > 0 && j.now > d + j.tick.toNat then
                setC j k { c with req := some { r with needTx := true } }
              else j
            | none => j
          | none => j) j
      else j
    | _ => j
  let j := if outs.any (fun o => match o with | .blocked _ => true | _ => false) then j.fail04 "a non-blocking call blocked" else j
  quiescent j

def judge04 (tr : List (Ev × List Out)) : Option String :=
  (tr.foldl (fun j x => step j x.1 x.2) ({} : J)).err04

def judge12 (tr : List (Ev × List Out)) : Option String :=
  (tr.foldl (fun j x => step j x.1 x.2) ({} : J)).err12

end Nng.ReqSpec
