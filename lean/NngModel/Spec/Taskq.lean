/- C02, the task layer (src/core/taskq.c): "every dispatch runs the callback exactly once; a wait
   returns only when nothing is scheduled or running; nothing hangs", stated over what an outside
   observer can count while threads run - no reference to taskq.c's state machine except the value
   of the counter `task_busy` itself (clause e is ABOUT that counter).

   An observation is taken after every step of any thread.  Counters: `sd`/`sx` calls of
   nni_task_dispatch / nni_task_exec that have taken effect, `pr` calls of nni_task_prep, `bw`/`bx`
   callback executions begun on a task thread / inside nni_task_exec, `ce` callback executions
   ended, `dn` executions fully accounted (the task layer has finished with them).

   The same judge runs on the observations of the real code (harness/u_taskq.c) and - by theorem
   `Nng.C02Taskq.judge_model` - accepts every contract-respecting run of the Lean model. -/
namespace Nng.TaskqSpec

/-- what a client call returned -/
inductive Res
  | waited               -- nni_task_wait returned
  | busy (b : Bool)      -- nni_task_busy returned b
  deriving DecidableEq, Repr, Inhabited

structure Obs where
  busy : Nat               -- task_busy
  sd : Nat
  sx : Nat
  pr : Nat
  bw : Nat
  bx : Nat
  ce : Nat
  dn : Nat
  panic : Bool             -- nni_panic was called
  live : Bool              -- some thread can still move
  fin : Bool               -- every client program has run to its end
  res : List (List Res)    -- per client: what its wait/busy calls returned so far
  deriving DecidableEq, Repr

/-- results that appeared in this step -/
def newRes : List (List Res) → List (List Res) → List Res
  | p :: ps, q :: qs => q.drop p.length ++ newRes ps qs
  | _, _ => []

def started (o : Obs) : Nat := o.sd + o.sx
def begun (o : Obs) : Nat := o.bw + o.bx

/-- the contract (see Model/Taskq.lean `allowed`), recognised on observations:
    `owed` = preps not yet consumed by a dispatch/exec -/
def contractStep (owed : Nat) (p o : Obs) : Option String :=
  if p.pr < o.pr && owed != 0 then some "k2:prep-while-prepped"
  else if p.sd < o.sd && p.sd != p.bw then some "k1:dispatch-before-previous-callback-began"
  else none

def owedNext (owed : Nat) (p o : Obs) : Nat :=
  if p.pr < o.pr then owed + 1 else if started p < started o then owed - 1 else owed

/-- still true if no dispatch/exec was issued while an earlier one's callback had not returned -/
def serialNext (serial : Bool) (p o : Obs) : Bool :=
  serial && !(started p < started o && started p != p.ce)

/-- nothing scheduled, nothing running, nothing prepared -/
def idleNow (owed : Nat) (o : Obs) : Bool := started o == o.dn && owed == 0

/-- clauses judged on one observation given the previous one; `none` = fine -/
def clauses (owed : Nat) (serial : Bool) (p o : Obs) : Option String :=
  if o.panic then some "k:panic"
  else if o.sd < o.bw || o.sx < o.bx then some "a:callback-without-dispatch"
  else if begun o < o.ce || o.ce < o.dn then some "obs:counters"
  else if o.busy + o.dn != owed + started o then some "e:busy-counter"
  else if (newRes p.res o.res).any (fun r => r == .waited || r == .busy false) && !idleNow owed o then
    some "c:returned-while-pending"
  else if (newRes p.res o.res).any (· == .busy true) && idleNow owed o then some "c:busy-while-idle"
  else if serial && o.ce + 1 < begun o then some "b:callbacks-overlap"
  else if !o.live && started o != o.dn then some "a:callback-lost"
  else if !o.live && !o.fin && owed == 0 then some "d:deadlock"
  else none

structure J where
  prev : Obs
  owed : Nat := 0
  serial : Bool := true
  off : Bool := false      -- the schedule left the contract: nothing is judged any more
  deriving Repr

inductive Verdict
  | ok
  | off
  | contract (k : String)
  | violation (c : String)
  deriving DecidableEq, Repr

def judgeStep (j : J) (o : Obs) : J × Verdict :=
  if j.off then (j, .off) else
  match contractStep j.owed j.prev o with
  | some k => ({ j with off := true }, .contract k)
  | none =>
    let owed := owedNext j.owed j.prev o
    let serial := serialNext j.serial j.prev o
    ({ prev := o, owed := owed, serial := serial, off := false },
     match clauses owed serial j.prev o with
     | some c => .violation c
     | none => .ok)

/-- first violated clause of a run (the first observation is the initial one) -/
def judgeFrom (j : J) : List Obs → Option String
  | [] => none
  | o :: os =>
    match judgeStep j o with
    | (_, .violation c) => some c
    | (_, .contract _) => none
    | (_, .off) => none
    | (j', .ok) => judgeFrom j' os

end Nng.TaskqSpec
