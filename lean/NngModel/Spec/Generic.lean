/-
  Protocol-independent trace predicates, judged on implementation traces of every
  protocol (SIM executor):
   * C15: non-blocking calls complete at once; poll descriptors mirror readiness.
   * C03 (ownership clauses visible at the API): a message is released exactly once —
     by the library after a successful send, by the caller after a failed send
     (`msgback`) or a successful receive; each submitted operation completes at most
     once; after everything is closed and nng_fini returned, the pluggable allocator
     holds nothing and saw no free with a wrong size.
-/
import NngModel.Proto.Base
namespace Nng.GenericSpec
open Nng Nng.Proto

def notExecuted (outs : List Out) : Bool :=
  outs.any (fun o => match o with | .other _ => true | _ => false)

/-! ### C15 -/

structure PollJ where
  lastPoll : Option (Option Bool × Option Bool) := none   -- result of the immediately preceding `poll`
  err : Option String := none
deriving Repr

def PollJ.fail (j : PollJ) (msg : String) : PollJ :=
  match j.err with | some _ => j | none => { j with err := some msg }

def doneOf (a : Nat) (outs : List Out) : Option (Nat × Bool) :=
  outs.findSome? fun o => match o with
    | .done a' rv msg _ => if a' == a then some (rv, msg.isSome) else none
    | _ => none

def pollStep (j : PollJ) (ev : Ev) (outs : List Out) : PollJ :=
  if j.err.isSome then j else
  if notExecuted outs then { j with lastPoll := none } else
  let j := if outs.any (fun o => match o with | .blocked _ => true | _ => false)
           then j.fail "a call with NNG_FLAG_NONBLOCK blocked (virtual time had to pass)" else j
  match ev with
  | .poll =>
    match outs.findSome? (fun o => match o with | .poll r w => some (r, w) | _ => none) with
    | some rw => { j with lastPoll := some rw }
    | none => { j with lastPoll := none }
  | .recv none a .nb =>
    let j' := { j with lastPoll := none }
    match doneOf a outs with
    | none => j'.fail s!"non-blocking receive {a} did not complete at once"
    | some (rv, _) =>
      match j.lastPoll with
      | some (some true, _) =>
        if rv == Err.eagain then j'.fail "receive descriptor polls readable but a non-blocking receive returns NNG_EAGAIN (busy loop)" else j'
      | some (some false, _) =>
        if rv == 0 then j'.fail "a non-blocking receive succeeds while the receive descriptor does not poll readable (missed wake-up)" else j'
      | _ => j'
  | .send none a _ .nb =>
    let j' := { j with lastPoll := none }
    match doneOf a outs with
    | none => j'.fail s!"non-blocking send {a} did not complete at once"
    | some (rv, _) =>
      match j.lastPoll with
      | some (_, some true) =>
        if rv == Err.eagain then j'.fail "send descriptor polls readable but a non-blocking send returns NNG_EAGAIN (busy loop)" else j'
      | some (_, some false) =>
        if rv == 0 then j'.fail "a non-blocking send succeeds while the send descriptor does not poll readable (missed wake-up)" else j'
      | _ => j'
  | .recv (some _) a .nb =>
    match doneOf a outs with
    | none => { j with lastPoll := none }.fail s!"non-blocking receive {a} did not complete at once"
    | some _ => { j with lastPoll := none }
  | .send (some _) a _ .nb =>
    match doneOf a outs with
    | none => { j with lastPoll := none }.fail s!"non-blocking send {a} did not complete at once"
    | some _ => { j with lastPoll := none }
  | _ => { j with lastPoll := none }

def pollJudge (tr : List (Ev × List Out)) : Option String :=
  (tr.foldl (fun j x => pollStep j x.1 x.2) ({} : PollJ)).err

/-! ### C03 (API-visible ownership) -/

structure OwnJ where
  sends : List Nat := []      -- aio ids with a send outstanding
  recvs : List Nat := []
  err : Option String := none
deriving Repr

def OwnJ.fail (j : OwnJ) (msg : String) : OwnJ :=
  match j.err with | some _ => j | none => { j with err := some msg }

def ownOut (nbSend nbRecv : Option Nat) (j : OwnJ) (o : Out) : OwnJ :=
  match o with
  | .done a rv msg msgback =>
    if j.sends.contains a || nbSend == some a then
      let j := { j with sends := j.sends.erase a }
      if rv == 0 && msgback then j.fail s!"send {a} succeeded but the message is still attached to the aio (it would be released twice)"
      else if rv != 0 && !msgback then j.fail s!"send {a} failed with {rv} but the message was not left with the caller (leak or double ownership)"
      else if msg.isSome then j.fail s!"send {a} completed carrying a received message" else j
    else if j.recvs.contains a || nbRecv == some a then
      let j := { j with recvs := j.recvs.erase a }
      if rv == 0 && msg.isNone then j.fail s!"receive {a} succeeded without a message"
      else if rv != 0 && msg.isSome then j.fail s!"receive {a} failed with {rv} but a message is attached" else j
    else j.fail s!"aio {a} completed although no operation was outstanding on it (completed twice?)"
  | .other s =>
    if s.startsWith "fini " && s != "fini live=0 bytes=0 badfree=0" then
      j.fail s!"after close and nng_fini the allocator reports: {s}"
    else if s.startsWith "ALTERED " then
      j.fail s!"a failed send handed the message back to the caller ALTERED ({s}): what the caller still owns is not what it submitted"
    else j
  | _ => j

def ownStep (j : OwnJ) (ev : Ev) (outs : List Out) : OwnJ :=
  if j.err.isSome then j else
  if outs.any (fun o => match o with | .other s => !(s.startsWith "fini ") && !(s.startsWith "ALTERED ") | _ => false) then j else
  let (j, nbS, nbR) : OwnJ × Option Nat × Option Nat :=
    match ev with
    | .send _ a _ .nb => (j, some a, none)
    | .send _ a _ _ => ({ j with sends := j.sends ++ [a] }, none, none)
    | .recv _ a .nb => (j, none, some a)
    | .recv _ a _ => ({ j with recvs := j.recvs ++ [a] }, none, none)
    | _ => (j, none, none)
  outs.foldl (ownOut nbS nbR) j

def ownJudge (tr : List (Ev × List Out)) : Option String :=
  (tr.foldl (fun j x => ownStep j x.1 x.2) ({} : OwnJ)).err

end Nng.GenericSpec
