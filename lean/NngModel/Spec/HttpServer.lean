/-
  C16, HTTP server layer — the property as an executable specification, stated over the byte stream a client sends,
  the handlers in the order they were registered, and the error pages configured.  It refers to nothing of the
  implementation's state (no handler list order, no buffers, no flags); requests are decoded with the serial decoder
  of Spec/HttpConn.lean.

  * routing: a handler is a CANDIDATE when its host pattern accepts the request's Host and its path covers the target
    (`target = path`, `target = path/`, or — tree handlers — `target` begins with `path/`); it is ELIGIBLE when it
    also takes the method.  The request goes to the eligible candidate with the LONGEST path (the first registered
    among equals).  Without an eligible candidate: 405 when there are candidates, else 404.  (HEAD: see `route`.)
  * framing: a request that cannot be delimited (rejected by the parser, not HTTP/1.x, target not origin-form,
    Transfer-Encoding, Content-Length not a decimal number) is answered with its status and the connection is
    CLOSED; every other request is delimited by Content-Length, and its body is delivered to the handler only
    if the handler collects bodies and it is within the handler's limit (else 413, nothing delivered), otherwise
    skipped.
  * persistence: HTTP/1.1 and no "close" in the Connection header ⇒ the connection is kept, else closed after
    the answer, which then says `Connection: close`.
  * answers the server writes itself are complete HTTP/1.x responses with Content-Type and a Content-Length equal to
    the body they would have for GET; an answer to HEAD has no body.
  Core Lean only.
-/
import NngModel.Spec.HttpConn
namespace Nng.HttpSrvSpec
open Nng Nng.HttpSpec

def str (s : String) : Bytes := s.toList.map fun c => UInt8.ofNat c.toNat
def dec (n : Nat) : Bytes := (Nat.toDigits 10 n).map fun c => UInt8.ofNat c.toNat
def CRLF : Bytes := [CR, LF]

inductive Action where
  | echo                                       -- 200 text/plain "h<id>\n"
  | fail (status : Nat)                        -- the error page for that status
  | content (data ctype : Bytes)               -- 200 with that content
  | redirect (code : Nat) (target base : Bytes)
deriving Repr, DecidableEq

structure Route where
  id : Nat
  path : Bytes                  -- "" = the root
  method : Option Bytes         -- none = every method
  host : Option Bytes := none   -- none = every host
  tree : Bool := false
  wantBody : Bool
  maxBody : Nat
  action : Action
deriving Repr, DecidableEq

structure SrvParams where
  http : Params
  reasons : List (Nat × Bytes)
  unknownReason : Bytes
  page : Nat → Bytes → Bytes                   -- status, reason → the default error page
  pageRedirect : Nat → Bytes → Bytes → Bytes
  pageCtype : Bytes
  defMaxBody : Nat
  staticCtype : Bytes
  uriMax : Nat
  methodMax : Nat
  hostMax : Nat

def lowerS (b : Bytes) : Bytes := b.map lower

/-! ## registration -/

/-- byte-wise lexicographic order -/
def bytesLt : Bytes → Bytes → Bool
  | _, [] => false
  | [], _ :: _ => true
  | a :: as, b :: bs => if a = b then bytesLt as bs else a < b

/-- a path is "" or begins with "/"; two handlers may not agree in host (case-insensitively), method and path -/
def register (rs : List Route) (r : Route) : Except Nat (List Route) :=
  if !r.path.isEmpty && r.path.head? != some 0x2F then .error Err.einval
  else if rs.any (fun x => x.host.map lowerS == r.host.map lowerS && x.method == r.method && x.path == r.path) then
    .error Err.eaddrinuse
  else .ok (rs ++ [r])

/-- the order of precedence the server reports: greater paths first, registration order among equal paths -/
def precedence (rs : List Route) : List Route :=
  rs.foldl (fun acc r => (acc.filter fun x => !bytesLt x.path r.path) ++ [r] ++ (acc.filter fun x => bytesLt x.path r.path)) []

/-! ## routing -/

/-- the Host header is accepted when it is: the name itself, the name with a trailing ".", the name followed by ":" anything -/
def hostOk (pattern : Option Bytes) (reqHost : Option Bytes) : Bool :=
  match pattern with
  | none => true
  | some p =>
    match reqHost with
    | none => false
    | some v =>
      let v := lowerS v
      let p := lowerS p
      v == p || v == p ++ [0x2E] || v.take (p.length + 1) == p ++ [COLON]

def pathOk (r : Route) (target : Bytes) : Bool :=
  target == r.path || target == r.path ++ [0x2F] || (r.tree && target.take (r.path.length + 1) == r.path ++ [0x2F])

def methodOk (r : Route) (meth : Bytes) : Bool :=
  match r.method with
  | none => true
  | some m => m == meth

/-- the longest path; the first among equals -/
def longest : List Route → Option Route
  | [] => none
  | r :: rest =>
    match longest rest with
    | none => some r
    | some b => if b.path.length > r.path.length then some b else some r

/-- the shortest path; the last among equals -/
def shortestLast : List Route → Option Route
  | [] => none
  | r :: rest =>
    match shortestLast rest with
    | none => some r
    | some b => if b.path.length ≤ r.path.length then some b else some r

/-- the handler for a request, or the error status.
    HEAD without an eligible handler is served by a GET handler — as the code has it, by the LEAST specific GET
    candidate (docs/ref/api/http.md promises "GET handlers" for HEAD without saying which; recorded as a discrepancy) -/
def route (rs : List Route) (meth : Bytes) (host : Option Bytes) (target : Bytes) : Except Nat Route :=
  let cands := rs.filter fun r => hostOk r.host host && pathOk r target
  match longest (cands.filter fun r => methodOk r meth) with
  | some r => .ok r
  | none =>
    let gets := if meth == str "HEAD" then cands.filter fun r => r.method == some (str "GET") else []
    match shortestLast gets with
    | some r => .ok r
    | none => .error (if cands.isEmpty then 404 else 405)

/-! ## one request -/

def field (hs : List Field) (name : Bytes) : Option Bytes := (hs.find? fun h => sameName name h.1).map (·.2)

def hasClose (v : Bytes) : Bool :=
  let l := lowerS v
  let n := str "close"
  (List.range (l.length + 1)).any fun i => (l.drop i).take n.length == n

/-- Content-Length: a non-empty string of decimal digits (values beyond 2^64-1 count as 2^64-1) -/
def contentLength (v : Bytes) : Option Nat :=
  if v.isEmpty || !v.all isDigit then none else some (min (digitsVal 0 v) (2 ^ 64 - 1))

inductive Verdict where
  | refuse (status : Nat)                       -- cannot be delimited: answer and close
  | answer (status : Nat) (skip : Nat)          -- an error answer; `skip` body bytes are passed over
  | deliver (r : Route) (body skip : Nat)       -- the handler runs with `body` bytes; `skip` more are passed over
deriving Repr, DecidableEq

def judge (rs : List Route) (q : Req) : Verdict :=
  if q.effStatus ≥ 400 then .refuse q.effStatus
  else if q.vers.take 7 != str "HTTP/1." then .refuse 505
  else if q.uri.head? != some 0x2F then .refuse 400
  else if (field q.hdrs (str "Transfer-Encoding")).isSome then .refuse 501
  else
    match (match field q.hdrs sContentLength with
           | none => some 0
           | some v => contentLength v) with
    | none => .refuse 400
    | some len =>
      let host := field q.hdrs sHost
      if host.isNone && q.vers == str "HTTP/1.1" then .answer 400 len
      else
        match route rs q.meth host q.uri with
        | .error st => .answer st len
        | .ok r =>
          if r.wantBody && len > 0 then
            if len > r.maxBody then .answer 413 len else .deliver r len 0
          else .deliver r 0 len

/-- does the client allow the connection to persist -/
def persistent (q : Req) : Bool :=
  q.vers == str "HTTP/1.1" && !(match field q.hdrs (str "Connection") with
                                | some v => hasClose v
                                | none => false)

/-! ## answers -/

structure Answer where
  vers : Bytes
  status : Nat
  hdrs : List Field
  body : Bytes
deriving Repr, DecidableEq

def reasonOf (p : SrvParams) (code : Nat) : Bytes :=
  match p.reasons.find? fun x => x.1 == code with
  | some x => x.2
  | none => p.unknownReason

def Answer.render (p : SrvParams) (a : Answer) : Bytes :=
  a.vers ++ [SP] ++ dec a.status ++ [SP] ++ reasonOf p a.status ++ CRLF ++
    (a.hdrs.map fun h => h.1 ++ [COLON, SP] ++ h.2 ++ CRLF).flatten ++ CRLF ++ a.body

/-- the error page for a status: the configured one, else the default -/
def errorBody (p : SrvParams) (pages : List (Nat × Bytes)) (status : Nat) : Bytes :=
  match pages.find? fun x => x.1 == status with
  | some x => x.2
  | none => p.page status (reasonOf p status)

def closeHdr (close : Bool) : List Field := if close then [(str "Connection", str "close")] else []

/-- an error answer written by the server front -/
def errorAnswer (p : SrvParams) (pages : List (Nat × Bytes)) (q : Req) (status : Nat) (close : Bool) : Answer :=
  let b := errorBody p pages status
  { vers := q.vers, status := status,
    hdrs := [(sContentType, p.pageCtype), (sContentLength, dec b.length)] ++ closeHdr close,
    body := if q.meth == str "HEAD" then [] else b }

/-- the answer of a handler, as the server completes it -/
def handlerAnswer (p : SrvParams) (pages : List (Nat × Bytes)) (r : Route) (q : Req) (close : Bool) : Answer :=
  let head := q.meth == str "HEAD"
  match r.action with
  | .echo =>
    let b := str "h" ++ dec r.id ++ [LF]
    { vers := str "HTTP/1.1", status := 200, hdrs := [(sContentType, str "text/plain"), (sContentLength, dec b.length)] ++ closeHdr close,
      body := if head then [] else b }
  | .fail st =>
    let b := errorBody p pages st
    { vers := str "HTTP/1.1", status := st, hdrs := [(sContentType, p.pageCtype), (sContentLength, dec b.length)] ++ closeHdr close,
      body := if head then [] else b }
  | .content d ct =>
    { vers := str "HTTP/1.1", status := 200, hdrs := [(sContentType, ct.take p.http.ctypeMax), (sContentLength, dec d.length)] ++ closeHdr close,
      body := if head then [] else d }
  | .redirect code target base =>
    let loc := if q.uri.take base.length == base then target ++ q.uri.drop base.length else target
    -- the answer always says `Connection: close`; the page shown is the plain error page of the status
    let b := errorBody p pages code
    { vers := str "HTTP/1.1", status := code,
      hdrs := [(str "Location", loc), (str "Connection", str "close"), (sContentType, p.pageCtype), (sContentLength, dec b.length)],
      body := if head then [] else b }

/-! ## the connection -/

inductive Ev where
  | handler (id : Nat) (meth uri vers body : Bytes)
  | write (b : Bytes)
  | close
deriving Repr, DecidableEq

def reqInit (p : SrvParams) (host : Bytes) : Req :=
  { vers := str "HTTP/1.1", hdrs := if host.isEmpty then [] else [(sHost, host)] }

def hostOf (hs : List Field) (old : Bytes) : Bytes :=
  match hs.find? fun h => h.1 == sHost with
  | some h => h.2
  | none => old

def reports (r : Route) : Bool :=
  match r.action with
  | .echo | .fail _ => true
  | _ => false

/-- all events of a connection that has received `s`; `host` = the Host value the connection remembers
    (the implementation re-installs the last Host value when a request has none — reported with C16H) -/
def connectionFrom (p : SrvParams) (rs : List Route) (pages : List (Nat × Bytes)) : Nat → Bytes → Bytes → List Ev
  | 0, _, _ => []
  | fuel + 1, host, s =>
    match decodeReq p.http (reqInit p host) s with
    | .run _ _ _ _ => []
    | .fail _ => [.close]
    | .done q n =>
      let rest := s.drop n
      let host' := hostOf q.hdrs host
      match judge rs q with
      | .refuse st => [.write ((errorAnswer p pages q st true).render p), .close]
      | .answer st skip =>
        let close := !persistent q
        let w := Ev.write ((errorAnswer p pages q st close).render p)
        if close then [w, .close]
        else if skip > rest.length then [w]
        else w :: connectionFrom p rs pages fuel host' (rest.drop skip)
      | .deliver r body skip =>
        if body > rest.length then []
        else
          let close := !persistent q
          let evs := (if reports r then [Ev.handler r.id q.meth q.uri (str "HTTP/1.1") (rest.take body)] else []) ++
                     [Ev.write ((handlerAnswer p pages r q close).render p)]
          let rest := rest.drop body
          if close then evs ++ [.close]
          else if skip > rest.length then evs
          else evs ++ connectionFrom p rs pages fuel host' (rest.drop skip)

def connection (p : SrvParams) (rs : List Route) (pages : List (Nat × Bytes)) (s : Bytes) : List Ev :=
  connectionFrom p rs pages (s.length + 1) [] s

end Nng.HttpSrvSpec
