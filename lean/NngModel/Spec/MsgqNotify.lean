/-
  C18N / C15 at the level of a message queue: what the two poll levels of a FIFO channel must be.

  Stated on the abstract channel of Spec/Queues.lean (capacity, queued messages, parked writers,
  parked readers) with no reference to ring indices, pollable objects or call sites:

    sendable level  =  a non-blocking put would be accepted now
                    =  no earlier writer is waiting, and there is room or a reader is waiting
    recvable level  =  a non-blocking get would be served now
                    =  no earlier reader is waiting, and a message is queued or a writer is waiting

  A non-blocking operation (zero timeout) that is not accepted fails at once with NNG_ETIMEDOUT
  (nng.c turns it into NNG_EAGAIN) and leaves the channel exactly as it was.  On a closed channel the
  levels are unspecified (`none`): C15 speaks about open sockets, and the socket layer answers
  NNG_ECLOSED before the queue is consulted.
-/
import NngModel.Spec.Queues
namespace Nng.QSpec

/-- a put with a zero timeout would be accepted -/
def Chan.nbPutOk (c : Chan) : Bool :=
  c.putq.isEmpty && (decide (c.items.length < c.cap) || !c.getq.isEmpty)

/-- a get with a zero timeout would be served -/
def Chan.nbGetOk (c : Chan) : Bool :=
  c.getq.isEmpty && (!c.items.isEmpty || !c.putq.isEmpty)

/-- non-blocking put: the blocking put if it is accepted, else ETIMEDOUT and no effect -/
def Chan.nbPut (c : Chan) (aio : Nat) (m : Msg) : CRes :=
  if c.nbPutOk then c.aioPut aio m else { c, rv := 0, evs := [(aio, Err.etimedout, none)] }

/-- non-blocking get -/
def Chan.nbGet (c : Chan) (aio : Nat) : CRes :=
  if c.nbGetOk then c.aioGet aio else { c, rv := 0, evs := [(aio, Err.etimedout, none)] }

/-- the queue API as seen by a poller: the operations of `COp`, the two zero-timeout variants, the two
    pollable getters and the capacity getter -/
inductive NOp
  | base (op : COp)
  | nbPut (aio : Nat) (m : Msg)
  | nbGet (aio : Nat)
  | getSendable
  | getRecvable
  | getCap
deriving Repr, DecidableEq

def Chan.nstep (c : Chan) : NOp → CRes
  | .base op => c.step op
  | .nbPut a m => c.nbPut a m
  | .nbGet a => c.nbGet a
  | .getSendable => { c, rv := 0 }
  | .getRecvable => { c, rv := 0 }
  | .getCap => { c, rv := c.cap }

/-- what a poller must see: `(sendable, recvable)`; `none` = unspecified (closed channel) -/
def Chan.wantLevels (c : Chan) : Option (Bool × Bool) :=
  if c.closed then none else some (c.nbPutOk, c.nbGetOk)

end Nng.QSpec
