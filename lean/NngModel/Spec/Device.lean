/-
  Specification of nng_device (C13, device half) with no reference to device.c's state.

  1. `initRule` — the documented acceptance rule of nng_device(s1, s2): which socket pairs make a
     device, with which error otherwise, and which forwarding directions result.
  2. `UJ` — a judge of the device's calls as seen at its boundary (harness/u_device.c): the trace
     predicate "forward every message you obtain exactly once, unchanged, in order, one at a time per
     direction; never two receives outstanding on one source; on failure stop, free what you hold,
     close both sockets and complete the user exactly once".
  3. `SJ` — the end-to-end judge of mock-pipe traces of the SIM executor (harness/s_device.c).

  Core Lean only.
-/
import NngModel.Base.Bytes
import NngModel.Generated.C13DEV
namespace Nng.DeviceSpec
open Nng

/-! ### 1. which socket pairs make a device -/

/-- what the documentation talks about: protocol number, peer protocol number, raw mode, whether
    the protocol can receive -/
structure SockDesc where
  proto : Nat
  peer : Nat
  raw : Bool
  canRecv : Bool
deriving Repr, DecidableEq, Inhabited

inductive Shape
  | reflector (s : Nat)          -- one forwarder s → s
  | oneWay (src dst : Nat)       -- one forwarder src → dst
  | twoWay (a b : Nat)           -- forwarders a → b and b → a
deriving Repr, DecidableEq, Inhabited

/-- the forwarding directions of a shape, first forwarder first -/
def Shape.dirs : Shape → List (Nat × Nat)
  | .reflector s => [(s, s)]
  | .oneWay a b => [(a, b)]
  | .twoWay a b => [(a, b), (b, a)]

def EINVAL : Nat := Nng.Generated.devErrInval
def ENOMEM : Nat := Nng.Generated.devErrNomem

/-- the rule for two present sockets (possibly the same one) -/
def rulePair (desc : Nat → SockDesc) (a b : Nat) (memOk : Bool) : Except Nat Shape :=
  if (desc a).peer = (desc b).proto ∧ (desc b).peer = (desc a).proto ∧ (desc a).raw = true ∧ (desc b).raw = true then
    if memOk = false then .error ENOMEM
    else if a = b then .ok (.reflector a)
    else if (desc a).canRecv = true ∧ (desc b).canRecv = true then .ok (.twoWay a b)
    else if (desc a).canRecv = true then .ok (.oneWay a b)
    else .ok (.oneWay b a)
  else .error EINVAL

/-- nng_device(3): "Both sockets must be raw sockets of compatible protocols (each is the other's
    peer).  If only one socket is valid (or both name the same socket) the device is a reflector /
    loop-back on that socket, which must be its own peer.  A socket that cannot receive is only
    ever a destination."  No socket at all, incompatible protocols or a cooked socket: NNG_EINVAL;
    out of memory: NNG_ENOMEM. -/
def initRule (desc : Nat → SockDesc) (s1 s2 : Option Nat) (memOk : Bool) : Except Nat Shape :=
  match s1, s2 with
  | none, none => .error EINVAL
  | some a, none => rulePair desc a a memOk
  | none, some b => rulePair desc b b memOk
  | some a, some b => rulePair desc a b memOk

/-! ### 2. the device at its boundary (harness/u_device.c) -/

/-- a message: header and body bytes -/
abbrev M := Bytes × Bytes

/-- the judge's own bookkeeping of the ENVIRONMENT (FIFO sockets, which operation holds what) and
    of what the device has been seen doing.  A forwarder is known by the number of its aio. -/
structure UJ where
  socks : List (Nat × SockDesc) := []
  arrivals : List (Nat × M) := []         -- (socket, message) in arrival order, not yet forwarded or given up
  rxq : List (Nat × M) := []              -- arrived, no receive to take it yet
  rwait : List (Nat × Nat) := []          -- outstanding receives (socket, forwarder), oldest first
  ready : List (Nat × M) := []            -- completed receives whose callback has not run
  src : List (Nat × Nat) := []            -- forwarder → socket it receives from
  held : List (Nat × M) := []             -- forwarder → the message it holds
  sendp : List (Nat × Nat) := []          -- outstanding sends (forwarder, socket)
  dirs : List (Nat × Nat) := []           -- the documented directions of the running device
  running : Bool := false
  live : List Nat := []                   -- forwarders that have not stopped
  failed : Option Nat := none             -- first error
  finished : List Nat := []               -- results the user aio was completed with
  closed : List Nat := []
  err : Option String := none
deriving Repr, Inhabited

def UJ.fail (j : UJ) (msg : String) : UJ := if j.err.isSome then j else { j with err := some msg }

def parseM (h b : String) : Option M :=
  match parseHex h, parseHex b with
  | some h, some b => some (h, b)
  | _, _ => none

/-- one call of the device, in order -/
def uAct (j : UJ) (a : List String) : UJ :=
  match a with
  | ["recv", s, i] =>
    match s.toNat?, i.toNat? with
    | some s, some i =>
      let busy := j.rwait.any (·.1 == s) || j.ready.any (fun r => (j.src.lookup r.1) == some s)
      let j := if busy then j.fail s!"shape: two receives outstanding on socket {s} (two forwarders on one direction cannot keep the order)" else j
      let j := { j with src := (i, s) :: j.src.filter (·.1 != i) }
      match j.rxq.find? (·.1 == s) with
      | some (_, m) => { j with rxq := j.rxq.eraseP (·.1 == s), ready := j.ready ++ [(i, m)] }
      | none => { j with rwait := j.rwait ++ [(s, i)] }
    | _, _ => j
  | ["send", s, i, h, b] =>
    match s.toNat?, i.toNat?, parseM h b with
    | some s, some i, some m =>
      let j := if j.failed.isSome then j.fail s!"stop: forwarder {i} submits a message after the device has failed" else j
      let j := match j.held.lookup i with
        | some m' => if m' == m then j else j.fail s!"exact: forwarder {i} submits a message that differs from the one it obtained"
        | none => j.fail s!"exact: forwarder {i} submits a message it does not hold (invented or duplicated)"
      let sr := (j.src.lookup i).getD 0
      let j := if j.dirs.contains (sr, s) then j else j.fail s!"shape: forwarder {i} reads socket {sr} but sends to socket {s}"
      -- order: it must be the oldest arrival of its source that has not been forwarded
      let j := match j.arrivals.find? (·.1 == sr) with
        | some (_, m0) => if m0 == m then { j with arrivals := j.arrivals.eraseP (·.1 == sr) }
                          else j.fail s!"order: socket {s} is given {toHex m.2} before the earlier arrival {toHex m0.2} of socket {sr}"
        | none => j.fail s!"exact: nothing is waiting to be forwarded from socket {sr}"
      { j with sendp := j.sendp ++ [(i, s)] }
    | _, _, _ => j.fail "exact: a send without a message"
  | ["free", i, h, b] =>
    match i.toNat?, parseM h b with
    | some i, some m =>
      if j.held.lookup i == some m then { j with held := j.held.filter (·.1 != i) }
      else j.fail s!"own: a message is freed that forwarder {i} does not hold (double free)"
    | _, _ => j
  | ["close", s] =>
    match s.toNat? with
    | some s =>
      let j := if j.closed.contains s then j.fail s!"stop: socket {s} closed twice" else j
      let j := if j.live.isEmpty then j else j.fail s!"stop: socket {s} closed while forwarders {j.live} are running"
      { j with closed := j.closed ++ [s] }
    | none => j
  | ["finish", rv] =>
    match rv.toNat? with
    | some rv =>
      let j := if j.finished.isEmpty then j else j.fail "stop: the user aio is completed twice"
      { j with finished := j.finished ++ [rv] }
    | none => j
  | _ => j     -- hold, abort, reap, free NULL: checked per line

def actsOf (out : String) : List (List String) :=
  let a := (out.splitOn " | ").headD ""
  if a.trimAscii.toString == "-" then []
  else (a.splitOn " ; ").map fun e => (e.trimAscii.toString.splitOn " ").filter (· ≠ "")

def uDesc (j : UJ) (s : Nat) : SockDesc := (j.socks.lookup s).getD ⟨0, 0, false, false⟩
def uSockArg (j : UJ) (w : String) : Option Nat :=
  match w.toNat? with
  | some s => if (j.socks.lookup s).isSome then some s else none
  | none => none

def holdOpt (ws : List String) : Nat :=
  (ws.filterMap fun w => if w.startsWith "hold=" then (w.drop 5).toString.toNat? else none).headD 0

/-- after the calls of a line: what must have happened by now -/
def uSettle (j : UJ) (acts : List (List String)) (stopped : List Nat) (firstFailure : Bool) : UJ :=
  let j := { j with live := j.live.filter (!stopped.contains ·) }
  match j.failed with
  | none => j
  | some e =>
    -- at the first failure every other running forwarder is aborted
    let j := if firstFailure then
        match j.live.find? (fun k => !(acts.any fun a => a.take 2 == ["abort", toString k])) with
        | some k => j.fail s!"stop: the device failed but forwarder {k} is not aborted"
        | none => j
      else j
    if j.live.isEmpty && j.running then
      let want := (j.dirs.map (·.1) ++ j.dirs.map (·.2)).eraseDups
      let j := if j.finished == [e] then j else j.fail s!"stop: every forwarder has stopped: the user aio must be completed once with the first error {e}; completions {j.finished}"
      let j := if want.all (j.closed.contains ·) then j else j.fail s!"stop: the device completed but of sockets {want} only {j.closed} are closed"
      let j := if j.held.isEmpty then j else j.fail s!"own: the device completed while forwarders {j.held.map (·.1)} still hold a message (leak)"
      { j with running := false }
    else
      if j.running && !j.finished.isEmpty then j.fail s!"stop: the user aio is completed while forwarders {j.live} are running" else j

/-- one line: the operation and what the implementation printed -/
def uStep (j : UJ) (op : List String) (out : String) : UJ :=
  let acts := actsOf out
  match op with
  | ["sock", k, pr, pe, fl] =>
    let hexNat (s : String) : Option Nat := s.toList.foldlM (fun acc c => (hexVal c).map (acc * 16 + ·)) 0
    match k.toNat?, hexNat pr, hexNat pe, fl.toNat? with
    | some k, some pr, some pe, some fl =>
      { j with socks := (k, ⟨pr, pe, (fl &&& Nng.Generated.devFlagRaw) != 0, (fl &&& Nng.Generated.devFlagRcv) != 0⟩) :: j.socks.filter (·.1 != k) }
    | _, _, _, _ => j
  | "device" :: a :: b :: opts =>
    if out.trimAscii.toString == "bad-op" then j else
    let memOk := !opts.contains "noalloc"
    match initRule (uDesc j) (uSockArg j a) (uSockArg j b) memOk with
    | .error e =>
      let j := acts.foldl uAct j
      if j.finished == [e] && !(acts.any fun x => x.head? == some "recv") then j
      else j.fail s!"start: nng_device must fail with {e} and start nothing; calls: {out}"
    | .ok shape =>
      if opts.contains "nostart" then
        let j := acts.foldl uAct j
        if j.finished.isEmpty && !(acts.any fun x => x.head? == some "recv") then j
        else j.fail "start: a stopped user aio must not start a device"
      else if holdOpt opts != 0 then
        let j := acts.foldl uAct j
        if j.finished == [holdOpt opts] && !(acts.any fun x => x.head? == some "recv") then j
        else j.fail s!"start: the sockets cannot be held: the user aio must complete with {holdOpt opts}"
      else
        let j := { j with dirs := shape.dirs, running := true }
        let j := acts.foldl uAct j
        let posted := (acts.filterMap fun x => match x with | ["recv", s, _] => s.toNat? | _ => none)
        let fw := (acts.filterMap fun x => match x with | ["recv", _, i] => i.toNat? | _ => none)
        let j := { j with live := fw }
        let j := if posted.mergeSort == (shape.dirs.map (·.1)).mergeSort && fw.eraseDups.length == fw.length then j
          else j.fail s!"shape: the device must post one receive per direction {shape.dirs}; it posted receives on sockets {posted}"
        if j.finished.isEmpty then j else j.fail "start: the user aio of an accepted device completed at once"
  | ["arrive", s, h, b] =>
    match s.toNat?, parseM h b with
    | some s, some m =>
      if (j.socks.lookup s).isNone then j else
      let j := { j with arrivals := j.arrivals ++ [(s, m)] }
      match j.rwait.find? (·.1 == s) with
      | some (_, i) => { j with rwait := j.rwait.eraseP (·.1 == s), ready := j.ready ++ [(i, m)] }
      | none => { j with rxq := j.rxq ++ [(s, m)] }
    | _, _ => j
  | ["run", i] =>
    match i.toNat? with
    | some i =>
      match j.ready.find? (·.1 == i) with
      | some (_, m) =>
        let j := { j with ready := j.ready.eraseP (·.1 == i), held := (i, m) :: j.held }
        let wasFailed := j.failed.isSome
        let j := if wasFailed then { j with live := j.live.filter (· != i) } else j
        let j := acts.foldl uAct j
        if wasFailed then
          let j := if (j.held.lookup i).isSome then j.fail s!"own: forwarder {i} obtained a message after the device failed and did not free it" else j
          -- the message is given up: it will never be forwarded
          let sr := (j.src.lookup i).getD 0
          uSettle { j with arrivals := j.arrivals.eraseP (·.1 == sr) } acts [i] false
        else
          let j := if j.sendp.any (·.1 == i) then j else j.fail s!"exact: forwarder {i} obtained a message and did not submit it to the other socket"
          uSettle j acts [] false
      | none => acts.foldl uAct j
    | none => j
  | ["senddone", i, rv] =>
    match i.toNat?, rv.toNat? with
    | some i, some rv =>
      if !(j.sendp.any (·.1 == i)) then acts.foldl uAct j else
      let j := { j with sendp := j.sendp.filter (·.1 != i) }
      let j := if rv == 0 then { j with held := j.held.filter (·.1 != i) } else j
      let first := j.failed.isNone && rv != 0
      let j := if first then { j with failed := some rv } else j
      let j := if j.failed.isSome then { j with live := j.live.filter (· != i) } else j
      let j := acts.foldl uAct j
      if j.failed.isSome then
        let j := if (j.held.lookup i).isSome then j.fail s!"own: the send of forwarder {i} failed and its message was not freed" else j
        uSettle j acts [i] first
      else
        let j := if j.rwait.any (·.2 == i) || j.ready.any (·.1 == i) then j else j.fail s!"live: forwarder {i} does not receive again after its send completed"
        uSettle j acts [] false
    | _, _ => j
  | ["recvfail", i, e] =>
    match i.toNat?, e.toNat? with
    | some i, some e =>
      if e == 0 || !(j.rwait.any (·.2 == i)) then acts.foldl uAct j else
      let j := { j with rwait := j.rwait.filter (·.2 != i) }
      let first := j.failed.isNone
      let j := if first then { j with failed := some e } else j
      let j := { j with live := j.live.filter (· != i) }
      let j := acts.foldl uAct j
      uSettle j acts [i] first
    | _, _ => j
  | ["cancel", rv] =>
    match rv.toNat? with
    | some rv =>
      if rv == 0 || !j.running then acts.foldl uAct j else
      let first := j.failed.isNone
      let j := if first then { j with failed := some rv } else j
      let j := acts.foldl uAct j
      uSettle j acts [] first
    | none => j
  | _ => j

end Nng.DeviceSpec
