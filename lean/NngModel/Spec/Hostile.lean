/-
  C11 — hostile or broken peers, as an executable specification.

  The specification speaks only about the bytes a peer puts on one connection and
  about what the application (or the protocol above the transport) may be handed
  from that connection.  It mentions no buffer, counter or state of the
  implementation.

  * `exactHandshake p`   the only 8 bytes that open an SP connection for a peer
                         speaking protocol `p`.
  * `parse`              the frame grammar of SP over a byte stream (tcp, socket-fd:
                         be64 length · payload; ipc: 0x01 · be64 length · payload)
                         with the size rule:  a frame is deliverable iff its declared
                         length is a valid message size and (rcvmax = 0 ∨ ≤ rcvmax).
                         Parsing stops at the first frame that is not deliverable, at
                         a malformed frame and where the bytes run out.
  * `Allowed`            the property: what one connection delivers is an initial part
                         of the deliverable frames of its byte stream — whole frames,
                         in order, none above the limit, nothing from or after a
                         rejected frame, nothing from an incomplete frame.
  * `udpAllowed`         SP/UDP: a payload may be handed over only if it is the declared
                         initial part of a DATA datagram of version 1 from a known peer
                         whose declared length fits the datagram and the limit.

  Core Lean only.
-/
import NngModel.Base.Bytes
namespace Nng.HostileSpec
open Nng

/-- 00 'S' 'P' 00 pp pp 00 00 -/
def exactHandshake (proto : Nat) : Bytes :=
  [0, 0x53, 0x50, 0, UInt8.ofNat (proto / 256 % 256), UInt8.ofNat (proto % 256), 0, 0]

/-- framing flavour of the stream -/
structure Framing where
  typeByte : Option UInt8     -- ipc: every frame starts with this byte
  maxValid : Nat              -- the transports' validity bound for a declared length
  rcvmax : Nat                -- NNG_OPT_RECVMAXSZ, 0 = unlimited
deriving Repr

def Framing.headLen (f : Framing) : Nat := (if f.typeByte.isSome then 1 else 0) + 8

/-- the size rule -/
def Framing.fits (f : Framing) (len : Nat) : Bool :=
  decide (len ≤ f.maxValid) && (f.rcvmax == 0 || decide (len ≤ f.rcvmax))

/-- why parsing stopped -/
inductive Stop where
  | needMore            -- the bytes ran out inside a header or a payload (or exactly between frames)
  | badType             -- ipc: wrong message type byte
  | tooBig              -- the declared length violates the size rule
deriving Repr, DecidableEq, Inhabited

/-- the deliverable frames at the front of a byte string, and why the parse stopped -/
def parse (f : Framing) (b : Bytes) : List Bytes × Stop :=
  if b.length < f.headLen then ([], .needMore)
  else
    let hd := b.take f.headLen
    let rest := b.drop f.headLen
    if f.typeByte.isSome ∧ some (hd.headD 0) ≠ f.typeByte then ([], .badType)
    else
      let len := beDecode (hd.drop (f.headLen - 8))
      if !f.fits len then ([], .tooBig)
      else if rest.length < len then ([], .needMore)
      else
        let r := parse f (rest.drop len)
        (rest.take len :: r.1, r.2)
termination_by b.length
decreasing_by
  simp only [List.length_drop]
  have : f.headLen ≥ 8 := by simp [Framing.headLen]
  omega

/-- THE PROPERTY for one stream connection: the application-side deliveries of the
    connection are an initial part of the deliverable frames of what the peer sent. -/
def Allowed (f : Framing) (stream : Bytes) (delivered : List Bytes) : Prop :=
  delivered <+: (parse f stream).1

/-- executable form -/
def allowedB (f : Framing) (stream : Bytes) (delivered : List Bytes) : Bool :=
  let p := (parse f stream).1
  decide (delivered.length ≤ p.length) && (p.take delivered.length == delivered)

/-! ### SP over UDP -/

/-- may `payload` be handed over for datagram `d` (from a peer with an established
    association iff `known`) under the receive limit `rcvmax` (1 … 65000)? -/
def udpAllowed (d : Bytes) (known : Bool) (rcvmax : Nat) (payload : Bytes) : Bool :=
  known && decide (d.length ≥ 8) && decide ((d.getD 0 0).toNat = 1) && decide ((d.getD 1 0).toNat = 0) &&
    (let declared := (d.getD 4 0).toNat + 256 * (d.getD 5 0).toNat
     decide (declared ≤ d.length - 8) && decide (declared ≤ rcvmax) &&
       (payload == (d.drop 8).take declared))

end Nng.HostileSpec
