/-
  C06 as executable trace predicates.  A trace is the list of harness events with the
  outputs observed for each (from the implementation, or from the model).  The judges
  mention no protocol-internal state: only what was offered, accepted, put on the wire,
  delivered, and the configured buffer depth.

  Message identity: the check generates pairwise distinct bodies within a case
  (`DistinctBodies`), so a body identifies a message; the theorems about the model use
  ghost ids instead and need no such assumption.
-/
import NngModel.Proto.Base
namespace Nng.PipelineSpec
open Nng Nng.Proto

/-! ### PUSH -/

structure Acc where            -- an accepted message awaiting its wire hand-off
  m : WMsg
  shrinkSince : Bool           -- a send-buffer shrink (or close) happened after acceptance
deriving Repr, DecidableEq

structure PushJ where
  pending : List (Nat × WMsg) := []      -- send aios submitted and not yet completed
  unsent : List Acc := []                -- accepted, not yet on the wire, oldest first
  wired : List WMsg := []                -- everything ever handed to a pipe
  idle : List Nat := []                  -- pipes connected, not closed, with no send in flight
  busy : List Nat := []                  -- pipes with a send in flight
  cap : Nat := 0
  closed : Bool := false
  err : Option String := none
deriving Repr

def PushJ.fail (j : PushJ) (msg : String) : PushJ :=
  match j.err with | some _ => j | none => { j with err := some msg }

/-- process one output event -/
def pushOut (nbSend : Option (Nat × WMsg)) (j : PushJ) (o : Out) : PushJ :=
  match o with
  | .done a rv _ msgback =>
    let pend := match j.pending.find? (·.1 == a), nbSend with
      | some x, _ => some x
      | none, some x => if x.1 == a then some x else none
      | none, none => none
    match pend with
    | none => j.fail s!"completion of aio {a} that has no send outstanding"
    | some (_, m) =>
      let j := { j with pending := j.pending.filter (·.1 != a) }
      if rv == 0 then
        if msgback then j.fail s!"send {a} succeeded but the message came back"
        else { j with unsent := j.unsent ++ [⟨m, false⟩] }
      else if !msgback then j.fail s!"send {a} failed with {rv} but the message was not left with the caller"
      else j
  | .psend p m =>
    if j.wired.contains m then j.fail s!"message put on the wire twice (pipe {p})"
    else if !(j.idle.contains p) then j.fail s!"send on pipe {p} which is not idle"
    else
      match j.unsent.findIdx? (·.m == m) with
      | none => j.fail s!"pipe {p} was handed a message that no send had been accepted for"
      | some i =>
        let skipped := j.unsent.take i
        if skipped.any (fun a => !a.shrinkSince) then
          j.fail s!"message overtaken on the wire: an older accepted message was skipped without a buffer shrink"
        else
          { j with unsent := j.unsent.drop (i + 1), wired := j.wired ++ [m],
                   idle := j.idle.filter (· != p), busy := j.busy ++ [p] }
  | .pclosed p => { j with idle := j.idle.filter (· != p), busy := j.busy.filter (· != p) }
  | _ => j

/-- end-of-step clauses (the library is quiescent): no stall and bounded buffering -/
def pushQuiescent (j : PushJ) : PushJ :=
  if j.closed then j
  else
    let live := j.unsent.filter (fun a => !a.shrinkSince)
    if !j.idle.isEmpty && !live.isEmpty then
      j.fail "an accepted message is held back although a connected peer is idle"
    else if live.length > j.cap then
      j.fail s!"{live.length} messages buffered with send buffer depth {j.cap}"
    else if !j.idle.isEmpty && !j.pending.isEmpty then
      j.fail "a sender is kept waiting although a connected peer is idle"
    else j

def notExecuted (outs : List Out) : Bool :=
  outs.any (fun o => match o with | .other _ => true | _ => false)

def isDone : Out → Bool
  | .done .. => true
  | _ => false

def isBlocked : Out → Bool
  | .blocked _ => true
  | _ => false

def isDoneOf (a : Nat) : Out → Bool
  | .done a' _ _ _ => a' == a
  | _ => false

/-- aio `a` completed successfully -/
def isDoneOk (a : Nat) : Out → Bool
  | .done a' rv _ _ => a' == a && rv == 0
  | _ => false

/-- FIFO admission of parked senders.  `pending` = the sends submitted in EARLIER steps that
    are still waiting, in submission order; `outs` = the outputs of this step.  A parked send
    may be admitted (complete with 0: its message goes to a pipe or into the buffer) only if
    every send parked before it completes in this step too (admitted, or cancelled / timed
    out / failed: those leave the order).  The send submitted in this very step is not
    parked, so it is not constrained (it may find room that a buffer resize left). -/
def parkedOvertaken (pending : List (Nat × WMsg)) (outs : List Out) : Bool :=
  (pending.dropWhile (fun x => outs.any (isDoneOf x.1))).any (fun x => outs.any (isDoneOk x.1))

/-- bookkeeping caused by the event itself -/
def pushPre (j : PushJ) (ev : Ev) (outs : List Out) : PushJ × Option (Nat × WMsg) :=
  match ev with
  | .send _ a m mode =>
    match mode with
    | .nb => (j, some (a, m))
    | _ => ({ j with pending := j.pending ++ [(a, m)] }, none)
  | .setopt c name ty v =>
    if c.isNone && name == "send-buffer" && ty == "int" && outs.contains (.rv 0) then
      let c := v.toNat
      ({ j with cap := c,
                unsent := if c < j.cap then j.unsent.map (fun a => { a with shrinkSince := true }) else j.unsent }, none)
    else (j, none)
  | .sendDone p rv =>
    if outs.contains (.rv 0) && rv == 0 && j.busy.contains p then
      ({ j with busy := j.busy.filter (· != p), idle := j.idle ++ [p] }, none)
    else (j, none)
  | .close => ({ j with closed := true, unsent := j.unsent.map (fun a => { a with shrinkSince := true }) }, none)
  | _ => (j, none)

/-- a newly connected compatible peer becomes idle before anything is sent on it -/
def newPipeStep (outs : List Out) (j : PushJ) (o : Out) : PushJ :=
  match o with
  | .pipe p => if p ≥ 0 && !(outs.contains (.pclosed p.toNat)) then { j with idle := j.idle ++ [p.toNat] } else j
  | _ => j

def pushNewPipes (outs : List Out) (j : PushJ) : PushJ := outs.foldl (newPipeStep outs) j

/-- end-of-step checks -/
def pushPost (nb : Option (Nat × WMsg)) (outs : List Out) (j : PushJ) : PushJ :=
  -- a non-blocking send must have completed in its own step
  let j := match nb with
    | some (a, _) => if outs.any (isDoneOf a) then j
                     else j.fail s!"non-blocking send {a} did not complete at once"
    | none => j
  let j := if outs.any isBlocked then j.fail "a non-blocking call blocked" else j
  pushQuiescent j

def pushStep (j : PushJ) (ev : Ev) (outs : List Out) : PushJ :=
  if j.err.isSome then j else
  if notExecuted outs then j else   -- the harness refused the line (no socket, aio in use): nothing happened
  match ev with
  | .recv .. => j                   -- a receive on a PUSH socket (NNG_ENOTSUP) is not a C06 matter
  | _ =>
  let j := if parkedOvertaken j.pending outs then
      j.fail "a parked sender was overtaken: a send submitted earlier is still waiting"
    else j
  let (j, nb) := pushPre j ev outs
  let j := pushNewPipes outs j
  -- completions first (a message must be accepted before it is wired), then the rest
  let j := (outs.filter isDone).foldl (pushOut nb) j
  let j := (outs.filter (fun o => !isDone o)).foldl (pushOut nb) j
  pushPost nb outs j

def pushJudge (tr : List (Ev × List Out)) : Option String :=
  (tr.foldl (fun j x => pushStep j x.1 x.2) ({} : PushJ)).err

/-! ### PULL -/

structure PullJ where
  armed : List Nat := []                 -- pipes with a receive posted
  held : List (Nat × WMsg) := []         -- arrived, not yet delivered, oldest first
  waiting : List Nat := []               -- receive aios pending
  delivered : List WMsg := []
  closedPipes : List Nat := []
  live : List Nat := []                  -- pipes connected and not closed
  closed : Bool := false
  err : Option String := none
deriving Repr

def PullJ.fail (j : PullJ) (msg : String) : PullJ :=
  match j.err with | some _ => j | none => { j with err := some msg }

def pullOut (nbRecv : Option Nat) (j : PullJ) (o : Out) : PullJ :=
  match o with
  | .done a rv msg _ =>
    if !(j.waiting.contains a) && nbRecv != some a then j.fail s!"completion of aio {a} that has no receive outstanding"
    else
      let j := { j with waiting := j.waiting.filter (· != a) }
      match rv, msg with
      | 0, some m =>
        match j.held.find? (·.2 == m) with
        | none => j.fail "a message was delivered that never arrived (or was delivered twice)"
        | some (p, _) =>
          -- per-connection order: it must be the oldest undelivered message of its pipe
          match j.held.find? (·.1 == p) with
          | some (_, m0) =>
            if m0 != m then j.fail s!"messages of pipe {p} delivered out of order"
            else { j with held := j.held.erase (p, m), delivered := j.delivered ++ [m] }
          | none => j
      | 0, none => j.fail s!"receive {a} succeeded without a message"
      | _, some _ => j.fail s!"receive {a} failed with {rv} but carries a message"
      | _, none => j
  | .parm p =>
    if j.armed.contains p then j.fail s!"pipe {p} has two receives armed"
    else if j.held.any (·.1 == p) then j.fail s!"pipe {p} re-armed before its message was handed up"
    else { j with armed := j.armed ++ [p] }
  | .pclosed p =>
    { j with armed := j.armed.filter (· != p), held := j.held.filter (·.1 != p), closedPipes := j.closedPipes ++ [p] }
  | _ => j

/-- bookkeeping caused by the event itself -/
def pullPre (j : PullJ) (ev : Ev) (outs : List Out) : PullJ × Option Nat :=
  match ev with
  | .recv _ a mode =>
    match mode with
    | .nb => (j, some a)
    | _ => ({ j with waiting := j.waiting ++ [a] }, none)
  | .recvDone p (.ok b) =>
    if outs.contains (.rv 0) then
      if !(j.armed.contains p) then (j.fail s!"pipe {p} accepted a message with no receive armed", none)
      else ({ j with armed := j.armed.filter (· != p), held := j.held ++ [(p, ⟨[], b⟩)] }, none)
    else (j, none)
  | .recvDone p (.error _) =>
    if outs.contains (.rv 0) then ({ j with armed := j.armed.filter (· != p) }, none) else (j, none)
  | .close => ({ j with closed := true }, none)
  | _ => (j, none)

/-- end-of-step checks -/
def pullPost (nb : Option Nat) (outs : List Out) (j : PullJ) : PullJ :=
  let j := match nb with
    | some a => if outs.any (isDoneOf a) then j
                else j.fail s!"non-blocking receive {a} did not complete at once"
    | none => j
  let j := if outs.any isBlocked then j.fail "a non-blocking call blocked" else j
  -- quiescent: a waiting receiver and an undelivered message never coexist
  if !j.closed && !j.waiting.isEmpty && !j.held.isEmpty then
    j.fail "a receiver is kept waiting although a message has arrived"
  else j

/-- the pipes connected in this step -/
def newPipes (outs : List Out) : List Nat :=
  outs.filterMap fun o => match o with
    | .pipe p => if p ≥ 0 then some p.toNat else none
    | _ => none

/-- connected pipes: those that appeared (`pipe p`) and were not closed (`pclosed p`) -/
def trackLive (outs : List Out) (j : PullJ) : PullJ :=
  { j with live := (j.live ++ newPipes outs).filter fun p => !(outs.contains (.pclosed p)) }

/-- pipe `p` is being read, or back-pressured as pull.c documents it: the protocol holds ONE
    message of `p` that the application has not taken yet -/
def pullServed (j : PullJ) (p : Nat) : Bool :=
  j.armed.contains p || j.held.any (·.1 == p)

/-- receive liveness (the library is quiescent): every connected pipe is served -/
def pullLive (j : PullJ) : PullJ :=
  if j.closed then j
  else match j.live.find? (fun p => !pullServed j p) with
    | some p => j.fail s!"pipe {p} is not read although the protocol holds no undelivered message of it"
    | none => j

def pullStep (j : PullJ) (ev : Ev) (outs : List Out) : PullJ :=
  if j.err.isSome then j else
  if notExecuted outs then j else
  match ev with
  | .send .. => j                   -- a send on a PULL socket (NNG_ENOTSUP) is not a C06 matter
  | _ =>
  let (j, nb) := pullPre j ev outs
  let j := (outs.filter isDone).foldl (pullOut nb) j
  let j := (outs.filter (fun o => !isDone o)).foldl (pullOut nb) j
  pullLive (trackLive outs (pullPost nb outs j))

def pullJudge (tr : List (Ev × List Out)) : Option String :=
  (tr.foldl (fun j x => pullStep j x.1 x.2) ({} : PullJ)).err

end Nng.PipelineSpec
