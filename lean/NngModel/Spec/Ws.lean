/-
  Specification side of C16 for WebSocket framing (RFC 6455 section 5), written from the
  RFC's wire format, with no reference to the implementation's state:
   * `parseFrame`  : the wire format of one frame
   * `conforming`  : a byte string is exactly one well-formed frame for the given direction
   * `Dec`/`feed`  : reference decoder: frames -> delivered messages, or failure, under the
                     rules the property lists.
  Core Lean only.
-/
import NngModel.Base.Bytes
namespace Nng.WsSpec

structure Frame where
  fin : Bool
  rsv : Nat          -- the three reserved bits, 0..7
  opcode : Nat       -- 0..15
  masked : Bool
  lenCode : Nat      -- the 7-bit length field
  len : Nat          -- payload length
  key : Bytes
  payload : Bytes    -- unmasked application data
  deriving Repr

/-- RFC 6455 5.3: octet i of the transformed data is octet i of the original xor key[i mod 4] -/
def unmask (key payload : Bytes) : Bytes :=
  payload.zipIdx.map fun (b, i) => b ^^^ key.getD (i % 4) 0

/-- parse one frame from the front of `bs`; `none` when `bs` does not yet hold a whole frame -/
def parseFrame (bs : Bytes) : Option (Frame × Bytes) :=
  match bs with
  | b0 :: b1 :: r =>
    let lenCode := b1.toNat % 128
    let masked := decide (b1.toNat ≥ 128)
    let extN := if lenCode = 127 then 8 else if lenCode = 126 then 2 else 0
    if r.length < extN then none
    else
      let len := if extN = 0 then lenCode else beDecode (r.take extN)
      let r := r.drop extN
      let keyN := if masked then 4 else 0
      if r.length < keyN then none
      else
        let key := r.take keyN
        let r := r.drop keyN
        if r.length < len then none
        else
          let p := r.take len
          some ({ fin := decide (b0.toNat ≥ 128), rsv := b0.toNat / 16 % 8, opcode := b0.toNat % 16, masked := masked,
                  lenCode := lenCode, len := len, key := key, payload := if masked then unmask key p else p },
                r.drop len)
  | _ => none

def knownOpcode (o : Nat) : Bool := o = 0 || o = 1 || o = 2 || o = 8 || o = 9 || o = 10
def isControl (o : Nat) : Bool := decide (o ≥ 8)

/-- per-frame rules of the property: mask direction, no reserved bits/opcodes, minimal length
    encoding, control frames at most 125 bytes (and, for what we emit, unfragmented) -/
def frameOk (fromClient : Bool) (f : Frame) : Bool :=
  (f.masked == fromClient) && f.rsv == 0 && knownOpcode f.opcode
  && (f.lenCode != 126 || decide (f.len ≥ 126)) && (f.lenCode != 127 || decide (f.len ≥ 65536))
  && decide (f.len < 2 ^ 63)
  && (!isControl f.opcode || (decide (f.len ≤ 125) && f.fin))

/-- `bs` is exactly one well-formed frame sent by a client (`fromClient`) or by a server -/
def conforming (fromClient : Bool) (bs : Bytes) : Bool :=
  match parseFrame bs with
  | some (f, []) => frameOk fromClient f
  | _ => false

/-! ### reference decoder -/

structure Limits where
  maxframe : Nat     -- 0 = none
  recvmax : Nat      -- 0 = none
  recvText : Bool    -- TEXT messages accepted
  stream : Bool := false
  deriving Repr

inductive Status where
  | running | failed | peerClosed
  deriving Repr, DecidableEq

structure Dec where
  buf : Bytes := []                    -- bytes not yet forming a whole frame
  frags : Option (List Bytes) := none  -- fragments of the message being assembled
  status : Status := .running
  deriving Repr

/-- rules a receiver enforces on an incoming frame (control-frame FIN is not in the property's list) -/
def recvOk (fromClient : Bool) (f : Frame) : Bool :=
  (f.masked == fromClient) && f.rsv == 0 && knownOpcode f.opcode
  && (f.lenCode != 126 || decide (f.len ≥ 126)) && (f.lenCode != 127 || decide (f.len ≥ 65536))
  && (!(f.opcode == 9 || f.opcode == 10) || decide (f.len ≤ 125))

/-- consume one whole frame: new decoder state and what is delivered -/
def onFrame (fromClient : Bool) (lim : Limits) (d : Dec) (f : Frame) : Dec × List Bytes :=
  if !recvOk fromClient f then ({ d with status := .failed }, [])
  else if lim.maxframe > 0 ∧ f.len > lim.maxframe then ({ d with status := .failed }, [])
  else if f.opcode = 8 then ({ d with status := .peerClosed }, [])
  else if isControl f.opcode then (d, [])
  else if f.opcode = 1 ∧ !lim.recvText then ({ d with status := .failed }, [])
  else
    -- data frame
    let started := d.frags.isSome
    if f.opcode = 0 ∧ !started then ({ d with status := .failed }, [])
    else if f.opcode ≠ 0 ∧ started then ({ d with status := .failed }, [])
    else
      let parts := (d.frags.getD []) ++ [f.payload]
      if !lim.stream ∧ lim.recvmax > 0 ∧ parts.flatten.length > lim.recvmax then ({ d with status := .failed }, [])
      else if lim.stream then
        ({ d with frags := if f.fin then none else some [] }, if f.payload.isEmpty then [] else [f.payload])
      else if f.fin then ({ d with frags := none }, [parts.flatten])
      else ({ d with frags := some parts }, [])

def drain (fromClient : Bool) (lim : Limits) : Nat → Dec → Dec × List Bytes
  | 0, d => (d, [])
  | fuel + 1, d =>
    if d.status ≠ .running then (d, [])
    else
      match parseFrame d.buf with
      | none => (d, [])
      | some (f, rest) =>
        let r := onFrame fromClient lim { d with buf := rest } f
        let r2 := drain fromClient lim fuel r.1
        (r2.1, r.2 ++ r2.2)

/-- more bytes arrived -/
def feed (fromClient : Bool) (lim : Limits) (d : Dec) (bs : Bytes) : Dec × List Bytes :=
  let d' := { d with buf := d.buf ++ bs }
  drain fromClient lim (d'.buf.length + 1) d'

/-- what a sequence of emitted frames means to a conforming peer: every frame conforming, and
    the messages they carry -/
def emittedOk (fromClient : Bool) (frames : List Bytes) : Bool := frames.all (conforming fromClient)

def emittedMsgs (fromClient : Bool) (frames : List Bytes) : Dec × List Bytes :=
  feed fromClient { maxframe := 0, recvmax := 0, recvText := true } {} frames.flatten

end Nng.WsSpec
