/-
  C18 specification (the property, executable; no ring, index, table or probe appears here):
   * `Fifo`  : a bounded first-in-first-out queue of messages (nni_lmq)
   * `Chan`  : a bounded FIFO channel with lists of blocked writers / readers (nni_msgq)
   * `IdSpec`: a finite map Nat → value with an id allocator over an inclusive range (nni_id_map)
  A message is identified by a natural number (the 4-byte tag the harness puts in the body).
-/
import NngModel.Base.Bytes
import NngModel.Generated.C18

namespace Nng.QSpec

abbrev Msg := Nat

/-! ## bounded FIFO (lmq) -/

structure Fifo where
  cap : Nat
  items : List Msg
deriving Repr, DecidableEq, Inhabited

/-- result: new queue, return code, message handed out, messages discarded (in discard order) -/
structure FRes where
  q : Fifo
  rv : Nat
  out : Option Msg := none
  freed : List Msg := []
deriving Repr, DecidableEq

inductive FOp
  | put (m : Msg) | get | flush | resize (cap : Nat)
deriving Repr, DecidableEq

def Fifo.init (cap : Nat) : Fifo := ⟨cap, []⟩

def Fifo.put (q : Fifo) (m : Msg) : FRes :=
  if q.items.length ≥ q.cap then { q, rv := Err.eagain }
  else { q := { q with items := q.items ++ [m] }, rv := 0 }

def Fifo.get (q : Fifo) : FRes :=
  match q.items with
  | [] => { q, rv := Err.eagain }
  | m :: r => { q := { q with items := r }, rv := 0, out := some m }

def Fifo.flush (q : Fifo) : FRes := { q := { q with items := [] }, rv := 0, freed := q.items }

/-- resizing keeps the oldest `cap` messages in order and discards the rest (whole messages,
    from the tail end only, and only those that no longer fit) -/
def Fifo.resize (q : Fifo) (cap : Nat) : FRes :=
  { q := ⟨cap, q.items.take cap⟩, rv := 0, freed := q.items.drop cap }

def Fifo.step (q : Fifo) : FOp → FRes
  | .put m => q.put m
  | .get => q.get
  | .flush => q.flush
  | .resize c => q.resize c

/-! ## bounded FIFO channel with blocked writers and readers (msgq) -/

/-- completion of an asynchronous operation: (aio id, result code, message delivered) -/
abbrev Ev := Nat × Nat × Option Msg

structure Chan where
  cap : Nat
  items : List Msg
  putq : List (Nat × Msg)      -- blocked writers, oldest first, with the message each holds
  getq : List Nat              -- blocked readers, oldest first
  closed : Bool
deriving Repr, DecidableEq, Inhabited

structure CRes where
  c : Chan
  rv : Nat
  evs : List Ev := []
  freed : List Msg := []
deriving Repr, DecidableEq

inductive COp
  | tryput (m : Msg) | aioPut (aio : Nat) (m : Msg) | aioGet (aio : Nat)
  | cancel (aio : Nat) (rv : Nat) | close | resize (cap : Nat)
deriving Repr, DecidableEq

def Chan.init (cap : Nat) : Chan := ⟨cap, [], [], [], false⟩

/-- serve blocked writers in order: hand the message to a blocked reader if there is one,
    else queue it while there is room, else stop. -/
def pumpPut (cap : Nat) : List (Nat × Msg) → List Msg → List Nat → List Ev →
    List (Nat × Msg) × List Msg × List Nat × List Ev
  | [], items, getq, evs => ([], items, getq, evs)
  | (w, m) :: ps, items, getq, evs =>
    match getq with
    | r :: gs => pumpPut cap ps items gs (evs ++ [(r, 0, some m), (w, 0, none)])
    | [] =>
      if items.length < cap then pumpPut cap ps (items ++ [m]) [] (evs ++ [(w, 0, none)])
      else ((w, m) :: ps, items, [], evs)

/-- serve blocked readers in order: oldest queued message first, else the oldest blocked
    writer's message, else stop. -/
def pumpGet : List Nat → List Msg → List (Nat × Msg) → List Ev →
    List Nat × List Msg × List (Nat × Msg) × List Ev
  | [], items, putq, evs => ([], items, putq, evs)
  | r :: gs, items, putq, evs =>
    match items with
    | m :: rest => pumpGet gs rest putq (evs ++ [(r, 0, some m)])
    | [] =>
      match putq with
      | (w, m) :: ps => pumpGet gs [] ps (evs ++ [(w, 0, none), (r, 0, some m)])
      | [] => (r :: gs, [], [], evs)

def Chan.tryput (c : Chan) (m : Msg) : CRes :=
  if c.closed then { c, rv := Err.eclosed }
  else match c.getq with
    | r :: gs => { c := { c with getq := gs }, rv := 0, evs := [(r, 0, some m)] }
    | [] =>
      if c.items.length < c.cap then { c := { c with items := c.items ++ [m] }, rv := 0 }
      else { c, rv := Err.eagain }

def Chan.aioPut (c : Chan) (aio : Nat) (m : Msg) : CRes :=
  let (pq, items, gq, evs) := pumpPut c.cap (c.putq ++ [(aio, m)]) c.items c.getq []
  { c := { c with putq := pq, items := items, getq := gq }, rv := 0, evs := evs }

def Chan.aioGet (c : Chan) (aio : Nat) : CRes :=
  let (gq, items, pq, evs) := pumpGet (c.getq ++ [aio]) c.items c.putq []
  { c := { c with putq := pq, items := items, getq := gq }, rv := 0, evs := evs }

def Chan.cancel (c : Chan) (aio rv : Nat) : CRes :=
  if c.getq.contains aio ∨ (c.putq.map (·.1)).contains aio then
    { c := { c with getq := c.getq.filter (· ≠ aio), putq := c.putq.filter (·.1 ≠ aio) },
      rv := 0, evs := [(aio, rv, none)] }
  else { c, rv := 0 }

/-- closing discards everything queued and fails all blocked operations -/
def Chan.close (c : Chan) : CRes :=
  { c := { c with closed := true, items := [], getq := [], putq := [] }, rv := 0,
    evs := c.getq.map (fun r => (r, Err.eclosed, none)) ++ c.putq.map (fun p => (p.1, Err.eclosed, none)),
    freed := c.items }

/-- resizing to `cap` keeps the newest `cap + 1` messages (the extra one is the documented
    in-flight slot) in order, discarding only the oldest ones that no longer fit -/
def Chan.resize (c : Chan) (cap : Nat) : CRes :=
  let k := c.items.length - (cap + 1)
  { c := { c with cap := cap, items := c.items.drop k }, rv := 0, freed := c.items.take k }

def Chan.step (c : Chan) : COp → CRes
  | .tryput m => c.tryput m
  | .aioPut a m => c.aioPut a m
  | .aioGet a => c.aioGet a
  | .cancel a rv => c.cancel a rv
  | .close => c.close
  | .resize n => c.resize n

/-! ## finite map with id allocation (nni_id_map) -/

structure IdSpec where
  m : List (Nat × Nat)     -- association list, keys pairwise distinct, values non-zero
  lo : Nat
  hi : Nat
  cur : Nat                -- next candidate id; 0 = not yet chosen
  random : Bool
deriving Repr, DecidableEq, Inhabited

def IdSpec.init (lo hi : Nat) (random : Bool) : IdSpec :=
  ⟨[], if lo = 0 then Nng.Generated.c18IdDefaultLo else lo, if hi = 0 then Nng.Generated.c18IdDefaultHi else hi, 0, random⟩

/-- finalising the map forgets every entry; the id cursor is kept: ids are not reissued before the range wraps -/
def IdSpec.fini (s : IdSpec) : IdSpec := { s with m := [] }

def IdSpec.get (s : IdSpec) (k : Nat) : Nat := (s.m.lookup k).getD 0

def IdSpec.has (s : IdSpec) (k : Nat) : Bool := (s.m.lookup k).isSome

def IdSpec.set (s : IdSpec) (k v : Nat) : IdSpec :=
  if s.has k then { s with m := s.m.map (fun p => if p.1 = k then (k, v) else p) }
  else { s with m := s.m ++ [(k, v)] }

def IdSpec.remove (s : IdSpec) (k : Nat) : IdSpec × Nat :=
  if s.has k then ({ s with m := s.m.filter (·.1 ≠ k) }, 0) else (s, Err.enoent)

/-- cyclic successor within the inclusive range -/
def succIn (lo hi x : Nat) : Nat := if x + 1 > hi then lo else x + 1

/-- first id not in use, in cyclic order starting at `cur`; returns (id, wrapped) -/
def firstFree (has : Nat → Bool) (lo hi : Nat) : Nat → Nat → Bool → Option (Nat × Bool)
  | 0, _, _ => none
  | f + 1, cur, w =>
    if has cur then firstFree has lo hi f (succIn lo hi cur) (w || decide (cur + 1 > hi))
    else some (cur, w)

/-- allocate: fails (ENOMEM) exactly when more than `hi - lo` entries are stored; otherwise
    returns the first unused id at or after the cursor (cyclically) and moves the cursor past it.
    `rnd` is the random number used the first time when the map was created with NNG_MAP_RANDOM. -/
def IdSpec.alloc (s : IdSpec) (v rnd : Nat) : IdSpec × Nat × Nat :=
  if s.m.length > s.hi - s.lo then (s, Err.enomem, 0)
  else
    let cur := if s.cur = 0 then (if s.random then rnd % (s.hi - s.lo + 1) + s.lo else s.lo) else s.cur
    match firstFree s.has s.lo s.hi (s.m.length + 1) cur false with
    | some (id, _) => ({ s with m := s.m ++ [(id, v)], cur := succIn s.lo s.hi id }, 0, id)
    | none => (s, Err.enomem, 0)   -- unreachable (see Proofs)

/-- an allocation that fails for lack of memory stores nothing; the identifier it had chosen is
    skipped (never issued), i.e. the cursor still moves past it -/
def IdSpec.allocFail (s : IdSpec) (rnd : Nat) : IdSpec :=
  if s.m.length > s.hi - s.lo then s
  else
    let cur := if s.cur = 0 then (if s.random then rnd % (s.hi - s.lo + 1) + s.lo else s.lo) else s.cur
    match firstFree s.has s.lo s.hi (s.m.length + 1) cur false with
    | some (id, _) => { s with cur := succIn s.lo s.hi id }
    | none => s

def insertSorted (p : Nat × Nat) : List (Nat × Nat) → List (Nat × Nat)
  | [] => [p]
  | q :: r => if p.1 ≤ q.1 then p :: q :: r else q :: insertSorted p r

def sortPairs (l : List (Nat × Nat)) : List (Nat × Nat) := l.foldr insertSorted []

/-- enumeration of the map, sorted by key (the visit order itself is unspecified) -/
def IdSpec.visit (s : IdSpec) : List (Nat × Nat) := sortPairs s.m

def IdSpec.count (s : IdSpec) : Nat := s.m.length

end Nng.QSpec
