/-
  Specification side of the WebSocket receive queue (C16 "reassemble fragmented messages exactly", C01 whole-message
  integrity) as a TRACE JUDGE.  It mentions no implementation state: it sees the operations (bytes arriving, receives
  posted / cancelled, close) and what the implementation reported for each (receive completions, bytes consumed so
  far, whether a frame read is outstanding), and decides from the RFC 6455 reference decoder (Spec/Ws.lean) alone:

   (a) the successful completions, in the order the receives were posted, carry exactly the messages encoded in the
       byte stream, in stream order - whole, none merged, split, duplicated, skipped or reordered - whenever the
       receives are posted (stream mode: the bytes delivered are consecutive pieces of the data-frame payloads, each
       at least one byte - unless the buffer is empty - and at most the receive's buffer);
   (b) a cancelled receive completes with the cancellation's error and no data, and takes nothing: the next receive
       gets the message it would have got;
   (c) nothing is stuck: while a receive waits (and the connection is up), every complete message that has arrived
       has been delivered;  back-pressure: the frame layer never consumes bytes beyond the end of the first
       message (stream mode: data frame) that has not been delivered, and while such a unit is wholly consumed and
       undelivered no read is outstanding;
   (d) after close no receive waits: every waiter completed with NNG_ECLOSED (7); a receive fails with 7 only if the
       connection was closed by the user, the peer, a protocol violation, or a frame is still incomplete.
  Core Lean only.
-/
import NngModel.Spec.Ws
namespace Nng.WsQSpec
open Nng

/-- a delivery unit of the byte stream: a whole message (message mode) or the payload of one non-empty data frame
    (stream mode), with the offset in the stream just after its last frame -/
structure Piece where
  endOff : Nat
  payload : Bytes
  deriving Repr

/-- reference decoding of the whole stream received so far, remembering where each unit ends -/
def scan (fromClient : Bool) (lim : WsSpec.Limits) : Nat → Nat → WsSpec.Dec → List Piece → WsSpec.Dec × List Piece
  | 0, _, d, acc => (d, acc)
  | fuel + 1, off, d, acc =>
    if d.status ≠ .running then (d, acc)
    else
      match WsSpec.parseFrame d.buf with
      | none => (d, acc)
      | some (f, rest) =>
        let off' := off + (d.buf.length - rest.length)
        let r := WsSpec.onFrame fromClient lim { d with buf := rest } f
        scan fromClient lim fuel off' r.1 (acc ++ r.2.map fun p => { endOff := off', payload := p })

def decodeAll (fromClient : Bool) (lim : WsSpec.Limits) (stream : Bytes) : WsSpec.Dec × List Piece :=
  scan fromClient lim (stream.length + 1) 0 { buf := stream } []

structure Waiter where
  id : Nat
  cap : Nat
  deriving Repr

/-- one completion the implementation reported -/
structure Done where
  id : Nat
  rv : Nat
  dig : String      -- "<len>:<fnv64>" of the data (rv = 0)
  len : Nat
  deriving Repr

structure JSt where
  stream : Bytes := []
  waiting : List Waiter := []      -- posted, not yet completed, oldest first
  nmsg : Nat := 0                  -- message mode: messages delivered so far
  nbytes : Nat := 0                -- stream mode: payload bytes delivered so far
  userClosed : Bool := false
  deriving Repr

inductive Op where
  | rx (bs : Bytes) | post (id cap : Nat) | cancel (id rv : Nat) | close | fini
  deriving Repr

/-- what the implementation showed after the operation -/
structure Obs where
  want : Nat
  used : Nat
  done : List Done
  deriving Repr

def findDone (ds : List Done) (id : Nat) : Option Done := ds.find? (·.id == id)

/-- the completions of this line, taken in the order the receives were posted: returns the first violation, or the
    new counters and the receives still waiting -/
def settle (isstream : Bool) (pieces : List Piece) (allData : Bytes) (mayFail : Bool) (cancelled : Option (Nat × Nat))
    (ds : List Done) : List Waiter → Nat → Nat → Bool → List Waiter → Except String (Nat × Nat × List Waiter)
  | [], nmsg, nbytes, _, keep => .ok (nmsg, nbytes, keep.reverse)
  | w :: ws, nmsg, nbytes, skipped, keep =>
    match findDone ds w.id with
    | none => settle isstream pieces allData mayFail cancelled ds ws nmsg nbytes true (w :: keep)
    | some d =>
      if d.rv = 0 then
        if skipped then .error s!"receive {w.id} got data while an older receive is still waiting"
        else if isstream then
          let exp := (allData.drop nbytes).take d.len
          if d.len = 0 ∧ w.cap ≠ 0 then .error s!"receive {w.id} completed with 0 bytes"
          else if d.len > w.cap then .error s!"receive {w.id} got {d.len} bytes into a buffer of {w.cap}"
          else if exp.length ≠ d.len ∨ digest exp ≠ d.dig then .error s!"receive {w.id}: bytes are not the next {d.len} bytes of the stream's data"
          else settle isstream pieces allData mayFail cancelled ds ws nmsg (nbytes + d.len) skipped keep
        else
          match pieces[nmsg]? with
          | none => .error s!"receive {w.id} got a message but message #{nmsg} of the stream is not complete"
          | some p =>
            if digest p.payload ≠ d.dig then .error s!"receive {w.id} got {d.dig}, message #{nmsg} of the stream is {digest p.payload}"
            else settle isstream pieces allData mayFail cancelled ds ws (nmsg + 1) nbytes skipped keep
      else if cancelled = some (w.id, d.rv) then
        settle isstream pieces allData mayFail cancelled ds ws nmsg nbytes skipped keep
      else if d.rv = 7 ∧ mayFail then
        settle isstream pieces allData mayFail cancelled ds ws nmsg nbytes skipped keep
      else .error s!"receive {w.id} failed with {d.rv} for no reason"

/-- end offset of the first unit that is not (wholly) delivered, if the stream holds one -/
def firstUndelivered (isstream : Bool) (pieces : List Piece) (nmsg nbytes : Nat) : Option Nat :=
  if isstream then
    let rec go : List Piece → Nat → Option Nat
      | [], _ => none
      | p :: ps, acc => if nbytes < acc + p.payload.length then some p.endOff else go ps (acc + p.payload.length)
    go pieces 0
  else (pieces[nmsg]?).map (·.endOff)

def judge (fromClient : Bool) (lim : WsSpec.Limits) (j : JSt) (op : Op) (o : Obs) : JSt × String :=
  let stream := match op with | .rx bs => j.stream ++ bs | _ => j.stream
  let userClosed := j.userClosed || (match op with | .close => true | .fini => true | _ => false)
  let dec := decodeAll fromClient lim stream
  let pieces := dec.2
  let allData := (pieces.map (·.payload)).flatten
  let waiting0 := match op with | .post id cap => j.waiting ++ [{ id := id, cap := cap }] | _ => j.waiting
  let cancelled := match op with | .cancel id rv => if j.waiting.any (·.id == id) then some (id, rv) else none | _ => none
  -- a failure with NNG_ECLOSED needs a reason visible in the stream or the operations
  let mayFail := userClosed || dec.1.status != .running || !dec.1.buf.isEmpty
  let j1 := { j with stream := stream, userClosed := userClosed }
  match o.done.find? (fun d => !(waiting0.any (·.id == d.id))) with
  | some d => (j1, s!"bad receive {d.id} completed but was not waiting")
  | none =>
    if (o.done.map (·.id)).eraseDups.length ≠ o.done.length then (j1, "bad a receive completed twice")
    else
      match settle lim.stream pieces allData mayFail cancelled o.done waiting0 j.nmsg j.nbytes false [] with
      | .error e => (j1, "bad " ++ e)
      | .ok (nmsg, nbytes, waiting) =>
        let j2 := { j1 with waiting := waiting, nmsg := nmsg, nbytes := nbytes }
        match cancelled with
        | some (id, _) => if waiting.any (·.id == id) then (j2, s!"bad cancelled receive {id} did not complete") else fin j2 dec pieces allData o
        | none => fin j2 dec pieces allData o
where
  fin (j2 : JSt) (dec : WsSpec.Dec × List Piece) (pieces : List Piece) (allData : Bytes) (o : Obs) : JSt × String :=
    if o.used > j2.stream.length then (j2, "bad more bytes consumed than arrived")
    else if !j2.waiting.isEmpty ∧ j2.userClosed then (j2, "bad a receive still waits after close")
    else if !j2.waiting.isEmpty ∧ dec.1.status != .running then (j2, "bad a receive still waits although the connection failed or the peer closed")
    else if !j2.waiting.isEmpty ∧ !lim.stream ∧ j2.nmsg < pieces.length then
      (j2, s!"bad a receive waits while message #{j2.nmsg} is complete in the stream (message withheld or lost)")
    else if !j2.waiting.isEmpty ∧ lim.stream ∧ j2.nbytes < allData.length then
      (j2, s!"bad a receive waits while {allData.length - j2.nbytes} data bytes are undelivered")
    else
      match firstUndelivered lim.stream pieces j2.nmsg j2.nbytes with
      | some e =>
        if o.used > e then (j2, s!"bad back-pressure: {o.used} bytes consumed, the first undelivered unit ends at {e}")
        else if o.used = e ∧ o.want ≠ 0 ∧ !lim.stream then (j2, "bad back-pressure: a read is outstanding while a complete message waits")
        else (j2, "ok")
      | none => (j2, "ok")

end Nng.WsQSpec
