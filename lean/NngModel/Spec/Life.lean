/-
  C14 and C10 as executable trace predicates ("judges") over the lifecycle scenarios of
  harness/s_life.c.  A trace is the list of harness ops with the events observed for each.
  The judges mention no implementation state: only which handles the application created
  and closed, which notifications it registered, what it configured, how much virtual time
  passed, and the events it observed.

  C14 clauses (field `err14`):
    * per pipe, notifications arrive in the order ADD_PRE, ADD_POST, REM_POST, each at most
      once; no ADD_POST / REM_POST for a pipe whose ADD_PRE was due (a callback for it was
      registered when the pipe was added) but not delivered, nor for a pipe added while no
      callback at all was registered;
    * the registration that counts for a notification is the one in force when the library decides to
      call back: the step in which the transport created the pipe (`pipe p`) for ADD_PRE, the step in
      which the protocol started using it (`parm p`) for ADD_POST, the step in which it was reaped
      (`pclosed p`) for REM_POST.  Registrations change only through `notify` ops, so they are constant
      during a step, except in a `race` step one side of which is a `notify`: there the judge cannot
      know which registration was read and waives the three clauses below for the pipes created / reaped
      in that step (`unsure`, `remWaived`);
    * a pipe that reached its socket while ADD_PRE was registered has got ADD_PRE by the end of that
      step and before the protocol started using it;
    * a pipe that the protocol started using while ADD_POST was registered (and some notification was
      registered when it was added) has got ADD_POST by the end of that step and before any REM_POST,
      unless (in a `race` step only) it was reaped before ADD_POST could be delivered;
    * a pipe that the protocol had started using (it got past the point where ADD_POST is delivered,
      whether or not ADD_PRE / ADD_POST were registered) and that was added while some notification was
      registered has got REM_POST by the time its socket's close returns, if REM_POST was registered when
      it was reaped (for a pipe not yet reaped: when the close returns); no notification arrives in a
      later step;
    * a pipe closed inside ADD_PRE never gets ADD_POST and the transport never sees a
      receive or send started on it;
    * a dialer never has two live pipes; after its pipe is lost or a background dial fails
      it is seen dialling again (`earm`) before virtual time has advanced by the largest
      reconnect time ever configured for it, unless it was closed; a closed endpoint is
      never seen arming again;
    * a listener is seen accepting again after every accept outcome that is not a close,
      at the latest when the cool-down time has passed.
  C10 clauses (field `err10`):
    * every close returns 0 or NNG_ECLOSED / NNG_ENOENT (that it returns at all is judged by the
      runner: a hang shows up as DEADLOCK or time-limit);
    * every operation pending on a closed socket / context (and a blocking dial on a closed
      dialer or socket) has completed by the end of the close step;
    * every probe of an old handle returns NNG_ECLOSED or NNG_ENOENT.
-/
import NngModel.Proto.LifeBase
import NngModel.Generated.C14
namespace Nng.LifeSpec
open Nng.Life

structure JPipe where
  ep : Nat
  sock : Nat
  evs : List PEv := []
  preReg : Bool          -- an ADD_PRE callback was registered when the pipe was added
  anyReg : Bool          -- some callback was registered when the pipe was added
  closedInPre : Bool     -- the ADD_PRE callback closed the pipe
  lost : Bool := false   -- the transport saw the pipe closed
  remWaived : Bool := false  -- no REM_POST callback was registered when the pipe was lost
  started : Bool := false    -- the protocol started using the pipe: it got past the point of ADD_POST
  preWait : Bool := false    -- ADD_PRE is owed: registered when the pipe reached the socket, not yet delivered
  postWait : Bool := false   -- ADD_POST is owed: registered when the protocol started the pipe, not yet delivered
  unsure : Bool := false     -- added while a `notify` raced: which registration the library read is unknown
deriving Repr

structure JEp where
  dialer : Bool
  sock : Nat
  closed : Bool := false
  cfgMax : Int := 0              -- largest reconnect time ever configured
  background : Bool := false     -- redials by itself (non-blocking start, or connected once)
  syncPending : Bool := false    -- a blocking start has not returned yet
  redialSince : Option Nat := none   -- virtual time of the loss / failed dial not yet followed by `earm`
  acceptBy : Option Nat := none      -- listener: must be accepting again by this time
deriving Repr

structure JSock where
  closed : Bool := false
  closedBefore : Bool := false   -- closed in an earlier step
  mask : Nat := 0
  cip : Bool := false
deriving Repr

structure J where
  now : Nat := 0
  socks : List (Nat × JSock) := []
  eps : List (Nat × JEp) := []
  pipes : List (Nat × JPipe) := []
  ctxs : List (Nat × Nat × Bool) := []      -- ctx, socket, closed
  pend : List (Nat × Tgt) := []             -- aio, target
  err14 : Option String := none
  err10 : Option String := none
deriving Repr

def J.fail14 (j : J) (m : String) : J := match j.err14 with | some _ => j | none => { j with err14 := some m }
def J.fail10 (j : J) (m : String) : J := match j.err10 with | some _ => j | none => { j with err10 := some m }

def upd {α : Type} (l : List (Nat × α)) (k : Nat) (f : α → α) : List (Nat × α) :=
  l.map fun (k', v) => if k' == k then (k', f v) else (k', v)

def put {α : Type} (l : List (Nat × α)) (k : Nat) (v : α) : List (Nat × α) :=
  (l.filter (·.1 != k)) ++ [(k, v)]

def J.sock (j : J) (s : Nat) : JSock := (j.socks.lookup s).getD {}

/-- the ops of a step (a race has two) -/
def flat : LOp → List LOp
  | .race _ _ a b => [a, b]
  | op => [op]

def isRace : LOp → Bool
  | .race .. => true
  | _ => false

def isNotify : LOp → Bool
  | .notify .. => true
  | _ => false

/-- a step in which a `notify` races with another op: the registration read by the library is unknown -/
def tol (op : LOp) : Bool := isRace op && (flat op).any isNotify

def closeErr (rv : Nat) : Bool := rv == 7 || rv == 20 || rv == 999

def tgtSock (j : J) : Tgt → Option Nat
  | .sock s => some s
  | .ctx c => (j.ctxs.lookup c).map (·.1)

/-- sockets whose close is part of this step -/
def closing (op : LOp) : List Nat :=
  (flat op).filterMap fun | .close s => some s | .close2 s => some s | _ => none

/-- "REM_POST no later than the return of the socket's close": owed to every pipe of the socket that the
protocol had started using and that was added while some notification was registered, if REM_POST was
registered when the pipe was reaped (`remWaived` otherwise), or now for a pipe not reaped yet -/
def remDue (j : J) (s : Nat) : J :=
  let m := (j.sock s).mask
  match j.pipes.find? (fun (_, p) => p.sock == s && (p.started || p.evs.contains .post) && p.anyReg && !p.unsure &&
      !p.evs.contains .rem && !p.remWaived && (p.lost || m &&& 4 != 0)) with
  | some (i, _) => j.fail14 s!"socket {s} close returned but pipe {i} that the protocol had started using has no REM_POST"
  | none => j

/-- ops applied before the step's events are looked at -/
def preOp (race : Bool) (outs : List LOut) (j : J) (op : LOp) : J :=
  match op with
  | .connDone e (.error rv) =>
    if outs.contains (.rv (-2)) || outs.contains (.rvh (-2)) then
      match j.eps.lookup e with
      | some ep =>
        if ep.closed || closeErr rv then j
        else if ep.dialer then
          if ep.background then { j with eps := upd j.eps e fun x => { x with redialSince := some j.now } }
          else { j with eps := upd j.eps e fun x => { x with syncPending := false } }
        else { j with eps := upd j.eps e fun x => { x with acceptBy := some (j.now + Nng.Generated.lifeAcceptCooldownMs) } }
      | none => j
    else j
  | .connDone e (.ok _) =>
    match j.eps.lookup e with
    | some ep =>
      if !ep.dialer && !ep.closed && outs.any (fun | .pipe _ => true | _ => false) then
        { j with eps := upd j.eps e fun x => { x with acceptBy := some (j.now + Nng.Generated.lifeAcceptCooldownMs) } }
      else j
    | none => j
  | .dialerClose e =>
    if race then j else { j with eps := upd j.eps e fun x => if x.dialer then { x with closed := true } else x }
  | .listenerClose e =>
    if race then j else { j with eps := upd j.eps e fun x => if !x.dialer then { x with closed := true } else x }
  | .close s | .close2 s =>
    if race then j
    else { j with eps := j.eps.map fun (k, x) => if x.sock == s then (k, { x with closed := true }) else (k, x) }
  | .recv t a | .send t a =>
    if outs.contains (.other "aio-busy") then j else { j with pend := j.pend ++ [(a, t)] }
  | _ => j

def opEpSock (op : LOp) : Option (Bool × Nat × Bool) :=   -- dialer?, socket, non-blocking
  (flat op).findSome? fun | .dial s nb => some (true, s, nb) | .listen s => some (false, s, true) | _ => none

def opConnEp (op : LOp) : Option Nat :=
  (flat op).findSome? fun | .connDone e (.ok _) => some e | _ => none

/-- one observed event -/
def onOut (op : LOp) (j : J) (o : LOut) : J :=
  match o with
  | .ep e _ mn mx =>
    if e < 0 then j
    else match opEpSock op with
      | some (d, s, nb) =>
        { j with eps := put j.eps e.toNat { dialer := d, sock := s, cfgMax := max (mn.getD 0) (mx.getD 0),
                                            background := d && nb, syncPending := d && !nb } }
      | none => j
  | .pipe p =>
    match opConnEp op with
    | some e =>
      match j.eps.lookup e with
      | some ep =>
        let sk := j.sock ep.sock
        let j := if ep.dialer && j.pipes.any (fun (_, q) => q.ep == e && !q.lost) then
            j.fail14 s!"dialer {e} owns two pipes at a time" else j
        { j with pipes := put j.pipes p { ep := e, sock := ep.sock, preReg := sk.mask &&& 1 != 0, anyReg := sk.mask != 0,
                                          closedInPre := sk.cip && sk.mask &&& 1 != 0 && !tol op,
                                          preWait := sk.mask &&& 1 != 0 && !tol op, unsure := tol op } }
      | none => j
    | none => j
  | .pev p k =>
    if p < 0 then j.fail14 "notification for a pipe the transport never created"
    else match j.pipes.lookup p.toNat with
      | none => j.fail14 s!"notification for unknown pipe {p}"
      | some q =>
        let j := if q.evs.contains k then j.fail14 s!"pipe {p}: {showPEv k} delivered twice"
          else if q.evs.any (fun e => e.rank ≥ k.rank) then j.fail14 s!"pipe {p}: {showPEv k} delivered after a later notification"
          else if k != .pre && !q.evs.contains .pre && ((q.preReg || !q.anyReg) && !q.unsure) then
            j.fail14 s!"pipe {p}: {showPEv k} without ADD_PRE"
          else if k == .post && q.closedInPre then j.fail14 s!"pipe {p} was closed inside ADD_PRE but got ADD_POST"
          else if k == .rem && q.postWait then j.fail14 s!"pipe {p}: REM_POST before the ADD_POST that was due"
          else if (j.sock q.sock).closedBefore then j.fail14 s!"pipe {p}: {showPEv k} after its socket's close had returned"
          else j
        { j with pipes := upd j.pipes p.toNat fun q =>
            { q with evs := q.evs ++ [k], preWait := q.preWait && k != .pre, postWait := q.postWait && k != .post } }
  | .parm p | .psend p =>
    match j.pipes.lookup p with
    | some q =>
      -- is ADD_POST owed?  the registration is read now, when the protocol's start has succeeded
      let due := !q.started && !q.lost && !q.unsure && q.anyReg && (j.sock q.sock).mask &&& 2 != 0 && !q.evs.contains .post
      let j := if q.closedInPre then j.fail14 s!"pipe {p} was closed inside ADD_PRE but the protocol started using it"
        else if q.preWait then j.fail14 s!"pipe {p}: the protocol started using it before the ADD_PRE that was due"
        else j
      { j with pipes := upd j.pipes p fun q => { q with started := true, postWait := q.postWait || due } }
    | none => j
  | .pclosed p =>
    match j.pipes.lookup p with
    | some q =>
      let waived := (j.sock q.sock).mask &&& 4 == 0 || tol op
      -- a pipe reaped before ADD_POST could be delivered never reached ADD_POST (possible in a `race` step only)
      let j := { j with pipes := upd j.pipes p fun q =>
        { q with lost := true, remWaived := q.remWaived || waived, postWait := q.postWait && !isRace op } }
      match j.eps.lookup q.ep with
      | some ep =>
        if ep.dialer && !ep.closed && !q.lost then
          { j with eps := upd j.eps q.ep fun x => { x with redialSince := some j.now, background := true } }
        else j
      | none => j
    | none => j
  | .earm e =>
    match j.eps.lookup e with
    | some ep =>
      let j := if ep.closed then j.fail14 s!"endpoint {e} armed a connect/accept after it was closed" else j
      { j with eps := upd j.eps e fun x => { x with redialSince := none, acceptBy := none } }
    | none => j
  | .dialrv e rv =>
    { j with eps := upd j.eps e fun x => { x with syncPending := false, background := x.background || rv == 0 } }
  | .done a _ => { j with pend := j.pend.filter (·.1 != a) }
  | .probe _ k i rvs =>
    if rvs.all (fun r => r == 7 || r == 12) then j
    else j.fail10 s!"old handle {showKind k}{i} still answers: results {rvs}"
  | .rv n | .rvh n =>
    let side := match op, o with
      | .race _ _ a _, .rvh _ => a
      | .race _ _ _ b, .rv _ => b
      | .close2 s, _ => .close s
      | op, _ => op
    match side with
    | .close s =>
      let j := if n == 0 || n == 7 then j else j.fail10 s!"nng_socket_close returned {n}"
      if isRace op then j else remDue j s
    | .ctxClose _ => if n == 0 || n == 7 || n == -1 then j else j.fail10 s!"nng_ctx_close returned {n}"
    | .dialerClose _ | .listenerClose _ | .pipeClose _ =>
      if n == 0 || n == 12 || n == -1 then j else j.fail10 s!"endpoint / pipe close returned {n}"
    | _ => j
  | _ => j

/-- bookkeeping after the events -/
def postOp (outs : List LOut) (j : J) (op : LOp) : J :=
  match op with
  | .openSock s _ => if outs.contains (.rv 0) || outs.contains (.rvh 0) then { j with socks := put j.socks s {} } else j
  | .notify s m c => { j with socks := upd j.socks s fun x => { x with mask := m, cip := c } }
  | .setoptEp e _ v =>
    if outs.contains (.rv 0) || outs.contains (.rvh 0) then { j with eps := upd j.eps e fun x => { x with cfgMax := max x.cfgMax v } } else j
  | .ctxOpen s c => if outs.contains (.rv 0) || outs.contains (.rvh 0) then { j with ctxs := put j.ctxs c (s, false) } else j
  | .ctxClose c =>
    let j := { j with ctxs := upd j.ctxs c fun (s, _) => (s, true) }
    match j.pend.find? (fun (_, t) => t == .ctx c) with
    | some (a, _) => j.fail10 s!"receive/send {a} still pending on context {c} after nng_ctx_close"
    | none => j
  | .dialerClose e | .listenerClose e =>
    let isD := match op with | .dialerClose _ => true | _ => false
    let j := { j with eps := upd j.eps e fun x =>
      if x.dialer == isD then { x with closed := true, redialSince := none, acceptBy := none } else x }
    match j.eps.lookup e with
    | some ep =>
      if ep.dialer == isD && ep.syncPending then
        j.fail10 s!"blocking dial on dialer {e} still pending after nng_dialer_close"
      else j
    | none => j
  | .close s | .close2 s =>
    let eps' := j.eps.map fun (k, x) =>
      if x.sock == s then (k, { x with closed := true, redialSince := none, acceptBy := none }) else (k, x)
    let socks' := upd j.socks s fun x => { x with closed := true }
    let ctxs' := j.ctxs.map fun (c, s', cl) => (c, s', cl || s' == s)
    let j := { j with eps := eps', socks := socks', ctxs := ctxs' }
    let j := remDue j s
    let j := match j.pend.find? (fun (_, t) => tgtSock j t == some s) with
      | some (a, _) => j.fail10 s!"operation {a} still pending after nng_socket_close of socket {s}"
      | none => j
    let j := match j.eps.find? (fun (_, x) => x.sock == s && x.syncPending) with
      | some (e, _) => j.fail10 s!"blocking dial on dialer {e} still pending after nng_socket_close"
      | none => j
    if outs.any (fun | .rv _ => true | .rvh _ => true | _ => false) then j
    else j.fail10 s!"nng_socket_close of socket {s} reported no result"
  | _ => j

/-- end of step: the library is quiescent -/
def quiescent (j : J) : J :=
  let j := match j.pipes.find? (fun (_, q) => q.preWait) with
    | some (i, _) => j.fail14 s!"pipe {i} reached its socket while ADD_PRE was registered but ADD_PRE was not delivered"
    | none => j
  let j := match j.pipes.find? (fun (_, q) => q.postWait) with
    | some (i, _) =>
      j.fail14 s!"pipe {i} was started by the protocol while ADD_POST was registered but ADD_POST was not delivered"
    | none => j
  let j := match j.eps.find? (fun (_, x) => x.dialer && !x.closed &&
        match x.redialSince with | some t0 => decide ((j.now : Int) ≥ t0 + max x.cfgMax 0) | none => false) with
    | some (e, x) =>
      let waited := j.now - x.redialSince.getD 0
      j.fail14 s!"dialer {e} has not dialled again {waited} ms after losing its connection (largest reconnect time {x.cfgMax})"
    | none => j
  let j := match j.eps.find? (fun (_, x) => !x.dialer && !x.closed &&
        match x.acceptBy with | some t => decide (j.now ≥ t) | none => false) with
    | some (e, _) => j.fail14 s!"listener {e} stopped accepting"
    | none => j
  { j with socks := j.socks.map fun (k, x) => (k, { x with closedBefore := x.closed }) }

def step (j : J) (op : LOp) (outs : List LOut) : J :=
  let j := match op with | .advance ms => { j with now := j.now + ms } | _ => j
  let race := isRace op
  let j := (flat op).foldl (preOp race outs) j
  -- the transport's `pipe p` line is printed when the harness call returns, after the callbacks
  -- of that pipe may already have run: register the new pipes first
  let isPipe := fun | LOut.pipe _ => true | _ => false
  let j := (outs.filter isPipe).foldl (onOut op) j
  let j := (outs.filter (fun o => !isPipe o)).foldl (onOut op) j
  let j := (flat op).foldl (postOp outs) j
  quiescent j

end Nng.LifeSpec
