/-
  C01 — whole-message integrity, as an executable specification.

  The specification speaks only about what goes into a connection on one side
  (messages accepted by send: protocol header bytes, body bytes) and what comes
  out at the other side (the payload bytes handed to the receiving protocol, or to
  the application for cooked sockets).  It mentions no frame, iov, counter or
  buffer of the implementation.

    received list  =  sent list        (same payloads, same order, nothing else)

  `judge` is the streaming form used on implementation traces: deliveries are
  checked one at a time against the queue of messages accepted so far, and a
  wrong delivery is classified (truncated / merged / duplicated / reordered /
  altered).  `lost` is reported at the end when a run that must be complete has
  undelivered messages.  Core Lean only.
-/
import NngModel.Base.Bytes
namespace Nng.SpSpec
open Nng

/-- the payload a receiver must see for a message sent with header `h` and body `b` -/
def payload (h b : Bytes) : Bytes := h ++ b

/-- the property: the receiver's list is the sender's list -/
def Delivered (sent : List (Bytes × Bytes)) (received : List Bytes) : Prop :=
  received = sent.map (fun m => payload m.1 m.2)

/-- "completely or not at all", for a connection that may have died: what was
    received is an initial part of what was sent -/
def DeliveredSoFar (sent : List (Bytes × Bytes)) (received : List Bytes) : Prop :=
  received <+: sent.map (fun m => payload m.1 m.2)

structure Judge where
  queue : List Bytes := []      -- accepted by send, not yet seen at the receiver
  last : Option Bytes := none   -- the previous delivery
  nrecv : Nat := 0
deriving Repr

def Judge.sent (j : Judge) (h b : Bytes) : Judge := { j with queue := j.queue ++ [payload h b] }

def isPrefix (a b : Bytes) : Bool := a.length ≤ b.length && b.take a.length == a

/-- classify a delivery that is not the head of the queue -/
def classify (j : Judge) (x : Bytes) : String :=
  match j.queue with
  | [] => if j.last == some x then "duplicated" else "spurious"
  | q :: rest =>
    if x.length < q.length && isPrefix x q then "truncated"
    else if q.length < x.length && isPrefix q x then "merged"
    else if j.last == some x then "duplicated"
    else if rest.contains x then "reordered-or-lost"
    else "altered"

/-- one delivery; `none` = conforms -/
def Judge.recv (j : Judge) (x : Bytes) : Judge × Option String :=
  match j.queue with
  | q :: rest =>
    if q == x then ({ queue := rest, last := some x, nrecv := j.nrecv + 1 }, none)
    else (j, some (classify j x))
  | [] => (j, some (classify j x))

/-- end of a run in which every accepted message must have arrived -/
def Judge.finish (j : Judge) : Option String :=
  if j.queue.isEmpty then none else some s!"lost {j.queue.length}"

end Nng.SpSpec
