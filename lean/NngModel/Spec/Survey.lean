/-
  C07 as executable trace predicates ("judges").  A trace is the list of harness events with
  the outputs observed for each (from the implementation, or from a model).  The judges
  mention no protocol-internal state: only virtual time, the survey-time option, what was
  sent, what arrived on the wire and what was handed to the application.  Lines the harness
  refused (`Out.other`) are skipped.

  Surveyor.  A context's survey is *live* from the send that created it until the first of:
  its deadline (send time + the context's survey time at that moment), the next survey of
  the same context, the context's closing, or the failure (timeout, cancel, abort) of a
  parked receive on it.  Clauses: a receive completes with a message only while the survey
  is live and before the deadline, the message carries that survey's id (learnt from the
  wire: a survey's id is the header of its `psend`; a survey that never reached a wire gets
  the id of the first response delivered for it, which must not be the id of any other
  survey), and is one of the responses that arrived after the survey was sent, each arrival
  delivered at most once (a response that arrives while 128 responses to its survey are already waiting
  is discarded by the protocol and not counted); a receive with no live survey fails at once with NNG_ESTATE; a
  parked receive fails with NNG_ETIMEDOUT in the step in which time passes the deadline (or
  its own shorter timeout) and never earlier; a new survey cancels the context's parked
  receives (NNG_ECANCELED) in the same step; survey ids are 4 bytes, high bit set, fresh;
  non-blocking calls complete in their own step, without `BLOCKED`; no receiver is left
  waiting while an eligible response is there.

  Respondent.  A context's *pending survey* is the one most recently handed to it by a
  receive.  A send with none fails with NNG_ESTATE; otherwise it consumes the pending survey
  and the response appears on the wire at most once, on the pipe that survey came from, with
  exactly its backtrace as header; a send completes with success only together with its
  `psend` or when that pipe is gone.  A zero-timeout send that gives up (NNG_EAGAIN /
  NNG_ETIMEDOUT) is not judged here and consumes nothing: the statement of C07 does not speak
  about non-blocking calls, C15's generic poll judge does (F8).
-/
import NngModel.Proto.Base
namespace Nng.SurveySpec
open Nng Nng.Proto

def notExecuted (outs : List Out) : Bool :=
  outs.any (fun o => match o with | .other _ => true | _ => false)

def hasBlocked (outs : List Out) : Bool :=
  outs.any (fun o => match o with | .blocked _ => true | _ => false)

def doneOf (outs : List Out) (a : Nat) : Option (Nat × Option WMsg) :=
  outs.findSome? fun o => match o with
    | .done a' rv m _ => if a' == a then some (rv, m) else none
    | _ => none

/-- pollable clause shared by both judges (feeds C15): `last` is the `poll` result of the
    immediately preceding step.  A socket-level non-blocking receive right after it must not
    return NNG_EAGAIN if the descriptor polled readable (no busy loop); a non-blocking call must
    not succeed if its descriptor polled not ready (no missed wake-up).  "Writable but the
    non-blocking send returns NNG_EAGAIN" is left to C15's generic poll judge (F8). -/
def pollClause (last : Option (Option Bool × Option Bool)) (ev : Ev) (outs : List Out) : Option String :=
  match last, ev with
  | some (r, _), .recv none a .nb =>
    match r, doneOf outs a with
    | some true, some (rv, _) => if rv == Err.eagain then some "receive descriptor polled readable but a non-blocking receive returned NNG_EAGAIN" else none
    | some false, some (rv, _) => if rv == 0 then some "a non-blocking receive succeeded although the receive descriptor did not poll readable" else none
    | _, _ => none
  | some (_, w), .send none a _ .nb =>
    match w, doneOf outs a with
    | some false, some (rv, _) => if rv == 0 then some "a non-blocking send succeeded although the send descriptor did not poll writable" else none
    | _, _ => none
  | _, _ => none

def pollOf (ev : Ev) (outs : List Out) : Option (Option Bool × Option Bool) :=
  match ev with
  | .poll => outs.findSome? fun o => match o with | .poll r w => some (r, w) | _ => none
  | _ => none

def surveyTimeOpt : String := "surveyor:survey-time"
/-- documented default of NNG_OPT_SURVEYOR_SURVEYTIME: one second -/
def defaultSurveyTime : Int := 1000

/-! ### SURVEYOR -/

structure Arrival where
  seq : Nat
  id : Bytes
  body : Bytes
  used : Bool := false
deriving Repr, DecidableEq

structure SurveyJ where
  body : Bytes
  deadline : Int
  startSeq : Nat
  dead : Bool := false
deriving Repr, DecidableEq

structure CtxJ where
  key : Option Nat
  surveyTime : Int
  survey : Option SurveyJ := none
deriving Repr, DecidableEq

structure PendRecv where
  aio : Nat
  ctx : Option Nat
  own : Option Int          -- deadline of the receive's own timeout
  fresh : Bool              -- submitted in the current step
  zero : Bool               -- zero timeout / non-blocking: must complete in its own step
deriving Repr, DecidableEq

structure SurvJ where
  opened : Bool := false
  closed : Bool := false
  now : Nat := 0
  ctxs : List CtxJ := []
  pend : List PendRecv := []
  arrivals : List Arrival := []
  nseq : Nat := 0
  sent : List (Bytes × Option Bytes) := []   -- every survey sent: body ↦ id once known
  lastPoll : Option (Option Bool × Option Bool) := none
  err : Option String := none
deriving Repr

def SurvJ.fail (j : SurvJ) (msg : String) : SurvJ :=
  match j.err with | some _ => j | none => { j with err := some msg }

def SurvJ.getCtx (j : SurvJ) (k : Option Nat) : Option CtxJ := j.ctxs.find? (·.key == k)
def SurvJ.setCtx (j : SurvJ) (c : CtxJ) : SurvJ :=
  { j with ctxs := j.ctxs.map fun q => if q.key == c.key then c else q }

def SurvJ.idOf (j : SurvJ) (body : Bytes) : Option Bytes :=
  match j.sent.find? (·.1 == body) with
  | some (_, i) => i
  | none => none

def SurvJ.knownId (j : SurvJ) (i : Bytes) : Bool := j.sent.any (·.2 == some i)

def SurvJ.bind (j : SurvJ) (body i : Bytes) : SurvJ :=
  { j with sent := j.sent.map fun x => if x.1 == body then (body, some i) else x }

def validId (i : Bytes) : Bool := i.length == 4 && (i.headD 0).toNat ≥ 128

/-- depth of a surveyor context's receive queue (`recv_lmq`, the default receive buffer) -/
def survRecvDepth : Nat := 128

/-- a response with id `i` arrives while the survey known to have this id (not abandoned; its deadline does not
    matter: the id stays registered) already has `survRecvDepth` responses waiting: the protocol discards it -/
def SurvJ.queueFull (j : SurvJ) (i : Bytes) : Bool :=
  j.ctxs.any fun c =>
    match c.survey with
    | some sv => !sv.dead && j.idOf sv.body == some i &&
        decide ((j.arrivals.filter fun a => !a.used && a.seq ≥ sv.startSeq && a.id == i).length ≥ survRecvDepth)
    | none => false

def isLive (now : Nat) (c : CtxJ) : Bool :=
  match c.survey with
  | some sv => !sv.dead && (now : Int) < sv.deadline
  | none => false

/-- deadline that applies to a parked receive: its own timeout or the survey deadline -/
def effDeadline (j : SurvJ) (p : PendRecv) : Option Int :=
  let sd := (j.getCtx p.ctx).bind fun c => c.survey.map (·.deadline)
  match p.own, sd with
  | some a, some b => some (min a b)
  | some a, none => some a
  | none, b => b

/-- a survey observed on a wire -/
def survWire (j : SurvJ) (p : Nat) (m : WMsg) : SurvJ :=
  if !(j.sent.any (·.1 == m.body)) then j.fail s!"pipe {p} was handed a survey that nobody sent"
  else
    match j.idOf m.body with
    | some i => if i == m.hdr then j else j.fail s!"one survey went out with two different ids (pipe {p})"
    | none =>
      if !validId m.hdr then j.fail s!"survey id on pipe {p} is not 4 bytes with the high bit set"
      else if j.knownId m.hdr then j.fail s!"survey id reused: a new survey went out with the id of another survey"
      else j.bind m.body m.hdr

/-- completion of receive `pr` -/
def survRecvDone (j : SurvJ) (ev : Ev) (pr : PendRecv) (rv : Nat) (msg : Option WMsg) : SurvJ :=
  let j := { j with pend := j.pend.filter (·.aio != pr.aio) }
  match j.getCtx pr.ctx with
  | none => if rv == 0 then j.fail s!"receive {pr.aio} on a closed context delivered a message" else j
  | some c =>
    match rv, msg with
    | 0, some m =>
      match c.survey with
      | none => j.fail s!"receive {pr.aio} delivered a message but its context has no survey"
      | some sv =>
        if sv.dead then j.fail s!"receive {pr.aio} delivered a message after the survey was abandoned"
        else if sv.deadline < (j.now : Int) then j.fail s!"receive {pr.aio} delivered a response after the survey deadline"
        else
          let j := match j.idOf sv.body with
            | some i => if i == m.hdr then j else j.fail s!"receive {pr.aio} delivered a response to another survey"
            | none =>
              if !validId m.hdr || j.knownId m.hdr then j.fail s!"receive {pr.aio} delivered a response to another survey"
              else j.bind sv.body m.hdr
          match j.arrivals.find? (fun a => !a.used && a.seq ≥ sv.startSeq && a.id == m.hdr && a.body == m.body) with
          | none => j.fail s!"receive {pr.aio} delivered a response that did not arrive for this survey (or was delivered twice)"
          | some a => { j with arrivals := j.arrivals.map fun x => if x.seq == a.seq then { x with used := true } else x }
    | 0, none => j.fail s!"receive {pr.aio} succeeded without a message"
    | _, some _ => j.fail s!"receive {pr.aio} failed with {rv} but carries a message"
    | _, none =>
      let j :=
        let aborted := match ev with | .abort a' rv' => a' == pr.aio && rv' == rv | _ => false
        if aborted then j
        else if rv == Err.etimedout && !pr.zero then
          match effDeadline j pr with
          | some d => if d < (j.now : Int) then j else j.fail s!"receive {pr.aio} timed out before its deadline"
          | none => j.fail s!"receive {pr.aio} timed out although nothing limits it"
        else if rv == Err.eagain && !pr.zero then j.fail s!"receive {pr.aio} returned NNG_EAGAIN although it may wait"
        else if rv == Err.estate && !pr.fresh then j.fail s!"parked receive {pr.aio} failed with NNG_ESTATE"
        else if rv == Err.estate && isLive j.now c then j.fail s!"receive {pr.aio} failed with NNG_ESTATE although the survey is live"
        else j
      -- the failure of a parked receive abandons the survey (unless a new one was just sent)
      let newSurvey := match ev with | .send k _ _ _ => k == pr.ctx | _ => false
      if !pr.fresh && !newSurvey then
        match c.survey with
        | some sv => j.setCtx { c with survey := some { sv with dead := true } }
        | none => j
      else j

def survOut (ev : Ev) (sendAio : Option Nat) (j : SurvJ) (o : Out) : SurvJ :=
  match o with
  | .psend p m => survWire j p m
  | .done a rv msg _ =>
    if sendAio == some a then j
    else
      match j.pend.find? (·.aio == a) with
      | none => j.fail s!"completion of aio {a} that has no receive outstanding"
      | some pr => survRecvDone j ev pr rv msg
  | _ => j

/-- end of step: the library is quiescent -/
def survQuiescent (j : SurvJ) (ev : Ev) : SurvJ :=
  let j := match j.pend.find? (·.zero) with
    | some pr => j.fail s!"non-blocking receive {pr.aio} did not complete at once"
    | none => j
  let j := match ev with
    | .advance _ =>
      match j.pend.find? (fun pr => match effDeadline j pr with | some d => d < (j.now : Int) | none => false) with
      | some pr => j.fail s!"receive {pr.aio} still pending after its deadline passed"
      | none => j
    | _ => j
  let stalled := j.pend.find? fun pr =>
    match j.getCtx pr.ctx with
    | some c =>
      match c.survey with
      | some sv =>
        !sv.dead && (j.now : Int) < sv.deadline &&
        (match j.idOf sv.body with
         | some i => j.arrivals.any fun a => !a.used && a.seq ≥ sv.startSeq && a.id == i
         | none => false)
      | none => false
    | none => false
  let j := match stalled with
    | some pr => if j.closed then j else j.fail s!"receive {pr.aio} is kept waiting although a response to its survey has arrived"
    | none => j
  { j with pend := j.pend.map fun pr => { pr with fresh := false } }

def survStep (j : SurvJ) (ev : Ev) (outs : List Out) : SurvJ :=
  if j.err.isSome then j else
  if notExecuted outs then j else
  let rv0 := outs.contains (.rv 0)
  -- effects of the event itself
  let (j, sendAio) : SurvJ × Option Nat :=
    match ev with
    | .openSock _ _ => if rv0 then ({ j with opened := true, ctxs := [({ key := none, surveyTime := defaultSurveyTime } : CtxJ)] }, none) else (j, none)
    | .advance ms => ({ j with now := j.now + ms }, none)
    | .ctxOpen k =>
      if rv0 then
        let st := match j.getCtx none with | some c => c.surveyTime | none => defaultSurveyTime
        ({ j with ctxs := j.ctxs.filter (·.key != some k) ++ [({ key := some k, surveyTime := st } : CtxJ)] }, none)
      else (j, none)
    | .setopt k name ty v =>
      if rv0 && name == surveyTimeOpt && ty == "ms" then
        match j.getCtx k with
        | some c => (j.setCtx { c with surveyTime := v }, none)
        | none => (j, none)
      else (j, none)
    | .recvDone _ (.ok b) =>
      if rv0 && b.length ≥ 4 then
        -- a response that finds the receive queue of its survey full is discarded: neither owed nor deliverable
        ({ j with arrivals := j.arrivals ++ [({ seq := j.nseq, id := b.take 4, body := b.drop 4, used := j.queueFull (b.take 4) } : Arrival)], nseq := j.nseq + 1 }, none)
      else (j, none)
    | .recv k a mode =>
      let (own, zero) : Option Int × Bool := match mode with
        | .nb => (none, true)
        | .ms 0 => (none, true)
        | .ms n => (some ((j.now : Int) + n), false)
        | _ => (none, false)
      let j := { j with pend := j.pend ++ [({ aio := a, ctx := k, own := own, fresh := true, zero := zero } : PendRecv)] }
      -- no live survey: the receive must fail at once with NNG_ESTATE
      let j := match j.getCtx k with
        | some c =>
          if !isLive j.now c then
            match doneOf outs a with
            | some (rv, _) => if rv == Err.estate then j else j.fail s!"receive {a} with no live survey completed with {rv}, not NNG_ESTATE"
            | none => j.fail s!"receive {a} with no live survey did not fail at once"
          else j
        | none => j
      (j, none)
    | .send k a m mode =>
      let j := match mode, doneOf outs a with
        | .nb, none => j.fail s!"non-blocking send {a} did not complete at once"
        | _, _ => j
      match doneOf outs a, j.getCtx k with
      | some (0, _), some c =>
        -- a new survey: the context's parked receives are cancelled in this very step
        let j := match j.pend.find? (fun pr => pr.ctx == k && doneOf outs pr.aio != some (Err.ecanceled, none)) with
          | some pr => j.fail s!"new survey did not cancel the pending receive {pr.aio} with NNG_ECANCELED"
          | none => j
        let j := if j.sent.any (·.1 == m.body) then j else { j with sent := j.sent ++ [(m.body, none)] }
        (j.setCtx { c with survey := some ({ body := m.body, deadline := (j.now : Int) + c.surveyTime, startSeq := j.nseq } : SurveyJ) }, some a)
      | _, _ => (j, some a)
    | .close => ({ j with closed := true }, none)
    | _ => (j, none)
  -- completions first (they refer to the state before this step's wire events), then the rest
  let dones := outs.filter (fun o => match o with | .done .. => true | _ => false)
  let rest := outs.filter (fun o => match o with | .done .. => false | _ => true)
  -- a new survey's `psend`s bind its id before this step's deliveries are judged
  let (first, second) := match ev with | .send .. => (rest, dones) | _ => (dones, rest)
  let j := first.foldl (survOut ev sendAio) j
  let j : SurvJ := second.foldl (survOut ev sendAio) j
  let j : SurvJ := match ev with
    | .ctxClose k =>
      if rv0 then
        let j := match j.pend.find? (fun (pr : PendRecv) => pr.ctx == some k) with
          | some pr => j.fail s!"closing the context left receive {pr.aio} pending"
          | none => j
        { j with ctxs := j.ctxs.filter (·.key != some k) }
      else j
    | .close => match j.pend.head? with
      | some pr => j.fail s!"closing the socket left receive {pr.aio} pending"
      | none => j
    | _ => j
  let j := if hasBlocked outs then j.fail "a non-blocking call blocked" else j
  let j := match pollClause j.lastPoll ev outs with | some e => j.fail e | none => j
  let j := { j with lastPoll := pollOf ev outs }
  survQuiescent j ev

def survJudge (tr : List (Ev × List Out)) : Option String :=
  (tr.foldl (fun j x => survStep j x.1 x.2) ({} : SurvJ)).err

/-! ### RESPONDENT -/

/-- the backtrace of an incoming survey: 4-byte hops up to and including the first one
    with the high bit set (the survey id); at most `ttl` of them -/
def btSplit : Nat → Bytes → Bytes → Option (Bytes × Bytes)
  | 0, _, _ => none
  | n + 1, hdr, b =>
    if b.length < 4 then none
    else if (b.headD 0).toNat ≥ 128 then some (hdr ++ b.take 4, b.drop 4)
    else btSplit n (hdr ++ b.take 4) (b.drop 4)

structure RArrival where
  pipe : Nat
  hdr : Bytes
  body : Bytes
deriving Repr, DecidableEq

structure Expect where
  aio : Nat
  ctx : Option Nat
  pipe : Nat
  hdr : Bytes
  body : Bytes
  fresh : Bool
deriving Repr, DecidableEq

structure RCtxJ where
  key : Option Nat
  cur : Option (Nat × Bytes) := none     -- pipe and backtrace of the pending survey
deriving Repr, DecidableEq

structure RespJ where
  now : Nat := 0
  ttl : Nat := 8
  ctxs : List RCtxJ := []
  arrivals : List RArrival := []
  pendRecv : List (Nat × Option Nat × Bool) := []    -- aio, context, must-complete-now
  pendSend : List Expect := []
  gone : List Nat := []                               -- closed pipes
  inflight : List Nat := []                           -- pipes with a response handed over and not yet completed
  closed : Bool := false
  lastPoll : Option (Option Bool × Option Bool) := none
  err : Option String := none
deriving Repr

def RespJ.fail (j : RespJ) (msg : String) : RespJ :=
  match j.err with | some _ => j | none => { j with err := some msg }

def RespJ.getCtx (j : RespJ) (k : Option Nat) : Option RCtxJ := j.ctxs.find? (·.key == k)
def RespJ.setCtx (j : RespJ) (c : RCtxJ) : RespJ :=
  { j with ctxs := j.ctxs.map fun q => if q.key == c.key then c else q }

def respOut (outs : List Out) (j : RespJ) (o : Out) : RespJ :=
  match o with
  | .pclosed p => { j with gone := j.gone ++ [p], arrivals := j.arrivals.filter (·.pipe != p), inflight := j.inflight.filter (· != p) }
  | .psend p m =>
    let j := if j.inflight.contains p then j.fail s!"pipe {p} was handed a second response before the first completed" else { j with inflight := j.inflight ++ [p] }
    match j.pendSend.find? (·.body == m.body) with
    | none => j.fail s!"pipe {p} was handed a response that no send produced (or twice)"
    | some e =>
      let j := { j with pendSend := j.pendSend.filter (·.aio != e.aio) }
      if e.pipe != p then j.fail s!"response of send {e.aio} went to pipe {p}, but the survey last received came from pipe {e.pipe}"
      else if e.hdr != m.hdr then j.fail s!"response of send {e.aio} does not carry the backtrace of the survey last received"
      else if doneOf outs e.aio != some (0, none) then j.fail s!"response of send {e.aio} went out but the send did not complete with success in that step"
      else j
  | .done a rv msg _ =>
    match j.pendRecv.find? (·.1 == a) with
    | some (_, k, _) =>
      let j := { j with pendRecv := j.pendRecv.filter (·.1 != a) }
      match rv, msg with
      | 0, some m =>
        if !m.hdr.isEmpty then j.fail s!"receive {a} handed the backtrace to the application"
        else
          match j.arrivals.find? (·.body == m.body) with
          | none => j.fail s!"receive {a} delivered a survey that did not arrive (or twice)"
          | some ar =>
            let j := { j with arrivals := j.arrivals.erase ar }
            match j.getCtx k with
            | some c => j.setCtx { c with cur := some (ar.pipe, ar.hdr) }
            | none => j.fail s!"receive {a} delivered a survey to a closed context"
      | 0, none => j.fail s!"receive {a} succeeded without a message"
      | _, some _ => j.fail s!"receive {a} failed with {rv} but carries a message"
      | _, none => j
    | none =>
      match j.pendSend.find? (·.aio == a) with
      | none => j      -- sends that completed at submission are judged there
      | some e =>
        if e.fresh then j
        else
          -- a parked send completes: success needs its psend (judged there) or a lost pipe
          if rv == 0 then
            if outs.any (fun o => match o with | .psend _ m => m.body == e.body | _ => false) then j
            else
              let j := { j with pendSend := j.pendSend.filter (·.aio != a) }
              if j.gone.contains e.pipe || outs.contains (.pclosed e.pipe) then j
              else j.fail s!"send {a} completed with success but its response never reached pipe {e.pipe}"
          else { j with pendSend := j.pendSend.filter (·.aio != a) }
  | _ => j

def respStep (j : RespJ) (ev : Ev) (outs : List Out) : RespJ :=
  if j.err.isSome then j else
  if notExecuted outs then j else
  let rv0 := outs.contains (.rv 0)
  let j : RespJ :=
    match ev with
    | .openSock _ _ => if rv0 then { j with ctxs := [({ key := none } : RCtxJ)] } else j
    | .advance ms => { j with now := j.now + ms }
    | .ctxOpen k => if rv0 then { j with ctxs := j.ctxs.filter (·.key != some k) ++ [({ key := some k } : RCtxJ)] } else j
    | .setopt none "ttl-max" "int" v => if rv0 then { j with ttl := v.toNat } else j
    | .recvDone p (.ok b) =>
      if rv0 && !(outs.contains (.pclosed p)) then
        match btSplit j.ttl [] b with
        | some (h, body) => { j with arrivals := j.arrivals ++ [({ pipe := p, hdr := h, body := body } : RArrival)] }
        | none => j
      else j
    | .recv k a mode =>
      let zero := match mode with | .nb => true | .ms 0 => true | _ => false
      { j with pendRecv := j.pendRecv ++ [(a, k, zero)] }
    | .send k a m mode =>
      let zero := match mode with | .nb => true | .ms 0 => true | _ => false
      -- a zero-timeout send that gives up (NNG_EAGAIN / NNG_ETIMEDOUT) is outside C07's statement:
      -- whether it should have been able to send is C15's question (F8); it consumes nothing
      let gaveUp := zero && (match doneOf outs a with
        | some (rv, _) => rv == Err.eagain || rv == Err.etimedout
        | none => false)
      if gaveUp then j else
      match j.getCtx k with
      | none => j
      | some c =>
        let busy := j.pendSend.any (·.ctx == k)
        match c.cur, doneOf outs a with
        | none, some (rv, _) => if rv == Err.estate then j else j.fail s!"send {a} with no pending survey completed with {rv}, not NNG_ESTATE"
        | none, none => j.fail s!"send {a} with no pending survey did not fail at once"
        | some (p, h), d =>
          if d == some (Err.estate, none) then
            if busy then j else j.fail s!"send {a} failed with NNG_ESTATE although a survey is pending"
          else
            let j := j.setCtx { c with cur := none }
            let e : Expect := ⟨a, k, p, h, m.body, true⟩
            match d with
            | none => if zero then j.fail s!"non-blocking send {a} did not complete at once" else { j with pendSend := j.pendSend ++ [e] }
            | some (0, _) =>
              if outs.any (fun o => match o with | .psend _ wm => wm.body == m.body | _ => false) then { j with pendSend := j.pendSend ++ [e] }
              else if j.gone.contains p then j
              else j.fail s!"send {a} completed with success but its response never reached pipe {p}"
            | some _ => j
    | .sendDone p _ => if rv0 then { j with inflight := j.inflight.filter (· != p) } else j
    | .close => { j with closed := true }
    | _ => j
  let dones := outs.filter (fun o => match o with | .done .. => true | _ => false)
  let rest := outs.filter (fun o => match o with | .done .. => false | _ => true)
  let j := rest.foldl (respOut outs) j
  let j := dones.foldl (respOut outs) j
  let j := match ev with
    | .ctxClose k => if rv0 then { j with ctxs := j.ctxs.filter (·.key != some k) } else j
    | _ => j
  let j := match j.pendRecv.find? (·.2.2) with
    | some (a, _, _) => j.fail s!"non-blocking receive {a} did not complete at once"
    | none => j
  let j := if hasBlocked outs then j.fail "a non-blocking call blocked" else j
  let j := match pollClause j.lastPoll ev outs with | some e => j.fail e | none => j
  let j := { j with lastPoll := pollOf ev outs }
  let j := if !j.closed && !j.pendRecv.isEmpty && !j.arrivals.isEmpty then
      j.fail "a receiver is kept waiting although a survey has arrived" else j
  { j with pendSend := j.pendSend.map fun e => { e with fresh := false } }

def respJudge (tr : List (Ev × List Out)) : Option String :=
  (tr.foldl (fun j x => respStep j x.1 x.2) ({} : RespJ)).err

end Nng.SurveySpec
