/-
  C16, HTTP client transaction — executable specification over the bytes the server sent (no reference to the
  implementation's state): the response head is decoded with the serial decoder of Spec/HttpConn.lean; then the message
  body is delimited as the code under test does it, which is RFC 9112 section 6.3 restricted to what nng supports:
   * a response to HEAD has no body;
   * Transfer-Encoding containing "chunked": the body is the chunked encoding that follows (Spec/HttpChunk.lean);
   * Content-Length, a non-empty string of decimal digits with a non-zero value: exactly that many bytes;
   * otherwise no body is read.  (RFC 9112 would read until the connection closes, and treats an invalid Content-Length
     as an error; nng reads nothing — recorded as an observation, mirrored here.)
  A head that does not decode, a malformed chunk or the end of the stream before the end of the message fail the
  transaction.  Core Lean only.
-/
import NngModel.Spec.HttpConn
import NngModel.Spec.HttpChunk
namespace Nng.HttpCliSpec
open Nng Nng.HttpSpec

def str (s : String) : Bytes := s.toList.map fun c => UInt8.ofNat c.toNat
def dec (n : Nat) : Bytes := (Nat.toDigits 10 n).map fun c => UInt8.ofNat c.toNat

def field (hs : List Field) (name : Bytes) : Option Bytes := (hs.find? fun h => sameName name h.1).map (·.2)

def contains (hay needle : Bytes) : Bool :=
  (List.range (hay.length + 1)).any fun i => (hay.drop i).take needle.length == needle

inductive Framing where
  | none | chunked | length (n : Nat)
deriving Repr, DecidableEq

/-- leading decimal digits (after optional blanks and sign, as strtoull reads them) must be the whole value -/
def lengthOf (v : Bytes) : Option Nat :=
  let t := v.dropWhile fun c => c == 0x20 || (0x09 ≤ c && c ≤ 0x0D)
  let (neg, d) := match t with
    | c :: r => if c == 0x2D then (true, r) else if c == 0x2B then (false, r) else (false, t)
    | [] => (false, [])
  if d.isEmpty || !d.all isDigit then none
  else
    let x := digitsVal 0 d
    some (if x ≥ 2 ^ 64 then 2 ^ 64 - 1 else if neg then (2 ^ 64 - x) % 2 ^ 64 else x)

def framing (method : Bytes) (r : Res) : Framing :=
  if method == str "HEAD" then .none
  else if (match field r.hdrs (str "Transfer-Encoding") with | some v => contains v (str "chunked") | none => false) then .chunked
  else
    match field r.hdrs sContentLength with
    | none => .none
    | some v =>
      match lengthOf v with
      | some n => if n = 0 then .none else .length n
      | none => .none

inductive Outcome where
  | waiting
  | error (rv : Nat)
  | ok (status : Nat) (body : Bytes) (used : Nat) (vers : Bytes)   -- vers: the version the response carried
deriving Repr, DecidableEq

def transact (p : Params) (method : Bytes) (s : Bytes) : Outcome :=
  match decodeRes p { vers := str "HTTP/1.1" } s with
  | .run _ _ _ _ => .waiting
  | .fail rv => .error rv
  | .done r n =>
    let st := if r.status ≠ 0 then r.status else 200
    let rest := s.drop n
    match framing method r with
    | .none => .ok st [] n r.vers
    | .length k => if rest.length < k then .waiting else .ok st (rest.take k) (n + k) r.vers
    | .chunked =>
      let c := ChunkSpec.decode 0 (2 ^ 40) rest
      match c.outcome with
      | .done => .ok st c.chunks.flatten (n + c.consumed) r.vers
      | .more => .waiting
      | .malformed => .error eProto
      | .tooBig => .error eMsgSize
      | .noMem => .error Err.enomem

/-- the request a transaction writes: request line, Host, Content-Length when there is a body (any order of headers).
    `vers`: HTTP/1.1 for a fresh request; a request the application keeps across transactions (no nng_http_reset) is
    written with the version of the last response — the connection object has one version field (observation). -/
def request (method uri host vers body : Bytes) : Bytes :=
  method ++ [SP] ++ (if uri.isEmpty then sSlash else uri) ++ [SP] ++ vers ++ [CR, LF] ++
    (if host.isEmpty then [] else sHost ++ [COLON, SP] ++ host ++ [CR, LF]) ++
    (if body.isEmpty then [] else sContentLength ++ [COLON, SP] ++ dec body.length ++ [CR, LF]) ++ [CR, LF] ++ body

end Nng.HttpCliSpec
