/-
  C05 as executable trace predicates.  A trace is the list of harness events with the
  outputs observed for each (from the implementation, or from the model).  The judges
  mention no protocol-internal state: they keep, per context, what the property talks
  about — the topic set (from the subscribe / unsubscribe calls that returned 0), the
  configured buffer depth and PREFNEW setting (from the option calls that returned 0),
  the messages that arrived and must therefore still be delivered, and the receive
  operations that are outstanding.

  SUB clauses
   (match)   an arriving message is taken by a context iff one of its current topics is a
             prefix of the body (`prefixMatch`); contexts are judged independently;
   (waiter)  a context with an outstanding receive hands a matching arrival to exactly one
             of its receivers in the same step, bytes unchanged, empty header;
   (drop)    with no receiver and a full buffer exactly one message goes: the oldest queued
             one if PREFNEW, otherwise the arriving one; the buffer never exceeds its depth;
   (purge)   a successful unsubscribe removes the queued messages that match no remaining
             topic, order kept; subscribing twice is harmless; unsubscribing an absent
             topic gives NNG_ENOENT and changes nothing;
   (order)   every successful receive returns exactly the oldest message the context still
             owes — hence no duplicates, no reordering, no alteration, nothing invented;
   (nb)      a non-blocking / zero-timeout receive completes in its own step; no
             non-blocking call needs virtual time to pass; receives fail only for a reason
             (cancel, abort, time, close);
   (poll)    [feeds C15] the receive descriptor is readable iff the socket-level context
             owes a message.
  PUB clauses
   (never-blocks) every send completes with 0 in its own step, the message detached from
             the aio, whatever the mode, the number of pipes or the queue states;
   (fan-out) an idle pipe gets the message at once; a busy pipe queues it and, when its
             queue (depth = NNG_OPT_SENDBUF) is full, discards its OLDEST queued message;
   (wire)    a pipe is handed exactly the head of its queue when its send completes: per
             pipe no duplicates, no reordering, no alteration;
   (poll)    the send descriptor is always writable.
-/
import NngModel.Proto.Base
import NngModel.Generated.C05
namespace Nng.PubSubSpec
open Nng Nng.Proto

/-- the matching rule of the property: some current subscription is a prefix of the body
    (the empty subscription matches everything, no subscription matches nothing) -/
def prefixMatch (topics : List Bytes) (body : Bytes) : Bool :=
  topics.any (fun t => t.isPrefixOf body)

/-- lines the harness refused to execute (`nosock`, `aio-busy`, ...) -/
def notExecuted (outs : List Out) : Bool :=
  outs.any (fun o => match o with | .other s => !s.startsWith "done" | _ => false)

def hasBlocked (outs : List Out) : Bool :=
  outs.any (fun o => match o with | .blocked _ => true | _ => false)

def stillAttached (outs : List Out) : Bool :=
  outs.any (fun o => match o with | .other s => s.startsWith "done" | _ => false)

def rvOf (outs : List Out) : Option Int :=
  outs.findSome? (fun o => match o with | .rv n => some n | .rv2 n _ => some n | _ => none)

/-! ### SUB -/

structure JCtx where
  key : Nat                       -- the judge's own numbering (0 = the socket itself)
  handle : Option Nat             -- harness slot naming it
  topics : List Bytes := []
  cap : Nat
  prefNew : Bool
  queue : List Bytes := []        -- arrived and accepted, not yet received, oldest first
  waiting : List Nat := []        -- outstanding receive aios
  owed : Option Bytes := none     -- a delivery that must happen within the current step
deriving Repr

structure SubJ where
  opened : Bool := false
  closed : Bool := false
  ctxs : List JCtx := []
  next : Nat := 1
  defCap : Nat := Nng.Generated.c05SubRecvBufDefault
  defPref : Bool := Nng.Generated.c05SubPreferNewDefault
  err : Option String := none
deriving Repr

def SubJ.fail (j : SubJ) (msg : String) : SubJ :=
  match j.err with | some _ => j | none => { j with err := some msg }

def ctxName (c : JCtx) : String :=
  match c.handle with | some h => s!"context {h}" | none => if c.key == 0 then "the socket" else s!"orphaned context #{c.key}"

def findCtx (j : SubJ) : Option Nat → Option JCtx
  | none => j.ctxs.find? (·.key == 0)
  | some h => j.ctxs.find? (·.handle == some h)

def putCtx (j : SubJ) (c : JCtx) : SubJ :=
  { j with ctxs := j.ctxs.map fun x => if x.key == c.key then c else x }

/-- what an arrival does to one context according to the property -/
def arriveJ (b : Bytes) (c : JCtx) : JCtx :=
  if !prefixMatch c.topics b then c
  else if !c.waiting.isEmpty then { c with owed := some b }
  else if c.queue.length < c.cap then { c with queue := c.queue ++ [b] }
  else if c.prefNew then { c with queue := c.queue.drop 1 ++ [b] }
  else c

/-- may a pending receive fail in a step caused by this event? -/
def failureAllowed (ev : Ev) (c : JCtx) (a : Nat) : Bool :=
  match ev with
  | .cancel a' => a == a'
  | .abort a' _ => a == a'
  | .advance _ => true
  | .close => true
  | .ctxClose h => c.handle == some h
  | .recv _ a' _ => a == a'
  | _ => false

/-- account for one observed completion -/
def subDone (ev : Ev) (j : SubJ) (o : Out) : SubJ :=
  match o with
  | .done a rv msg msgback =>
    match j.ctxs.find? (fun c => c.waiting.contains a) with
    | none =>
      match ev with
      | .send _ a' _ _ =>
        if a == a' then
          if rv == 0 then j.fail s!"a send on a SUB socket succeeded"
          else if !msgback then j.fail s!"failed send {a} did not leave the message with the caller"
          else j
        else j.fail s!"completion of aio {a} that has no receive outstanding"
      | .recv c a' _ =>
        -- a receive on a context that is closed / was never opened must fail at once
        if a == a' && (findCtx j c).isNone then
          if rv == 0 || msg.isSome then j.fail s!"receive {a} on a closed context returned a message" else j
        else j.fail s!"completion of aio {a} that has no receive outstanding"
      | _ => j.fail s!"completion of aio {a} that has no receive outstanding"
    | some c =>
      let c' := { c with waiting := c.waiting.filter (· != a) }
      match rv, msg with
      | 0, some m =>
        match c.owed with
        | none => j.fail s!"{ctxName c} received a message it is not owed (no matching arrival, duplicate, or filtered out)"
        | some b =>
          if m.body != b then j.fail s!"{ctxName c} received other bytes than the oldest message it is owed (altered / reordered)"
          else if !m.hdr.isEmpty then j.fail s!"{ctxName c} received a message with a non-empty header"
          else putCtx j { c' with owed := none }
      | 0, none => j.fail s!"receive {a} succeeded without a message"
      | _, some _ => j.fail s!"receive {a} failed with {rv} but carries a message"
      | _, none =>
        if msgback then j.fail s!"receive {a} completed as if it were a send"
        else if !failureAllowed ev c a then j.fail s!"receive {a} on {ctxName c} failed with {rv} without a cause"
        else
          -- a receive that was owed a message must not fail instead
          match ev, c.owed with
          | .recv _ a' _, some _ => if a == a' then j.fail s!"receive {a} failed with {rv} although {ctxName c} has a message queued" else putCtx j c'
          | _, _ => putCtx j c'
  | _ => j

def subStep (j : SubJ) (ev : Ev) (outs : List Out) : SubJ :=
  if j.err.isSome then j else
  if notExecuted outs then j else
  if !j.opened then
    match ev with
    | .openSock _ _ =>
      if outs.contains (.rv 0) then
        { j with opened := true, ctxs := [{ key := 0, handle := none, cap := j.defCap, prefNew := j.defPref }] }
      else j
    | _ => j
  else if j.closed then j else
  let rv := rvOf outs
  -- 1. what the event itself means for the bookkeeping
  let j : SubJ :=
    match ev with
    | .recvDone _ (.ok b) =>
      if rv == some 0 then { j with ctxs := j.ctxs.map (arriveJ b) } else j
    | .recv c a _ =>
      match findCtx j c with
      | none => j
      | some cx =>
        match cx.queue with
        | b :: rest => putCtx j { cx with queue := rest, owed := some b, waiting := cx.waiting ++ [a] }
        | [] => putCtx j { cx with waiting := cx.waiting ++ [a] }
    | .sub c t =>
      match findCtx j c with
      | none => if rv == some 0 then j.fail "subscribe on a closed context succeeded" else j
      | some cx =>
        if rv != some 0 then j.fail s!"subscribe failed with {rv.getD (-1)}"
        else if cx.topics.contains t then j else putCtx j { cx with topics := cx.topics ++ [t] }
    | .unsub c t =>
      match findCtx j c with
      | none => if rv == some 0 then j.fail "unsubscribe on a closed context succeeded" else j
      | some cx =>
        if cx.topics.contains t then
          if rv != some 0 then j.fail s!"unsubscribe of a subscribed topic failed with {rv.getD (-1)}"
          else
            let ts := cx.topics.erase t
            putCtx j { cx with topics := ts, queue := cx.queue.filter (prefixMatch ts) }
        else if rv != some (Int.ofNat Err.enoent) then j.fail s!"unsubscribe of a topic that is not subscribed returned {rv.getD (-1)} instead of NNG_ENOENT"
        else j
    | .setopt c name ty v =>
      match findCtx j c with
      | none => j
      | some cx =>
        if rv != some 0 then j
        else if name == Nng.Generated.c05OptRecvBuf && ty == "int" then
          let j := putCtx j { cx with cap := v.toNat, queue := cx.queue.take v.toNat }
          if cx.key == 0 then { j with defCap := v.toNat } else j
        else if name == Nng.Generated.c05OptPrefNew && ty == "bool" then
          let j := putCtx j { cx with prefNew := v != 0 }
          if cx.key == 0 then { j with defPref := v != 0 } else j
        else j
    | .getopt c name ty =>
      match findCtx j c, outs with
      | some cx, [.rv2 0 v] =>
        if name == Nng.Generated.c05OptRecvBuf && ty == "int" && v != cx.cap then
          j.fail s!"{ctxName cx} reports receive buffer depth {v}, configured {cx.cap}"
        else if name == Nng.Generated.c05OptPrefNew && ty == "bool" && (v != 0) != cx.prefNew then
          j.fail s!"{ctxName cx} reports PREFNEW {v}, configured {cx.prefNew}"
        else j
      | _, _ => j
    | .ctxOpen h =>
      if rv == some 0 then
        let old := j.ctxs.map fun x => if x.handle == some h then { x with handle := none } else x
        { j with ctxs := old ++ [{ key := j.next, handle := some h, cap := j.defCap, prefNew := j.defPref }], next := j.next + 1 }
      else j
    | _ => j
  -- 2. the observed completions
  let j := outs.foldl (subDone ev) j
  if j.err.isSome then j else
  -- 3. end-of-step obligations
  let j := match j.ctxs.find? (fun c => c.owed.isSome) with
    | some c =>
      (match ev with
       | .recv _ _ _ => j.fail s!"receive on {ctxName c} did not return the message it has queued"
       | _ => j.fail s!"{ctxName c} has a receive outstanding and a matching message arrived, but it was not delivered")
    | none => j
  let j := match ev with
    | .recv _ a mode =>
      let pending := j.ctxs.any (fun c => c.waiting.contains a)
      (match mode with
       | .nb => if pending then j.fail s!"non-blocking receive {a} did not complete at once" else j
       | .ms 0 => if pending then j.fail s!"zero-timeout receive {a} did not complete at once" else j
       | _ => j)
    | .ctxClose h =>
      if rv == some 0 then
        match findCtx j (some h) with
        | some cx =>
          if !cx.waiting.isEmpty then j.fail s!"context {h} closed but a receive on it is still pending"
          else { j with ctxs := j.ctxs.filter (·.key != cx.key) }
        | none => j
      else j
    | .close =>
      if j.ctxs.any (fun c => !c.waiting.isEmpty) then j.fail "socket closed but a receive is still pending"
      else { j with closed := true }
    | .poll =>
      match findCtx j none, outs with
      | some cx, [.poll (some r) _] =>
        if r != !cx.queue.isEmpty then
          j.fail (if r then "the socket polls readable but has no message to receive" else "the socket has a message queued but does not poll readable")
        else j
      | _, _ => j
    | _ => j
  let j := match j.ctxs.find? (fun c => c.queue.length > c.cap) with
    | some c => j.fail s!"{ctxName c} buffers more messages than its receive buffer depth"
    | none => j
  if hasBlocked outs then j.fail "a non-blocking call blocked" else j

def subJudge (tr : List (Ev × List Out)) : Option String :=
  (tr.foldl (fun j x => subStep j x.1 x.2) ({} : SubJ)).err

/-! ### raw SUB (xsub.c): no filtering, one socket-level FIFO of depth NNG_OPT_RECVBUF

  XSUB clauses
   (all)     every message arriving on a connected pipe is taken — there are no topics;
   (waiter)  with a receive outstanding the arrival is handed over in the same step;
   (drop)    with no receiver the arrival is queued while fewer than NNG_OPT_RECVBUF messages
             are queued; only when the queue is full is a message lost, and then it is the
             whole arriving message (the queued ones stay, in order);
   (order)   every successful receive returns exactly the oldest queued message, bytes
             unchanged, empty header — no duplicates, no reordering, nothing invented;
   (nb)      a non-blocking / zero-timeout receive completes in its own step, and it fails
             only if nothing is queued; no receive stays parked while a message is queued;
   (resize)  shrinking NNG_OPT_RECVBUF keeps the newest depth + 1 messages, in order;
   (poll)    [feeds C15] the receive descriptor is readable iff a message is queued. -/

structure XsubJ where
  opened : Bool := false
  closed : Bool := false
  cap : Nat := Nng.Generated.c05SockRecvqInit
  queue : List Bytes := []        -- arrived and accepted, not yet received, oldest first
  waiting : List Nat := []        -- outstanding receive aios
  owed : Option Bytes := none     -- a delivery that must happen within the current step
  err : Option String := none
deriving Repr

def XsubJ.fail (j : XsubJ) (msg : String) : XsubJ :=
  match j.err with | some _ => j | none => { j with err := some msg }

def xfailureAllowed (ev : Ev) (a : Nat) : Bool :=
  match ev with
  | .cancel a' => a == a'
  | .abort a' _ => a == a'
  | .advance _ => true
  | .close => true
  | .recv _ a' _ => a == a'
  | _ => false

def xsubDone (ev : Ev) (j : XsubJ) (o : Out) : XsubJ :=
  match o with
  | .done a rv msg msgback =>
    if j.waiting.contains a then
      let w := j.waiting.filter (· != a)
      match rv, msg with
      | 0, some m =>
        match j.owed with
        | none => j.fail s!"receive {a} returned a message the socket does not owe (no arrival, or a duplicate)"
        | some b =>
          if m.body != b then j.fail s!"receive {a} returned other bytes than the oldest queued message (altered / reordered)"
          else if !m.hdr.isEmpty then j.fail s!"receive {a} returned a message with a non-empty header"
          else { j with waiting := w, owed := none }
      | 0, none => j.fail s!"receive {a} succeeded without a message"
      | _, some _ => j.fail s!"receive {a} failed with {rv} but carries a message"
      | _, none =>
        if msgback then j.fail s!"receive {a} completed as if it were a send"
        else if !xfailureAllowed ev a then j.fail s!"receive {a} failed with {rv} without a cause"
        else
          match ev, j.owed with
          | .recv _ a' _, some _ =>
            if a == a' then j.fail s!"receive {a} failed with {rv} although a message is queued" else { j with waiting := w }
          | _, _ => { j with waiting := w }
    else
      match ev with
      | .send _ a' _ _ =>
        if a == a' then
          if rv == 0 then j.fail s!"a send on a raw SUB socket succeeded"
          else if !msgback then j.fail s!"failed send {a} did not leave the message with the caller"
          else j
        else j.fail s!"completion of aio {a} that has no receive outstanding"
      | .recv (some _) a' _ =>
        if a == a' then
          if rv == 0 || msg.isSome then j.fail s!"receive {a} on a context of a raw socket returned a message" else j
        else j.fail s!"completion of aio {a} that has no receive outstanding"
      | _ => j.fail s!"completion of aio {a} that has no receive outstanding"
  | _ => j

def xsubStep (j : XsubJ) (ev : Ev) (outs : List Out) : XsubJ :=
  if j.err.isSome then j else
  if notExecuted outs then j else
  if !j.opened then
    match ev with
    | .openSock _ _ => if outs.contains (.rv 0) then { j with opened := true } else j
    | _ => j
  else if j.closed then j else
  let rv := rvOf outs
  let j : XsubJ :=
    match ev with
    | .recvDone _ (.ok b) =>
      if rv == some 0 then
        if !j.waiting.isEmpty then { j with owed := some b }
        else if j.queue.length < j.cap then { j with queue := j.queue ++ [b] }
        else j                                  -- full: the arriving message is lost, whole
      else j
    | .recv none a _ =>
      match j.queue with
      | b :: rest => { j with queue := rest, owed := some b, waiting := j.waiting ++ [a] }
      | [] => { j with waiting := j.waiting ++ [a] }
    | .setopt none name ty v =>
      if rv == some 0 && name == Nng.Generated.c05OptRecvBuf && ty == "int" then
        { j with cap := v.toNat, queue := j.queue.drop (j.queue.length - (v.toNat + 1)) }
      else j
    | .getopt none name ty =>
      match outs with
      | [.rv2 0 v] =>
        if name == Nng.Generated.c05OptRecvBuf && ty == "int" && v != j.cap then
          j.fail s!"receive buffer depth reported as {v}, configured {j.cap}"
        else j
      | _ => j
    | _ => j
  let j := outs.foldl (xsubDone ev) j
  if j.err.isSome then j else
  let j := match j.owed with
    | some _ =>
      (match ev with
       | .recv _ _ _ => j.fail "the receive did not return the message that is queued"
       | _ => j.fail "a receive is outstanding and a message arrived, but it was not delivered")
    | none => j
  let j := match ev with
    | .recv _ a mode =>
      let pending := j.waiting.contains a
      (match mode with
       | .nb => if pending then j.fail s!"non-blocking receive {a} did not complete at once" else j
       | .ms 0 => if pending then j.fail s!"zero-timeout receive {a} did not complete at once" else j
       | _ => j)
    | .close =>
      if !j.waiting.isEmpty then j.fail "socket closed but a receive is still pending"
      else { j with closed := true, queue := [] }       -- what is still queued goes with the socket
    | .poll =>
      match outs with
      | [.poll (some r) _] =>
        if r != !j.queue.isEmpty then
          j.fail (if r then "the socket polls readable but has no message to receive" else "the socket has a message queued but does not poll readable")
        else j
      | _ => j
    | _ => j
  let j := if !j.waiting.isEmpty && !j.queue.isEmpty then j.fail "a receive stays parked although a message is queued" else j
  let j := if j.queue.length > j.cap + 1 then j.fail "the socket buffers more messages than its receive buffer depth (+1)" else j
  if hasBlocked outs then j.fail "a non-blocking call blocked" else j

def xsubJudge (tr : List (Ev × List Out)) : Option String :=
  (tr.foldl (fun j x => xsubStep j x.1 x.2) ({} : XsubJ)).err

/-! ### PUB -/

structure JPipe where
  id : Nat
  busy : Bool := false
  cap : Nat
  queue : List WMsg := []
  owed : Option WMsg := none      -- must be handed to the transport within the current step
deriving Repr

structure PubJ where
  opened : Bool := false
  closed : Bool := false
  pipes : List JPipe := []
  sendbuf : Nat := Nng.Generated.c05PubSendBufDefault
  err : Option String := none
deriving Repr

def PubJ.fail (j : PubJ) (msg : String) : PubJ :=
  match j.err with | some _ => j | none => { j with err := some msg }

def putPipe (j : PubJ) (p : JPipe) : PubJ :=
  { j with pipes := j.pipes.map fun x => if x.id == p.id then p else x }

/-- what a publish does to one connected pipe -/
def publishJ (m : WMsg) (p : JPipe) : JPipe :=
  if !p.busy then { p with busy := true, owed := some m }
  else if p.queue.length < p.cap then { p with queue := p.queue ++ [m] }
  else { p with queue := p.queue.drop 1 ++ [m] }      -- as the code does: the oldest queued message goes

def pubOut (j : PubJ) (o : Out) : PubJ :=
  match o with
  | .psend p m =>
    match j.pipes.find? (·.id == p) with
    | none => j.fail s!"message sent on pipe {p} which is not connected"
    | some pp =>
      match pp.owed with
      | none => j.fail s!"pipe {p} was handed a message it is not due (duplicate, or its previous send has not completed)"
      | some m' =>
        if m != m' then j.fail s!"pipe {p} was handed other bytes than the next message due on it (altered / reordered)"
        else putPipe j { pp with owed := none }
  | .pclosed p => { j with pipes := j.pipes.filter (·.id != p) }
  | _ => j

def pubStep (j : PubJ) (ev : Ev) (outs : List Out) : PubJ :=
  if j.err.isSome then j else
  if stillAttached outs then
    (match ev with
     | .send _ a _ _ => j.fail s!"send {a} completed with 0 but the (released) message is still attached to the aio"
     | _ => j.fail "unexpected completion record")
  else
  if notExecuted outs then j else
  if !j.opened then
    match ev with
    | .openSock _ _ => if outs.contains (.rv 0) then { j with opened := true } else j
    | _ => j
  else if j.closed then j else
  let rv := rvOf outs
  let j : PubJ :=
    match ev with
    | .send none _ m _ => { j with pipes := j.pipes.map (publishJ m) }
    | .sendDone p r =>
      if rv == some 0 && r == 0 then
        match j.pipes.find? (·.id == p) with
        | some pp =>
          (match pp.queue with
           | m :: rest => putPipe j { pp with queue := rest, owed := some m }
           | [] => putPipe j { pp with busy := false })
        | none => j
      else j
    | .setopt none name ty v =>
      if rv == some 0 && name == Nng.Generated.c05OptSendBuf && ty == "int" then
        { j with sendbuf := v.toNat, pipes := j.pipes.map fun p => { p with cap := v.toNat, queue := p.queue.take v.toNat } }
      else j
    | .getopt none name ty =>
      match outs with
      | [.rv2 0 v] =>
        if name == Nng.Generated.c05OptSendBuf && ty == "int" && v != j.sendbuf then
          j.fail s!"send buffer depth reported as {v}, configured {j.sendbuf}"
        else j
      | _ => j
    | _ => j
  -- a newly connected compatible peer
  let j := outs.foldl (fun j o => match o with
    | .pipe p => if p ≥ 0 && !(outs.contains (.pclosed p.toNat)) then { j with pipes := j.pipes ++ [{ id := p.toNat, cap := j.sendbuf }] } else j
    | _ => j) j
  -- wire hand-offs first, then pipe closures
  let j := (outs.filter (fun o => match o with | .psend .. => true | _ => false)).foldl pubOut j
  let j := (outs.filter (fun o => match o with | .psend .. => false | _ => true)).foldl pubOut j
  if j.err.isSome then j else
  let j := match j.pipes.find? (fun p => p.owed.isSome) with
    | some p =>
      (match ev with
       | .send .. => j.fail s!"idle pipe {p.id} did not get the published message"
       | _ => j.fail s!"pipe {p.id} finished a send but its next queued message was not sent")
    | none => j
  let j := match ev with
    | .send c a _ _ =>
      let mine := outs.filterMap (fun (o : Out) => match o with | .done a' r _ mb => if a' == a then some (r, mb) else none | _ => none)
      (match c, mine with
       | none, [(0, false)] => j
       | none, [(0, true)] => j.fail s!"send {a} succeeded but the message came back"
       | none, [(r, _)] => j.fail (s!"PUB send {a} failed with {r}" ++ (if r == Err.eagain then " (EAGAIN: a PUB send must never block)" else ""))
       | none, [] => j.fail s!"PUB send {a} did not complete in its own step (parked)"
       | none, _ => j.fail s!"PUB send {a} completed more than once"
       | some _, [(r, mb)] => if r == 0 then j.fail "send on a context of a PUB socket succeeded" else if !mb then j.fail s!"failed send {a} did not leave the message with the caller" else j
       | some _, _ => j.fail s!"send {a} on an invalid context did not complete exactly once")
    | .poll =>
      (match outs with
       | [.poll _ (some w)] => if !w then j.fail "the PUB socket does not poll writable" else j
       | [.poll _ none] => j.fail "the PUB socket has no send descriptor"
       | _ => j)
    | .close => { j with closed := true }
    | _ => j
  -- completions nobody asked for
  let j := match ev with
    | .send .. | .recv .. => j
    | _ => if outs.any (fun o => match o with | .done .. => true | _ => false) then j.fail "an aio completed although no operation was outstanding" else j
  let j := match j.pipes.find? (fun (p : JPipe) => p.queue.length > p.cap) with
    | some p => j.fail s!"pipe {p.id} queues more messages than the send buffer depth"
    | none => j
  if hasBlocked outs then j.fail "a non-blocking call blocked" else j

def pubJudge (tr : List (Ev × List Out)) : Option String :=
  (tr.foldl (fun j x => pubStep j x.1 x.2) ({} : PubJ)).err

end Nng.PubSubSpec
