/-
  Specification of chunked transfer decoding (RFC 9112 section 7.1) as a grammar over the
  whole byte string received so far, independent of the decoder's state machine:

    chunked-body = *chunk last-chunk trailer-section CRLF
    chunk        = chunk-size [ ";" ext ] CRLF chunk-data CRLF      (size > 0, hex)
    last-chunk   = 1*"0" [ ";" ext ] CRLF
    trailer      = *( 1*printable CRLF )

  Result: the body (concatenation of the chunk data), the number of bytes the encoding
  occupies, or why it is not (yet) a chunked body.  Limits: sizes must fit size_t and the
  body must not exceed `maxsz` (0 = unlimited).  Core Lean only.
-/
import NngModel.Base.Bytes
namespace Nng.ChunkSpec

inductive Outcome where
  | done            -- complete body
  | more            -- a proper prefix of a chunked body
  | malformed       -- not a chunked body (NNG_EPROTO)
  | tooBig          -- size does not fit / exceeds the maximum (NNG_EMSGSIZE)
  | noMem           -- chunk larger than the allocator provides (environment)
  deriving Repr, DecidableEq

structure Result where
  outcome : Outcome
  consumed : Nat        -- bytes accounted for (up to the offending byte / end of the encoding)
  chunks : List Bytes   -- data of the chunks completely received
  declared : Nat        -- sum of the chunk sizes announced so far
  deriving Repr

def hexVal? (c : UInt8) : Option Nat :=
  let n := c.toNat
  if 48 ≤ n ∧ n ≤ 57 then some (n - 48)
  else if 65 ≤ n ∧ n ≤ 70 then some (n - 55)
  else if 97 ≤ n ∧ n ≤ 102 then some (n - 87)
  else none

def printable (c : UInt8) : Bool := 32 ≤ c.toNat && c.toNat ≤ 126

inductive Line where
  | ok (value : Nat) (rest : Bytes) (used : Nat)
  | more
  | bad (at_ : Nat) (o : Outcome)

/-- hex digits (at least one), value must stay below 2^64 -/
def sizeDigits : Bytes → Nat → Nat → Line
  | [], _, _ => .more
  | c :: r, v, used =>
    match hexVal? c with
    | some d => if v * 16 + d ≥ 2 ^ 64 then .bad used .tooBig else sizeDigits r (v * 16 + d) (used + 1)
    | none => if used = 0 then .bad used .malformed else .ok v (c :: r) used

/-- optional ";ext" then CRLF -/
def extCrlf : Bytes → Nat → Bool → Line
  | [], _, _ => .more
  | c :: r, used, inExt =>
    if c = 13 then
      match r with
      | [] => .more
      | d :: r' => if d = 10 then .ok 0 r' (used + 2) else .bad (used + 1) .malformed
    else if inExt then (if printable c then extCrlf r (used + 1) true else .bad used .malformed)
    else if c = 59 then extCrlf r (used + 1) true
    else .bad used .malformed

/-- trailer lines up to the empty line -/
def trailers : Nat → Bytes → Nat → Nat → Line
  | 0, _, _, _ => .more
  | fuel + 1, bs, used, lineLen =>
    match bs with
    | [] => .more
    | c :: r =>
      if c = 13 then
        match r with
        | [] => .more
        | d :: r' =>
          if d ≠ 10 then .bad (used + 1) .malformed
          else if lineLen = 0 then .ok 0 r' (used + 2)
          else trailers fuel r' (used + 2) 0
      else if printable c then trailers fuel r (used + 1) (lineLen + 1)
      else .bad used .malformed

def decodeLoop (maxsz allocLimit : Nat) : Nat → Bytes → Nat → List Bytes → Nat → Result
  | 0, _, used, acc, decl => ⟨.more, used, acc, decl⟩
  | fuel + 1, bs, used, acc, decl =>
    match sizeDigits bs 0 0 with
    | .more => ⟨.more, used + bs.length, acc, decl⟩
    | .bad k o => ⟨o, used + k, acc, decl⟩
    | .ok size r1 u1 =>
      match extCrlf r1 0 false with
      | .more => ⟨.more, used + bs.length, acc, decl⟩
      | .bad k o => ⟨o, used + u1 + k, acc, decl⟩
      | .ok _ r2 u2 =>
        let used2 := used + u1 + u2
        if size = 0 then
          match trailers (r2.length + 1) r2 0 0 with
          | .more => ⟨.more, used + bs.length, acc, decl⟩
          | .bad k o => ⟨o, used2 + k, acc, decl⟩
          | .ok _ _ u3 => ⟨.done, used2 + u3, acc, decl⟩
        else if size + 2 ≥ 2 ^ 64 ∨ decl + size ≥ 2 ^ 64 ∨ (maxsz > 0 ∧ decl + size > maxsz) then
          ⟨.tooBig, used2 - 1, acc, decl⟩
        else if size + 2 > allocLimit then ⟨.noMem, used2 - 1, acc, decl⟩
        else if r2.length < size + 2 then ⟨.more, used + bs.length, acc, decl + size⟩
        else if (r2.drop size).take 2 ≠ [13, 10] then ⟨.malformed, used2 + size + 2, acc, decl + size⟩
        else decodeLoop maxsz allocLimit fuel (r2.drop (size + 2)) (used2 + size + 2) (acc ++ [r2.take size]) (decl + size)

def decode (maxsz allocLimit : Nat) (bs : Bytes) : Result :=
  decodeLoop maxsz allocLimit (bs.length + 1) bs 0 [] 0

end Nng.ChunkSpec
