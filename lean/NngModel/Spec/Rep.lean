/-
  C04, replier half, as an executable trace predicate ("judge").  A trace is the list of
  harness events with the outputs observed for each (from the implementation, or from the
  model).  The judge mentions no protocol-internal state: only what arrived on which
  connection, what was delivered to which context, what each context offered as a reply,
  what went on the wire, and the wire format of a request (backtrace words, terminated by
  the word with the high bit set; `classify`).

  Message identity: the check generates pairwise distinct request bodies and pairwise
  distinct reply bodies within a case, so a body identifies a message.

  Clauses
  * routing: a message put on the wire is a reply some context offered, it goes to the
    connection of the request that context had most recently received when it offered the
    reply, and its header is exactly that request's backtrace; each accepted reply is put on
    the wire at most once; an accepted reply that is not put on the wire in the step that
    accepts it belongs to a connection that is gone (it is discarded, not sent elsewhere).
  * state machine: a send on a context that has no received request to answer fails with
    NNG_ESTATE (and gives the message back); a send that answers a request is not refused
    with NNG_ESTATE (unless the context still has its previous reply queued); a second
    concurrent receive on one context fails at once (NNG_ESTATE; NNG_EAGAIN/NNG_ETIMEDOUT
    if it was submitted with a zero timeout) and leaves the first one pending.
  * requests: only well-formed requests within the hop limit are delivered, at most once,
    per connection in arrival order, with an empty header; a request with fewer than four
    bytes before a terminator closes its connection; one with too many hops does not.
  * no stall: a receiver is never kept waiting while a well-formed request is held back.
  * non-blocking (C15): NNG_FLAG_NONBLOCK calls complete in their own step and never block;
    the poll descriptors say "readable" exactly when a request is waiting, and "writable"
    whenever a non-blocking send on the socket would succeed, never when it would return
    NNG_EAGAIN.
-/
import NngModel.Proto.Base
import NngModel.Generated.C04REP
namespace Nng.RepSpec
open Nng Nng.Proto

/-! ### wire format of a request -/

inductive Shape
  | ok (hdr body : Bytes)
  | tooManyHops
  | malformed
deriving Repr, DecidableEq, Inhabited

/-- number of leading complete 4-byte words whose first byte has the high bit clear -/
def leadingHops : Bytes → Nat
  | a :: _ :: _ :: _ :: rest => if a &&& 0x80 != 0 then 0 else leadingHops rest + 1
  | _ => 0

/-- a request is `k` hop words, the request id word (high bit set), the body.  With hop
    limit `ttl` at most `ttl` words (hops + id) are accepted. -/
def classify (ttl : Nat) (b : Bytes) : Shape :=
  let k := leadingHops b
  if k ≥ ttl then .tooManyHops
  else if b.length < 4 * k + 4 then .malformed
  else .ok (b.take (4 * k + 4)) (b.drop (4 * k + 4))

/-! ### judge -/

abbrev CtxKey := Option Nat      -- none: the socket itself; some c: context slot c

structure Cur where              -- the request a context has to answer
  pipe : Nat
  hdr : Bytes
  maybe : Bool                   -- a failed send may or may not have used it up
deriving Repr, DecidableEq, Inhabited

structure Held where
  pipe : Nat
  hdr : Bytes
  body : Bytes
deriving Repr, DecidableEq, Inhabited

structure PendR where
  aio : Nat
  ctx : CtxKey
  second : Bool                  -- submitted while another receive of the context was pending
  nb : Bool
  zero : Bool
  fresh : Bool                   -- submitted in the current step
deriving Repr, DecidableEq, Inhabited

structure PendS where
  aio : Nat
  ctx : CtxKey
  snap : Option Cur              -- what the context had to answer when the send was submitted
  overlap : Bool                 -- the context's previous send was still pending
  ctxOpen : Bool
  body : Bytes
deriving Repr, DecidableEq, Inhabited

structure Acc where              -- a reply accepted in this step, not yet seen on the wire
  pipe : Nat
  hdr : Bytes
  body : Bytes
deriving Repr, DecidableEq, Inhabited

structure RepJ where
  ttl : Nat := Nng.Generated.repDefaultTtl
  live : List Nat := []
  busy : List Nat := []
  armed : List Nat := []
  held : List Held := []
  waiting : List PendR := []
  sends : List PendS := []
  cur : List (CtxKey × Cur) := []
  slots : List Nat := []
  acc : List Acc := []
  wired : List Bytes := []
  deliveredBodies : List Bytes := []
  closed : Bool := false
  err : Option String := none
deriving Repr

def RepJ.fail (j : RepJ) (msg : String) : RepJ :=
  match j.err with | some _ => j | none => { j with err := some msg }

def curOf (j : RepJ) (c : CtxKey) : Option Cur := (j.cur.find? (·.1 == c)).map (·.2)
def setCur (j : RepJ) (c : CtxKey) (v : Option Cur) : RepJ :=
  let rest := j.cur.filter (·.1 != c)
  { j with cur := match v with | some x => rest ++ [(c, x)] | none => rest }

def ctxIsOpen (j : RepJ) : CtxKey → Bool
  | none => true
  | some c => j.slots.contains c

def notExecuted (outs : List Out) : Bool :=
  outs.any (fun o => match o with | .other _ => true | _ => false)

def repDone (j : RepJ) (a rv : Nat) (msg : Option WMsg) (msgback : Bool) : RepJ :=
  match j.waiting.find? (·.aio == a) with
  | some r =>
    let j := { j with waiting := j.waiting.filter (·.aio != a) }
    if rv == 0 then
      match msg with
      | none => j.fail s!"receive {a} succeeded without a message"
      | some m =>
        if r.second then j.fail s!"a second concurrent receive on one context succeeded (aio {a})"
        else if !m.hdr.isEmpty then j.fail s!"a request was delivered with a non-empty header (aio {a})"
        else
          match j.held.find? (·.body == m.body) with
          | none => j.fail "a request was delivered that never arrived well-formed (or was delivered twice)"
          | some h =>
            match j.held.find? (·.pipe == h.pipe) with
            | some h0 =>
              if h0 != h then j.fail s!"requests of pipe {h.pipe} delivered out of order"
              else
                let j := { j with held := j.held.erase h, deliveredBodies := j.deliveredBodies ++ [m.body] }
                setCur j r.ctx (some ⟨h.pipe, h.hdr, false⟩)
            | none => j
    else if msg.isSome then j.fail s!"receive {a} failed with {rv} but carries a message"
    else if r.second then
      if rv == Err.estate || (r.nb && rv == Err.eagain) || (r.zero && rv == Err.etimedout) then j
      else j.fail s!"a second concurrent receive failed with {rv}, expected NNG_ESTATE"
    else if rv == Err.estate then j.fail s!"receive {a} failed with NNG_ESTATE although the context had no receive pending"
    else j
  | none =>
    match j.sends.find? (·.aio == a) with
    | none => j.fail s!"completion of aio {a} that has no operation outstanding"
    | some sd =>
      let j := { j with sends := j.sends.filter (·.aio != a) }
      if rv == 0 then
        if msgback then j.fail s!"send {a} succeeded but the message came back"
        else if !sd.ctxOpen then j.fail s!"send {a} on a closed context succeeded"
        else
          match sd.snap with
          | none => j.fail s!"send {a} succeeded although the context had no request to answer (expected NNG_ESTATE)"
          | some c => { j with acc := j.acc ++ [⟨c.pipe, c.hdr, sd.body⟩] }
      else if !msgback then j.fail s!"send {a} failed with {rv} but the message was not left with the caller"
      else if rv == Err.estate then
        match sd.snap with
        | none => j
        | some c =>
          if sd.overlap then (if (curOf j sd.ctx).isNone then setCur j sd.ctx (some { c with maybe := true }) else j)   -- refused; the request may or may not be used up
          else if c.maybe then j
          else j.fail s!"send {a} failed with NNG_ESTATE although the context had a request to answer"
      else
        match sd.snap with
        | none =>
          if sd.ctxOpen && !sd.overlap then j.fail s!"send {a} without a received request failed with {rv}, expected NNG_ESTATE"
          else j
        | some c =>
          -- the failed send may have used the request up
          if (curOf j sd.ctx).isNone && sd.ctxOpen then setCur j sd.ctx (some { c with maybe := true }) else j

def repOut (j : RepJ) (o : Out) : RepJ :=
  match o with
  | .psend p m =>
    if j.wired.contains m.body then j.fail s!"a reply was put on the wire twice (pipe {p})"
    else if !(j.live.contains p) then j.fail s!"send on pipe {p} which is not connected"
    else if j.busy.contains p then j.fail s!"send on pipe {p} which still has a send in flight"
    else
      match j.acc.find? (·.body == m.body) with
      | none => j.fail s!"pipe {p} was handed a message that no accepted send produced"
      | some a =>
        if a.pipe != p then
          j.fail s!"reply routed to pipe {p}, but the request its context most recently received came from pipe {a.pipe}"
        else if a.hdr != m.hdr then
          j.fail s!"reply on pipe {p} does not carry the backtrace of the request its context most recently received"
        else { j with acc := j.acc.erase a, wired := j.wired ++ [m.body], busy := j.busy ++ [p] }
  | .parm p =>
    if j.armed.contains p then j.fail s!"pipe {p} has two receives armed"
    else { j with armed := j.armed ++ [p] }
  | .pclosed p =>
    { j with live := j.live.filter (· != p), busy := j.busy.filter (· != p), armed := j.armed.filter (· != p),
             held := j.held.filter (·.pipe != p) }
  | _ => j

def hasPclosed (outs : List Out) (p : Nat) : Bool := outs.contains (.pclosed p)
def isBlocked : Out → Bool | .blocked _ => true | _ => false
def isDone : Out → Bool | .done .. => true | _ => false

/-- would a non-blocking send on the socket succeed / return NNG_EAGAIN right now? -/
def sockSendVerdict (j : RepJ) : Option Bool :=
  if j.sends.any (·.ctx == none) then none else
  match curOf j none with
  | some c =>
    if c.maybe then none
    else if !(j.live.contains c.pipe) then some true
    else if j.busy.contains c.pipe then some false else some true
  | none => none

def repStep (j : RepJ) (ev : Ev) (outs : List Out) : RepJ :=
  if j.err.isSome then j else
  if notExecuted outs then j else
  let j := { j with waiting := j.waiting.map (fun r => { r with fresh := false }) }
  let ok0 := outs.contains (.rv 0)
  -- bookkeeping caused by the event itself
  let (j, nb) : RepJ × Option Nat :=
    match ev with
    | .recv c a mode =>
      let second := j.waiting.any (·.ctx == c)
      let isNb := match mode with | .nb => true | _ => false
      let isZero := match mode with | .ms 0 => true | _ => false
      ({ j with waiting := j.waiting ++ [⟨a, c, second, isNb, isZero, true⟩] }, if isNb then some a else none)
    | .send c a m mode =>
      let isNb := match mode with | .nb => true | _ => false
      let sd : PendS := ⟨a, c, curOf j c, j.sends.any (·.ctx == c), ctxIsOpen j c, m.body⟩
      let j := { j with sends := j.sends ++ [sd] }
      (setCur j c none, if isNb then some a else none)
    | .recvDone p (.ok b) =>
      if ok0 then
        if !(j.armed.contains p) then (j.fail s!"pipe {p} accepted a message with no receive armed", none)
        else
          let j := { j with armed := j.armed.filter (· != p) }
          match classify j.ttl b with
          | .ok hdr body => ({ j with held := j.held ++ [⟨p, hdr, body⟩] }, none)
          | .malformed =>
            if hasPclosed outs p then (j, none)
            else (j.fail s!"a request with fewer than 4 bytes before its terminator did not close pipe {p}", none)
          | .tooManyHops =>
            if hasPclosed outs p then (j.fail s!"a request with too many hops closed pipe {p}", none) else (j, none)
      else (j, none)
    | .recvDone p (.error _) =>
      if ok0 then ({ j with armed := j.armed.filter (· != p) }, none) else (j, none)
    | .sendDone p rv =>
      if ok0 && rv == 0 then ({ j with busy := j.busy.filter (· != p) }, none) else (j, none)
    | .setopt none "ttl-max" "int" v => if ok0 then ({ j with ttl := v.toNat }, none) else (j, none)
    | .ctxOpen c => if ok0 then (setCur { j with slots := j.slots.filter (· != c) ++ [c] } (some c) none, none) else (j, none)
    | .ctxClose c => if ok0 then (setCur { j with slots := j.slots.filter (· != c) } (some c) none, none) else (j, none)
    | .close => ({ j with closed := true }, none)
    | _ => (j, none)
  -- a newly connected compatible peer
  let j := outs.foldl (fun j o => match o with
    | .pipe p => if p ≥ 0 && !(hasPclosed outs p.toNat) then { j with live := j.live ++ [p.toNat] } else j
    | _ => j) j
  -- completions first (a reply must be accepted before it is wired), then the rest
  let dones := outs.filter isDone
  let rest := outs.filter (fun o => !isDone o)
  let j := dones.foldl (fun j o => match o with | .done a rv m mb => repDone j a rv m mb | _ => j) j
  let j := rest.foldl repOut j
  -- accepted replies not put on the wire in this step: their connection must be gone
  let j := match j.acc.find? (fun a => j.live.contains a.pipe) with
    | some a => j.fail s!"a reply was accepted for connected pipe {a.pipe} but neither sent nor queued behind a send in flight"
    | none => { j with acc := [] }
  -- a second concurrent receive must have been refused at once
  let j := if j.waiting.any (fun r => r.second && r.fresh) then j.fail "a second concurrent receive on one context was queued" else j
  -- non-blocking calls complete in their own step
  let j := match nb with
    | some a => if dones.any (fun o => match o with | .done a' _ _ _ => a' == a | _ => false) then j
                else j.fail s!"non-blocking call {a} did not complete at once"
    | none => j
  let j := if outs.any isBlocked then j.fail "a non-blocking call blocked" else j
  -- poll descriptors
  let j := outs.foldl (fun j o => match o with
    | .poll (some r) w =>
      let j := if r != !j.held.isEmpty then
          j.fail (if r then "receive descriptor readable but no request is waiting (a non-blocking receive returns NNG_EAGAIN)"
                  else "a request is waiting but the receive descriptor is not readable") else j
      match w, sockSendVerdict j with
      | some false, some true => j.fail "a non-blocking send on the socket would succeed but the send descriptor is not readable"
      | some true, some false => j.fail "send descriptor readable but a non-blocking send on the socket returns NNG_EAGAIN"
      | _, _ => j
    | _ => j) j
  -- quiescent: a waiting receiver and a held request never coexist
  if !j.closed && !j.waiting.isEmpty && !j.held.isEmpty then
    j.fail "a receiver is kept waiting although a well-formed request has arrived"
  else j

def repJudge (tr : List (Ev × List Out)) : Option String :=
  (tr.foldl (fun j x => repStep j x.1 x.2) ({} : RepJ)).err

end Nng.RepSpec
