/-
  C13 — specification of routing through devices, with no reference to how the
  protocols process headers.

  Vocabulary.  A *routing word* is four bytes; a word whose first byte is ≥ 128 (high bit
  of the big-endian 32-bit value) is a *request id* and terminates a backtrace, any other
  word is a *hop* (a pipe id).  A routed message on the wire is
        hop* · id · payload.

  (1) `classify ttl wire`: what a receiving REP/XREP/RESPONDENT/XRESPONDENT socket whose
      NNG_OPT_MAXTTL is `ttl` must do with the bytes a peer sent.
  (2) `expected stages ttlR id body reply`: what must happen to a request that travels
      through a chain of devices to a replier and to the reply on the way back.

  Core Lean only.
-/
import NngModel.Base.Bytes
namespace Nng.BtSpec
open Nng

/-- decision for one received message -/
inductive Verdict where
  /-- deliver/forward: `bt` is the backtrace (hops and id), `payload` the rest -/
  | accept (bt payload : Bytes)
  /-- discard silently: too many hops (not a protocol error: devices may legitimately
      deliver such messages) -/
  | drop
  /-- the peer spoke garbage: disconnect it; nothing is delivered -/
  | malformed
deriving Repr, DecidableEq, Inhabited

/-- the complete four-byte words of a byte string -/
def chunks : Bytes → List Bytes
  | b0 :: b1 :: b2 :: b3 :: rest => [b0, b1, b2, b3] :: chunks rest
  | _ => []

/-- a word with the high bit set (request / survey id) -/
def isIdWord (w : Bytes) : Bool :=
  match w with
  | b :: _ => decide (b.toNat ≥ 128)
  | [] => false

/-- A receiver with hop limit `ttl` looks at no more than `ttl` words.
    * an id among them, at word index `i`: accept, the backtrace is words `0..i`;
    * `ttl` complete words and no id: too many hops, drop;
    * the bytes run out first: malformed. -/
def classify (ttl : Nat) (wire : Bytes) : Verdict :=
  let ws := (chunks wire).take ttl
  match ws.findIdx? isIdWord with
  | some i => .accept (wire.take (4 * (i + 1))) (wire.drop (4 * (i + 1)))
  | none => if ws.length = ttl then .drop else .malformed

/-- requester-side sockets (XREQ, XSURVEYOR) have no hop limit, only the header
    capacity `cap` (in words) -/
def classifyNoTtl (cap : Nat) (wire : Bytes) : Verdict :=
  match classify cap wire with
  | .accept bt p => .accept bt p
  | _ => .malformed

/-- PAIR1 carries a hop count in one word instead of a backtrace: a missing word or a
    count above 255 is malformed, a count above the limit is dropped. -/
def classifyHop (ttl : Nat) (wire : Bytes) : Verdict :=
  if wire.length < 4 then .malformed
  else
    let h := beDecode (wire.take 4)
    if h > 255 then .malformed else if h > ttl then .drop else .accept (wire.take 4) (wire.drop 4)

/-- one device on the path of a request: the hop limit of its receiving (XREP) socket and
    the id of the pipe on which the request reaches it -/
structure Stage where
  ttl : Nat
  pipe : Nat
deriving Repr, DecidableEq

/-- what happens to one request/reply exchange -/
inductive Fate where
  /-- the replier's application saw `reqBody`; the reply was routed over `route`
      (pipe ids, in travel order) and the requester's protocol got `id`, `repBody` -/
  | answered (reqBody : Bytes) (route : List Nat) (id repBody : Bytes)
  /-- discarded by device number `stage` (0-based; `stages.length` = the replier);
      not delivered, not forwarded -/
  | discardedAt (stage : Nat)
  /-- the reply was lost on the way back -/
  | replyLost
deriving Repr, DecidableEq

/-- A message carrying `n` routing words on arrival is discarded by the first receiver
    whose hop limit is below `n`; every device adds one word. -/
def firstExceeded : Nat → List Stage → Option Nat
  | _, [] => none
  | n, s :: rest => if n > s.ttl then some 0 else (firstExceeded (n + 1) rest).map (· + 1)

/-- big-endian 32-bit id -/
def idWord (id : Nat) : Bytes := beEncode 4 id

/-- the property: a request `id · body` sent through `stages` to a replier with hop limit
    `ttlR` is either discarded by the first receiver (device `j` sees `j+1` words, the
    replier `k+1`) whose limit is exceeded, or it is answered: the replier sees exactly
    `body`, and the reply comes back through the same devices in reverse order to the
    requester with the same id and the reply body intact. -/
def expected (stages : List Stage) (ttlR : Nat) (id : Nat) (body reply : Bytes) : Fate :=
  match firstExceeded 1 (stages ++ [⟨ttlR, 0⟩]) with
  | some j => .discardedAt j
  | none => .answered body (stages.map (·.pipe)).reverse (idWord id) reply

end Nng.BtSpec
