/-
  C08 as an executable trace predicate.  A trace is the list of harness events with the
  outputs observed for each (from the implementation, or from the model).  The judge
  mentions no protocol-internal state: only which peers connected / were refused /
  went away, what was offered, accepted, put on the wire, what arrived and what was
  delivered, the configured buffer depths and hop limit.

  Clauses
    single peer      a connecting peer is refused (closed at once) iff it speaks the wrong
                     protocol or another peer is alive; traffic only on the connected peer
    send direction   wire order = acceptance order, nothing twice, nothing accepted is
                     skipped unless a send-buffer shrink / close intervened; at most
                     `send-buffer` accepted messages wait; no stall with an idle peer;
                     a failed send leaves the message with the caller, a successful one
                     does not (back-pressure: park or fail, never discard)
    hop header       PAIRv1: wire hop count = offered count + 1 (cooked: 1); raw send with a
                     malformed header fails with NNG_EPROTO; every arrival is closed /
                     dropped / delivered according to `hopRule`
    receive dir.     delivery order = arrival order, nothing twice, nothing invented, nothing
                     skipped unless a receive-buffer shrink / close / peer loss intervened;
                     the peer is read ahead by at most `recv-buffer` + 1 messages
    recv liveness    with a peer connected a receive is posted on it, unless an arrival found
                     the receive buffer full and still waits (see `pairLive`)
    non-blocking     NNG_FLAG_NONBLOCK calls complete in their own step without virtual time
    pollable         a non-blocking send / receive directly after `poll` succeeds iff the
                     descriptor polled ready (EAGAIN iff it did not)

  Message identity: the check generates pairwise distinct bodies within a case, so a
  body identifies a message; the theorems about the model use ghost ids instead.
-/
import NngModel.Proto.Base
namespace Nng.PairSpec
open Nng Nng.Proto

/-- documented default of NNG_OPT_MAXTTL -/
def defaultTtl : Nat := 8

inductive HopOutcome
  | close | drop | deliver (m : WMsg)
deriving Repr, DecidableEq

/-- what PAIRv1 must do with an arriving transport message, by the property text:
    fewer than 4 bytes or a header word above 0xff is malformed (disconnect, never
    deliver); a count exceeding the limit is discarded; otherwise delivered with the
    count in the header -/
def hopRule (ttl : Nat) (b : Bytes) : HopOutcome :=
  if b.length < 4 then .close
  else
    let h := beDecode (b.take 4)
    if h > 0xff then .close
    else if h > ttl then .drop
    else .deliver ⟨b.take 4, b.drop 4⟩

def arrivalRule (v1 : Bool) (ttl : Nat) (b : Bytes) : HopOutcome :=
  if v1 then hopRule ttl b else .deliver ⟨[], b⟩

/-- a raw PAIRv1 send must carry exactly one 32-bit hop count below 0xff -/
def rawHeaderOk (h : Bytes) : Bool := h.length == 4 && beDecode h < 0xff

/-- the message as it must appear on the wire -/
def wireForm (v1 raw : Bool) (m : WMsg) : WMsg :=
  if !v1 then m
  else if raw then ⟨beEncode 4 (beDecode m.hdr + 1), m.body⟩
  else ⟨beEncode 4 1, m.body⟩

structure Acc where            -- an accepted / arrived message awaiting its hand-off
  m : WMsg
  excused : Bool               -- a buffer shrink, close or peer loss happened since
deriving Repr, DecidableEq

structure PairJ where
  v1 : Bool
  peerProto : Nat
  raw : Bool := false
  ttl : Nat := defaultTtl
  live : Option Nat := none              -- the connected peer
  busy : Bool := false                   -- a send is in flight on it
  armed : Bool := false                  -- a receive is posted on it
  pendingS : List (Nat × WMsg) := []     -- send aios submitted and not yet completed
  unsent : List Acc := []                -- accepted (wire form), not yet on the wire, oldest first
  wired : List WMsg := []
  scap : Nat := 0
  waitingR : List Nat := []              -- receive aios pending
  held : List Acc := []                  -- arrived, deliverable, not yet delivered, oldest first
  delivered : List WMsg := []
  rcap : Nat := 0
  lastPoll : Option (Bool × Bool) := none  -- result of a `poll` in the previous step
  racing : Bool := false                 -- the previous event was applied without waiting for quiescence
  closed : Bool := false
  err : Option String := none
deriving Repr

def PairJ.fail (j : PairJ) (msg : String) : PairJ :=
  match j.err with | some _ => j | none => { j with err := some msg }

def excuseAll (l : List Acc) : List Acc := l.map fun a => { a with excused := true }
def liveCount (l : List Acc) : Nat := (l.filter fun a => !a.excused).length

/-- the non-blocking operation of the current step, if any -/
inductive Nb
  | none | send (a : Nat) (m : WMsg) | recv (a : Nat)
deriving Repr

def sendCompletion (j : PairJ) (a rv : Nat) (m : WMsg) (msgback : Bool) : PairJ :=
  let j := { j with pendingS := j.pendingS.filter (·.1 != a) }
  let bad := j.v1 && j.raw && !rawHeaderOk m.hdr
  if bad && !(rv == Err.eproto) then j.fail s!"raw send {a} with a malformed hop header completed with {rv}, not NNG_EPROTO"
  else if !bad && rv == Err.eproto then j.fail s!"send {a} with a well-formed header was refused with NNG_EPROTO"
  else if rv == 0 then
    if msgback then j.fail s!"send {a} succeeded but the message came back"
    else { j with unsent := j.unsent ++ [⟨wireForm j.v1 j.raw m, false⟩] }
  else if !msgback then j.fail s!"send {a} failed with {rv} but the message was not left with the caller"
  else j

def recvCompletion (j : PairJ) (a rv : Nat) (msg : Option WMsg) : PairJ :=
  let j := { j with waitingR := j.waitingR.filter (· != a) }
  match rv, msg with
  | 0, some m =>
    match j.held.findIdx? (·.m == m) with
    | none => j.fail "a message was delivered that never arrived, was not deliverable, or was delivered twice"
    | some i =>
      if (j.held.take i).any (fun a => !a.excused) then
        j.fail "delivery out of order: an older arrived message was skipped without a buffer shrink or peer loss"
      else { j with held := j.held.drop (i + 1), delivered := j.delivered ++ [m] }
  | 0, none => j.fail s!"receive {a} succeeded without a message"
  | _, some _ => j.fail s!"receive {a} failed with {rv} but carries a message"
  | _, none => j

/-- process one output event -/
def pairOut (nb : Nb) (j : PairJ) (o : Out) : PairJ :=
  match o with
  | .done a rv msg msgback =>
    let sendOf : Option WMsg := match j.pendingS.find? (·.1 == a), nb with
      | some x, _ => some x.2
      | none, .send a' m => if a' == a then some m else none
      | none, _ => none
    match sendOf with
    | some m => sendCompletion j a rv m msgback
    | none =>
      let isRecv := j.waitingR.contains a || (match nb with | .recv a' => a' == a | _ => false)
      if isRecv then recvCompletion j a rv msg
      else j.fail s!"completion of aio {a} that has no operation outstanding"
  | .psend p m =>
    if j.live != some p then j.fail s!"message handed to pipe {p} which is not the connected peer"
    else if j.busy then j.fail s!"second send on pipe {p} while one is in flight"
    else if j.wired.contains m then j.fail s!"message put on the wire twice"
    else
      match j.unsent.findIdx? (·.m == m) with
      | none => j.fail s!"pipe {p} was handed a message that no send had been accepted for (or with a wrong hop count)"
      | some i =>
        if (j.unsent.take i).any (fun a => !a.excused) then
          j.fail "message overtaken on the wire: an older accepted message was skipped without a buffer shrink"
        else { j with unsent := j.unsent.drop (i + 1), wired := j.wired ++ [m], busy := true }
  | .parm p =>
    if j.live != some p then j.fail s!"receive posted on pipe {p} which is not the connected peer"
    else if j.armed then j.fail s!"pipe {p} has two receives posted"
    else { j with armed := true }
  | .pclosed p =>
    if j.live == some p then
      { j with live := none, busy := false, armed := false, held := excuseAll j.held }
    else j
  | _ => j

/-- end-of-step clauses (the library is quiescent) -/
def pairQuiescent (j : PairJ) : PairJ :=
  if j.closed then j
  else
    let idle := j.live.isSome && !j.busy
    if idle && liveCount j.unsent > 0 then
      j.fail "an accepted message is held back although the connected peer is idle"
    else if liveCount j.unsent > j.scap then
      j.fail s!"{liveCount j.unsent} accepted messages wait with send buffer depth {j.scap}"
    else if idle && !j.pendingS.isEmpty then
      j.fail "a sender is kept waiting although the connected peer is idle"
    else if !j.waitingR.isEmpty && liveCount j.held > 0 then
      j.fail "a receiver is kept waiting although a message has arrived"
    else if liveCount j.held > j.rcap + 1 then
      j.fail s!"{liveCount j.held} arrived messages wait with receive buffer depth {j.rcap}"
    else if j.armed && liveCount j.held > j.rcap then
      j.fail "the peer is read ahead although the receive buffer is full"
    else j

/-- receive liveness (the library is quiescent).  pair.c reads the connected peer all the time,
    except for its documented back-pressure: an arrival that finds the receive buffer FULL (and
    no receiver waiting) stays parked in the pipe, and the next receive is posted only when the
    application has made room for it.  So, with a peer connected and no receive posted on it:
      * some arrived message is still undelivered (the parked one is the newest of them), and
      * at the end of the very step in which the message arrived, more messages wait than the
        receive buffer can take (all arrived and undelivered ones count, also those that a
        receive-buffer shrink may have discarded: the judge cannot know which were).
    (`recv-buffer` may be raised later: the parked message then stays parked until the next
    receive, which is why the second bound is only demanded in the step of the arrival.) -/
def pairLive (ev : Ev) (outs : List Out) (j : PairJ) : PairJ :=
  if j.closed || j.live.isNone || j.armed then j
  else if j.held.isEmpty then
    j.fail "the peer is not read although no message of it waits to be received"
  else match ev with
    | .recvDone _ (.ok _) =>
      if outs.contains (.rv 0) && j.held.length ≤ j.rcap then
        j.fail "the peer is not read although the receive buffer has room"
      else j
    | _ => j

def notExecuted (outs : List Out) : Bool :=
  outs.any (fun o => match o with | .other _ => true | _ => false)

def isDone : Out → Bool | .done .. => true | _ => false

def doneOf (outs : List Out) (a : Nat) : Option Nat :=
  outs.findSome? fun o => match o with | .done a' rv _ _ => if a' == a then some rv else none | _ => none

/-- connection attempts: exactly the wrong-protocol peers and the peers arriving while
    another is alive are refused -/
def connectClause (lenient : Bool) (j : PairJ) (peer : Nat) (outs : List Out) : PairJ :=
  outs.foldl (fun j o => match o with
    | .pipe p =>
      if p < 0 then j else
      let refused := outs.contains (.pclosed p.toNat)
      if peer != j.peerProto then
        if refused then j else j.fail s!"peer {p} speaking protocol {peer} was not refused"
      else if j.live.isSome then
        if refused then j else j.fail s!"a second peer (pipe {p}) was accepted while pipe {j.live.getD 0} is alive"
      else if refused then
        -- (while earlier events are still being processed the previous peer may not be gone yet)
        if lenient then j else j.fail s!"peer {p} was refused although no peer is connected"
      else { j with live := some p.toNat, busy := false, armed := false }
    | _ => j) j

/-- outputs on the peer connected before the step -/
def onOld (old : Option Nat) (o : Out) : Bool :=
  match o, old with
  | .psend p _, some q => p == q
  | .parm p, some q => p == q
  | _, _ => false

/-- the loss of the peer connected before the step -/
def oldGone (old : Option Nat) (o : Out) : Bool :=
  match o, old with
  | .pclosed p, some q => p == q
  | _, _ => false

/-- bookkeeping caused by the event itself -/
def pairPre (nq : Bool) (j : PairJ) (ev : Ev) (outs : List Out) : PairJ × Nb :=
  let ok := outs.contains (.rv 0)
  match ev with
  | .openSock _ raw => ({ j with raw := raw }, .none)
  | .send _ a m mode =>
    match mode with
    | .nb => (j, .send a m)
    | _ => ({ j with pendingS := j.pendingS ++ [(a, m)] }, .none)
  | .recv _ a mode =>
    match mode with
    | .nb => (j, .recv a)
    | _ => ({ j with waitingR := j.waitingR ++ [a] }, .none)
  | .setopt none "send-buffer" "int" v =>
    if ok then ({ j with scap := v.toNat, unsent := if v.toNat < j.scap then excuseAll j.unsent else j.unsent }, .none)
    else (j, .none)
  | .setopt none "recv-buffer" "int" v =>
    if ok then ({ j with rcap := v.toNat, held := if v.toNat < j.rcap then excuseAll j.held else j.held }, .none)
    else (j, .none)
  | .setopt none "ttl-max" "int" v =>
    if ok then ({ j with ttl := v.toNat }, .none) else (j, .none)
  | .sendDone p rv =>
    if ok && rv == 0 && j.live == some p && j.busy then ({ j with busy := false }, .none) else (j, .none)
  | .recvDone p (.ok b) =>
    if ok then
      if j.live != some p || !j.armed then (j.fail s!"pipe {p} took a message with no receive posted", .none)
      else
        let j := { j with armed := false }
        let gone := outs.contains (.pclosed p)
        match arrivalRule j.v1 j.ttl b with
        | .close =>
          if gone || nq then (j, .none) else (j.fail "a message with a malformed hop header did not disconnect its sender", .none)
        | .drop =>
          if gone then (j.fail "a message over the hop limit disconnected its sender", .none)
          else if !nq && !(outs.contains (.parm p)) then (j.fail "no receive posted after discarding a message over the hop limit", .none)
          else (j, .none)
        | .deliver m =>
          if gone then (j.fail "a well-formed message within the hop limit disconnected its sender", .none)
          else ({ j with held := j.held ++ [⟨m, false⟩] }, .none)
    else (j, .none)
  | .recvDone p (.error _) =>
    if ok && j.live == some p then ({ j with armed := false }, .none) else (j, .none)
  | .close => ({ j with closed := true, unsent := excuseAll j.unsent, held := excuseAll j.held }, .none)
  | _ => (j, .none)

/-- the outputs of the step: completions first (a message must be accepted before it is wired);
    then what happened on the peer connected so far and its loss; then the connection attempt;
    then the rest -/
def pairMid (nq : Bool) (nb : Nb) (ev : Ev) (outs : List Out) (j : PairJ) : PairJ :=
  let racing := j.racing || nq
  let old := j.live
  let dones := outs.filter isDone
  let rest := outs.filter (fun o => !isDone o)
  let j := dones.foldl (pairOut nb) j
  let j := (rest.filter (onOld old)).foldl (pairOut nb) j
  let j := (rest.filter (oldGone old)).foldl (pairOut nb) j
  -- (a send completion racing with the loss of its pipe may hand the next message to the dying pipe)
  let j := if racing && rest.any (oldGone old) then { j with unsent := excuseAll j.unsent } else j
  let j := match ev with
    | .pipeAdd peer => connectClause racing j peer outs
    | _ => j
  (rest.filter (fun o => !onOld old o && !oldGone old o)).foldl (pairOut nb) j

def isBlocked : Out → Bool | .blocked _ => true | _ => false

/-- a non-blocking call must have completed in its own step -/
def nbClause (nb : Nb) (outs : List Out) (j : PairJ) : PairJ :=
  match nb with
  | .send a _ => if (doneOf outs a).isSome then j else j.fail s!"non-blocking send {a} did not complete at once"
  | .recv a => if (doneOf outs a).isSome then j else j.fail s!"non-blocking receive {a} did not complete at once"
  | .none => j

/-- pollable: the descriptor state seen by the previous `poll` must agree with this non-blocking call -/
def pollClause (polled : Option (Bool × Bool)) (nb : Nb) (outs : List Out) (j : PairJ) : PairJ :=
  match polled, nb with
  | some (_, w), .send a _ =>
    match doneOf outs a with
    | some rv =>
      if w && rv == Err.eagain then j.fail "send descriptor polled writable but a non-blocking send got NNG_EAGAIN"
      else if !w && rv == 0 then j.fail "send descriptor polled not writable but a non-blocking send succeeded"
      else j
    | none => j
  | some (r, _), .recv a =>
    match doneOf outs a with
    | some rv =>
      if r && rv == Err.eagain then j.fail "receive descriptor polled readable but a non-blocking receive got NNG_EAGAIN"
      else if !r && rv == 0 then j.fail "receive descriptor polled not readable but a non-blocking receive succeeded"
      else j
    | none => j
  | _, _ => j

/-- remember the result of a `poll` for the next step -/
def recordPoll (ev : Ev) (outs : List Out) (j : PairJ) : PairJ :=
  match ev with
  | Ev.poll => outs.foldl (fun (j : PairJ) (o : Out) => match o with
      | Out.poll (some r) (some w) => { j with lastPoll := some (r, w) }
      | _ => j) j
  | _ => j

/-- clauses about the step as a whole: non-blocking calls, pollable descriptors -/
def pairPost (nq : Bool) (polled : Option (Bool × Bool)) (nb : Nb) (ev : Ev) (outs : List Out) (j : PairJ) : PairJ :=
  let j := nbClause nb outs j
  let j := if outs.any isBlocked then j.fail "a non-blocking call blocked" else j
  let j := pollClause polled nb outs j
  let j := recordPoll ev outs j
  { j with racing := nq }

/-- one step of the judge.  `nq`: the harness applied the event without waiting for the
    library to quiesce (its callbacks race with the following events); then only the
    safety clauses apply, the end-of-step clauses wait for the next quiescent step. -/
def pairStepWith (nq : Bool) (j : PairJ) (ev : Ev) (outs : List Out) : PairJ :=
  if j.err.isSome then j else
  if notExecuted outs then j else   -- the harness refused the line: nothing happened
  let pre := pairPre nq { j with lastPoll := none } ev outs
  let j' := pairPost nq j.lastPoll pre.2 ev outs (pairMid nq pre.2 ev outs pre.1)
  if nq then j' else pairLive ev outs (pairQuiescent j')

def pairStep (j : PairJ) (ev : Ev) (outs : List Out) : PairJ := pairStepWith false j ev outs

def init0 : PairJ := { v1 := false, peerProto := protoId 1 0 }
def init1 : PairJ := { v1 := true, peerProto := protoId 1 1 }

def pair0Judge (tr : List (Ev × List Out)) : Option String :=
  (tr.foldl (fun j x => pairStep j x.1 x.2) init0).err

def pair1Judge (tr : List (Ev × List Out)) : Option String :=
  (tr.foldl (fun j x => pairStep j x.1 x.2) init1).err

end Nng.PairSpec
