/-
  End-to-end specification of nng_device as a judge of mock-pipe traces (harness/s_device.c).
  It knows sockets, pipes and the bytes that arrive and leave on pipes — nothing of device.c.

  Clauses (the C13 / C09 / C08 / C06 statements about devices):
    start     nng_device accepts exactly the documented socket pairs, else fails at once with the
              documented error (Spec/Device.lean `initRule`)
    exact     every byte string handed to a pipe's transport is owed to it: it is the image, under the raw
              protocols' header rules, of a message that arrived on the device's other side and has not
              been delivered to that pipe yet (nothing invented, duplicated or altered)
    order     on one pipe, the messages of one origin pipe leave in the order they arrived
    lost      at `end` (a point where the test has completed every send and nothing failed) nothing is owed
    stop      the user aio completes exactly once, only after a cancel/abort/stop, with that error; then
              every pipe of both sockets is closed and the sockets are gone (NNG_ECLOSED)
  Core Lean only.
-/
import NngModel.Spec.Device
import NngModel.Model.RawHeaders
import NngModel.Generated.C13
namespace Nng.DeviceSim
open Nng Nng.DeviceSpec Nng.RawHdr

structure SockS where
  proto : String
  desc : SockDesc
  ttl : Nat := Nng.Generated.btTtlDefault
deriving Repr, Inhabited

structure PipeS where
  sock : Nat
  id : Nat
  closed : Bool := false
deriving Repr, Inhabited

/-- a message owed to pipes of socket `dst` -/
structure Owed where
  origin : Nat            -- arrival pipe
  seq : Nat               -- arrival number
  dst : Nat
  wire : Bytes
  todo : List Nat         -- pipes that must still get it
  anyOf : List Nat        -- or: exactly one of these (load-balanced protocols)
deriving Repr, Inhabited

structure SJ where
  socks : List (Nat × SockS) := []
  pipes : List PipeS := []
  dirs : Option (List (Nat × Nat)) := none     -- directions of the running device
  started : Bool := false                      -- a `device` line was seen
  finished : Bool := false                     -- the user aio completed
  pre : List (Nat × Nat × Bytes) := []         -- accepted arrivals before the device (pipe, seq, bytes)
  owed : List Owed := []
  last : List ((Nat × Nat) × Nat) := []        -- (origin, pipe) → last arrival number delivered
  seq : Nat := 0
  err : Option String := none
deriving Repr, Inhabited

def fail (j : SJ) (msg : String) : SJ := if j.err.isSome then j else { j with err := some msg }

def events (out : String) : List (List String) :=
  if out.trimAscii.toString == "-" then []
  else (out.splitOn " ; ").map fun e => (e.trimAscii.toString.splitOn " ").filter (· ≠ "")

def hasEv (evs : List (List String)) (e : List String) : Bool := evs.contains e

def dones (evs : List (List String)) : List Nat :=
  evs.filterMap fun e => match e with | ["done", rv] => rv.toNat? | _ => none

/-- hex with `@pp` tokens (pp = pipe index in two hex digits) → bytes -/
def expandAux (ids : Nat → Nat) : List Char → Bytes → Option Bytes
  | [], acc => some acc
  | '@' :: a :: b :: rest, acc =>
    match hexVal a, hexVal b with
    | some x, some y => expandAux ids rest (acc ++ beEncode 4 (ids (x * 16 + y)))
    | _, _ => none
  | a :: b :: rest, acc =>
    match hexVal a, hexVal b with
    | some x, some y => expandAux ids rest (acc ++ [UInt8.ofNat (x * 16 + y)])
    | _, _ => none
  | [_], _ => none

def expand (ids : Nat → Nat) (s : String) : Option Bytes :=
  if s == "-" then some [] else expandAux ids s.toList []

def pipeIdOf (j : SJ) (p : Nat) : Nat := (j.pipes[p]?.map (·.id)).getD 0

def parseHexNat (s : String) : Option Nat :=
  s.toList.foldlM (fun acc c => (hexVal c).map (acc * 16 + ·)) 0

def kv (ws : List String) (key : String) : Option String :=
  (ws.filterMap fun w => if w.startsWith (key ++ "=") then some (w.drop (key.length + 1)).toString else none).head?

def livePipes (j : SJ) (s : Nat) : List Nat :=
  (List.range j.pipes.length).filter fun p =>
    match j.pipes[p]? with | some q => q.sock == s && !q.closed | none => false

/-- what an accepted arrival on pipe `p` obliges the device to, given its directions -/
def oblige (j : SJ) (dirs : List (Nat × Nat)) (p seq : Nat) (wire : Bytes) : SJ :=
  match j.pipes[p]? with
  | none => j
  | some ps =>
    match dirs.find? (·.1 == ps.sock), j.socks.lookup ps.sock with
    | some (_, dst), some src =>
      match j.socks.lookup dst with
      | none => j
      | some d =>
        match rawRecv src.proto src.ttl ps.id wire with
        | .deliver h b =>
          match rawSend d.proto h b with
          | none => j     -- the destination refuses: the device stops with that error (not generated)
          | some (_, none) => j
          | some (sel, some w) =>
            let lp := livePipes j dst
            let o : Owed :=
              match sel with
              | .all => ⟨p, seq, dst, w, lp, []⟩
              | .allExcept id => ⟨p, seq, dst, w, lp.filter (fun q => pipeIdOf j q != id), []⟩
              | .pipeId id => ⟨p, seq, dst, w, lp.filter (fun q => pipeIdOf j q == id), []⟩
              | .anyOne => ⟨p, seq, dst, w, [], lp⟩
            if o.todo.isEmpty && o.anyOf.isEmpty then j else { j with owed := j.owed ++ [o] }
        | _ => j          -- dropped (hop limit) or malformed: nothing is owed
    | _, _ => j           -- arrival on a socket the device does not read from

/-- a byte string was handed to pipe `q` -/
def deliver (j : SJ) (q : Nat) (wire : Bytes) : SJ :=
  match j.owed.findIdx? (fun o => o.wire == wire && (o.todo.contains q || o.anyOf.contains q)) with
  | none => fail j s!"exact: pipe {q} was handed {toHex wire}, which it is not owed (invented, duplicated or altered)"
  | some k =>
    match j.owed[k]? with
    | none => j
    | some o =>
      let prev := j.last.lookup (o.origin, q)
      let j1 := match prev with
        | some n => if n ≥ o.seq then fail j s!"order: pipe {q} got arrival #{o.seq} of pipe {o.origin} after arrival #{n}" else j
        | none => j
      let o' := { o with todo := o.todo.erase q, anyOf := if o.anyOf.contains q then [] else o.anyOf }
      { j1 with owed := if o'.todo.isEmpty && o'.anyOf.isEmpty then j1.owed.eraseIdx k else j1.owed.set k o',
                last := ((o.origin, q), o.seq) :: j1.last.filter (·.1 != (o.origin, q)) }

def applyPsends (j : SJ) (evs : List (List String)) : SJ :=
  evs.foldl (fun j e =>
    match e with
    | ["psend", q, h, b] =>
      match q.toNat?, parseHex h, parseHex b with
      | some q, some h, some b => if j.dirs.isSome then deliver j q (h ++ b) else j
      | _, _, _ => j
    | ["pclosed", p] =>
      match p.toNat? with
      | some p => { j with pipes := j.pipes.modify p fun x => { x with closed := true } }
      | none => j
    | _ => j) j

def descFn (j : SJ) (s : Nat) : SockDesc := ((j.socks.lookup s).map (·.desc)).getD ⟨0, 0, false, false⟩

def sockArg (j : SJ) (w : String) : Option Nat :=
  match w.toNat? with
  | some s => if (j.socks.lookup s).isSome then some s else none
  | none => none

/-- one line of the trace: the operation's words and what the implementation printed -/
def step (j : SJ) (op : List String) (out : String) : SJ :=
  let evs := events out
  -- the user aio may only complete on a `device` line that must fail, or on a cancel/abort/stop line
  let dn := dones evs
  let j :=
    match op with
    | "device" :: _ => j
    | ["cancel"] => j
    | ["abort", _] => j
    | ["stop"] => j
    | ["fini"] => j
    | _ => if dn.isEmpty then j else fail j s!"stop: the user aio completed ({dn}) without cancel, abort or stop"
  -- an arrival (and a start, which releases the arrivals queued before it) is registered before the
  -- sends it causes in the same quiescent batch
  let early := match op with | "recv_done" :: _ => false | "device" :: _ => false | _ => true
  let j := if early then applyPsends j evs else j
  match op with
  | ["open", s, proto] | ["open", s, proto, _] =>
    match s.toNat?, evs.find? (·.head? == some "rv") with
    | some s, some ws =>
      if ws.getD 1 "" == "0" then
        match (kv ws "proto").bind parseHexNat, (kv ws "peer").bind parseHexNat, (kv ws "flags").bind (·.toNat?) with
        | some pr, some pe, some fl =>
          let d : SockDesc := ⟨pr, pe, (fl &&& Nng.Generated.devFlagRaw) != 0, (fl &&& Nng.Generated.devFlagRcv) != 0⟩
          { j with socks := (s, { proto := proto, desc := d }) :: j.socks }
        | _, _, _ => j
      else j
    | _, _ => j
  | ["setopt", s, name, _, v] =>
    if name == Nng.Generated.btOptMaxTtl && hasEv evs ["rv", "0"] then
      match s.toNat?, v.toNat? with
      | some s, some v => { j with socks := j.socks.map fun (k, x) => if k == s then (k, { x with ttl := v }) else (k, x) }
      | _, _ => j
    else j
  | ["pipe_add", s, _] =>
    match s.toNat?, evs.find? (·.head? == some "pipe") with
    | some s, some [_, p, id] =>
      match p.toNat?, id.toNat? with
      | some p, some id =>
        if p == j.pipes.length then
          { j with pipes := j.pipes ++ [{ sock := s, id := id, closed := hasEv evs ["pclosed", toString p] }] }
        else j
      | _, _ => j
    | _, _ => j
  | ["recv_done", p, w] =>
    if hasEv evs ["rv", "0"] && !w.startsWith "!" then
      match p.toNat?, expand (pipeIdOf j) w with
      | some p, some wire =>
        let j := { j with seq := j.seq + 1 }
        let j := match j.dirs with
          | some dirs => if j.finished then j else oblige j dirs p j.seq wire
          | none => if j.started then j else { j with pre := j.pre ++ [(p, j.seq, wire)] }
        applyPsends j evs
      | _, _ => applyPsends j evs
    else applyPsends j evs
  | ["device", a, b] =>
    let j := { j with started := true }
    match initRule (descFn j) (sockArg j a) (sockArg j b) true with
    | .error e =>
      if dn == [e] then { j with finished := true }
      else fail j s!"start: nng_device must fail with {e} for these sockets; the user aio completed with {dn}"
    | .ok shape =>
      if !dn.isEmpty then fail j s!"start: nng_device must accept these sockets; the user aio completed with {dn}"
      else
        let j := { j with dirs := some shape.dirs }
        applyPsends (j.pre.foldl (fun j (p, seq, wire) => oblige j shape.dirs p seq wire) { j with pre := [] }) evs
  | "cancel" :: _ | "abort" :: _ | "stop" :: _ =>
    match j.dirs with
    | none => if dn.isEmpty then j else fail j s!"stop: a user aio that never ran a device completed again ({dn})"
    | some dirs =>
      if j.finished then
        if dn.isEmpty then j else fail j s!"stop: the user aio completed a second time ({dn})"
      else
        let want := match op with
          | ["abort", rv] => rv.toNat?.getD 0
          | ["stop"] => Nng.Generated.devErrStopped
          | _ => Nng.Generated.devErrCanceled
        let j := { j with finished := true, owed := [] }
        if dn != [want] then fail j s!"stop: after {op} the user aio must complete once with {want}; it completed with {dn}"
        else
          let socks := (dirs.map (·.1) ++ dirs.map (·.2)).eraseDups
          match socks.find? (fun s => !(livePipes j s).isEmpty) with
          | some s => fail j s!"stop: the device completed but socket {s} still has open pipes {livePipes j s}"
          | none => j
  | ["probe", s] =>
    match j.dirs, s.toNat? with
    | some dirs, some s =>
      if j.finished && (dirs.any fun d => d.1 == s || d.2 == s) && !hasEv evs ["rv", toString Nng.Generated.devErrClosed] then
        fail j s!"stop: socket {s} of a completed device is still usable ({out})"
      else j
    | _, _ => j
  | ["end"] =>
    if j.finished || j.dirs.isNone then j
    else
      match j.owed.head? with
      | some o => fail j s!"lost: arrival #{o.seq} of pipe {o.origin} ({toHex o.wire}) never reached pipes {o.todo}{o.anyOf} of socket {o.dst}"
      | none => j
  | ["fini"] =>
    if out.trimAscii.toString == "fini live=0 bytes=0 badfree=0" then j
    else fail j s!"leak: after closing everything the allocator reports {out}"
  | _ => j

end Nng.DeviceSim
