/-
  C09 as an executable trace predicate ("judge").  A trace is the list of harness events
  with the outputs observed for each (from the implementation, or from the model).  The
  judge speaks only about what was offered, what appeared on each peer's wire, what
  arrived and what was delivered, the configured queue depths, and the pipe ids it was
  told (`learnId`, from the harness' `pipe_id` probe).  Clauses:

   send side   S1 every send completes at once with 0 in every mode (never blocks, never
                  EAGAIN / timeout, no virtual time passes); a failed send must hand the
                  message back
               S2 a wire message is byte-for-byte a sent message (header minus the 4-byte
                  origin in raw mode, no header in cooked mode): whole or not at all
               S3 at most once per peer; never to the peer named in the raw header; only
                  to peers connected at send time; per peer in send order
               S4 exactly the peers whose abstract queue (FIFO, configured depth, a full
                  queue refuses the NEW message, a shrink discards the newest) has the
                  message get it: nothing lost while there is room
   recv side   R1 a delivered message is byte-for-byte an arrived one, at most once, per
                  peer in arrival order; raw: header = id of the arrival pipe, cooked: none
               R2 a message is dropped only by a full receive queue; no receiver is left
                  waiting while a message is held; non-blocking receive completes at once
               R3 poll: readable iff a message is held, always writable

  Message identity: the check generates pairwise distinct bodies within a case.
-/
import NngModel.Proto.Base
import NngModel.Generated.C09
namespace Nng.BusSpec
open Nng Nng.Proto

structure Sent where
  idx : Nat
  m : WMsg               -- expected wire form
  excl : Option Nat      -- the pipe named by the raw header, if it names one we know
deriving Repr, DecidableEq

structure PipeJ where
  conn : Bool := false           -- connected: accepted and not closed
  inflight : Bool := false       -- a transport send is outstanding
  q : List Nat := []             -- abstract outbound queue (send numbers)
  cap : Nat := 0
  armed : Bool := false
  wired : List Nat := []         -- send numbers put on this pipe's wire, in order
  id : Option Nat := none        -- library id, once probed
deriving Repr

structure Held where
  pipe : Nat
  n : Nat
  body : Bytes
deriving Repr, DecidableEq

structure BusJ where
  opened : Bool := false
  closed : Bool := false
  raw : Bool := false
  sendBuf : Nat := 0
  rcap : Nat := 0
  pipes : List PipeJ := []
  sends : List Sent := []
  narr : Nat := 0
  held : List Held := []
  waiting : List Nat := []
  err : Option String := none
deriving Repr

def BusJ.fail (j : BusJ) (msg : String) : BusJ :=
  match j.err with | some _ => j | none => { j with err := some msg }

def BusJ.getP (j : BusJ) (p : Nat) : PipeJ := j.pipes.getD p {}
def BusJ.setP (j : BusJ) (p : Nat) (x : PipeJ) : BusJ := { j with pipes := j.pipes.set p x }

/-- the `pipe_id` probe: pipe `p` has library id `id` (0: the pipe is gone) -/
def learnId (j : BusJ) (p : Nat) (id : Nat) : BusJ :=
  if id == 0 then j
  else if p < j.pipes.length then j.setP p { j.getP p with id := some id } else j

def notExecuted (outs : List Out) : Bool :=
  outs.any (fun o => match o with | .other _ => true | _ => false)

/-- what `send` must put on the wire, and whom it must skip -/
def expectWire (j : BusJ) (idx : Nat) (m : WMsg) : Sent :=
  if j.raw then
    if m.hdr.length ≥ 4 then
      let sender := beDecode (m.hdr.take 4)
      ⟨idx, ⟨m.hdr.drop 4, m.body⟩, j.pipes.findIdx? (fun pj => pj.id == some sender)⟩
    else ⟨idx, m, none⟩
  else ⟨idx, ⟨[], m.body⟩, none⟩

/-- abstract effect of one send on the peers' queues: returns the wire hand-offs that
    must happen now -/
def offerAll (j : BusJ) (sn : Sent) : BusJ × List (Nat × Nat) :=
  (List.range j.pipes.length).foldl (fun (acc : BusJ × List (Nat × Nat)) p =>
    let j := acc.1
    let pj := j.getP p
    if !pj.conn || sn.excl == some p then acc
    else if !pj.inflight then (j, acc.2 ++ [(p, sn.idx)])
    else if pj.q.length < pj.cap then (j.setP p { pj with q := pj.q ++ [sn.idx] }, acc.2)
    else acc) (j, [])

/-- a message appeared on the wire of pipe `p` -/
def onWire (exp : List (Nat × Nat)) (j : BusJ) (p : Nat) (m : WMsg) : BusJ × List (Nat × Nat) :=
  let pj := j.getP p
  match j.sends.find? (·.m.body == m.body) with
  | none => (j.fail s!"pipe {p} was handed a message that no send offered (corrupted or invented)", exp)
  | some sn =>
    if sn.m.hdr != m.hdr then (j.fail s!"wire header on pipe {p} differs from the sent header", exp)
    else if sn.excl == some p then (j.fail s!"message sent back to pipe {p}, which its header names as the origin", exp)
    else if pj.wired.contains sn.idx then (j.fail s!"message put on the wire of pipe {p} twice", exp)
    else if pj.wired.any (· > sn.idx) then (j.fail s!"messages reordered on the wire of pipe {p}", exp)
    else if !pj.conn then (j.fail s!"message sent on pipe {p}, which is not connected", exp)
    else if pj.inflight then (j.fail s!"second send posted on pipe {p} before the first completed", exp)
    else if !(exp.contains (p, sn.idx)) then
      (j.fail s!"pipe {p} got a message that its queue (depth {pj.cap}) had no room for, or that was sent before it connected", exp)
    else (j.setP p { pj with inflight := true, wired := pj.wired ++ [sn.idx] }, exp.erase (p, sn.idx))

/-- a receive completed with a message -/
def onDelivered (j : BusJ) (a : Nat) (m : WMsg) : BusJ :=
  let j := { j with waiting := j.waiting.filter (· != a) }
  match j.held.find? (·.body == m.body) with
  | none => j.fail "a message was delivered that never arrived, was dropped by the full queue, or was delivered before"
  | some h =>
    match j.held.find? (·.pipe == h.pipe) with
    | none => j
    | some h0 =>
      if h0.n != h.n then j.fail s!"messages of pipe {h.pipe} delivered out of order"
      else
        let j := { j with held := j.held.filter (·.n != h.n) }
        if j.raw then
          match (j.getP h.pipe).id with
          | some id => if m.hdr == beEncode 4 id then j
                       else j.fail s!"raw header of a delivered message does not carry the id of its arrival pipe {h.pipe}"
          | none => if m.hdr.length == 4 then j else j.fail "raw header of a delivered message is not a 4-byte pipe id"
        else if m.hdr.isEmpty then j else j.fail "cooked receive delivered a header"

/-- outputs common to all steps; `sendAio`: the send being executed (aio, non-blocking?) -/
def onOut (sendAio : Option Nat) (acc : BusJ × List (Nat × Nat)) (o : Out) : BusJ × List (Nat × Nat) :=
  let (j, exp) := acc
  match o with
  | .psend p m => onWire exp j p m
  | .pclosed p =>
    (j.setP p { j.getP p with conn := false, inflight := false, q := [], armed := false }, exp.filter (·.1 != p))
  | .parm p =>
    let pj := j.getP p
    if pj.armed then (j.fail s!"pipe {p} has two receives armed", exp)
    else (j.setP p { pj with armed := true }, exp)
  | .done a rv msg msgback =>
    if sendAio == some a then
      if rv == 0 then
        if msgback then (j.fail s!"send {a} succeeded but the message came back", exp) else (j, exp)
      else if rv == Err.eagain then (j.fail s!"send {a} was refused with EAGAIN: BUS send never blocks", exp)
      else if !msgback then (j.fail s!"send {a} failed with {rv} and the message was neither sent nor returned", exp)
      else (j.fail s!"send {a} failed with {rv}: BUS send never blocks", exp)
    else
      match rv, msg with
      | 0, some m => (onDelivered j a m, exp)
      | 0, none => (j.fail s!"receive {a} succeeded without a message", exp)
      | _, some _ => (j.fail s!"receive {a} failed with {rv} but carries a message", exp)
      | _, none => ({ j with waiting := j.waiting.filter (· != a) }, exp)
  | .blocked ms => (j.fail s!"a non-blocking call blocked for {ms} ms", exp)
  | _ => (j, exp)

def hasDone (outs : List Out) (a : Nat) : Bool :=
  outs.any (fun o => match o with | .done a' _ _ _ => a' == a | _ => false)

def busStep (j : BusJ) (ev : Ev) (outs : List Out) : BusJ :=
  if j.err.isSome then j else
  if notExecuted outs then j else
  let ok := outs.contains (.rv 0)
  let heldBefore := !j.held.isEmpty
  -- bookkeeping caused by the event itself; `exp`: wire hand-offs that must happen now
  let (j, exp, sendAio) : BusJ × List (Nat × Nat) × Option Nat :=
    match ev with
    | .openSock _ raw =>
      if ok then ({ j with opened := true, raw := raw, sendBuf := Nng.Generated.busSendBufInit,
                           rcap := Nng.Generated.busRecvBufInit }, [], none)
      else (j, [], none)
    | .pipeAdd peer =>
      match outs.findSome? (fun o => match o with | .pipe p => some p | _ => none) with
      | some p =>
        if p < 0 then (j, [], none)
        else if p.toNat != j.pipes.length then (j.fail "unexpected pipe index", [], none)
        else
          let rejected := outs.contains (.pclosed p.toNat)
          let j := { j with pipes := j.pipes ++ [{ conn := true, cap := j.sendBuf }] }
          if peer != Nng.Generated.protoBus && !rejected then (j.fail "a peer of another protocol was accepted", [], none)
          else if peer == Nng.Generated.protoBus && rejected then (j.fail "a BUS peer was rejected", [], none)
          else if !rejected && !(outs.contains (.parm p.toNat)) then (j.fail "no receive posted on the new pipe", [], none)
          else (j, [], none)
      | none => (j, [], none)
    | .send _ a m _ =>
      let sn := expectWire j j.sends.length m
      let j := { j with sends := j.sends ++ [sn] }
      let (j, exp) := offerAll j sn
      (j, exp, some a)
    | .sendDone p rv =>
      let pj := j.getP p
      if ok && rv == 0 && pj.conn && pj.inflight then
        match pj.q with
        | h :: t => (j.setP p { pj with q := t, inflight := false }, [(p, h)], none)
        | [] => (j.setP p { pj with inflight := false }, [], none)
      else (j, [], none)
    | .recvDone p (.ok b) =>
      if ok then
        let pj := j.getP p
        if !pj.armed then (j.fail s!"pipe {p} accepted a message with no receive armed", [], none)
        else
          let j := j.setP p { pj with armed := false }
          let h : Held := ⟨p, j.narr, b⟩
          let j := { j with narr := j.narr + 1 }
          -- with a receiver waiting the message bypasses the queue; otherwise a full queue drops it whole
          if !j.waiting.isEmpty || j.held.length < j.rcap then ({ j with held := j.held ++ [h] }, [], none)
          else (j, [], none)
      else (j, [], none)
    | .recvDone p (.error _) =>
      if ok then (j.setP p { j.getP p with armed := false }, [], none) else (j, [], none)
    | .recv _ a mode =>
      match mode with
      | .nb => (j, [], none)
      | _ => ({ j with waiting := j.waiting ++ [a] }, [], none)
    | .setopt none "send-buffer" "int" v =>
      if ok then
        let c := v.toNat
        ({ j with sendBuf := c,
                  pipes := j.pipes.map fun pj => if pj.conn then { pj with cap := c, q := pj.q.take c } else pj }, [], none)
      else (j, [], none)
    | .setopt none "recv-buffer" "int" v =>
      if ok then ({ j with rcap := v.toNat, held := j.held.take v.toNat }, [], none) else (j, [], none)
    | .close => ({ j with closed := true }, [], none)
    | _ => (j, [], none)
  let (j, exp) := outs.foldl (onOut sendAio) (j, exp)
  -- what had to be on the wire now
  let j := match exp with
    | (p, _) :: _ => j.fail s!"pipe {p} did not get a message although it is connected and its queue had room"
    | [] => j
  -- event-specific completion clauses
  let j := match ev with
    | .send _ a _ _ =>
      if hasDone outs a then j else j.fail s!"send {a} did not complete at once: BUS send never blocks"
    | .recv _ a .nb =>
      if !(hasDone outs a) then j.fail s!"non-blocking receive {a} did not complete at once"
      else if heldBefore && !(outs.any fun o => match o with | .done a' 0 (some _) _ => a' == a | _ => false) then
        j.fail s!"non-blocking receive {a} failed although a message is queued"
      else j
    | .poll =>
      match outs.findSome? (fun o => match o with | .poll r w => some (r, w) | _ => none) with
      | some (r, w) =>
        if w != some true then j.fail "BUS socket not reported writable"
        else if r != some (!j.held.isEmpty) then j.fail "receive pollable disagrees with the receive queue"
        else j
      | none => j
    | _ => j
  if !j.closed && !j.waiting.isEmpty && !j.held.isEmpty then
    j.fail "a receiver is kept waiting although a message is held"
  else j

def busJudge (tr : List (Ev × List Out)) : Option String :=
  (tr.foldl (fun j x => busStep j x.1 x.2) ({} : BusJ)).err

end Nng.BusSpec
