/-
  Trace predicates for the raw REQ/REP sockets (XREP, XREQ): the header handling that devices
  (property C13) and the cooked protocols build on.  No protocol-internal state: arrivals,
  deliveries, what the application offered, what went on the wire, the wire format.
  Bodies are pairwise distinct within a case (the check generates them so).

  XREP: a delivered request is a well-formed arrival (`RepSpec.classify`), its header is the id of the
  pipe it came from followed by exactly its backtrace, its body is the rest; per pipe in arrival order,
  at most once; malformed arrivals close their pipe, over-long ones do not, neither is delivered; an
  arrival whose pipe closes before it is delivered may be dropped (only then).
  A message on the wire of pipe p is a reply the application offered whose first header word was
  p's id, with the remaining header words and the body unchanged; per pipe in the order offered, at
  most once; offers with a short header or for an unknown / closed pipe never reach a wire; an
  accepted reply is not held back while its pipe is idle.
  XREQ: a message on a wire is an offered request, unchanged (header and body), at most once, on a
  connected idle pipe; a delivered reply is an arrival whose header words (up to the word with the high
  bit) were moved from the body to the header; arrivals with no terminator or more words than the
  header can hold close their pipe and are not delivered; no sender waits while a pipe is idle, no
  receiver waits while a reply is held.
  Both: NNG_FLAG_NONBLOCK calls complete in their own step without blocking (whether they then report
  NNG_EAGAIN correctly is C15 / finding F13, judged elsewhere).
-/
import NngModel.Spec.Rep
import NngModel.Generated.Base
namespace Nng.RawSpec
open Nng Nng.Proto Nng.RepSpec

structure Held where
  pipe : Nat
  hdr : Bytes
  body : Bytes
  maybe : Bool := false      -- its pipe has closed since: it may have been dropped (if it had not reached the socket's queue yet)
deriving Repr, DecidableEq, Inhabited

structure Offer where
  aio : Nat
  hdr : Bytes
  body : Bytes
deriving Repr, DecidableEq, Inhabited

structure RawJ where
  ttl : Nat := 8
  live : List Nat := []
  busy : List Nat := []
  held : List Held := []                 -- arrivals awaiting delivery
  recvs : List Nat := []                 -- pending receive aios
  sends : List Offer := []               -- pending send aios
  acc : List Held := []                  -- accepted, expected on the wire of `pipe` (hdr = wire header)
  wired : List Bytes := []
  closed : Bool := false
  err : Option String := none
deriving Repr

def RawJ.fail (j : RawJ) (msg : String) : RawJ :=
  match j.err with | some _ => j | none => { j with err := some msg }

/-- canonical pipe id word (the check renames the core's random ids to index + 1) -/
def idWord (p : Nat) : Bytes := beEncode 4 (p + 1)

/-- XREQ: header words up to the terminator; `none` = the pipe must be closed -/
def xreqShape (cap : Nat) (b : Bytes) : Option (Bytes × Bytes) :=
  let k := leadingHops b
  if b.length < 4 * k + 4 then none
  else if k + 1 > cap / 4 then none
  else some (b.take (4 * k + 4), b.drop (4 * k + 4))

def isDone : Out → Bool | .done .. => true | _ => false
def isBlocked : Out → Bool | .blocked _ => true | _ => false

def deliver (j : RawJ) (a : Nat) (m : WMsg) : RawJ :=
  match j.held.find? (·.body == m.body) with
  | none => j.fail s!"a message was delivered (aio {a}) that never arrived well-formed, or twice"
  | some h =>
    match j.held.find? (·.pipe == h.pipe) with
    | some h0 =>
      if h0 != h then j.fail s!"messages of pipe {h.pipe} delivered out of order"
      else if h.hdr != m.hdr then j.fail s!"delivered header is not the expected one (pipe {h.pipe})"
      else { j with held := j.held.erase h }
    | none => j

/-- `xrep = true`: raw REP, else raw REQ -/
def rawDone (xrep : Bool) (j : RawJ) (a rv : Nat) (msg : Option WMsg) (msgback : Bool) : RawJ :=
  if j.recvs.contains a then
    let j := { j with recvs := j.recvs.filter (· != a) }
    match rv, msg with
    | 0, some m => deliver j a m
    | 0, none => j.fail s!"receive {a} succeeded without a message"
    | _, some _ => j.fail s!"receive {a} failed with {rv} but carries a message"
    | _, none => j
  else
    match j.sends.find? (·.aio == a) with
    | none => j.fail s!"completion of aio {a} that has no operation outstanding"
    | some o =>
      let j := { j with sends := j.sends.filter (·.aio != a) }
      if rv == 0 then
        if msgback then j.fail s!"send {a} succeeded but the message came back"
        else if xrep then
          -- routed by the first header word; short header / unknown pipe: discarded
          if o.hdr.length < 4 then j
          else
            let id := beDecode (o.hdr.take 4)
            if id == 0 || !(j.live.contains (id - 1)) then j
            else { j with acc := j.acc ++ [⟨id - 1, o.hdr.drop 4, o.body, false⟩] }
        else { j with acc := j.acc ++ [⟨0, o.hdr, o.body, false⟩] }
      else if !msgback then j.fail s!"send {a} failed with {rv} but the message was not left with the caller"
      else j

def rawOut (xrep : Bool) (j : RawJ) (o : Out) : RawJ :=
  match o with
  | .psend p m =>
    if j.wired.contains m.body then j.fail s!"a message was put on the wire twice (pipe {p})"
    else if !(j.live.contains p) then j.fail s!"send on pipe {p} which is not connected"
    else if j.busy.contains p then j.fail s!"send on pipe {p} which still has a send in flight"
    else
      let cand := if xrep then j.acc.find? (·.pipe == p) else j.acc.head?
      match cand with
      | none => j.fail s!"pipe {p} was handed a message no accepted send addressed to it"
      | some a =>
        if a.body != m.body then
          j.fail (if xrep then s!"pipe {p}: replies sent out of order, or a reply addressed to another pipe"
                  else s!"pipe {p}: requests sent out of order")
        else if a.hdr != m.hdr then j.fail s!"header changed on the way to pipe {p}"
        else { j with acc := j.acc.erase a, wired := j.wired ++ [m.body], busy := j.busy ++ [p] }
  | .pclosed p =>
    { j with live := j.live.filter (· != p), busy := j.busy.filter (· != p),
             held := j.held.map (fun h => if h.pipe == p then { h with maybe := true } else h),
             acc := if xrep then j.acc.filter (·.pipe != p) else j.acc }
  | _ => j

def rawStep (xrep : Bool) (j : RawJ) (ev : Ev) (outs : List Out) : RawJ :=
  if j.err.isSome then j else
  if RepSpec.notExecuted outs then j else
  let ok0 := outs.contains (.rv 0)
  let (j, nb) : RawJ × Option Nat :=
    match ev with
    | .recv _ a mode => ({ j with recvs := j.recvs ++ [a] }, match mode with | .nb => some a | _ => none)
    | .send _ a m mode => ({ j with sends := j.sends ++ [⟨a, m.hdr, m.body⟩] }, match mode with | .nb => some a | _ => none)
    | .recvDone p (.ok b) =>
      if ok0 then
        if xrep then
          match classify j.ttl b with
          | .ok hdr body => ({ j with held := j.held ++ [⟨p, idWord p ++ hdr, body, false⟩] }, none)
          | .malformed =>
            if outs.contains (.pclosed p) then (j, none)
            else (j.fail s!"a request with fewer than 4 bytes before its terminator did not close pipe {p}", none)
          | .tooManyHops =>
            if outs.contains (.pclosed p) then (j.fail s!"a request with too many hops closed pipe {p}", none) else (j, none)
        else
          match xreqShape Nng.Generated.headerCap b with
          | some (hdr, body) => ({ j with held := j.held ++ [⟨p, hdr, body, false⟩] }, none)
          | none =>
            if outs.contains (.pclosed p) then (j, none)
            else (j.fail s!"a reply without a usable header did not close pipe {p}", none)
      else (j, none)
    | .sendDone p rv => if ok0 && rv == 0 then ({ j with busy := j.busy.filter (· != p) }, none) else (j, none)
    | .setopt none "ttl-max" "int" v => if ok0 then ({ j with ttl := v.toNat }, none) else (j, none)
    | .close => ({ j with closed := true }, none)
    | _ => (j, none)
  let j := outs.foldl (fun j o => match o with
    | .pipe p => if p ≥ 0 && !(outs.contains (.pclosed p.toNat)) then { j with live := j.live ++ [p.toNat] } else j
    | _ => j) j
  let dones := outs.filter isDone
  let rest := outs.filter (fun o => !isDone o)
  let j := dones.foldl (fun j o => match o with | .done a rv m mb => rawDone xrep j a rv m mb | _ => j) j
  let j := rest.foldl (rawOut xrep) j
  let j := match nb with
    | some a => if dones.any (fun o => match o with | .done a' _ _ _ => a' == a | _ => false) then j
                else j.fail s!"non-blocking call {a} did not complete at once"
    | none => j
  let j := if outs.any isBlocked then j.fail "a non-blocking call blocked" else j
  if j.closed then j
  else if !j.recvs.isEmpty && j.held.any (fun h => !h.maybe) then j.fail "a receiver is kept waiting although a message is held"
  else if xrep then
    match j.acc.find? (fun a => j.live.contains a.pipe && !(j.busy.contains a.pipe)) with
    | some a => j.fail s!"an accepted reply for idle pipe {a.pipe} is held back"
    | none => j
  else
    let idle := j.live.filter (fun p => !(j.busy.contains p))
    if !idle.isEmpty && (!j.acc.isEmpty || !j.sends.isEmpty) then j.fail "a request waits although a connected pipe is idle"
    else j

def xrepJudge (tr : List (Ev × List Out)) : Option String :=
  (tr.foldl (fun j x => rawStep true j x.1 x.2) ({} : RawJ)).err
def xreqJudge (tr : List (Ev × List Out)) : Option String :=
  (tr.foldl (fun j x => rawStep false j x.1 x.2) ({} : RawJ)).err

end Nng.RawSpec
