/- C15, the poll-descriptor half ("poll descriptors mirror readiness"), stated over what an
   outside observer sees of ONE pollable while threads run: no reference to pollable.c's state
   machine.  An observation is taken after every atomic step of any thread.

   The same judge runs on the observations of the real code (harness/u_pollable.c) and - by
   theorem `Nng.C15Pollable.judge_model` - accepts every run of the Lean model of the repaired code. -/
namespace Nng.PollSpec

/-- result of one getfd call so far -/
inductive Res
  | pending                -- not returned yet
  | err                    -- returned an error (nni_plat_pipe_open failed)
  | ok (fd : Nat)          -- NNG_OK, descriptor = read side of pipe `fd` (pipes numbered in order of creation)
  deriving DecidableEq, Repr, Inhabited

structure Obs where
  raised : Bool            -- readiness as last set by the protocol (a non-blocking op would succeed)
  inst : Option Nat        -- the descriptor published by the pollable, if any
  readable : Bool          -- poll(2) POLLIN on it
  bytes : Nat              -- bytes buffered in it (FIONREAD)
  nopen : Nat              -- notification pipes currently open in the process
  quiet : Bool             -- no thread is inside raise/clear/getfd
  res : List Res           -- per getfd caller
  bad : Bool               -- a write/drain/close was issued on a closed or unknown descriptor
  deriving DecidableEq, Repr

/-- PIPE_BUF-independent bound: the pipe can never fill (a full pipe would lose the wake-up byte) -/
def maxBytes : Nat := 3

def errNow (p q : Res) : Bool := p == .pending && q == .err

/-- some caller's open failure is reported in this step -/
def failedNow : List Res → List Res → Bool
  | p :: ps, q :: qs => errNow p q || failedNow ps qs
  | _, _ => false

def resOk (inst : Option Nat) : Res → Bool
  | .ok fd => inst == some fd
  | _ => true

/-- clauses judged on one observation given the previous one; `none` = fine -/
def judgeStep (prev o : Obs) : Option String :=
  if o.bad then some "c:io-on-closed-descriptor"
  else if o.readable != decide (0 < o.bytes) then some "obs:readable-vs-bytes"
  else if o.quiet && o.inst.isSome && (o.readable != o.raised) then
    some (if o.readable then "a:stale-readable" else "a:missed-wakeup")
  else if !(o.res.all (resOk o.inst)) then some "b:descriptors-differ"
  else if prev.inst.isSome && prev.inst != o.inst then some "b:descriptor-changed"
  else if o.quiet && o.nopen != (if o.inst.isSome then 1 else 0) then some "b:fd-leak"
  else if failedNow prev.res o.res &&
      !(o.raised == prev.raised && o.inst == prev.inst && o.bytes == prev.bytes && o.nopen == prev.nopen) then
    some "b:failed-open-changed-state"
  else if maxBytes < o.bytes then some "d:bytes-unbounded"
  else none

/-- first violated clause of a run (observation list starting with the initial one) -/
def judgeFrom (prev : Obs) : List Obs → Option String
  | [] => none
  | o :: os =>
    match judgeStep prev o with
    | some e => some e
    | none => judgeFrom o os

end Nng.PollSpec
