/-
  The WebSocket opening handshake as a specification, independent of websocket.c.

  Part 1 (RFC 6455 section 4, RFC 7230 list syntax): what a conforming server requires of a client's
  request (4.2.1), what it answers (4.2.2 step 5), what a conforming client requires of the response (4.1).
  This is the yardstick for "everything they emit is well-formed for a conforming peer".

  Part 2 (the rule set nng enforces, stated as rules): an ordered table "rule, status answered when it
  fails" for the server and "rule, result of the dial" for the client.  The word test is stated on
  positions (`hasWord`): a case-insensitive occurrence that starts at the beginning of the value or right
  after a run of ' ' / ',' containing at least one space, and that is followed by the end, ' ' or ','.
  This is what "rule-enforcing … by failing the connection or returning an HTTP error status" is judged
  against; where it is laxer or stricter than part 1 is recorded in Props/C16Upgrade.lean with witnesses.
  Core Lean only.
-/
import NngModel.Base.Bytes
import NngModel.Spec.Base64
import NngModel.Spec.Sha1
namespace Nng.WsSpec

abbrev Hdrs := List (Bytes × Bytes)

def s (x : String) : Bytes := x.toList.map fun c => UInt8.ofNat c.toNat

/-- ASCII case folding -/
def fold (c : UInt8) : UInt8 := if 65 ≤ c.toNat ∧ c.toNat ≤ 90 then c + 32 else c

/-- ASCII case-insensitive equality -/
def ciEq (a b : Bytes) : Bool := a.map fold == b.map fold

/-- header field names are case-insensitive (RFC 7230 3.2); the first field of that name -/
def lookup (h : Hdrs) (name : Bytes) : Option Bytes := (h.find? fun e => ciEq e.1 name).map (·.2)

/-! ## Part 1: RFC 6455 -/

/-- RFC 6455 1.3 -/
def guid : Bytes := s "258EAFA5-E914-47DA-95CA-C5AB0DC85B11"

/-- 4.2.2 step 5.4: base64(SHA-1(key ‖ GUID)) -/
def acceptFor (key : Bytes) : Bytes := Base64Spec.encode (Sha1Spec.sha1 (key ++ guid))

def isOWS (c : UInt8) : Bool := c = 32 || c = 9

def splitComma : Bytes → List Bytes
  | [] => [[]]
  | c :: r =>
    match splitComma r with
    | [] => [[c]]
    | x :: xs => if c = 44 then [] :: x :: xs else (c :: x) :: xs

def trim (v : Bytes) : Bytes := ((v.dropWhile isOWS).reverse.dropWhile isOWS).reverse

/-- RFC 7230 section 7: the elements of a comma-separated list, optional white space removed, empty ones ignored -/
def tokens (v : Bytes) : List Bytes := ((splitComma v).map trim).filter (fun t => !t.isEmpty)

def hasToken (v t : Bytes) : Bool := (tokens v).any (ciEq · t)

/-- 4.1 item 7 / 4.2.1 item 5: a base64-encoded 16-byte nonce -/
def ValidKey (k : Bytes) : Prop := ∃ nonce : Bytes, nonce.length = 16 ∧ k = Base64Spec.encode nonce

/-- executable form used by the differential run -/
def validKeyB (k : Bytes) : Bool :=
  k.length == 24 && (Base64Spec.decode k).length == 16 && Base64Spec.encode (Base64Spec.decode k) == k

/-- "HTTP/1.1 or higher" -/
def versionAtLeast11 (v : Bytes) : Bool :=
  match v with
  | [72, 84, 84, 80, 47, a, 46, b] =>
    48 ≤ a.toNat && a.toNat ≤ 57 && 48 ≤ b.toNat && b.toNat ≤ 57 && (a.toNat > 49 || (a.toNat == 49 && b.toNat ≥ 49))
  | _ => false

/-- 4.2.1: what the server must find in the client's opening handshake (items 1-6; Origin and the optional
    fields put no requirement on acceptance) -/
structure ServerRequires (method version : Bytes) (h : Hdrs) : Prop where
  get : method = s "GET"
  version : versionAtLeast11 version = true
  host : (lookup h (s "Host")).isSome = true
  upgrade : ∃ v, lookup h (s "Upgrade") = some v ∧ hasToken v (s "websocket") = true
  connection : ∃ v, lookup h (s "Connection") = some v ∧ hasToken v (s "upgrade") = true
  key : ∃ k, lookup h (s "Sec-WebSocket-Key") = some k ∧ ValidKey k
  wsVersion : lookup h (s "Sec-WebSocket-Version") = some (s "13")

def serverRequiresB (method version : Bytes) (h : Hdrs) : Bool :=
  method == s "GET" && versionAtLeast11 version && (lookup h (s "Host")).isSome &&
  (match lookup h (s "Upgrade") with | some v => hasToken v (s "websocket") | none => false) &&
  (match lookup h (s "Connection") with | some v => hasToken v (s "upgrade") | none => false) &&
  (match lookup h (s "Sec-WebSocket-Key") with | some k => validKeyB k | none => false) &&
  lookup h (s "Sec-WebSocket-Version") == some (s "13")

/-- 4.1 (validation of the server's response, items 1-6) for a client that sent `key`, offered the subprotocols in
    `offered` (the value of its Sec-WebSocket-Protocol field, if any) and no extension.  Field values are the
    ones an HTTP parser hands over (surrounding white space already removed). -/
def clientRequiresB (key : Bytes) (offered : Option Bytes) (status : Nat) (h : Hdrs) : Bool :=
  status == 101 &&
  (match lookup h (s "Upgrade") with | some v => ciEq v (s "websocket") | none => false) &&
  (match lookup h (s "Connection") with | some v => hasToken v (s "upgrade") | none => false) &&
  (match lookup h (s "Sec-WebSocket-Accept") with | some v => v == acceptFor key | none => false) &&
  (lookup h (s "Sec-WebSocket-Extensions")).isNone &&
  (match lookup h (s "Sec-WebSocket-Protocol") with
   | none => true
   | some p => match offered with
     | none => false
     | some o => (tokens o).any (· == p))

/-! ## Part 2: the rule set of nng's handshake -/

def isSep (c : UInt8) : Bool := c = 32 || c = 44

/-- `w` (case-insensitively) occupies the first |w| bytes of `p` and is followed by the end, ' ' or ',' -/
def matchAt (p w : Bytes) : Bool :=
  decide (w.length ≤ p.length) && ciEq (p.take w.length) w &&
    (match p.drop w.length with
     | [] => true
     | c :: _ => isSep c)

/-- candidates after the first position: the byte after a run of separators that contained a space -/
def scan (w : Bytes) : Bytes → Bool → Bool
  | [], _ => false
  | c :: r, spaced =>
    if isSep c then scan w r (spaced || c == 32)
    else (spaced && matchAt (c :: r) w) || scan w r false

def hasWord (p w : Bytes) : Bool := !p.isEmpty && (matchAt p w || scan w p false)

def isSpace (c : UInt8) : Bool := c.toNat = 32 || (9 ≤ c.toNat && c.toNat ≤ 13)

/-- the decimal number a C `atoi` reads: white space, an optional sign, digits; a `long` that saturates, then the
    low 32 bits as a signed int (so 4294967296 reads as 0) -/
def leadingInt (v : Bytes) : Int :=
  let v := v.dropWhile isSpace
  let (neg, d) := match v with
    | 45 :: r => (true, r)
    | 43 :: r => (false, r)
    | _ => (false, v)
  let n := (d.takeWhile fun c => 48 ≤ c.toNat && c.toNat ≤ 57).foldl (fun acc c => acc * 10 + (c.toNat - 48)) 0
  let l : Int := if neg then - Int.ofNat (min n (2 ^ 63)) else Int.ofNat (min n (2 ^ 63 - 1))
  (l + 2 ^ 31) % 2 ^ 32 - 2 ^ 31

/-- `t` occurs in `v`, case-insensitively -/
def ciContains (v t : Bytes) : Bool :=
  (List.range (v.length + 1)).any fun i => decide (i + t.length ≤ v.length) && ciEq ((v.drop i).take t.length) t

inductive Expect where
  | error (status : Nat)
  | upgrade (accept : Bytes) (proto : Option Bytes)
  deriving DecidableEq, Repr

/-- the server's rules in the order they are applied, each with the status answered when it is the first to fail.
    `single`: the variant of the last rule in which the client must offer exactly one subprotocol token (a non-empty
    value without ' ' and ','); nng at the pinned revision has `single = false` (the whole value is matched as one word) -/
def serverRules (single closed : Bool) (lproto : Option Bytes) (method version : Bytes) (h : Hdrs) : List (Bool × Nat) :=
  [ (!closed, 503),
    (version == s "HTTP/1.1", 505),
    (method == s "GET", 400),
    (!((match lookup h (s "Content-Length") with | some v => decide (leadingInt v > 0) | none => false) ||
       (match lookup h (s "Transfer-Encoding") with | some v => ciContains v (s "chunked") | none => false)), 413),
    ((match lookup h (s "Upgrade") with | some v => hasWord v (s "websocket") | none => false) &&
     (match lookup h (s "Connection") with | some v => hasWord v (s "upgrade") | none => false) &&
     lookup h (s "Sec-WebSocket-Version") == some (s "13"), 400),
    ((match lookup h (s "Sec-WebSocket-Key") with | some k => k.length == 24 | none => false), 400),
    ((match lookup h (s "Sec-WebSocket-Protocol"), lproto with
      | none, none => true
      | some p, some lp => (!single || (!p.isEmpty && !p.any isSep)) && hasWord lp p
      | _, _ => false), 400) ]

/-- upgraded exactly when every rule holds; otherwise the status of the first rule that fails -/
def serverExpected (single closed : Bool) (lproto : Option Bytes) (method version : Bytes) (h : Hdrs) : Expect :=
  match (serverRules single closed lproto method version h).find? (fun r => !r.1) with
  | some r => .error r.2
  | none => .upgrade (acceptFor ((lookup h (s "Sec-WebSocket-Key")).getD [])) (lookup h (s "Sec-WebSocket-Protocol"))

/-- the 101 response: exactly these header fields -/
def serverResponse (accept : Bytes) (proto : Option Bytes) : Hdrs :=
  [(s "Connection", s "Upgrade"), (s "Upgrade", s "websocket"), (s "Sec-WebSocket-Accept", accept)] ++
    (match proto with | some p => [(s "Sec-WebSocket-Protocol", p)] | none => [])

/-- the client's request -/
def clientRequest (dproto : Option Bytes) (host key : Bytes) : Hdrs :=
  [(s "Host", host), (s "Connection", s "Upgrade"), (s "Upgrade", s "websocket"), (s "Sec-WebSocket-Key", key),
   (s "Sec-WebSocket-Version", s "13")] ++ (match dproto with | some p => [(s "Sec-WebSocket-Protocol", p)] | none => [])

/-- result of the dial for a status other than 101: permission (16), refusal (6), protocol error (13) -/
def statusResult (status : Nat) : Nat :=
  if status = 101 then 0
  else if status = 403 ∨ status = 401 then 16
  else if status = 404 ∨ status = 405 ∨ status = 501 then 6
  else 13

/-- the client's rules; `upgradeExact`: the Upgrade value must be the lower-case literal (nng's dialer) -/
def clientExpected (dproto : Option Bytes) (key : Bytes) (status : Nat) (h : Hdrs) : Nat :=
  if statusResult status ≠ 0 then statusResult status
  else if key.length ≠ 24 then 3
  else if !((lookup h (s "Sec-WebSocket-Accept") == some (acceptFor key)) &&
            (match lookup h (s "Connection") with | some v => hasWord v (s "upgrade") | none => false) &&
            (lookup h (s "Upgrade") == some (s "websocket"))) then 13
  else match dproto with
    | none => 0
    | some dp => match lookup h (s "Sec-WebSocket-Protocol") with
      | none => 13
      | some v => if hasWord dp v then 0 else 13

end Nng.WsSpec
