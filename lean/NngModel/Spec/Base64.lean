/-
  Specification of base64 (RFC 4648 section 4), group-wise, with its own alphabet, independent of
  the implementation's bit accumulator.  Core Lean only.
-/
import NngModel.Base.Bytes
namespace Nng.Base64Spec

def alphabet : List Char :=
  "ABCDEFGHIJKLMNOPQRSTUVWXYZabcdefghijklmnopqrstuvwxyz0123456789+/".toList

def sym (i : Nat) : UInt8 := UInt8.ofNat (alphabet.getD i 'A').toNat

def val? (c : UInt8) : Option Nat :=
  let n := c.toNat
  if 65 ≤ n ∧ n ≤ 90 then some (n - 65)
  else if 97 ≤ n ∧ n ≤ 122 then some (n - 71)
  else if 48 ≤ n ∧ n ≤ 57 then some (n + 4)
  else if n = 43 then some 62
  else if n = 47 then some 63
  else none

/-- 3 octets → 4 symbols; 2 → 3 symbols and "="; 1 → 2 symbols and "==" -/
def encode : Bytes → Bytes
  | a :: b :: c :: r =>
    let n := a.toNat * 65536 + b.toNat * 256 + c.toNat
    sym (n / 262144) :: sym (n / 4096 % 64) :: sym (n / 64 % 64) :: sym (n % 64) :: encode r
  | [a, b] =>
    let n := a.toNat * 65536 + b.toNat * 256
    [sym (n / 262144), sym (n / 4096 % 64), sym (n / 64 % 64), 61]
  | [a] =>
    let n := a.toNat * 65536
    [sym (n / 262144), sym (n / 4096 % 64), 61, 61]
  | [] => []

def isSpace (c : UInt8) : Bool := c.toNat = 32 || (9 ≤ c.toNat && c.toNat ≤ 13)

/-- the sextets of the leading run of alphabet symbols, white space skipped (RFC 2045 leniency) -/
def sextets : Bytes → List Nat
  | [] => []
  | c :: r =>
    if isSpace c then sextets r
    else match val? c with
      | some v => v :: sextets r
      | none => []

/-- 4 sextets → 3 octets; a final group of 3 → 2 octets, of 2 → 1 octet, of 1 → nothing -/
def octets : List Nat → Bytes
  | a :: b :: c :: d :: r =>
    UInt8.ofNat (a * 4 + b / 16) :: UInt8.ofNat (b % 16 * 16 + c / 4) :: UInt8.ofNat (c % 4 * 64 + d) :: octets r
  | [a, b, c] => [UInt8.ofNat (a * 4 + b / 16), UInt8.ofNat (b % 16 * 16 + c / 4)]
  | [a, b] => [UInt8.ofNat (a * 4 + b / 16)]
  | _ => []

def decode (inp : Bytes) : Bytes := octets (sextets inp)

end Nng.Base64Spec
