/-
  C07, raw mode — trace predicates for the raw SURVEYOR (xsurvey.c) and raw RESPONDENT
  (xrespond.c) sockets: what an application (a device, C13) may rely on.  No protocol-internal
  state: what arrived, what the application offered, what it was handed, what went on which wire.
  Routing words, backtraces and the classification of arrivals are those of C13's specification
  (`BtSpec.classify`, `BtSpec.classifyNoTtl`).  Bodies are pairwise distinct within a case (the
  check generates them so); pipe ids are canonical (`index + 1`; the check renames the real ones).

  Raw SURVEYOR
    X1  fan-out: a send that completes successfully is offered, header and body unchanged, to every
        pipe attached at that moment, once: an idle pipe gets it on its wire in the same step; a pipe
        with a transfer in flight queues it while fewer than `depth` (16) messages wait for that pipe,
        otherwise that pipe's copy — the whole message — is discarded.  Nothing else reaches a wire;
        per pipe the wire order is the order of the sends; nothing goes twice on the same wire;
        a queued message goes out as soon as its pipe's transfer completes.
    X2  a delivered response is an arrival that C13 classifies as accepted (no hop limit, header
        capacity 16 words): header = its backtrace (the words up to the one with the high bit, moved
        from the body), body = the payload; per pipe in arrival order, at most once; any other arrival
        (no terminator, too many words) closes its pipe and is not delivered.
  Raw RESPONDENT
    Y1  a delivered survey is an arrival accepted under the socket's hop limit at that moment:
        header = the id of the pipe it arrived on, then its backtrace; body = the payload; per pipe in
        arrival order, at most once; malformed arrivals close their pipe, arrivals with too many hops
        do not (they are dropped), neither is delivered.
    Y2  a successfully sent message goes only to the pipe named by its first header word, with the
        remaining header words and the body unchanged: idle pipe ⇒ on the wire in the same step; busy
        pipe ⇒ queued while fewer than `depth` (2) wait, else discarded whole.  A header shorter
        than one word, or naming no attached pipe ⇒ discarded, never on any wire.  Per pipe the wire
        order is the order of the sends, nothing twice, nothing held back while its pipe is idle.
  Both
    Z1  a send never fails except for its own zero timeout / cancel / close, and then leaves the
        message with the caller; a receive that fails carries no message.
    Z2  NNG_FLAG_NONBLOCK calls complete in their own step without blocking; a non-blocking receive
        while a deliverable message is held succeeds (msgqueue.c repaired, c50b100).
    Z3  no receiver is kept waiting while a deliverable message is held.
    Z4  poll: the receive descriptor is readable if a deliverable message is held and not readable if
        nothing is held; a non-blocking call right after a poll agrees with it (readable/writable ⇒
        not NNG_EAGAIN, not readable/writable ⇒ NNG_EAGAIN).
-/
import NngModel.Proto.Base
import NngModel.Spec.Backtrace
import NngModel.Generated.Base
namespace Nng.RawSurveySpec
open Nng Nng.Proto

structure Held where
  pipe : Nat
  hdr : Bytes
  body : Bytes
  maybe : Bool := false      -- its pipe has closed since: it was freed unless it had already reached the socket's queue
deriving Repr, DecidableEq, Inhabited

structure Offer where
  aio : Nat
  hdr : Bytes
  body : Bytes
  nb : Bool
deriving Repr, DecidableEq, Inhabited

structure XJ where
  ttl : Nat := 8
  live : List Nat := []
  busy : List Nat := []
  held : List Held := []                 -- arrivals awaiting delivery
  recvs : List (Nat × Bool) := []        -- pending receive aios (aio, non-blocking)
  sends : List Offer := []               -- pending send aios
  acc : List Held := []                  -- expected on the wire of `pipe`, in this order per pipe
  wired : List (Nat × Bytes) := []       -- (pipe, body)
  polled : Option (Bool × Bool) := none  -- result of a poll in the previous step
  closed : Bool := false
  err : Option String := none
deriving Repr

def XJ.fail (j : XJ) (msg : String) : XJ :=
  match j.err with | some _ => j | none => { j with err := some msg }

/-- canonical pipe id word -/
def idWord (p : Nat) : Bytes := beEncode 4 (p + 1)

/-- header capacity in routing words -/
def capWords : Nat := Nng.Generated.maxMaxTtl + 1

/-- per-pipe send queue depth the property statement names: 2 (raw RESPONDENT), 16 (raw SURVEYOR);
    `C07.raw_code_shapes` ties them to the C source -/
def depth (resp : Bool) : Nat := if resp then 2 else 16

def isDone : Out → Bool | .done .. => true | _ => false
def isBlocked : Out → Bool | .blocked _ => true | _ => false
def notExecuted (outs : List Out) : Bool :=
  outs.any (fun o => match o with | .other _ => true | _ => false)

def deliver (j : XJ) (a : Nat) (m : WMsg) : XJ :=
  match j.held.find? (·.body == m.body) with
  | none => j.fail s!"a message was delivered (aio {a}) that never arrived well-formed, or twice"
  | some h =>
    match j.held.find? (·.pipe == h.pipe) with
    | some h0 =>
      if h0 != h then j.fail s!"messages of pipe {h.pipe} delivered out of order"
      else if h.hdr != m.hdr then j.fail s!"delivered header is not the expected one (pipe {h.pipe})"
      else { j with held := j.held.erase h }
    | none => j

/-- a pipe takes an offered message: idle, or fewer than `depth` waiting for it -/
def takes (resp : Bool) (j : XJ) (p : Nat) : Bool :=
  !(j.busy.contains p) || decide ((j.acc.filter (·.pipe == p)).length < depth resp)

/-- a send completed successfully: where the message must go -/
def accept (resp : Bool) (j : XJ) (o : Offer) : XJ :=
  if resp then
    if o.hdr.length < 4 then j
    else
      let id := beDecode (o.hdr.take 4)
      if id == 0 || !(j.live.contains (id - 1)) then j
      else if takes resp j (id - 1) then { j with acc := j.acc ++ [⟨id - 1, o.hdr.drop 4, o.body, false⟩] }
      else j
  else
    j.live.foldl (fun j p => if takes resp j p then { j with acc := j.acc ++ [⟨p, o.hdr, o.body, false⟩] } else j) j

def xDone (resp : Bool) (j : XJ) (a rv : Nat) (msg : Option WMsg) (msgback : Bool) : XJ :=
  match j.recvs.find? (·.1 == a) with
  | some r =>
    let definite := j.held.any (fun h => !h.maybe)
    let j := { j with recvs := j.recvs.filter (·.1 != a) }
    let j := match j.polled with
      | some (rd, _) =>
        if r.2 && rd && rv == Err.eagain then j.fail "receive descriptor polled readable but a non-blocking receive returned NNG_EAGAIN"
        else if r.2 && !rd && rv == 0 then j.fail "receive descriptor polled not readable but a non-blocking receive succeeded"
        else j
      | none => j
    match rv, msg with
    | 0, some m => deliver j a m
    | 0, none => j.fail s!"receive {a} succeeded without a message"
    | _, some _ => j.fail s!"receive {a} failed with {rv} but carries a message"
    | _, none =>
      if r.2 && definite && rv == Err.eagain then j.fail s!"non-blocking receive {a} returned NNG_EAGAIN although a message is held"
      else j
  | none =>
    match j.sends.find? (·.aio == a) with
    | none => j.fail s!"completion of aio {a} that has no operation outstanding"
    | some o =>
      let j := { j with sends := j.sends.filter (·.aio != a) }
      let j := match j.polled with
        | some (_, wr) =>
          if o.nb && wr && rv == Err.eagain then j.fail "send descriptor polled writable but a non-blocking send returned NNG_EAGAIN"
          else if o.nb && !wr && rv == 0 then j.fail "send descriptor polled not writable but a non-blocking send succeeded"
          else j
        | none => j
      if rv == 0 then
        if msgback then j.fail s!"send {a} succeeded but the message came back"
        else accept resp j o
      else if !msgback then j.fail s!"send {a} failed with {rv} but the message was not left with the caller"
      else j

def xOut (_resp : Bool) (j : XJ) (o : Out) : XJ :=
  match o with
  | .psend p m =>
    if j.wired.contains (p, m.body) then j.fail s!"a message was put on the wire of pipe {p} twice"
    else if !(j.live.contains p) then j.fail s!"send on pipe {p} which is not connected"
    else if j.busy.contains p then j.fail s!"send on pipe {p} which still has a send in flight"
    else
      match j.acc.find? (·.pipe == p) with
      | none => j.fail s!"pipe {p} was handed a message that no accepted send addressed to it (or that should have been discarded)"
      | some a =>
        if a.body != m.body then
          j.fail s!"pipe {p}: messages sent out of order, or a message addressed to another pipe, or an accepted message was lost"
        else if a.hdr != m.hdr then j.fail s!"header on the wire of pipe {p} is not the expected one"
        else { j with acc := j.acc.erase a, wired := j.wired ++ [(p, m.body)], busy := j.busy ++ [p] }
  | .pclosed p =>
    { j with live := j.live.filter (· != p), busy := j.busy.filter (· != p),
             held := j.held.map (fun h => if h.pipe == p then { h with maybe := true } else h),
             acc := j.acc.filter (·.pipe != p) }
  | .poll (some r) _ =>
    if j.closed then j
    else if !r && j.held.any (fun h => !h.maybe) then j.fail "a message is held but the receive descriptor is not readable"
    else if r && j.held.isEmpty then j.fail "receive descriptor readable but no message is held"
    else j
  | _ => j

/-- what C13's classification demands for an arrival on pipe `p` -/
def arrival (resp : Bool) (j : XJ) (p : Nat) (b : Bytes) (outs : List Out) : XJ :=
  let v := if resp then BtSpec.classify j.ttl b else BtSpec.classifyNoTtl capWords b
  match v with
  | .accept bt payload =>
    if outs.contains (.pclosed p) then j.fail s!"a well-formed arrival closed pipe {p}"
    else { j with held := j.held ++ [⟨p, (if resp then idWord p ++ bt else bt), payload, false⟩] }
  | .malformed =>
    if outs.contains (.pclosed p) then j
    else j.fail s!"a malformed arrival did not close pipe {p}"
  | .drop =>
    if outs.contains (.pclosed p) then j.fail s!"an arrival with too many hops closed pipe {p}" else j

/-- `resp = true`: raw RESPONDENT, else raw SURVEYOR -/
def xStep (resp : Bool) (j : XJ) (ev : Ev) (outs : List Out) : XJ :=
  if j.err.isSome then j else
  if notExecuted outs then j else
  let ok0 := outs.contains (.rv 0)
  let (j, nb) : XJ × Option Nat :=
    match ev with
    | .recv none a mode => ({ j with recvs := j.recvs ++ [(a, mode == .nb)] }, match mode with | .nb => some a | _ => none)
    | .send none a m mode => ({ j with sends := j.sends ++ [⟨a, m.hdr, m.body, mode == .nb⟩] }, match mode with | .nb => some a | _ => none)
    | .recv (some _) a _ => ({ j with recvs := j.recvs ++ [(a, false)] }, none)
    | .send (some _) a m _ => ({ j with sends := j.sends ++ [⟨a, m.hdr, m.body, false⟩] }, none)
    | .recvDone p (.ok b) => if ok0 then (arrival resp j p b outs, none) else (j, none)
    | .sendDone p rv => if ok0 && rv == 0 then ({ j with busy := j.busy.filter (· != p) }, none) else (j, none)
    | .setopt none "ttl-max" "int" v => if ok0 then ({ j with ttl := v.toNat }, none) else (j, none)
    | .close => ({ j with closed := true }, none)
    | _ => (j, none)
  let j := outs.foldl (fun j o => match o with
    | .pipe p => if p ≥ 0 && !(outs.contains (.pclosed p.toNat)) then { j with live := j.live ++ [p.toNat] } else j
    | _ => j) j
  let dones := outs.filter isDone
  let rest := outs.filter (fun o => !isDone o)
  let j := dones.foldl (fun j o => match o with | .done a rv m mb => xDone resp j a rv m mb | _ => j) j
  let j := rest.foldl (xOut resp) j
  let j := match nb with
    | some a => if dones.any (fun o => match o with | .done a' _ _ _ => a' == a | _ => false) then j
                else j.fail s!"non-blocking call {a} did not complete at once"
    | none => j
  let j := if outs.any isBlocked then j.fail "a non-blocking call blocked" else j
  let j := { j with polled := outs.findSome? (fun o => match o with | .poll (some r) (some w) => some (r, w) | _ => none) }
  if j.closed then j
  else if !j.recvs.isEmpty && j.held.any (fun h => !h.maybe) then j.fail "a receiver is kept waiting although a message is held"
  else
    match j.acc.find? (fun (a : Held) => j.live.contains a.pipe && !(j.busy.contains a.pipe)) with
    | some a => j.fail s!"an accepted message for idle pipe {a.pipe} is held back"
    | none => j

def xsurveyJudge (tr : List (Ev × List Out)) : Option String :=
  (tr.foldl (fun j x => xStep false j x.1 x.2) ({} : XJ)).err
def xrespondJudge (tr : List (Ev × List Out)) : Option String :=
  (tr.foldl (fun j x => xStep true j x.1 x.2) ({} : XJ)).err

end Nng.RawSurveySpec
