/-
  C02 — asynchronous operations complete exactly once: the property as an executable
  predicate over EXECUTIONS, i.e. lists of observations of one `nng_aio` as a user and a
  provider can make them (calls, returns, the cancel function being run, the callback
  entering and leaving, virtual time passing).  Nothing here mentions the state of
  aio.c / taskq.c.  The monitor `judge` folds over an execution and reports the first
  violated clause:

    exactly-once      a callback (or a set skip flag) per started operation, never more;
                      at quiescence exactly as many
    result stability  the callback reports the code with which the operation was completed
                      (the provider's, or that of the cancel call that won), and the code
                      does not change afterwards
    no early timeout  NNG_ETIMEDOUT is reported only when the configured duration has passed
                      since the operation was started; a sleep does not end early
    one-shot expiry   an absolute expiry (nng_aio_set_expire) governs the next operation started
                      only: once that operation is completed through the provider (a test-and-remove
                      was won, or the provider completed it synchronously: nni_aio_finish_impl clears
                      a_use_expire) the relative timeout configured last with nng_aio_set_timeout is in
                      force again; nng_aio_set_timeout drops it too; a start that nni_aio_start refuses
                      (stopped, abort pending, already expired) does not consume it
    timer liveness    when nothing more can happen unless time passes or a call is made (`settled`),
                      no operation that the generic provider accepted is still pending with its
                      deadline strictly in the past
    cancel codes      a cancel / abort / stop code is reported only for an operation during whose
                      lifetime that cancel / abort / stop was issued
    quiescence        when nng_aio_stop returns, no callback is running that began before the stop was
                      called or that reports an operation whose start had returned before the stop was
                      called, and every such operation has reported (a start racing with the stop is
                      refused; its NNG_ESTOPPED callback runs without nng_aio_stop waiting for it, so it
                      may be running when the stop returns); later callbacks carry NNG_ESTOPPED; when
                      nng_aio_free returns no callback at all is running (a start racing with
                      nng_aio_free is a caller error), and afterwards nothing happens on the aio
-/
import NngModel.Generated.C02
namespace Nng.AioSpec

def ETIMEDOUT : Nat := Nng.Generated.aioEtimedout
def ESTOPPED : Nat := Nng.Generated.aioEstopped
def ECANCELED : Nat := Nng.Generated.aioEcanceled

/-- the timeout configured on the aio -/
inductive Tmo | zero | never | ms (d : Nat)
deriving Repr, DecidableEq, Inhabited, BEq, Hashable

/-- how an operation is started: on the generic provider (`nng_aio_start` + park), as a sleep,
    completed synchronously by the provider with `rv` (no `nni_aio_start`), or on a real
    provider the monitor knows nothing about (socket receive/send, dialer start) -/
inductive Kind | gen | slp (ms : Nat) | direct (rv : Nat) | ext
deriving Repr, DecidableEq, Inhabited, BEq, Hashable

inductive Obs
  | setTimeout (t : Tmo) | setExpire (abs : Nat) | skipArm
  | subCall (k : Kind) | subRet (v : Nat)
  | provDone (rv : Nat) (won : Bool)      -- provider completion test-and-remove
  | cancelRan (rv : Nat) (won : Bool)     -- the cancel function ran (test-and-remove)
  | abortCall (rv : Nat) | abortRet | closeCall
  | auxBad                                -- an auxiliary aio of the harness saw a callback without an operation, or none
  | cbBegin (r : Nat) | cbEnd
  | peek (r : Nat)                        -- `nng_aio_result` read while no operation is pending
  | stopCall | stopRet | freeCall | freeRet
  | tick (d : Nat)
  | quiet                                 -- end of the execution: everything has drained
  | settled                               -- every thread of the program and of the library is blocked or idle:
                                          -- nothing more happens unless virtual time passes or a call is made
deriving Repr, DecidableEq, Inhabited, BEq

structure Op where
  kind : Kind
  tsub : Nat
  tmo : Tmo
  absExp : Option Nat
  decided : Option Nat := none
  ret : Option Nat := none
  tret : Nat := 0               -- virtual time at which the start call returned
  retBeforeStop : Bool := false
  reported : Bool := false
  userTimeout : Bool := false   -- the user itself passed ETIMEDOUT to abort
  aborts : List Nat := []       -- codes of the aborts that were in flight at, or called after, the start
deriving Repr, Inhabited

structure J where
  now : Nat := 0
  tmo : Tmo := .never
  absExp : Option Nat := none
  ops : List Op := []          -- newest first
  reports : Nat := 0
  openCb : Nat := 0
  oldCb : Nat := 0             -- running callbacks that nng_aio_stop has to wait for (see `cbBegin`)
  lastCb : Option Nat := none
  skipArmed : Bool := false
  openAborts : Nat := 0         -- nng_aio_abort calls that have not returned
  openCodes : List Nat := []    -- their codes (kept while any of them is still in flight)
  stopCalled : Bool := false
  stopReturned : Bool := false
  freeReturned : Bool := false
  err : Option String := none
deriving Repr, Inhabited

def J.fail (j : J) (m : String) : J := if j.err.isSome then j else { j with err := some m }

def updNewest (ops : List Op) (f : Op → Op) : List Op :=
  match ops with
  | [] => []
  | o :: r => f o :: r

/-- the operation the next report belongs to: operations report in the order they were started -/
def J.pendingOp (j : J) : Option Op := j.ops.reverse[j.reports]?

def markReported (ops : List Op) (idx : Nat) : List Op :=
  let n := ops.length
  ops.mapIdx fun i o => if n - 1 - i = idx then { o with reported := true } else o

/-- is ETIMEDOUT legitimate for `o` at time `now`? -/
def timeoutDue (o : Op) (now : Nat) : Bool :=
  match o.absExp with
  | some e => decide (e ≤ now)
  | none =>
    match o.tmo with
    | .zero => true
    | .never => false
    | .ms d => decide (o.tsub + d ≤ now)

/-- has the deadline of `o` certainly passed at `now`?  (`nni_aio_start` reads the clock for a relative
    timeout somewhere between the call and the return of the start; the expire thread fires strictly
    after the deadline) -/
def overdue (o : Op) (now : Nat) : Bool :=
  match o.absExp with
  | some e => decide (e < now)
  | none =>
    match o.tmo with
    | .ms d => decide (o.tret + d < now)
    | _ => false

/-- may a completion that nobody decided by a test-and-remove (start refused, sleep, real provider)
    legitimately carry `r`?  A cancel/abort/stop code needs a cancel/abort/stop issued during the
    operation's lifetime (timeouts are judged by their own clause). -/
def unprovoked (o : Op) (r : Nat) (stopCalled : Bool) : Bool :=
  match o.kind with
  | .direct _ => true
  | .ext => r != ECANCELED || o.aborts.contains r
  | .gen => r == ETIMEDOUT || (r == ESTOPPED && stopCalled) || o.aborts.contains r
  | .slp _ => r == 0 || r == ETIMEDOUT || (r == ESTOPPED && stopCalled) || o.aborts.contains r

def step (j : J) (o : Obs) : J :=
  if j.err.isSome then j else
  if j.freeReturned then
    match o with
    | .tick d => { j with now := j.now + d }
    | .quiet => if j.reports = j.ops.length then j else j.fail "exactly-once: fewer reports than operations at quiescence"
    | .provDone _ false => j      -- the provider looked for the aio on its own list and did not find it
    | .settled => j
    | _ => j.fail "quiescence: event on the aio after nng_aio_free returned"
  else
  match o with
  | .tick d => { j with now := j.now + d }
  | .setTimeout t => { j with tmo := t, absExp := none }
  | .setExpire e => { j with absExp := some e }
  | .skipArm => { j with skipArmed := true }
  | .subCall k =>
    -- (an abort still in flight at the start may hit this operation: its code, ETIMEDOUT included, is the user's)
    -- (one-shot expiry: an operation the provider completes synchronously goes through nni_aio_finish,
    --  which clears a_use_expire; for the others see the test-and-remove observations)
    { j with ops := { kind := k, tsub := j.now, tmo := j.tmo, absExp := j.absExp, aborts := j.openCodes,
                      userTimeout := j.openCodes.contains ETIMEDOUT } :: j.ops,
             absExp := match k with | .direct _ => none | _ => j.absExp }
  | .subRet v =>
    -- (a start refused after nng_aio_stop returned completes the operation with NNG_ESTOPPED)
    let j := { j with ops := updNewest j.ops fun o =>
      { o with ret := some v, tret := j.now, retBeforeStop := !j.stopCalled,
               decided := if v = 0 && j.stopReturned && o.kind == Kind.gen && o.decided.isNone then some ESTOPPED else o.decided } }
    match j.ops with
    | o :: _ =>
      match o.kind with
      | .direct _ =>
        -- v = 1: the skip flag was set instead of running the callback
        if v = 1 then
          if j.reports + 1 = j.ops.length then
            -- (no callback reported this operation's result: nothing to compare a later `peek` with)
            { j with reports := j.reports + 1, ops := markReported j.ops j.reports, skipArmed := false, lastCb := none }
          else j.fail "exactly-once: skip flag set while another report is pending"
        else { j with skipArmed := false }
      | _ => j
    | [] => j
  | .provDone rv won =>
    if !won then j else
    match j.ops with
    | o :: _ =>
      if o.decided.isSome || o.reported then j.fail "exactly-once: operation completed twice (provider)"
      -- (one-shot expiry: whoever wins the test-and-remove calls nni_aio_finish, which clears a_use_expire)
      else { j with ops := updNewest j.ops fun o => { o with decided := some rv }, absExp := none }
    | [] => j.fail "exactly-once: completion without an operation"
  | .cancelRan rv won =>
    if !won then j else
    match j.ops with
    | o :: _ =>
      if o.decided.isSome || o.reported then j.fail "exactly-once: operation completed twice (cancel)"
      else { j with ops := updNewest j.ops fun o => { o with decided := some rv }, absExp := none }
    | [] => j.fail "exactly-once: cancellation without an operation"
  | .abortCall rv =>
    { j with openAborts := j.openAborts + 1, openCodes := rv :: j.openCodes,
             ops := updNewest j.ops fun o =>
               { o with userTimeout := o.userTimeout || rv = ETIMEDOUT, aborts := rv :: o.aborts } }
  | .abortRet =>
    if j.openAborts ≤ 1 then { j with openAborts := 0, openCodes := [] } else { j with openAborts := j.openAborts - 1 }
  | .auxBad => j.fail "exactly-once: an auxiliary aio on the same provider got a callback without an operation (or none)"
  | .closeCall => { j with stopCalled := true }
  | .cbBegin r =>
    match j.pendingOp with
    | none => j.fail "exactly-once: callback without a pending operation"
    | some o =>
      -- (a callback nng_aio_stop waits for: it begins before any stop / close / free call, or reports an
      --  operation whose start had returned before that call; when several callbacks run, those are taken to end first)
      let j1 := { j with reports := j.reports + 1, ops := markReported j.ops j.reports,
                         openCb := j.openCb + 1, lastCb := some r,
                         oldCb := j.oldCb + (if !j.stopCalled || o.retBeforeStop then 1 else 0) }
      if o.decided.isSome && o.decided != some r then
        j1.fail s!"result: callback reports {r} but the operation was completed with {o.decided.getD 0}"
      else if r = ETIMEDOUT && !o.userTimeout && o.decided != some r && o.kind != .ext && !timeoutDue o j.now then
        j1.fail "timeout: NNG_ETIMEDOUT before the configured duration"
      else if r = ETIMEDOUT && !o.userTimeout && (o.decided == some r || o.kind == .ext) && !timeoutDue o j.now then
        j1.fail "timeout: NNG_ETIMEDOUT before the configured duration"
      else if r = 0 && o.decided.isNone && (match o.kind with | .slp ms => decide (j.now < o.tsub + ms) && o.tmo != .zero | _ => false) then
        j1.fail "timeout: sleep ended early"
      else if o.decided.isNone && !unprovoked o r j.stopCalled then
        j1.fail s!"cancel: code {r} reported but no cancel/abort/stop with that code was issued during the operation"
      else if j.stopReturned && r ≠ ESTOPPED && (match o.kind with | .direct _ => false | .ext => false | _ => true) then
        j1.fail "quiescence: callback with a result other than NNG_ESTOPPED after nng_aio_stop returned"
      else j1
  | .cbEnd => { j with openCb := j.openCb - 1, oldCb := j.oldCb - 1 }
  | .peek r =>
    if j.reports = j.ops.length && j.lastCb.isSome && j.lastCb != some r then
      j.fail s!"result: result changed from {j.lastCb.getD 0} to {r} after the callback"
    else j
  | .stopCall => { j with stopCalled := true }
  | .stopRet =>
    if j.oldCb ≠ 0 then j.fail "quiescence: a callback is running when nng_aio_stop returns"
    else if j.ops.any (fun o => o.retBeforeStop && !o.reported) then
      j.fail "quiescence: an operation started before nng_aio_stop has not reported when it returns"
    else { j with stopReturned := true }
  | .freeCall => { j with stopCalled := true }
  | .freeRet =>
    if j.openCb ≠ 0 then j.fail "quiescence: a callback is running when nng_aio_free returns"
    else { j with freeReturned := true }
  | .quiet =>
    if j.reports = j.ops.length then j else j.fail "exactly-once: fewer reports than operations at quiescence"
  | .settled =>
    match j.ops with
    | o :: _ =>
      if o.kind == Kind.gen && o.ret == some 1 && !o.reported && overdue o j.now then
        j.fail "timeout: an operation is still pending after its deadline although nothing else can happen"
      else j
    | [] => j

/-- the monitor: `none` = the execution satisfies C02 -/
def judge (tr : List Obs) : Option String := (tr.foldl step {}).err

end Nng.AioSpec
