/-
  C19 specification, with no reference to how url.c computes anything.

  * `WellFormedUtf8`: the Unicode Standard's Table 3-7 "Well-Formed UTF-8 Byte Sequences",
    one constructor per table row.  `wellFormedUtf8b` is the executable form used by the
    driver; `wellFormedUtf8b_iff` ties the two.
  * `Canonical`: canonical form of "path?query#fragment".
  * `KnownScheme`, `judge`: what an accepted URL must look like, judged on the fields the
    implementation reports.
  Core Lean only.
-/
import NngModel.Base.Bytes
import NngModel.Generated.C19
namespace Nng.UrlSpec
open Nng

/-- 80..BF -/
def Tail (b : UInt8) : Prop := 0x80 ≤ b ∧ b ≤ 0xBF

/-- Unicode 15, Table 3-7.  Code points → byte ranges:
    U+0000..U+007F      00..7F
    U+0080..U+07FF      C2..DF 80..BF
    U+0800..U+0FFF      E0     A0..BF 80..BF
    U+1000..U+CFFF      E1..EC 80..BF 80..BF
    U+D000..U+D7FF      ED     80..9F 80..BF
    U+E000..U+FFFF      EE..EF 80..BF 80..BF
    U+10000..U+3FFFF    F0     90..BF 80..BF 80..BF
    U+40000..U+FFFFF    F1..F3 80..BF 80..BF 80..BF
    U+100000..U+10FFFF  F4     80..8F 80..BF 80..BF -/
inductive WellFormedUtf8 : Bytes → Prop
  | nil : WellFormedUtf8 []
  | ascii (b : UInt8) (r : Bytes) : b ≤ 0x7F → WellFormedUtf8 r → WellFormedUtf8 (b :: r)
  | two (b0 b1 : UInt8) (r : Bytes) : 0xC2 ≤ b0 → b0 ≤ 0xDF → Tail b1 →
      WellFormedUtf8 r → WellFormedUtf8 (b0 :: b1 :: r)
  | threeE0 (b0 b1 b2 : UInt8) (r : Bytes) : b0 = 0xE0 → 0xA0 ≤ b1 → b1 ≤ 0xBF → Tail b2 →
      WellFormedUtf8 r → WellFormedUtf8 (b0 :: b1 :: b2 :: r)
  | threeE1EC (b0 b1 b2 : UInt8) (r : Bytes) : 0xE1 ≤ b0 → b0 ≤ 0xEC → Tail b1 → Tail b2 →
      WellFormedUtf8 r → WellFormedUtf8 (b0 :: b1 :: b2 :: r)
  | threeED (b0 b1 b2 : UInt8) (r : Bytes) : b0 = 0xED → 0x80 ≤ b1 → b1 ≤ 0x9F → Tail b2 →
      WellFormedUtf8 r → WellFormedUtf8 (b0 :: b1 :: b2 :: r)
  | threeEEEF (b0 b1 b2 : UInt8) (r : Bytes) : 0xEE ≤ b0 → b0 ≤ 0xEF → Tail b1 → Tail b2 →
      WellFormedUtf8 r → WellFormedUtf8 (b0 :: b1 :: b2 :: r)
  | fourF0 (b0 b1 b2 b3 : UInt8) (r : Bytes) : b0 = 0xF0 → 0x90 ≤ b1 → b1 ≤ 0xBF → Tail b2 →
      Tail b3 → WellFormedUtf8 r → WellFormedUtf8 (b0 :: b1 :: b2 :: b3 :: r)
  | fourF1F3 (b0 b1 b2 b3 : UInt8) (r : Bytes) : 0xF1 ≤ b0 → b0 ≤ 0xF3 → Tail b1 → Tail b2 →
      Tail b3 → WellFormedUtf8 r → WellFormedUtf8 (b0 :: b1 :: b2 :: b3 :: r)
  | fourF4 (b0 b1 b2 b3 : UInt8) (r : Bytes) : b0 = 0xF4 → 0x80 ≤ b1 → b1 ≤ 0x8F → Tail b2 →
      Tail b3 → WellFormedUtf8 r → WellFormedUtf8 (b0 :: b1 :: b2 :: b3 :: r)

def tailb (b : UInt8) : Bool := 0x80 ≤ b && b ≤ 0xBF

/-- second-byte range of Table 3-7 for a lead byte, and the number of further tail bytes;
    `none`: the byte never starts a well-formed sequence (80..C1, F5..FF) -/
def row (b0 : UInt8) : Option (UInt8 × UInt8 × Nat) :=
  if 0xC2 ≤ b0 && b0 ≤ 0xDF then some (0x80, 0xBF, 0)
  else if b0 = 0xE0 then some (0xA0, 0xBF, 1)
  else if 0xE1 ≤ b0 && b0 ≤ 0xEC then some (0x80, 0xBF, 1)
  else if b0 = 0xED then some (0x80, 0x9F, 1)
  else if 0xEE ≤ b0 && b0 ≤ 0xEF then some (0x80, 0xBF, 1)
  else if b0 = 0xF0 then some (0x90, 0xBF, 2)
  else if 0xF1 ≤ b0 && b0 ≤ 0xF3 then some (0x80, 0xBF, 2)
  else if b0 = 0xF4 then some (0x80, 0x8F, 2)
  else none

/-- executable form (fuel = length).  An absent byte reads as 0, which lies in no range of the
    table, so no separate length test is needed. -/
def wfLoop : Nat → Bytes → Bool
  | _, [] => true
  | 0, _ :: _ => false
  | fuel + 1, b0 :: r =>
    if b0 ≤ 0x7F then wfLoop fuel r
    else
      match row b0 with
      | none => false
      | some (lo, hi, n) =>
        lo ≤ r.headD 0 && r.headD 0 ≤ hi &&
        (decide (n < 1) || tailb ((r.drop 1).headD 0)) &&
        (decide (n < 2) || tailb ((r.drop 2).headD 0)) &&
        wfLoop fuel (r.drop (n + 1))

def wellFormedUtf8b (s : Bytes) : Bool := wfLoop s.length s

/-! ### canonical form -/

def isUpHex (c : UInt8) : Bool := (0x30 ≤ c && c ≤ 0x39) || (0x41 ≤ c && c ≤ 0x46)
def isHex (c : UInt8) : Bool := isUpHex c || (0x61 ≤ c && c ≤ 0x66)
def hexv (c : UInt8) : Nat :=
  if 0x30 ≤ c && c ≤ 0x39 then c.toNat - 0x30
  else if 0x41 ≤ c && c ≤ 0x46 then c.toNat - 0x41 + 10
  else if 0x61 ≤ c && c ≤ 0x66 then c.toNat - 0x61 + 10 else 0

/-- RFC 3986 unreserved: ALPHA DIGIT - . _ ~ -/
def unreserved (v : Nat) : Bool :=
  (0x41 ≤ v && v ≤ 0x5A) || (0x61 ≤ v && v ≤ 0x7A) || (0x30 ≤ v && v ≤ 0x39) ||
  v = 0x2D || v = 0x2E || v = 0x5F || v = 0x7E

/-- every '%' starts an escape with two upper-case hex digits whose value is neither an
    unreserved character nor a byte ≥ 0x80 (those must appear decoded) -/
def escapesCanonical : Bytes → Bool
  | [] => true
  | c :: r =>
    if c = 0x25 then
      match r with
      | h1 :: h2 :: r' =>
        isUpHex h1 && isUpHex h2 && !(unreserved (hexv h1 * 16 + hexv h2)) &&
          decide (hexv h1 * 16 + hexv h2 < 0x80) && escapesCanonical r'
      | _ => false
    else escapesCanonical r

/-- every '%' starts a syntactically valid escape -/
def escapesValid : Bytes → Bool
  | [] => true
  | c :: r =>
    if c = 0x25 then
      match r with
      | h1 :: h2 :: r' => isHex h1 && isHex h2 && escapesValid r'
      | _ => false
    else escapesValid r

/-- all escapes decoded (input must satisfy `escapesValid`) -/
def decodeAll : Bytes → Bytes
  | [] => []
  | c :: r =>
    if c = 0x25 then
      match r with
      | h1 :: h2 :: r' => UInt8.ofNat (hexv h1 * 16 + hexv h2) :: decodeAll r'
      | _ => c :: r
    else c :: decodeAll r

def pathEnd (c : UInt8) : Bool := c = 0x3F || c = 0x23
/-- the part before the first '?' or '#' -/
def pathPart (s : Bytes) : Bytes := s.takeWhile (fun c => !pathEnd c)

def noDoubleSlash : Bytes → Bool
  | a :: b :: r => !(a = 0x2F && b = 0x2F) && noDoubleSlash (b :: r)
  | _ => true

/-- "." or ".." followed by the end of the path or '/' -/
def dotSegHere : Bytes → Bool
  | [a] => a = 0x2E
  | [a, b] => (a = 0x2E && b = 0x2F) || (a = 0x2E && b = 0x2E)
  | a :: b :: c :: _ => (a = 0x2E && b = 0x2F) || (a = 0x2E && b = 0x2E && c = 0x2F)
  | [] => false

/-- no "/." or "/.." segment -/
def noDotSegment : Bytes → Bool
  | [] => true
  | c :: r => !(c = 0x2F && dotSegHere r) && noDotSegment r

/-- canonical form of "path?query#fragment": path without empty, "." or ".." segments,
    escapes canonical everywhere -/
def canonicalb (s : Bytes) : Bool :=
  escapesCanonical s && noDoubleSlash (pathPart s) && noDotSegment (pathPart s)

def Canonical (s : Bytes) : Prop := canonicalb s = true

instance (s : Bytes) : Decidable (Canonical s) := by unfold Canonical; infer_instance

/-! ### schemes -/

def schemeTable : List Bytes := Generated.urlSchemes.map (·.map UInt8.ofNat)
def specialTable : List Bytes := Generated.urlSpecialSchemes.map (·.map UInt8.ofNat)

/-- exact membership -/
def KnownScheme (s : Bytes) : Prop := s ∈ schemeTable
instance (s : Bytes) : Decidable (KnownScheme s) := by unfold KnownScheme; infer_instance

def sepBytes : Bytes := [0x3A, 0x2F, 0x2F]

/-! ### judging an accepted URL on the reported fields -/

structure Fields where
  scheme : Bytes
  userinfo : Option Bytes
  hostname : Option Bytes
  port : Nat
  path : Bytes
  query : Option Bytes
  fragment : Option Bytes
deriving DecidableEq, Repr

def lower (c : UInt8) : UInt8 := if 0x41 ≤ c && c ≤ 0x5A then c + 0x20 else c
def isDig (c : UInt8) : Bool := 0x30 ≤ c && c ≤ 0x39
def decVal (s : Bytes) : Nat := s.foldl (fun a c => a * 10 + (c.toNat - 0x30)) 0

def authEnd (c : UInt8) : Bool := c = 0x2F || c = 0x3F || c = 0x23

def opt (c : UInt8) : Option Bytes → Bytes
  | none => []
  | some s => c :: s

/-- the authority "[userinfo@]host[:port]" of the input is well formed and the reported
    userinfo/host/port are the ones written there; `dflt` = reported port when none is written -/
def authorityOk (auth : Bytes) (f : Fields) : Option String :=
  let ats := auth.count 0x40
  if ats > 1 then some "authority has two '@'" else
  let ui : Option Bytes := if ats = 1 then some (auth.takeWhile (· ≠ 0x40)) else none
  let hp := if ats = 1 then (auth.dropWhile (· ≠ 0x40)).tail else auth
  if f.userinfo ≠ ui then some "userinfo differs from the input's" else
  -- host: bracketed literal or name without ':'
  let (host, rest, okb) :=
    if hp.headD 0 = 0x5B then
      let inner := hp.tail.takeWhile (· ≠ 0x5D)
      let aft := hp.tail.dropWhile (· ≠ 0x5D)
      (inner, aft.tail, !aft.isEmpty)
    else (hp.takeWhile (· ≠ 0x3A), hp.dropWhile (· ≠ 0x3A), true)
  if !okb then some "IPv6 literal without ']'" else
  if hp.headD 0 = 0x5B && host.contains 0x5B then some "'[' inside an address literal" else
  if f.hostname ≠ some (host.map lower) then some "hostname is not the lower-cased host of the input" else
  if host.length ≥ 256 then some "hostname of 256 bytes or more" else
  match rest with
  | [] => none
  | c :: pt =>
    if c ≠ 0x3A then some "garbage after ']'" else
    if pt.isEmpty then some "empty port" else
    if !pt.all isDig then some "port is not a decimal number" else
    if decVal pt > 65535 then some "port above 65535" else
    if f.port ≠ decVal pt then some "port differs from the input's" else none

/-- `none` = fine, `some why` = the accepted URL violates the property -/
def judgeAccepted (input : Bytes) (f : Fields) : Option String :=
  if ¬ KnownScheme f.scheme then some "scheme not in the table" else
  if ¬ (f.scheme ++ sepBytes).isPrefixOf input then some "input does not start with <scheme>://" else
  let rest := input.drop (f.scheme.length + 3)
  if f.port > 65535 then some "port above 65535" else
  if specialTable.contains f.scheme then
    if f.path ≠ rest then some "path of a host-less scheme is not the rest of the input"
    else if f.hostname.isSome || f.userinfo.isSome || f.query.isSome || f.fragment.isSome || f.port ≠ 0 then
      some "host-less scheme with host/userinfo/query/fragment/port"
    else none
  else
    let auth := rest.takeWhile (fun c => !authEnd c)
    let pqf := rest.dropWhile (fun c => !authEnd c)
    match authorityOk auth f with
    | some why => some why
    | none =>
      if !escapesValid pqf then some "invalid percent escape accepted" else
      let out := f.path ++ opt 0x3F f.query ++ opt 0x23 f.fragment
      if f.path.any pathEnd then some "path contains '?' or '#'" else
      if (f.query.getD []).contains 0x23 then some "query contains '#'" else
      if !wellFormedUtf8b out then some "components are not well-formed UTF-8" else
      if !canonicalb out then some "components are not in canonical form" else
      none

/-- round trip: the URL printed by nng_url_sprintf parses to the same components (userinfo is
    not printed) -/
def sameButUserinfo (a b : Fields) : Bool :=
  a.scheme = b.scheme && a.hostname = b.hostname && a.port = b.port && a.path = b.path &&
  a.query = b.query && a.fragment = b.fragment

end Nng.UrlSpec
