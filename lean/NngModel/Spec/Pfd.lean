/- C10 / C02, the poller layer (src/platform/posix/posix_pollq_epoll.c): the guarantees of ONE
   nni_posix_pfd stated over what an outside observer can see while threads run - which calls have
   begun / returned, which callbacks have begun / returned and with which events, what the kernel holds
   (the epoll set entry, the descriptor), and the three "bad event" detectors (an access to the pfd after
   its memory was released, a system call on / a callback for the descriptor after close(fd), close(fd) of
   a descriptor still in the epoll set).  No reference to the pfd's fields or to the poller's state.

   An observation is taken after every step of any thread.  The same judge runs on the observations
   of the real code (harness/u_pfd.c) and - theorem `Nng.C10Pfd.judge_model` - accepts every
   contract-respecting run of the Lean model. -/
namespace Nng.PfdSpec

/-- a subset of {POLLIN, POLLOUT, POLLERR, POLLHUP} -/
structure Evs where
  i : Bool
  o : Bool
  e : Bool
  h : Bool
  deriving DecidableEq, Repr, Inhabited

namespace Evs
def none : Evs := ⟨false, false, false, false⟩
def errhup : Evs := ⟨false, false, true, true⟩
def union (a b : Evs) : Evs := ⟨a.i || b.i, a.o || b.o, a.e || b.e, a.h || b.h⟩
def inter (a b : Evs) : Evs := ⟨a.i && b.i, a.o && b.o, a.e && b.e, a.h && b.h⟩
def diff (a b : Evs) : Evs := ⟨a.i && !b.i, a.o && !b.o, a.e && !b.e, a.h && !b.h⟩
def isEmpty (a : Evs) : Bool := !(a.i || a.o || a.e || a.h)
def subset (a b : Evs) : Bool := (a.diff b).isEmpty
end Evs

/-- result of an arm call: ok / EEXIST / ENOENT / EBADF -/
inductive R
  | k | x | n | b
  deriving DecidableEq, Repr, Inhabited

structure Obs where
  -- kernel: the epoll set entry of the descriptor (printed as POLLIN 1 | POLLOUT 4 | POLLERR 8 | POLLHUP 16), the descriptor
  reg : Bool
  en : Bool
  mask : Evs
  fd : Bool
  -- calls (all threads, the callback included)
  nb : Nat                 -- begun
  nr : Nat                 -- returned
  ab : Nat                 -- arm begun
  kb : Nat                 -- close begun
  sb : Nat                 -- stop begun
  sr : Nat                 -- stop returned
  fb : Nat
  fr : Nat                 -- fini returned
  xr : Nat                 -- owner released the memory
  pb : Nat                 -- stop / fini / free begun from the callback
  sec : Bool               -- a thread is inside an arm call or the close part of a close / stop call
  cd : Bool                -- the epoll_ctl DEL of a close has been executed
  -- callbacks
  hv : Nat                 -- events of the pfd returned by epoll_wait
  cbB : Nat
  cbE : Nat
  hm : Evs                 -- mask of the last such event
  cm : Evs                 -- mask handed to the last callback
  la : Evs                 -- request of the last successful arm since the last such event / DEL
  -- detectors
  uaf : Bool
  badfd : Bool
  regc : Bool
  live : Bool              -- some thread can move even if the descriptor never becomes ready
  fin : Bool               -- every client program has run to its end
  res : List (List R)      -- per client: what its arm calls returned
  deriving DecidableEq, Repr

def Obs.quiet (o : Obs) : Bool := o.nb == o.nr
/-- every stop call begun has returned, and there is one -/
def Obs.synced (o : Obs) : Bool := o.sb == o.sr && 1 ≤ o.sr
def Obs.closeStarted (o : Obs) : Bool := 0 < o.kb + o.sb
def Obs.cbActive (o : Obs) : Bool := o.cbE < o.cbB

/-- the contract (Model/Pfd.lean `opAllowed`), recognised on observations: `p` before, `o` after the step -/
def contractStep (p o : Obs) : Option String :=
  if p.nb < o.nb && 0 < p.xr then some "k5:call-after-free"
  else if p.ab < o.ab && (p.sec || p.closeStarted) then some (if p.sec then "k1:arm-overlaps-arm-or-close" else "k2:arm-after-close")
  else if (p.kb < o.kb || p.sb < o.sb) && p.sec then some "k1:close-overlaps-arm-or-close"
  else if p.pb < o.pb then some "k3:stop-fini-free-from-callback"
  else if p.fb < o.fb && !(p.synced && p.fr == 0 && p.quiet) then some "k4:fini-before-stop-returned-or-not-alone"
  else if p.xr < o.xr && !(1 ≤ p.fr && p.quiet) then some "k5:free-before-fini-or-not-alone"
  else none

/-- clauses judged on one observation given the previous one (`cac`: callbacks begun after the DEL,
    counted by the judge); `none` = fine -/
def clauses (cac : Nat) (p o : Obs) : Option String :=
  if o.cbB < o.cbE || o.cbE + 1 < o.cbB then some "a:callback-overlaps-itself"
  else if o.cbActive && (o.synced || 1 ≤ o.fr) then some "a:callback-active-after-stop-or-fini-returned"
  else if p.cbB < o.cbB && (p.synced || 1 ≤ p.fr) then some "a:callback-begins-after-stop-or-fini-returned"
  else if o.uaf then some "d:pfd-memory-used-after-release"
  else if o.badfd then some "d:descriptor-used-after-close"
  else if o.regc then some "d:descriptor-closed-while-in-epoll-set"
  else if o.hv < o.cbB || o.cbB + 1 < o.hv then some "c:callbacks-do-not-match-reported-events"
  else if p.cbB < o.cbB && o.cm != p.hm then some "c:callback-events-differ-from-reported-events"
  else if !o.la.isEmpty && !(o.reg && o.en && o.la.subset o.mask) then some "c:armed-events-not-watched"
  else if 1 < cac then some "e:more-than-one-callback-after-close"
  else if o.cd && o.reg then some "e:registered-after-close"
  else if !o.live && o.hv != o.cbE then some "c:reported-event-never-delivered"
  else if !o.live && !o.fin then some "b:deadlock"
  else none

structure J where
  prev : Obs
  cac : Nat := 0
  off : Bool := false      -- the schedule left the contract: nothing is judged any more
  deriving Repr

inductive Verdict
  | ok
  | off
  | contract (k : String)
  | violation (c : String)
  deriving DecidableEq, Repr

def judgeStep (j : J) (o : Obs) : J × Verdict :=
  if j.off then (j, .off) else
  match contractStep j.prev o with
  | some k => ({ j with off := true }, .contract k)
  | none =>
    let cac := j.cac + (if j.prev.cbB < o.cbB && j.prev.cd then 1 else 0)
    ({ prev := o, cac := cac, off := false },
     match clauses cac j.prev o with
     | some c => .violation c
     | none => .ok)

/-- first violated clause of a run (the first observation is the initial one) -/
def judgeFrom (j : J) : List Obs → Option String
  | [] => none
  | o :: os =>
    match judgeStep j o with
    | (_, .violation c) => some c
    | (_, .contract _) => none
    | (_, .off) => none
    | (j', .ok) => judgeFrom j' os

end Nng.PfdSpec
