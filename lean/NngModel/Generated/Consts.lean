/- GENERATED umbrella: imports every Generated/<Group>.lean. Models import only the groups they use. -/
import NngModel.Generated.Base
import NngModel.Generated.C01
import NngModel.Generated.C02
import NngModel.Generated.C04REP
import NngModel.Generated.C04REQ
import NngModel.Generated.C05
import NngModel.Generated.C06
import NngModel.Generated.C07
import NngModel.Generated.C08
import NngModel.Generated.C09
import NngModel.Generated.C11
import NngModel.Generated.C13
import NngModel.Generated.C14
import NngModel.Generated.C16
import NngModel.Generated.C16H
import NngModel.Generated.C18
import NngModel.Generated.C19
