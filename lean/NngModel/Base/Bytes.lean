/-
  Shared basics: byte strings, hex, big-endian encodings, nng error numbers,
  the FNV-1a digest used by the line protocol.  Core Lean only.
-/
namespace Nng

abbrev Bytes := List UInt8

-- nng error numbers (include/nng/nng.h). Values are extracted and checked in
-- `Generated/Consts.lean`; the names here are only for readability.
namespace Err
def ok : Nat := 0
def eintr : Nat := 1
def enomem : Nat := 2
def einval : Nat := 3
def ebusy : Nat := 4
def etimedout : Nat := 5
def econnrefused : Nat := 6
def eclosed : Nat := 7
def eagain : Nat := 8
def enotsup : Nat := 9
def eaddrinuse : Nat := 10
def estate : Nat := 11
def enoent : Nat := 12
def eproto : Nat := 13
def eunreachable : Nat := 14
def eaddrinval : Nat := 15
def eperm : Nat := 16
def emsgsize : Nat := 17
def econnaborted : Nat := 18
def econnreset : Nat := 19
def ecanceled : Nat := 20
def enofiles : Nat := 21
def enospc : Nat := 22
def eexist : Nat := 23
def ereadonly : Nat := 24
def ewriteonly : Nat := 25
def ecrypto : Nat := 26
def epeerauth : Nat := 27
def ebadtype : Nat := 30
def econnshut : Nat := 31
def estopped : Nat := 999
end Err

def hexDigit (n : Nat) : Char :=
  if n < 10 then Char.ofNat (48 + n) else Char.ofNat (87 + n)

def hexByte (b : UInt8) : String :=
  String.ofList [hexDigit (b.toNat / 16), hexDigit (b.toNat % 16)]

/-- canonical hex form used on the wire of the line protocol: "-" for empty. -/
def toHex (bs : Bytes) : String :=
  if bs.isEmpty then "-" else String.join (bs.map hexByte)

def hexVal (c : Char) : Option Nat :=
  if '0' ≤ c ∧ c ≤ '9' then some (c.toNat - 48)
  else if 'a' ≤ c ∧ c ≤ 'f' then some (c.toNat - 87)
  else if 'A' ≤ c ∧ c ≤ 'F' then some (c.toNat - 55)
  else none

def parseHexAux : List Char → Bytes → Option Bytes
  | [], acc => some acc.reverse
  | [_], _ => none
  | a :: b :: rest, acc =>
    match hexVal a, hexVal b with
    | some x, some y => parseHexAux rest (UInt8.ofNat (x * 16 + y) :: acc)
    | _, _ => none

def parseHex (s : String) : Option Bytes :=
  if s == "-" then some [] else parseHexAux s.toList []

/-- big-endian encoding of the low `8*n` bits of `v` in `n` bytes (NNI_PUT16/32/64). -/
def beEncode : (n : Nat) → (v : Nat) → Bytes
  | 0, _ => []
  | n + 1, v => UInt8.ofNat (v / 256 ^ n % 256) :: beEncode n v

/-- big-endian decoding (NNI_GET16/32/64). -/
def beDecode (bs : Bytes) : Nat :=
  bs.foldl (fun acc b => acc * 256 + b.toNat) 0

/-- FNV-1a 64-bit, used only to abbreviate long byte strings in outputs. -/
def fnv64 (bs : Bytes) : UInt64 :=
  bs.foldl (fun h b => (h ^^^ b.toUInt64) * 0x100000001b3) 0xcbf29ce484222325

def hex64 (v : UInt64) : String :=
  String.ofList ((List.range 16).map fun i => hexDigit ((v.toNat / 16 ^ (15 - i)) % 16))

/-- digest form: `<len>:<fnv64>` -/
def digest (bs : Bytes) : String := s!"{bs.length}:{hex64 (fnv64 bs)}"

end Nng
