/-
  C16, HTTP request/response layer — property theorems (obligations).  Helper lemmas: Proofs/HttpConn.lean.
  Model: Model/HttpConn.lean (http_conn.c receive buffer + http_msg.c parsers + http_snprintf).
  Specification: Spec/HttpConn.lean (`decode`: the result as a function of the byte stream alone).

  The central statement is `req_decoding_is_stream_function` / `res_decoding_is_stream_function`: for EVERY
  connection state at the start of the operation, EVERY byte stream and EVERY way of handing it to the
  library in reads (each read takes as many of the available bytes as fit into the free part of the 8160-byte
  buffer, so every sequence of read sizes is covered), what `http_rd_buf` produces is the byte-serial decoding
  of the concatenation.  It rests on `pull_up_precedes_full_test`, a fact extracted from the source on every
  run: with the two statements in the other order the theorem is false (a valid head larger than the buffer
  is answered 431 or decoded depending on the read sizes) and this module no longer checks.
-/
import NngModel.Proofs.HttpConn
import NngModel.Generated.C16H
namespace Nng.C16Http
open Nng Nng.HttpConn
open Nng.HttpSpec (decode St Params decodeReq isBadCtl endsWithCR stepByte)

/-! ## facts about the source the proofs rest on (re-extracted on every run) -/

/-- http_rd_buf (HTTP_RD_REQ) compacts the buffer BEFORE it tests `rd_put == bufsz` -/
theorem pull_up_precedes_full_test : pullUpFirst = true := by decide

/-- http_rd_buf (HTTP_RD_REQ / HTTP_RD_RES) has the shape the model mirrors: parse from rd_get, advance,
    reset when drained; pull-up before the EMSGSIZE test -/
theorem rd_buf_shape : Generated.httpReqParseFromGet = true ∧ Generated.httpResPullUpBeforeSizeTest = true := by decide

/-- http_prepare formats into the connection buffer only when that buffer holds no unread received bytes
    (otherwise a pipelined request, or the start of a body, read together with the previous head would be
    overwritten by the head being written: the decoded result would depend on the segmentation) -/
theorem write_spares_unread_input : Generated.httpPrepareSparesUnread = true := by decide

/-- nni_http_res_parse refuses a response that starts with an empty line (no status line) -/
theorem response_needs_status_line : resRejectsEmptyHead = true := by decide

/-- the limits and the error statuses used below, as extracted -/
theorem extracted_values :
    bufsz = 8160 ∧ marker.length = 14 ∧ stBadRequest = 400 ∧ stUriTooLong = 414 ∧ stHeadersTooLarge = 431 ∧
    stVersionNotSupp = 505 ∧ rvProto = 13 ∧ rvMsgSize = 17 ∧ rvNotSup = 9 := by decide

/-! ## segmentation independence -/

/-- REQUESTS.  `c` = any open connection whose buffer content fits the buffer (what a previous operation left
    there, possibly the start of this request), `chunks` = the stream as it becomes available, piece by piece.
    The outcome (still incomplete: decoder state and pending bytes; complete: every decoded field of the
    request, the error status if any, and the length of the head; or the error that fails the connection) is
    the serial decoding of `c.pend ++ chunks.flatten`. -/
theorem req_decoding_is_stream_function (c : Conn) (chunks : List Bytes) (hopen : c.closed = false) (hfit : c.put ≤ bufsz) :
    modelOut (runRead true c chunks) = specOut (decode (msem true) bufsz marker (connReset c.m) (c.pend ++ chunks.flatten)) := by
  simpa using runRead_decode true pull_up_precedes_full_test c chunks hopen hfit

/-- RESPONSES, likewise. -/
theorem res_decoding_is_stream_function (c : Conn) (chunks : List Bytes) (hopen : c.closed = false) (hfit : c.put ≤ bufsz) :
    modelOut (runRead false c chunks) = specOut (decode (msem false) bufsz marker c.m (c.pend ++ chunks.flatten)) := by
  simpa using runRead_decode false pull_up_precedes_full_test c chunks hopen hfit

/-- cut independence in the form of the property: two segmentations of the same bytes give the same outcome -/
theorem cut_independent (isReq : Bool) (c : Conn) (chunks chunks' : List Bytes) (hopen : c.closed = false)
    (hfit : c.put ≤ bufsz) (hsame : chunks.flatten = chunks'.flatten) :
    modelOut (runRead isReq c chunks) = modelOut (runRead isReq c chunks') := by
  rw [runRead_decode isReq pull_up_precedes_full_test c chunks hopen hfit,
      runRead_decode isReq pull_up_precedes_full_test c chunks' hopen hfit, hsame]

/-- in particular: all at once, or one byte per read -/
theorem bytewise_eq_at_once (isReq : Bool) (c : Conn) (s : Bytes) (hopen : c.closed = false) (hfit : c.put ≤ bufsz) :
    modelOut (runRead isReq c (s.map fun b => [b])) = modelOut (runRead isReq c [s]) := by
  apply cut_independent isReq c _ _ hopen hfit
  induction s with
  | nil => rfl
  | cons a r ih => simp [List.flatten_cons] at ih ⊢; exact ih

/-! ## rule enforcement: which input yields which error -/

theorem strchr_none_of_not_mem (ch : UInt8) (s : Bytes) (h : ch ∉ s) : strchr ch s = none := by
  induction s with
  | nil => rfl
  | cons c r ih =>
    have h1 : c ≠ ch := fun e => h (by simp [e])
    have h2 : ch ∉ r := fun e => h (by simp [e])
    simp [strchr, h1, ih h2]

theorem strchr_split (ch : UInt8) (a b : Bytes) (h : ch ∉ a) : strchr ch (a ++ ch :: b) = some (a, b) := by
  induction a with
  | nil => simp [strchr]
  | cons c r ih =>
    have h1 : c ≠ ch := fun e => h (by simp [e])
    have h2 : ch ∉ r := fun e => h (by simp [e])
    simp [strchr, h1, ih h2]

/-- a request line without its two separators gets status 400 -/
theorem request_line_missing_separator (m : Msg) (line : Bytes) (hst : getStatus m < stBadRequest)
    (h : SP ∉ line ∨ ∃ a b, line = a ++ SP :: b ∧ SP ∉ a ∧ SP ∉ b) :
    (reqParseLine m line).code = 400 := by
  have hs : ¬ getStatus m ≥ stBadRequest := by omega
  unfold reqParseLine
  rw [if_neg hs]
  rcases h with h | ⟨a, b, rfl, ha, hb⟩
  · rw [strchr_none_of_not_mem SP line h]; rfl
  · rw [strchr_split SP a b ha]
    simp only
    rw [strchr_none_of_not_mem SP b hb]; rfl

/-- a request line whose URI the canonicaliser refuses gets status 400 -/
theorem request_line_bad_uri (m : Msg) (meth uri vers : Bytes) (hst : getStatus m < stBadRequest)
    (hm : SP ∉ meth) (hu : SP ∉ uri) (hbad : Url.canonify uri = none) :
    (reqParseLine m (meth ++ SP :: (uri ++ SP :: vers))).code = 400 := by
  have hs : ¬ getStatus m ≥ stBadRequest := by omega
  unfold reqParseLine
  rw [if_neg hs, strchr_split SP meth _ hm]
  simp only
  rw [strchr_split SP uri vers hu]
  simp only [hbad]
  rfl

/-- a request line with an unknown version gets status 505 -/
theorem request_line_bad_version (m : Msg) (meth uri u vers : Bytes) (hst : getStatus m < stBadRequest)
    (hm : SP ∉ meth) (hu : SP ∉ uri) (hc : Url.canonify uri = some u) (hv : versions.contains vers = false) :
    (reqParseLine m (meth ++ SP :: (uri ++ SP :: vers))).code = 505 := by
  have hs : ¬ getStatus m ≥ stBadRequest := by omega
  unfold reqParseLine
  rw [if_neg hs, strchr_split SP meth _ hm]
  simp only
  rw [strchr_split SP uri vers hu]
  simp only [hc, setVersion, hv]
  rfl

/-- a well-formed request line is decoded to exactly its three parts (method clipped to the field size) -/
theorem request_line_accepted (m : Msg) (meth uri u vers : Bytes) (hst : getStatus m < stBadRequest)
    (hm : SP ∉ meth) (hu : SP ∉ uri) (hc : Url.canonify uri = some u) (hv : versions.contains vers = true) :
    reqParseLine m (meth ++ SP :: (uri ++ SP :: vers)) = { m with vers := vers, meth := meth.take (methSize - 1), uri := some u } := by
  have hs : ¬ getStatus m ≥ stBadRequest := by omega
  unfold reqParseLine
  rw [if_neg hs, strchr_split SP meth _ hm]
  simp only
  rw [strchr_split SP uri vers hu]
  simp only [hc, setVersion, hv, if_true, setUri, setMethod]

/-- a line that reaches the size of the buffer without its LF: requests note 414 (request line) or 431
    (header line) and go on with the placeholder; responses fail with NNG_EMSGSIZE -/
theorem oversize_line (m : Msg) (acc : Bytes) (k : Nat) (x : UInt8) (hx : x ≠ HttpSpec.LF)
    (hok : (isBadCtl x || endsWithCR acc.reverse) = false) (hfull : acc.length + 1 = bufsz) :
    sstep true (.run m acc.reverse acc.length k) x
        = .run (setStatus m (if m.parsedReq then 431 else 414)) marker.reverse marker.length (k + 1) ∧
    sstep false (.run m acc.reverse acc.length k) x = .fail 17 := by
  have h1 : stHeadersTooLarge = 431 := by decide
  have h2 : stUriTooLong = 414 := by decide
  have h3 : HttpSpec.eMsgSize = 17 := by decide
  constructor
  · simp only [sstep, stepByte, if_neg hx, hok, hfull, msem]
    simp [h1, h2]
  · simp only [sstep, stepByte, if_neg hx, hok, hfull, msem]
    simp [h3]

/-- a control character other than CR, or a CR that is not followed by LF, fails the connection (NNG_EPROTO) -/
theorem control_character_rejected (isReq : Bool) (m : Msg) (racc : Bytes) (len k : Nat) (x : UInt8) (hx : x ≠ HttpSpec.LF)
    (hbad : (isBadCtl x || endsWithCR racc) = true) (rest : Bytes) :
    (x :: rest).foldl (sstep isReq) (.run m racc len k) = .fail 13 := by
  rw [List.foldl_cons]
  have : sstep isReq (.run m racc len k) x = .fail 13 := by
    simp only [sstep, stepByte, if_neg hx, hbad, if_true]
    rfl
  rw [this, foldl_fail]

/-- a status line without its two separators is a protocol error -/
theorem status_line_missing_separator (m : Msg) (line : Bytes)
    (h : SP ∉ line ∨ ∃ a b, line = a ++ SP :: b ∧ SP ∉ a ∧ SP ∉ b) : (resParseLine m line).2 = 13 := by
  unfold resParseLine
  rcases h with h | ⟨a, b, rfl, ha, hb⟩
  · rw [strchr_none_of_not_mem SP line h]; rfl
  · rw [strchr_split SP a b ha]
    simp only
    rw [strchr_none_of_not_mem SP b hb]; rfl

/-- a status code outside 100..999 is a protocol error; an unknown version is NNG_ENOTSUP -/
theorem status_line_bad_code (m : Msg) (vers code reason : Bytes) (hv : SP ∉ vers) (hc : SP ∉ code)
    (hbad : atoi code < 100 ∨ atoi code > 999) : (resParseLine m (vers ++ SP :: (code ++ SP :: reason))).2 = 13 := by
  unfold resParseLine
  rw [strchr_split SP vers _ hv]
  simp only
  rw [strchr_split SP code reason hc]
  have h : (decide (atoi code < (statusMin : Int)) || decide (atoi code > (statusMax : Int))) = true := by
    have h1 : (statusMin : Int) = 100 := by decide
    have h2 : (statusMax : Int) = 999 := by decide
    rw [h1, h2]
    rcases hbad with h | h <;> simp [h]
  simp only [h, if_true]
  rfl

theorem status_line_bad_version (m : Msg) (vers code reason : Bytes) (hv : SP ∉ vers) (hc : SP ∉ code)
    (hok : 100 ≤ atoi code ∧ atoi code ≤ 999) (hbad : versions.contains vers = false) :
    (resParseLine m (vers ++ SP :: (code ++ SP :: reason))).2 = 9 := by
  unfold resParseLine
  rw [strchr_split SP vers _ hv]
  simp only
  rw [strchr_split SP code reason hc]
  have h : ¬ ((decide (atoi code < (statusMin : Int)) || decide (atoi code > (statusMax : Int))) = true) := by
    have h1 : (statusMin : Int) = 100 := by decide
    have h2 : (statusMax : Int) = 999 := by decide
    rw [h1, h2]
    simp
    omega
  simp only [h, if_false, setVersion, hbad]
  rfl

/-- a response that begins with the empty line is a protocol error -/
theorem empty_response_rejected (m : Msg) (hp : m.parsedRes = false) : ((msem false).finish m).2 = 13 := by
  simp [msem, emptyRv, hp, response_needs_status_line]
  decide

/-! ## what is written parses back (line level) -/

/-- a status line as http_snprintf writes it is read back to the same version, code and reason -/
theorem status_line_round_trip (m : Msg) (vers code reason : Bytes) (n : Nat) (hv : SP ∉ vers) (hc : SP ∉ code)
    (hn : atoi code = (n : Int)) (hr : 100 ≤ n ∧ n ≤ 999) (hk : versions.contains vers = true) :
    resParseLine m (vers ++ SP :: (code ++ SP :: reason)) = ({ m with code := n, rsn := some reason, vers := vers }, 0) := by
  unfold resParseLine
  rw [strchr_split SP vers _ hv]
  simp only
  rw [strchr_split SP code reason hc]
  simp only [hn]
  have h : ¬ ((decide ((n : Int) < (statusMin : Int)) || decide ((n : Int) > (statusMax : Int))) = true) := by
    have h1 : (statusMin : Int) = 100 := by decide
    have h2 : (statusMax : Int) = 999 := by decide
    rw [h1, h2]
    simp
    omega
  rw [if_neg h]
  simp only [setVersion, setStatusReason, hk, if_true, Int.toNat_natCast]
  rfl

/-- a header line `name ": " value` as written is read back as (name, value) when the name has no colon and
    the value has no white space at its ends -/
theorem header_line_round_trip (m : Msg) (client : Bool) (k v : Bytes) (hk : COLON ∉ k)
    (hv : trimTrail (trimLead (SP :: v)) = v) :
    parseHeader m client (k ++ sColonSp ++ v) = (addHeader m client k v, 0) := by
  unfold parseHeader
  have : k ++ sColonSp ++ v = k ++ COLON :: (SP :: v) := by simp [sColonSp, ofNats, COLON, SP]
  rw [this, strchr_split COLON k _ hk]
  simp only [hv]
  rfl

/-! ## stated, checked by differential execution on every generated case, not proved -/

/-- the model's line meaning (`msem`, which mirrors http_msg.c with its header nodes) and the specification's
    (`reqSem`/`resSem`, by header names) decode every stream to the same fields -/
def spec_lines_statement : Prop :=
  ∀ (p : Params) (s : Bytes), p.maxLine = bufsz → p.mark = marker → p.versions = versions → p.canon = Url.canonify →
    p.methMax = methSize - 1 → p.hostMax = hostSize - 1 → p.ctypeMax = ctypeSize - 1 → p.clenMax = clenSize - 1 →
    p.statusMin = statusMin → p.statusMax = statusMax →
    (match decode (msem true) bufsz marker (connReset {}) s, decodeReq p { vers := defaultVersion } s with
     | .done m n, .done r n' => n = n' ∧ getStatus m = r.effStatus ∧ m.meth = r.meth ∧ getUri m = r.uri ∧ m.vers = r.vers ∧
                                  m.reqHdrs.map (fun h => (h.name, h.value)) = r.hdrs
     | .fail a, .fail b => a = b
     | .run _ _ _ _, .run _ _ _ _ => True
     | _, _ => False)

/-- the head written for a request decodes to the fields it was written from -/
def emit_round_trip_statement : Prop :=
  ∀ (m : Msg), SP ∉ m.meth → m.meth.length < methSize → (∀ c ∈ m.meth, 0x20 < c) →
    (match m.uri with | some u => Url.canonify u = some u ∧ SP ∉ u | none => True) →
    (∀ h ∈ m.reqHdrs, COLON ∉ h.name ∧ trimTrail (trimLead h.value) = h.value) →
    (emitReq m).length < bufsz →
    ∃ m' n, decode (msem true) bufsz marker (connReset {}) (emitReq m) = .done m' n ∧ n = (emitReq m).length ∧
      m'.meth = m.meth ∧ getUri m' = getUri m ∧ m'.vers = m.vers

/-! ## the hypotheses are satisfiable: concrete, non-trivial instances -/

/-- a request cut inside the request line, inside a header name and inside the final CRLF, against the same
    bytes in one piece; the connection still holds the tail of a previous body at a non-zero offset -/
example :
    modelOut (runRead true { get := 5, pend := ofNats [71, 69] } [ofNats [84, 32, 47], ofNats [97, 32, 72, 84, 84, 80, 47, 49, 46, 49, 13, 10, 72, 111],
                                        ofNats [115, 116, 58, 32, 120, 13, 10, 13], ofNats [10, 66]])
      = modelOut (runRead true { get := 5, pend := ofNats [71, 69] }
          [ofNats [84, 32, 47, 97, 32, 72, 84, 84, 80, 47, 49, 46, 49, 13, 10, 72, 111, 115, 116, 58, 32, 120, 13, 10, 13, 10, 66]]) :=
  cut_independent true _ _ _ rfl (by decide) (by decide)

example : Url.canonify (ofNats [47, 97]) = some (ofNats [47, 97]) ∧ versions.contains (ofNats [72, 84, 84, 80, 47, 49, 46, 49]) = true ∧
    getStatus (connReset {}) < stBadRequest := by decide

end Nng.C16Http
