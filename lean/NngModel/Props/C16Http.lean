/-
  C16, HTTP request/response layer — property theorems (obligations).  Helper lemmas: Proofs/HttpConn.lean.
  Model: Model/HttpConn.lean (http_conn.c receive buffer + http_msg.c parsers + http_snprintf).
  Specification: Spec/HttpConn.lean (`decode`: the result as a function of the byte stream alone).

  The central statement is `req_decoding_is_stream_function` / `res_decoding_is_stream_function`: for EVERY
  connection state at the start of the operation, EVERY byte stream and EVERY way of handing it to the
  library in reads (each read takes as many of the available bytes as fit into the free part of the 8160-byte
  buffer, so every sequence of read sizes is covered), what `http_rd_buf` produces is the byte-serial decoding
  of the concatenation.  It rests on `pull_up_precedes_full_test`, a fact extracted from the source on every
  run: with the two statements in the other order the theorem is false (a valid head larger than the buffer
  is answered 431 or decoded depending on the read sizes) and this module no longer checks.
-/
import NngModel.Proofs.HttpConn
import NngModel.Proofs.HttpSpecLines
import NngModel.Proofs.HttpSpecLinesRes
import NngModel.Proofs.HttpEmit
import NngModel.Generated.C16H
namespace Nng.C16Http
open Nng Nng.HttpConn
open Nng.HttpSpec (decode St Params decodeReq decodeRes isBadCtl endsWithCR stepByte)

/-! ## facts about the source the proofs rest on (re-extracted on every run) -/

/-- http_rd_buf (HTTP_RD_REQ) compacts the buffer BEFORE it tests `rd_put == bufsz` -/
theorem pull_up_precedes_full_test : pullUpFirst = true := by decide

/-- http_rd_buf (HTTP_RD_REQ / HTTP_RD_RES) has the shape the model mirrors: parse from rd_get, advance,
    reset when drained; pull-up before the EMSGSIZE test -/
theorem rd_buf_shape : Generated.httpReqParseFromGet = true ∧ Generated.httpResPullUpBeforeSizeTest = true := by decide

/-- http_prepare formats into the connection buffer only when that buffer holds no unread received bytes
    (otherwise a pipelined request, or the start of a body, read together with the previous head would be
    overwritten by the head being written: the decoded result would depend on the segmentation) -/
theorem write_spares_unread_input : Generated.httpPrepareSparesUnread = true := by decide

/-- nni_http_res_parse refuses a response that starts with an empty line (no status line) -/
theorem response_needs_status_line : resRejectsEmptyHead = true := by decide

/-- the limits and the error statuses used below, as extracted -/
theorem extracted_values :
    bufsz = 8160 ∧ marker.length = 14 ∧ stBadRequest = 400 ∧ stUriTooLong = 414 ∧ stHeadersTooLarge = 431 ∧
    stVersionNotSupp = 505 ∧ rvProto = 13 ∧ rvMsgSize = 17 ∧ rvNotSup = 9 := by decide

/-! ## segmentation independence -/

/-- REQUESTS.  `c` = any open connection whose buffer content fits the buffer (what a previous operation left
    there, possibly the start of this request), `chunks` = the stream as it becomes available, piece by piece.
    The outcome (still incomplete: decoder state and pending bytes; complete: every decoded field of the
    request, the error status if any, and the length of the head; or the error that fails the connection) is
    the serial decoding of `c.pend ++ chunks.flatten`. -/
theorem req_decoding_is_stream_function (c : Conn) (chunks : List Bytes) (hopen : c.closed = false) (hfit : c.put ≤ bufsz) :
    modelOut (runRead true c chunks) = specOut (decode (msem true) bufsz marker (connReset c.m) (c.pend ++ chunks.flatten)) := by
  simpa using runRead_decode true pull_up_precedes_full_test c chunks hopen hfit

/-- RESPONSES, likewise. -/
theorem res_decoding_is_stream_function (c : Conn) (chunks : List Bytes) (hopen : c.closed = false) (hfit : c.put ≤ bufsz) :
    modelOut (runRead false c chunks) = specOut (decode (msem false) bufsz marker c.m (c.pend ++ chunks.flatten)) := by
  simpa using runRead_decode false pull_up_precedes_full_test c chunks hopen hfit

/-- cut independence in the form of the property: two segmentations of the same bytes give the same outcome -/
theorem cut_independent (isReq : Bool) (c : Conn) (chunks chunks' : List Bytes) (hopen : c.closed = false)
    (hfit : c.put ≤ bufsz) (hsame : chunks.flatten = chunks'.flatten) :
    modelOut (runRead isReq c chunks) = modelOut (runRead isReq c chunks') := by
  rw [runRead_decode isReq pull_up_precedes_full_test c chunks hopen hfit,
      runRead_decode isReq pull_up_precedes_full_test c chunks' hopen hfit, hsame]

/-- in particular: all at once, or one byte per read -/
theorem bytewise_eq_at_once (isReq : Bool) (c : Conn) (s : Bytes) (hopen : c.closed = false) (hfit : c.put ≤ bufsz) :
    modelOut (runRead isReq c (s.map fun b => [b])) = modelOut (runRead isReq c [s]) := by
  apply cut_independent isReq c _ _ hopen hfit
  induction s with
  | nil => rfl
  | cons a r ih => simp [List.flatten_cons] at ih ⊢; exact ih

/-! ## rule enforcement: which input yields which error -/

theorem strchr_none_of_not_mem (ch : UInt8) (s : Bytes) (h : ch ∉ s) : strchr ch s = none := by
  induction s with
  | nil => rfl
  | cons c r ih =>
    have h1 : c ≠ ch := fun e => h (by simp [e])
    have h2 : ch ∉ r := fun e => h (by simp [e])
    simp [strchr, h1, ih h2]

theorem strchr_split (ch : UInt8) (a b : Bytes) (h : ch ∉ a) : strchr ch (a ++ ch :: b) = some (a, b) := by
  induction a with
  | nil => simp [strchr]
  | cons c r ih =>
    have h1 : c ≠ ch := fun e => h (by simp [e])
    have h2 : ch ∉ r := fun e => h (by simp [e])
    simp [strchr, h1, ih h2]

/-- a request line without its two separators gets status 400 -/
theorem request_line_missing_separator (m : Msg) (line : Bytes) (hst : getStatus m < stBadRequest)
    (h : SP ∉ line ∨ ∃ a b, line = a ++ SP :: b ∧ SP ∉ a ∧ SP ∉ b) :
    (reqParseLine m line).code = 400 := by
  have hs : ¬ getStatus m ≥ stBadRequest := by omega
  unfold reqParseLine
  rw [if_neg hs]
  rcases h with h | ⟨a, b, rfl, ha, hb⟩
  · rw [strchr_none_of_not_mem SP line h]; rfl
  · rw [strchr_split SP a b ha]
    simp only
    rw [strchr_none_of_not_mem SP b hb]; rfl

/-- a request line whose URI the canonicaliser refuses gets status 400 -/
theorem request_line_bad_uri (m : Msg) (meth uri vers : Bytes) (hst : getStatus m < stBadRequest)
    (hm : SP ∉ meth) (hu : SP ∉ uri) (hbad : Url.canonify uri = none) :
    (reqParseLine m (meth ++ SP :: (uri ++ SP :: vers))).code = 400 := by
  have hs : ¬ getStatus m ≥ stBadRequest := by omega
  unfold reqParseLine
  rw [if_neg hs, strchr_split SP meth _ hm]
  simp only
  rw [strchr_split SP uri vers hu]
  simp only [hbad]
  rfl

/-- a request line with an unknown version gets status 505 -/
theorem request_line_bad_version (m : Msg) (meth uri u vers : Bytes) (hst : getStatus m < stBadRequest)
    (hm : SP ∉ meth) (hu : SP ∉ uri) (hc : Url.canonify uri = some u) (hv : versions.contains vers = false) :
    (reqParseLine m (meth ++ SP :: (uri ++ SP :: vers))).code = 505 := by
  have hs : ¬ getStatus m ≥ stBadRequest := by omega
  unfold reqParseLine
  rw [if_neg hs, strchr_split SP meth _ hm]
  simp only
  rw [strchr_split SP uri vers hu]
  simp only [hc, setVersion, hv]
  rfl

/-- a well-formed request line is decoded to exactly its three parts (method clipped to the field size) -/
theorem request_line_accepted (m : Msg) (meth uri u vers : Bytes) (hst : getStatus m < stBadRequest)
    (hm : SP ∉ meth) (hu : SP ∉ uri) (hc : Url.canonify uri = some u) (hv : versions.contains vers = true) :
    reqParseLine m (meth ++ SP :: (uri ++ SP :: vers)) = { m with vers := vers, meth := meth.take (methSize - 1), uri := some u } := by
  have hs : ¬ getStatus m ≥ stBadRequest := by omega
  unfold reqParseLine
  rw [if_neg hs, strchr_split SP meth _ hm]
  simp only
  rw [strchr_split SP uri vers hu]
  simp only [hc, setVersion, hv, if_true, setUri, setMethod]

/-- a line that reaches the size of the buffer without its LF: requests note 414 (request line) or 431
    (header line) and go on with the placeholder; responses fail with NNG_EMSGSIZE -/
theorem oversize_line (m : Msg) (acc : Bytes) (k : Nat) (x : UInt8) (hx : x ≠ HttpSpec.LF)
    (hok : (isBadCtl x || endsWithCR acc.reverse) = false) (hfull : acc.length + 1 = bufsz) :
    sstep true (.run m acc.reverse acc.length k) x
        = .run (setStatus m (if m.parsedReq then 431 else 414)) marker.reverse marker.length (k + 1) ∧
    sstep false (.run m acc.reverse acc.length k) x = .fail 17 := by
  have h1 : stHeadersTooLarge = 431 := by decide
  have h2 : stUriTooLong = 414 := by decide
  have h3 : HttpSpec.eMsgSize = 17 := by decide
  constructor
  · simp only [sstep, stepByte, if_neg hx, hok, hfull, msem]
    simp [h1, h2]
  · simp only [sstep, stepByte, if_neg hx, hok, hfull, msem]
    simp [h3]

/-- a control character other than CR, or a CR that is not followed by LF, fails the connection (NNG_EPROTO) -/
theorem control_character_rejected (isReq : Bool) (m : Msg) (racc : Bytes) (len k : Nat) (x : UInt8) (hx : x ≠ HttpSpec.LF)
    (hbad : (isBadCtl x || endsWithCR racc) = true) (rest : Bytes) :
    (x :: rest).foldl (sstep isReq) (.run m racc len k) = .fail 13 := by
  rw [List.foldl_cons]
  have : sstep isReq (.run m racc len k) x = .fail 13 := by
    simp only [sstep, stepByte, if_neg hx, hbad, if_true]
    rfl
  rw [this, foldl_fail]

/-- a status line without its two separators is a protocol error -/
theorem status_line_missing_separator (m : Msg) (line : Bytes)
    (h : SP ∉ line ∨ ∃ a b, line = a ++ SP :: b ∧ SP ∉ a ∧ SP ∉ b) : (resParseLine m line).2 = 13 := by
  unfold resParseLine
  rcases h with h | ⟨a, b, rfl, ha, hb⟩
  · rw [strchr_none_of_not_mem SP line h]; rfl
  · rw [strchr_split SP a b ha]
    simp only
    rw [strchr_none_of_not_mem SP b hb]; rfl

/-- a status code outside 100..999 is a protocol error; an unknown version is NNG_ENOTSUP -/
theorem status_line_bad_code (m : Msg) (vers code reason : Bytes) (hv : SP ∉ vers) (hc : SP ∉ code)
    (hbad : atoi code < 100 ∨ atoi code > 999) : (resParseLine m (vers ++ SP :: (code ++ SP :: reason))).2 = 13 := by
  unfold resParseLine
  rw [strchr_split SP vers _ hv]
  simp only
  rw [strchr_split SP code reason hc]
  have h : (decide (atoi code < (statusMin : Int)) || decide (atoi code > (statusMax : Int))) = true := by
    have h1 : (statusMin : Int) = 100 := by decide
    have h2 : (statusMax : Int) = 999 := by decide
    rw [h1, h2]
    rcases hbad with h | h <;> simp [h]
  simp only [h, if_true]
  rfl

theorem status_line_bad_version (m : Msg) (vers code reason : Bytes) (hv : SP ∉ vers) (hc : SP ∉ code)
    (hok : 100 ≤ atoi code ∧ atoi code ≤ 999) (hbad : versions.contains vers = false) :
    (resParseLine m (vers ++ SP :: (code ++ SP :: reason))).2 = 9 := by
  unfold resParseLine
  rw [strchr_split SP vers _ hv]
  simp only
  rw [strchr_split SP code reason hc]
  have h : ¬ ((decide (atoi code < (statusMin : Int)) || decide (atoi code > (statusMax : Int))) = true) := by
    have h1 : (statusMin : Int) = 100 := by decide
    have h2 : (statusMax : Int) = 999 := by decide
    rw [h1, h2]
    simp
    omega
  simp only [h, if_false, setVersion, hbad]
  rfl

/-- a response that begins with the empty line is a protocol error -/
theorem empty_response_rejected (m : Msg) (hp : m.parsedRes = false) : ((msem false).finish m).2 = 13 := by
  simp [msem, emptyRv, hp, response_needs_status_line]
  decide

/-! ## what is written parses back (line level) -/

/-- a status line as http_snprintf writes it is read back to the same version, code and reason -/
theorem status_line_round_trip (m : Msg) (vers code reason : Bytes) (n : Nat) (hv : SP ∉ vers) (hc : SP ∉ code)
    (hn : atoi code = (n : Int)) (hr : 100 ≤ n ∧ n ≤ 999) (hk : versions.contains vers = true) :
    resParseLine m (vers ++ SP :: (code ++ SP :: reason)) = ({ m with code := n, rsn := some reason, vers := vers }, 0) := by
  unfold resParseLine
  rw [strchr_split SP vers _ hv]
  simp only
  rw [strchr_split SP code reason hc]
  simp only [hn]
  have h : ¬ ((decide ((n : Int) < (statusMin : Int)) || decide ((n : Int) > (statusMax : Int))) = true) := by
    have h1 : (statusMin : Int) = 100 := by decide
    have h2 : (statusMax : Int) = 999 := by decide
    rw [h1, h2]
    simp
    omega
  rw [if_neg h]
  simp only [setVersion, setStatusReason, hk, if_true, Int.toNat_natCast]
  rfl

/-- a header line `name ": " value` as written is read back as (name, value) when the name has no colon and
    the value has no white space at its ends -/
theorem header_line_round_trip (m : Msg) (client : Bool) (k v : Bytes) (hk : COLON ∉ k)
    (hv : trimTrail (trimLead (SP :: v)) = v) :
    parseHeader m client (k ++ sColonSp ++ v) = (addHeader m client k v, 0) := by
  unfold parseHeader
  have : k ++ sColonSp ++ v = k ++ COLON :: (SP :: v) := by simp [sColonSp, ofNats, COLON, SP]
  rw [this, strchr_split COLON k _ hk]
  simp only [hv]
  rfl

/-! ## model's line meaning = the specification's -/

/-- nni_http_req_parse drops the result of http_parse_header (a request header line without ':' is skipped);
    the specification's `reqSem` says the same.  Extracted from the source on every run. -/
theorem req_header_errors_ignored : reqIgnoresHeaderError = true := by decide

/-- the model's line meaning (`msem`, which mirrors http_msg.c with its header nodes) and the specification's
    (`reqSem`/`resSem`, by header names) decode every stream to the same fields -/
def spec_lines_statement : Prop :=
  ∀ (p : Params) (s : Bytes), p.maxLine = bufsz → p.mark = marker → p.versions = versions → p.canon = Url.canonify →
    p.methMax = methSize - 1 → p.hostMax = hostSize - 1 → p.ctypeMax = ctypeSize - 1 → p.clenMax = clenSize - 1 →
    p.statusMin = statusMin → p.statusMax = statusMax →
    (match decode (msem true) bufsz marker (connReset {}) s, decodeReq p { vers := defaultVersion } s with
     | .done m n, .done r n' => n = n' ∧ getStatus m = r.effStatus ∧ m.meth = r.meth ∧ getUri m = r.uri ∧ m.vers = r.vers ∧
                                  m.reqHdrs.map (fun h => (h.name, h.value)) = r.hdrs
     | .fail a, .fail b => a = b
     | .run _ _ _ _, .run _ _ _ _ => True
     | _, _ => False)

/-- PROVED (every byte stream, complete or not): the decoder over the model's line meaning and the decoder
    over the specification's reach the same kind of state at the same stream position, with the same error
    number, resp. the same status, method, URI, version and header list (names and values, in order).
    Proof: the relation `RR` (Proofs/HttpSpecLines.lean) between the connection's message state and the
    specification's request — equal fields plus the invariant `TagsOk` (the embedded host_header node is the one
    header named Host; the embedded content_type / content_length nodes bear those names), under which unlinking
    a node by identity (nni_list_node_remove) and deleting by name coincide — is a simulation for the three
    operations of a line meaning (`msem_reqSem`); `decode_rel` lifts a simulation to all streams. -/
theorem spec_lines : spec_lines_statement := by
  intro p s h1 h2 h3 h4 h5 h6 h7 h8 _ _
  have hp : ReqParams p := { host := h6, ctype := h7, clen := h8, versions := h3, canon := h4, meth := h5 }
  have hrel := decode_rel RR (msem true) (HttpSpec.reqSem p) (msem_reqSem req_header_errors_ignored p hp) bufsz marker
    (connReset {}) { vers := defaultVersion } init_rel s
  unfold decodeReq
  rw [h1, h2]
  generalize decode (msem true) bufsz marker (connReset {}) s = x at hrel
  generalize decode (HttpSpec.reqSem p) bufsz marker { vers := defaultVersion } s = y at hrel
  cases hrel with
  | run a b racc len n hr => trivial
  | done a b n hr => exact ⟨rfl, effStatus_eq a b hr.status, hr.meth, hr.uri, hr.vers, hr.hdrs⟩
  | fail rv => rfl

/-- RESPONSES, likewise (every byte stream): the decoder over the model's line meaning (http_res_parse_line with
    glibc atoi, http_parse_header, nni_http_add_header on the response list, the `parsed` flag, the refusal of an
    empty head — `response_needs_status_line`) and the decoder over the specification's `resSem` reach the same
    kind of state at the same position, with the same error number (NNG_EPROTO / NNG_ENOTSUP / NNG_EMSGSIZE) resp.
    the same status code, reason, version and header list -/
theorem spec_lines_res (p : Params) (s : Bytes) (h1 : p.maxLine = bufsz) (h2 : p.mark = marker) (h3 : p.versions = versions)
    (h6 : p.hostMax = hostSize - 1) (h7 : p.ctypeMax = ctypeSize - 1) (h8 : p.clenMax = clenSize - 1)
    (h9 : p.statusMin = statusMin) (h10 : p.statusMax = statusMax) :
    (match decode (msem false) bufsz marker {} s, decodeRes p { vers := defaultVersion } s with
     | .done m n, .done r n' => n = n' ∧ m.code = r.status ∧ m.rsn = r.reason ∧ m.vers = r.vers ∧
                                  m.resHdrs.map (fun h => (h.name, h.value)) = r.hdrs
     | .fail a, .fail b => a = b
     | .run _ _ _ _, .run _ _ _ _ => True
     | _, _ => False) := by
  have hp : ResParams p := { host := h6, ctype := h7, clen := h8, versions := h3, smin := h9, smax := h10 }
  have hrel := decode_rel RS (msem false) (HttpSpec.resSem p) (msem_resSem response_needs_status_line p hp) bufsz marker
    {} { vers := defaultVersion } init_rel_res s
  unfold decodeRes
  rw [h1, h2]
  generalize decode (msem false) bufsz marker {} s = x at hrel
  generalize decode (HttpSpec.resSem p) bufsz marker { vers := defaultVersion } s = y at hrel
  cases hrel with
  | run a b racc len n hr => trivial
  | done a b n hr => exact ⟨rfl, hr.status, hr.reason, hr.vers, hr.hdrs⟩
  | fail rv => rfl

/-- with the read path: what `nni_http_read_req` delivers on a fresh connection, for every stream and every
    segmentation, is the specification's decoding of the stream (both in the observable form `specOut`/fields) -/
theorem read_req_meets_spec (p : Params) (chunks : List Bytes) (hp : ReqParams p) (h1 : p.maxLine = bufsz) (h2 : p.mark = marker) :
    ∃ st, modelOut (runRead true {} chunks) = specOut st ∧
      StRel RR st (decodeReq p { vers := defaultVersion } chunks.flatten) := by
  refine ⟨decode (msem true) bufsz marker (connReset {}) chunks.flatten, ?_, ?_⟩
  · simpa using req_decoding_is_stream_function {} chunks rfl (by decide)
  · unfold decodeReq
    rw [h1, h2]
    exact decode_rel RR (msem true) (HttpSpec.reqSem p) (msem_reqSem req_header_errors_ignored p hp) bufsz marker
      (connReset {}) { vers := defaultVersion } init_rel chunks.flatten

/-! ## whole-head emit → parse round trip -/

/-- the statement as first written: the head written for a request decodes to the fields it was written from.
    It is FALSE (`emit_round_trip_statement_false`): it puts no condition on the version, none on control
    characters in the URI, and none on control characters, CR or LF in header names and values. -/
def emit_round_trip_statement : Prop :=
  ∀ (m : Msg), SP ∉ m.meth → m.meth.length < methSize → (∀ c ∈ m.meth, 0x20 < c) →
    (match m.uri with | some u => Url.canonify u = some u ∧ SP ∉ u | none => True) →
    (∀ h ∈ m.reqHdrs, COLON ∉ h.name ∧ trimTrail (trimLead h.value) = h.value) →
    (emitReq m).length < bufsz →
    ∃ m' n, decode (msem true) bufsz marker (connReset {}) (emitReq m) = .done m' n ∧ n = (emitReq m).length ∧
      m'.meth = m.meth ∧ getUri m' = getUri m ∧ m'.vers = m.vers

/-- observation of a decoding: (0 incomplete / 1 head complete / 2 failed, stream position resp. error number,
    version, URI, number of headers) -/
def obs : St Msg → Nat × Nat × Bytes × Bytes × Nat
  | .run _ _ _ n => (0, n, [], [], 0)
  | .done m n => (1, n, m.vers, getUri m, m.reqHdrs.length)
  | .fail rv => (2, rv, [], [], 0)

/-- version "X" (nni_http_set_version refuses it, but the statement did not ask for a known version) -/
def exVers : Msg := { vers := ofNats [88] }
/-- header `A` with the value 0x01 -/
def exCtl : Msg := { reqHdrs := [{ name := ofNats [65], value := ofNats [1] }] }
/-- header `A` with the value "b CR LF CR LF GET /evil HTTP/1.1 CR LF Host: x": nni_http_set_header accepts it -/
def exSplit : Msg := { reqHdrs := [{ name := ofNats [65], value := ofNats [98, 13, 10, 13, 10, 71, 69, 84, 32, 47, 101, 118, 105, 108,
  32, 72, 84, 84, 80, 47, 49, 46, 49, 13, 10, 72, 111, 115, 116, 58, 32, 120] }] }
/-- URI "/" 0x01: the canonicaliser passes control characters through -/
def exUri : Msg := { uri := some (ofNats [47, 1]) }

/-- an unknown version is written as it is and answered 505: version (and method) are not read back -/
theorem emit_needs_known_version :
    obs (decode (msem true) bufsz marker (connReset {}) (emitReq exVers)) = (1, 11, defaultVersion, sSlash, 0) ∧
      exVers.vers ≠ defaultVersion := by decide

/-- a control character in a header value is written as it is; the reader fails the connection -/
theorem emit_needs_clean_header_value :
    trimTrail (trimLead (ofNats [1])) = ofNats [1] ∧
    obs (decode (msem true) bufsz marker (connReset {}) (emitReq exCtl)) = (2, 13, [], [], 0) := by decide

/-- CR LF CR LF in a header value is written as it is: the head ends after 24 of the 55 bytes written, and the
    remaining 31 bytes are a second, complete request (`GET /evil`) that the application never issued —
    request splitting.  Confirmed on the real code: corpus/C16/http-header-crlf-injection.txt. -/
theorem emit_needs_no_crlf_in_header_value :
    obs (decode (msem true) bufsz marker (connReset {}) (emitReq exSplit)) = (1, 24, defaultVersion, sSlash, 1) ∧
    (emitReq exSplit).length = 55 ∧
    obs (decode (msem true) bufsz marker (connReset {}) ((emitReq exSplit).drop 24)) = (1, 31, defaultVersion, ofNats [47, 101, 118, 105, 108], 1) := by
  decide

/-- a control character in the URI: accepted by the canonicaliser, written as it is, refused by the reader -/
theorem emit_needs_clean_uri :
    Url.canonify (ofNats [47, 1]) = some (ofNats [47, 1]) ∧ SP ∉ ofNats [47, 1] ∧
    obs (decode (msem true) bufsz marker (connReset {}) (emitReq exUri)) = (2, 13, [], [], 0) := by decide

/-- what a complete decoding holds: [method, URI, name, value, name, value …]; [] when not complete -/
def obsFields : St Msg → List Bytes
  | .done m _ => m.meth :: getUri m :: m.reqHdrs.flatMap fun h => [h.name, h.value]
  | _ => []

/-- the remaining conditions of `EmitOk`/`HdrOk` are needed as well: a space in the method ("GET x": read back
    as method GET, URI "x" refused ⇒ the method is not set either); a URI that is not a fixed point of the
    canonicaliser ("/a/../b" is read back as "/b"); a colon in a header name ("A:B" is read back as "A" with value
    "B: c"); white space at the start of a value (" x" is read back as "x") -/
theorem emit_needs_other_conditions :
    obsFields (decode (msem true) bufsz marker (connReset {}) (emitReq { meth := ofNats [71, 69, 84, 32, 120] })) =
      [sGET, sSlash] ∧
    obsFields (decode (msem true) bufsz marker (connReset {}) (emitReq { uri := some (ofNats [47, 97, 47, 46, 46, 47, 98]) })) =
      [sGET, ofNats [47, 98]] ∧
    obsFields (decode (msem true) bufsz marker (connReset {}) (emitReq { reqHdrs := [{ name := ofNats [65, 58, 66], value := ofNats [99] }] })) =
      [sGET, sSlash, ofNats [65], ofNats [66, 58, 32, 99]] ∧
    obsFields (decode (msem true) bufsz marker (connReset {}) (emitReq { reqHdrs := [{ name := ofNats [65], value := ofNats [32, 120] }] })) =
      [sGET, sSlash, ofNats [65], ofNats [120]] := by decide

/-- the statement as first written does not hold -/
theorem emit_round_trip_statement_false : ¬ emit_round_trip_statement := by
  intro h
  obtain ⟨m', n, hd, _, _, _, _⟩ := h exCtl (by decide) (by decide) (by decide) trivial (by decide) (by decide)
  have := emit_needs_clean_header_value.2
  rw [hd] at this
  cases this

/-- CORRECTED, PROVED.  `EmitOk m` (Proofs/HttpEmit.lean) = the version is one of the table, the method is shorter
    than conn->meth and has no byte ≤ 0x20, the URI (if set) is a fixed point of the canonicaliser without a byte
    ≤ 0x20, every header name is without ':' and every header name and value without a byte < 0x20, values
    without white space at their ends.  Then the head written (if it fits the buffer) is decoded completely — the
    head ends exactly at the end of what was written — to `parsedBack m`: the request line's three fields and
    nni_http_add_header replayed over the headers in the order written. -/
theorem emit_parses_back (m : Msg) (hok : EmitOk m) (hlen : (emitReq m).length < bufsz) :
    decode (msem true) bufsz marker (connReset {}) (emitReq m) = .done (parsedBack m) (emitReq m).length :=
  decode_emitReq req_header_errors_ignored m hok hlen

/-- the corrected statement in the form of the original one, with status -/
theorem emit_round_trip (m : Msg) (hok : EmitOk m) (hlen : (emitReq m).length < bufsz) :
    ∃ m' n, decode (msem true) bufsz marker (connReset {}) (emitReq m) = .done m' n ∧ n = (emitReq m).length ∧
      m'.meth = m.meth ∧ getUri m' = getUri m ∧ m'.vers = m.vers ∧ getStatus m' = 200 := by
  refine ⟨parsedBack m, _, emit_parses_back m hok hlen, rfl, ?_⟩
  obtain ⟨g1, _, g3, g4, g5⟩ := replay_fields m.reqHdrs (reqLineMsg m)
  refine ⟨g3, ?_, g5, ?_⟩
  · show getUri (replay (reqLineMsg m) m.reqHdrs) = getUri m
    have hu : getUri (replay (reqLineMsg m) m.reqHdrs) = getUri (reqLineMsg m) := by unfold getUri; rw [g4]
    rw [hu]
    show (if (getUri m).isEmpty then sSlash else getUri m) = getUri m
    have hne : (getUri m).isEmpty = false := by
      unfold getUri
      cases m.uri with
      | none => rfl
      | some u =>
        simp only
        by_cases he : u.isEmpty = true
        · rw [if_pos he]; rfl
        · rw [if_neg he]; simpa using he
    rw [hne]; rfl
  · show getStatus (replay (reqLineMsg m) m.reqHdrs) = 200
    have h0 : (reqLineMsg m).code = 0 := by
      show (connReset {}).code = 0
      decide
    unfold getStatus
    rw [g1, h0]
    decide

/-- headers too: when the names are ordinary (not Host / Content-Type / Content-Length, which have their own
    nodes, positions and size limits) and pairwise different without regard to case, the headers read back are
    the headers written, names and values, in order -/
theorem emit_round_trip_headers (m : Msg) (hok : EmitOk m) (hlen : (emitReq m).length < bufsz)
    (hp : ∀ h ∈ m.reqHdrs, Plain h.name) (hpw : m.reqHdrs.Pairwise (fun x y => ieq y.name x.name = false)) :
    ∃ m' n, decode (msem true) bufsz marker (connReset {}) (emitReq m) = .done m' n ∧
      m'.reqHdrs.map (fun h => (h.name, h.value)) = m.reqHdrs.map (fun h => (h.name, h.value)) :=
  ⟨parsedBack m, _, emit_parses_back m hok hlen, parsedBack_hdrs m hp hpw⟩

/-- through the read path, any segmentation: a server connection that is handed the written head in any pieces
    completes the read with exactly these fields and nothing left over -/
theorem emit_read_back (m : Msg) (hok : EmitOk m) (hlen : (emitReq m).length < bufsz) (chunks : List Bytes)
    (hch : chunks.flatten = emitReq m) :
    modelOut (runRead true {} chunks) = .done (parsedBack m) (emitReq m).length := by
  have := req_decoding_is_stream_function {} chunks rfl (by decide)
  simp only [List.nil_append] at this
  rw [this, hch]
  show specOut (decode (msem true) bufsz marker (connReset {}) (emitReq m)) = _
  rw [emit_parses_back m hok hlen]
  rfl

/-! ## the hypotheses are satisfiable: concrete, non-trivial instances -/

/-- a request cut inside the request line, inside a header name and inside the final CRLF, against the same
    bytes in one piece; the connection still holds the tail of a previous body at a non-zero offset -/
example :
    modelOut (runRead true { get := 5, pend := ofNats [71, 69] } [ofNats [84, 32, 47], ofNats [97, 32, 72, 84, 84, 80, 47, 49, 46, 49, 13, 10, 72, 111],
                                        ofNats [115, 116, 58, 32, 120, 13, 10, 13], ofNats [10, 66]])
      = modelOut (runRead true { get := 5, pend := ofNats [71, 69] }
          [ofNats [84, 32, 47, 97, 32, 72, 84, 84, 80, 47, 49, 46, 49, 13, 10, 72, 111, 115, 116, 58, 32, 120, 13, 10, 13, 10, 66]]) :=
  cut_independent true _ _ _ rfl (by decide) (by decide)

example : Url.canonify (ofNats [47, 97]) = some (ofNats [47, 97]) ∧ versions.contains (ofNats [72, 84, 84, 80, 47, 49, 46, 49]) = true ∧
    getStatus (connReset {}) < stBadRequest := by decide

/-- `EmitOk` is satisfiable: POST /a?b=1 HTTP/1.0 with two ordinary headers; the round trip theorems apply -/
def exH1 : Hdr := { name := ofNats [88, 45, 65], value := ofNats [49, 32, 50] }
def exH2 : Hdr := { name := ofNats [65, 99, 99, 101, 112, 116], value := ofNats [42, 47, 42] }
def exReq : Msg :=
  { meth := ofNats [80, 79, 83, 84], uri := some (ofNats [47, 97, 63, 98, 61, 49]), vers := ofNats [72, 84, 84, 80, 47, 49, 46, 48], reqHdrs := [exH1, exH2] }

theorem exReq_ok : EmitOk exReq := by
  refine ⟨by decide, by decide, by decide, ?_, ?_⟩
  · intro u hu
    have : u = ofNats [47, 97, 63, 98, 61, 49] := by cases hu; rfl
    subst this
    decide
  · intro h hh
    have : h = exH1 ∨ h = exH2 := by simpa [exReq] using hh
    rcases this with e | e <;> subst e <;>
      exact ⟨by decide, by unfold Clean; decide, by unfold Clean; decide, by decide⟩

example : ∃ m' n, decode (msem true) bufsz marker (connReset {}) (emitReq exReq) = .done m' n ∧
    m'.reqHdrs.map (fun h => (h.name, h.value)) = exReq.reqHdrs.map (fun h => (h.name, h.value)) :=
  emit_round_trip_headers exReq exReq_ok (by decide)
    (by show ∀ h ∈ exReq.reqHdrs, (ieq h.name sContentType = false ∧ ieq h.name sContentLength = false ∧ ieq h.name sHost = false); decide)
    (by decide)

end Nng.C16Http
