/-
  C14 — pipe events are ordered; dialers redial; listeners keep accepting.
  Theorems about the lifecycle model (Model/Life.lean), for ALL op sequences and ALL oracles
  (the oracle stands for the randomised redial delays read back from the trace).
-/
import NngModel.Proofs.LifeStep
import NngModel.Proofs.LifeGlobalStep
import NngModel.Proofs.LifeJudgeMain
import NngModel.Generated.C14
namespace Nng.C14
open Nng.Life Nng.LifeModel Nng.Generated

/-- every pipe of every reachable state satisfies the notification invariants -/
theorem reachable_pipe_inv (tr : List (LOp × List Nat)) (p : Pipe) (hp : p ∈ (run {} tr).pipes) : PipeInv p :=
  run_inv tr {} init_inv p hp

/-- notifications of a pipe are delivered in the order ADD_PRE < ADD_POST < REM_POST -/
theorem pipe_events_ordered (tr : List (LOp × List Nat)) (p : Pipe) (hp : p ∈ (run {} tr).pipes) :
    p.evs.Pairwise (fun a b => a.rank < b.rank) :=
  (reachable_pipe_inv tr p hp).sorted

/-- ... each at most once -/
theorem pipe_events_at_most_once (tr : List (LOp × List Nat)) (p : Pipe) (hp : p ∈ (run {} tr).pipes) :
    p.evs.Nodup := by
  have h := pipe_events_ordered tr p hp
  exact h.imp (fun {a b} hab he => by subst he; omega)

/-- ... never ADD_POST or REM_POST for a pipe whose ADD_PRE did not run; and if an ADD_PRE
    callback was registered when it ran, it was delivered (first, by `pipe_events_ordered`) -/
theorem no_event_without_pre (tr : List (LOp × List Nat)) (p : Pipe) (hp : p ∈ (run {} tr).pipes)
    (h : PEv.post ∈ p.evs ∨ PEv.rem ∈ p.evs) : p.last ≠ 0 ∧ (p.preDue = true → PEv.pre ∈ p.evs) := by
  have hi := reachable_pipe_inv tr p hp
  have hl : p.last ≠ 0 := by
    intro h0
    have := hi.none_empty h0
    rcases h with h | h <;> simp [this] at h
  exact ⟨hl, fun hd => hi.pre_due hd (by omega)⟩

/-- a pipe that got ADD_POST gets REM_POST when it is reaped (if a REM_POST callback is registered
    then), and REM_POST is only ever delivered by the reaping -/
theorem rem_follows_post (tr : List (LOp × List Nat)) (p : Pipe) (hp : p ∈ (run {} tr).pipes) :
    (p.reaped = true → PEv.post ∈ p.evs → p.remReg = true → PEv.rem ∈ p.evs) ∧ (PEv.rem ∈ p.evs → p.reaped = true) :=
  ⟨(reachable_pipe_inv tr p hp).rem_post, (reachable_pipe_inv tr p hp).rem_reaped⟩

/-- REM_POST does not depend on ADD_PRE / ADD_POST having a callback: a reaped pipe that was added while some
    notification was registered (p_last_event left NONE) got REM_POST if REM_POST was registered when it was
    reaped (the partial-mask form of `rem_follows_post`; what the judge's REM_POST clause relies on) -/
theorem rem_follows_add (tr : List (LOp × List Nat)) (p : Pipe) (hp : p ∈ (run {} tr).pipes) :
    p.reaped = true → p.last ≠ 0 → p.remReg = true → PEv.rem ∈ p.evs :=
  (reachable_pipe_inv tr p hp).rem_due

/-- a pipe closed inside ADD_PRE is never started by the protocol and never gets ADD_POST -/
theorem closed_in_pre_never_started (tr : List (LOp × List Nat)) (p : Pipe) (hp : p ∈ (run {} tr).pipes)
    (hc : p.cip = true) : p.started = false ∧ PEv.post ∉ p.evs := by
  have hi := reachable_pipe_inv tr p hp
  have hs := (hi.cip_not_started hc).1
  refine ⟨hs, fun hpost => ?_⟩
  have := hi.post_started hpost
  rw [hs] at this; cases this

/-! ### back-off arithmetic of `dialer_timer_start_locked` -/

/-- the armed delay bound is the current back-off; with a maximum configured it then doubles, capped -/
theorem backoff_doubles_capped (now : Nat) (e : Ep) (hc : e.closed = false) (hm : 0 < e.maxr) :
    (timerStart now e).timer = some (now, e.curr) ∧
    (timerStart now e).curr = (if e.curr * 2 > e.maxr then e.maxr else e.curr * 2) := by
  unfold timerStart
  simp only [hc, hm, if_true, Bool.false_eq_true, if_false, true_and]
  by_cases h : e.curr > e.maxr / 2
  · have : e.curr * 2 > e.maxr := by omega
    simp [h, this]
  · have : ¬ e.curr * 2 > e.maxr := by omega
    simp [h, this]

/-- reconnect-time-max = 0 (or negative): no growth -/
theorem backoff_constant_without_max (now : Nat) (e : Ep) (hm : e.maxr ≤ 0) : (timerStart now e).curr = e.curr := by
  unfold timerStart
  have : ¬ e.maxr > 0 := by omega
  simp [this]

/-- the doubling never leaves the range of the configured values (so it cannot overflow) -/
theorem backoff_bounded (now : Nat) (e : Ep) (c : Int) (h1 : e.curr ≤ c) (h2 : e.maxr ≤ c) : (timerStart now e).curr ≤ c := by
  unfold timerStart
  simp only
  split
  · split <;> omega
  · exact h1

/-- a timer that is still armed at the end of a step is not overdue, and one that is overdue has
    fired (whatever the oracle says): the redial delay is at most back-off − 1 -/
theorem timer_never_overdue (now : Nat) (orc : List Nat) (e : Ep) (hd : e.dialer = true) (t0 : Nat) (b : Int)
    (h : (fireOne now orc e).timer = some (t0, b)) : (now : Int) + 1 < t0 + max b 1 := by
  unfold fireOne at h
  simp only [hd, if_true] at h
  split at h
  · simp at h
  · rename_i hf
    unfold timerFires at hf
    rw [h] at hf
    simp at hf
    omega

/-! ### cross-object invariants: one pipe per dialer, redial, accept (all histories, all oracles) -/

/-- every reachable state satisfies the global invariant (`Proofs/LifeGlobal*.lean`): indices are
    positions, endpoint state machine, `dPipe` ↔ the one live pipe, liveness, nothing overdue -/
theorem reachable_global_inv (tr : List (LOp × List Nat)) : Inv (run {} tr) := run_Inv tr {} init_Inv

/-- pipe and endpoint numbers identify their objects -/
theorem indices_unique (tr : List (LOp × List Nat)) :
    (∀ p ∈ (run {} tr).pipes, ∀ q ∈ (run {} tr).pipes, p.idx = q.idx → p = q) ∧
    (∀ e ∈ (run {} tr).eps, ∀ f ∈ (run {} tr).eps, e.idx = f.idx → e = f) :=
  ⟨fun _ hp _ hq h => (reachable_global_inv tr).g.s.w.idxP.unique hp hq h,
   fun _ he _ hf h => (reachable_global_inv tr).g.s.w.idxE.unique he hf h⟩

/-- "A dialer owns at most one pipe at a time": in every reachable state two live (not reaped) pipes
    of the same dialer are the same pipe; `dPipe = some i` iff pipe `i` is that live pipe; and while
    `dPipe` is set the dialer has neither a connect armed nor a redial timer pending, and is open -/
theorem dialer_owns_at_most_one_pipe (tr : List (LOp × List Nat)) (e : Ep) (he : e ∈ (run {} tr).eps)
    (hd : e.dialer = true) :
    (∀ p ∈ (run {} tr).pipes, ∀ q ∈ (run {} tr).pipes, p.reaped = false → q.reaped = false →
        p.ep = e.idx → q.ep = e.idx → p = q) ∧
    (∀ i, e.dPipe = some i ↔ ∃ p ∈ (run {} tr).pipes, p.idx = i ∧ p.reaped = false ∧ p.ep = e.idx) ∧
    (∀ i, e.dPipe = some i → e.armed = false ∧ e.timer = none ∧ e.closed = false) := by
  have inv := reachable_global_inv tr
  have w := inv.g.s.w
  refine ⟨?_, ?_, ?_⟩
  · intro p hp q hq hpl hql hpe hqe
    have h1 := (w.own p hp hpl e he hpe.symm).2 hd
    have h2 := (w.own q hq hql e he hqe.symm).2 hd
    rw [h1] at h2
    exact w.idxP.unique hp hq (Option.some.inj h2)
  · intro i
    constructor
    · exact w.has e he i
    · rintro ⟨p, hp, hi, hl, hpe⟩
      rw [← hi]; exact (w.own p hp hl e he hpe.symm).2 hd
  · intro i hi
    have hu := (w.epInv e he).1.dpipe_unarmed hi
    obtain ⟨p, hp, _, hl, hpe⟩ := w.has e he i hi
    exact ⟨hu.1, hu.2, inv.g.s.pipesOpen p hp hl e he hpe.symm⟩

/-- a listener never records a pipe as its own, a live pipe's endpoint exists, is open and belongs
    to the pipe's socket -/
theorem live_pipe_has_open_endpoint (tr : List (LOp × List Nat)) (p : Pipe) (hp : p ∈ (run {} tr).pipes)
    (hl : p.reaped = false) :
    ∃ e ∈ (run {} tr).eps, e.idx = p.ep ∧ e.sock = p.sock ∧ e.closed = false ∧ (e.dialer = true → e.dPipe = some p.idx) := by
  have inv := reachable_global_inv tr
  obtain ⟨e, he, hi⟩ := inv.g.s.w.idxE.exists (inv.g.s.w.pipeEp p hp)
  have := inv.g.s.w.own p hp hl e he hi
  exact ⟨e, he, hi, this.1, inv.g.s.pipesOpen p hp hl e he hi, this.2⟩

/-- "A background dialer never gets stuck": in every reachable state every open dialer that redials by
    itself (non-blocking start, or connected once) and was not told to stop by the transport (a
    close-class connect result ECLOSED / ECANCELED / ESTOPPED on a still open dialer — the ghost flag
    `stopped`) is in exactly one of the states: connect armed / redial timer pending / owns a live pipe -/
theorem background_dialer_never_stuck (tr : List (LOp × List Nat)) (e : Ep) (he : e ∈ (run {} tr).eps)
    (hd : e.dialer = true) (hc : e.closed = false) (hb : e.background = true) (hs : e.stopped = false) :
    (e.armed = true ∧ e.timer = none ∧ e.dPipe = none) ∨
    (e.armed = false ∧ e.timer.isSome = true ∧ e.dPipe = none) ∨
    (e.armed = false ∧ e.timer = none ∧ e.dPipe.isSome = true) := by
  have inv := reachable_global_inv tr
  have hi := (inv.g.s.w.epInv e he).1
  rcases (inv.g.live e he).1 hd hc hb hs with ha | ht | hp
  · have := hi.armed_excl ha
    exact Or.inl ⟨ha, this.1, this.2.1⟩
  · obtain ⟨t, ht'⟩ := Option.isSome_iff_exists.mp ht
    exact Or.inr (Or.inl ⟨hi.timer_unarmed ht', ht, (hi.timer_excl t ht').1⟩)
  · obtain ⟨i, hp'⟩ := Option.isSome_iff_exists.mp hp
    have := hi.dpipe_unarmed hp'
    exact Or.inr (Or.inr ⟨this.1, this.2, hp⟩)

/-- a pending redial timer belongs to an open dialer without a pipe, was armed in the past, its
    back-off is at most the largest reconnect time ever configured for the dialer, and it is not
    overdue: it fires strictly before `t0 + max b 1` (the redial delay is < the bound) -/
theorem redial_timer_bounded (tr : List (LOp × List Nat)) (e : Ep) (he : e ∈ (run {} tr).eps) (t0 : Nat) (b : Int)
    (ht : e.timer = some (t0, b)) :
    e.dialer = true ∧ e.closed = false ∧ e.armed = false ∧ e.dPipe = none ∧ t0 ≤ (run {} tr).now ∧ b ≤ e.cap ∧
    ((run {} tr).now : Int) + 1 < t0 + max b 1 := by
  have inv := reachable_global_inv tr
  have hi := (inv.g.s.w.epInv e he).1
  have h1 := hi.timer_excl _ ht
  exact ⟨h1.2, hi.timer_open ht, hi.timer_unarmed ht, h1.1, (inv.g.s.w.epInv e he).2.1 t0 b ht, hi.timer_cap t0 b ht,
    (inv.fresh e he).1 t0 b ht⟩

/-- progress: with the redial timer pending, advancing virtual time by the back-off (hence by the largest
    reconnect time ever configured) re-arms the connect, whatever the oracle says -/
theorem redial_progress (tr : List (LOp × List Nat)) (hu : (run {} tr).unmodelled = false) (e : Ep)
    (he : e ∈ (run {} tr).eps) (t0 : Nat) (b : Int) (ht : e.timer = some (t0, b)) (ms : Nat) (hms : b ≤ ms)
    (orc : List Nat) :
    ∀ e' ∈ (step (run {} tr) (.advance ms) orc).1.eps, e'.idx = e.idx → e'.armed = true ∧ e'.timer = none := by
  have inv := reachable_global_inv tr
  have hb := redial_timer_bounded tr e he t0 b ht
  intro e' he' hi
  unfold step at he'
  simp only [hu, Bool.false_eq_true, if_false, LifeModel.apply, fireTimers] at he'
  rcases List.mem_map.mp he' with ⟨x, hx, rfl⟩
  have hxi : x.idx = e.idx := by rw [← hi]; exact ((fireOne_frame _ _ x).1).symm
  have : x = e := inv.g.s.w.idxE.unique hx he hxi
  subst this
  have hf : timerFires ((run {} tr).now + ms) (orc.contains x.idx) x = true := by
    unfold timerFires
    rw [ht]
    have := hb.2.2.2.2.1
    simp only [Bool.or_eq_true, decide_eq_true_eq]
    right
    omega
  unfold fireOne
  simp only [hb.1, hf, if_true]
  exact ⟨trivial, trivial⟩

theorem redial_progress_cap (tr : List (LOp × List Nat)) (hu : (run {} tr).unmodelled = false) (e : Ep)
    (he : e ∈ (run {} tr).eps) (ht : e.timer.isSome = true) (ms : Nat) (hms : e.cap ≤ ms) (orc : List Nat) :
    ∀ e' ∈ (step (run {} tr) (.advance ms) orc).1.eps, e'.idx = e.idx → e'.armed = true ∧ e'.timer = none := by
  obtain ⟨⟨t0, b⟩, ht'⟩ := Option.isSome_iff_exists.mp ht
  have := (redial_timer_bounded tr e he t0 b ht').2.2.2.2.2.1
  exact redial_progress tr hu e he t0 b ht' ms (by omega) orc

/-- "A listener keeps accepting": in every reachable state every open listener that was not told to stop
    by the transport (close-class accept result on a still open listener) has its accept armed, or is in
    the cool-down the code takes after the other error classes — which ends within `lifeAcceptCooldownMs` -/
theorem listener_keeps_accepting (tr : List (LOp × List Nat)) (e : Ep) (he : e ∈ (run {} tr).eps)
    (hd : e.dialer = false) (hc : e.closed = false) (hs : e.stopped = false) :
    (e.armed = true ∧ e.cool = none) ∨
    (e.armed = false ∧ ∃ d, e.cool = some d ∧ (run {} tr).now < d ∧ d ≤ (run {} tr).now + lifeAcceptCooldownMs) := by
  have inv := reachable_global_inv tr
  have hi := (inv.g.s.w.epInv e he).1
  rcases (inv.g.live e he).2 hd hc hs with ha | hco
  · exact Or.inl ⟨ha, (hi.armed_excl ha).2.2⟩
  · obtain ⟨d, hd'⟩ := Option.isSome_iff_exists.mp hco
    refine Or.inr ⟨?_, d, hd', (inv.fresh e he).2 d hd', (inv.g.s.w.epInv e he).2.2 d hd'⟩
    cases ha : e.armed with
    | false => rfl
    | true => have := (hi.armed_excl ha).2.2; rw [hd'] at this; cases this

/-- progress: after the cool-down time has passed the accept is armed again -/
theorem accept_progress (tr : List (LOp × List Nat)) (hu : (run {} tr).unmodelled = false) (e : Ep)
    (he : e ∈ (run {} tr).eps) (d : Nat) (hco : e.cool = some d) (ms : Nat) (hms : lifeAcceptCooldownMs ≤ ms)
    (orc : List Nat) :
    ∀ e' ∈ (step (run {} tr) (.advance ms) orc).1.eps, e'.idx = e.idx → e'.armed = true ∧ e'.cool = none := by
  have inv := reachable_global_inv tr
  have hi := (inv.g.s.w.epInv e he).1
  have hdl := hi.cool_listener d hco
  have hle := (inv.g.s.w.epInv e he).2.2 d hco
  intro e' he' hi'
  unfold step at he'
  simp only [hu, Bool.false_eq_true, if_false, LifeModel.apply, fireTimers] at he'
  rcases List.mem_map.mp he' with ⟨x, hx, rfl⟩
  have hxi : x.idx = e.idx := by rw [← hi']; exact ((fireOne_frame _ _ x).1).symm
  have : x = e := inv.g.s.w.idxE.unique hx he hxi
  subst this
  unfold fireOne
  have hge : (run {} tr).now + ms ≥ d := by omega
  simp only [hdl, Bool.false_eq_true, if_false, hco, hge, if_true]
  exact ⟨trivial, trivial⟩

/-- an endpoint that is closed does nothing any more -/
theorem closed_endpoint_idle (tr : List (LOp × List Nat)) (e : Ep) (he : e ∈ (run {} tr).eps) (hc : e.closed = true) :
    e.armed = false ∧ e.timer = none ∧ e.cool = none ∧ e.userAio = false ∧ e.dPipe = none ∧
    ∀ p ∈ (run {} tr).pipes, p.ep = e.idx → p.reaped = true := by
  have inv := reachable_global_inv tr
  have h1 := (inv.g.s.w.epInv e he).1.closed_idle hc
  refine ⟨h1.1, h1.2.1, h1.2.2.1, h1.2.2.2, ?_, ?_⟩
  · cases hd : e.dPipe with
    | none => rfl
    | some i =>
      obtain ⟨p, hp, _, hl, hpe⟩ := inv.g.s.w.has e he i hd
      have := inv.g.s.pipesOpen p hp hl e he hpe.symm
      rw [hc] at this; cases this
  · intro p hp hpe
    cases hl : p.reaped with
    | true => rfl
    | false =>
      have := inv.g.s.pipesOpen p hp hl e he hpe.symm
      rw [hc] at this; cases this

/-- "after its pipe is lost ... the timer is pending with delay < the bound": in any reachable state, when
    the application closes (`pipeClose`) or the transport drops (`pipeDrop`) the pipe a dialer owns, then
    after that step the dialer has no pipe and either its connect is armed again already or its redial timer
    is pending, started at this instant with back-off `curr ≤ cap` (by `redial_timer_bounded` it fires
    strictly before `now + max curr 1`) -/
theorem redial_after_pipe_loss (tr : List (LOp × List Nat)) (hu : (run {} tr).unmodelled = false) (e : Ep)
    (he : e ∈ (run {} tr).eps) (hd : e.dialer = true) (i : Nat) (hp : e.dPipe = some i) (op : LOp)
    (hop : op = .pipeDrop i ∨ op = .pipeClose i) (orc : List Nat) :
    e.curr ≤ e.cap ∧ ∀ e' ∈ (step (run {} tr) op orc).1.eps, e'.idx = e.idx →
      e'.dPipe = none ∧
      ((e'.armed = true ∧ e'.timer = none) ∨ (e'.armed = false ∧ e'.timer = some ((run {} tr).now, e.curr))) :=
  ⟨((reachable_global_inv tr).g.s.w.epInv e he).1.caps.1,
   pipe_loss_step _ (reachable_global_inv tr) hu e he hd i hp op hop orc⟩

/-- "... or a dial fails": a connect of a background dialer (no blocking start waiting) that fails with any
    result other than the close-class ones starts the redial timer in the same way -/
theorem redial_after_failed_dial (tr : List (LOp × List Nat)) (hu : (run {} tr).unmodelled = false) (e : Ep)
    (he : e ∈ (run {} tr).eps) (hd : e.dialer = true) (ha : e.armed = true) (hua : e.userAio = false) (rv : Nat)
    (hrv : lifeDialStopErrs.contains rv = false) (orc : List Nat) :
    e.curr ≤ e.cap ∧ ∀ e' ∈ (step (run {} tr) (.connDone e.idx (.error rv)) orc).1.eps, e'.idx = e.idx →
      e'.dPipe = none ∧
      ((e'.armed = true ∧ e'.timer = none) ∨ (e'.armed = false ∧ e'.timer = some ((run {} tr).now, e.curr))) :=
  ⟨((reachable_global_inv tr).g.s.w.epInv e he).1.caps.1,
   dial_failure_step _ (reachable_global_inv tr) hu e he hd ha hua rv hrv orc⟩

/-- the hypothesis `stopped = false` of `background_dialer_never_stuck` / `listener_keeps_accepting` is
    necessary: a close-class connect / accept result (here NNG_ECLOSED = 7) delivered by the transport for
    a still OPEN endpoint makes dialer_connect_cb / listener_accept_cb stop for good (the `case NNG_ECLOSED:
    case NNG_ECANCELED: case NNG_ESTOPPED:` arms of their switches).  Replayed on the real code with
    harness/s_life: `open 0 pull; dial 0 1; conn_done 0 !7; advance 100000; advance 100000; conn_done 0 0050`
    → no `earm` ever again, last line `rv -1` (nothing armed).  The real transports produce these results
    only when the endpoint is being closed, so this is a too-strong statement, not a defect. -/
theorem never_stuck_needs_not_stopped :
    ((run {} [(.openSock 0 "pull", []), (.dial 0 true, []), (.connDone 0 (.error 7), []), (.advance 100000, [])]).eps.map
      fun e => (e.dialer && !e.closed && e.background && e.stopped, e.armed, e.timer, e.dPipe)) =
      [(true, false, none, none)] ∧
    ((run {} [(.openSock 0 "pull", []), (.listen 0, []), (.connDone 0 (.error 7), []), (.advance 100000, [])]).eps.map
      fun e => (e.dialer, e.closed, e.stopped, e.armed, e.cool)) = [(false, false, true, false, none)] :=
  ⟨by decide, by decide⟩

/-- The unconditional form: the C14 judge of Spec/Life.lean accepts every trace the model can produce, for
    every op sequence and every oracle.  It is FALSE (`judge_needs_modelled`): an op the model does not
    cover (`race`, `close2`, an unknown protocol or option, a re-used context slot) makes the model answer
    `UNMODELLED` from then on, while the judge keeps its clock and its obligations.  Kept as a `def`. -/
def judge_accepts_model_statement : Prop :=
  ∀ tr : List (LOp × List Nat), (judgeRun (modelTrace {} tr)).err14 = none

/-- the hypothesis of `judge_accepts_model`: every op of the sequence was modelled (`unmodelled` is sticky,
    so this speaks about every prefix); decidable -/
def Modelled (tr : List (LOp × List Nat)) : Prop := (run {} tr).unmodelled = false

instance (tr : List (LOp × List Nat)) : Decidable (Modelled tr) := inferInstanceAs (Decidable (_ = false))

/-- The C14 judge of Spec/Life.lean accepts every trace of the model, for every op sequence in which every
    op is modelled and for every oracle (`Proofs/LifeJudge*.lean`: a relation between the model state and the
    judge's association lists, kept by every op followed by the timers and the judge's end-of-step clauses). -/
theorem judge_accepts_model (tr : List (LOp × List Nat)) (hm : Modelled tr) :
    (judgeRun (modelTrace {} tr)).err14 = none :=
  (judge_accepts tr hm).1

/-- the hypothesis is needed: after an unmodelled op (here: a socket of an unknown protocol) the model is
    silent, and the judge reports the redial it was still waiting for as missing -/
theorem judge_needs_modelled : ¬ judge_accepts_model_statement := by
  intro h
  have := h [(.openSock 0 "pull", []), (.dial 0 true, []), (.connDone 0 (.error 5), []), (.openSock 1 "foo", []),
    (.advance 100000, [])]
  revert this
  decide

/-! ### non-vacuity: a concrete history with a full notification sequence, a failed background
    dial and a redial read back from the trace -/
def sampleTrace : List (LOp × List Nat) :=
  [(.openSock 0 "pull", []), (.notify 0 7 false, []), (.listen 0, []), (.connDone 0 (.ok 80), []), (.pipeDrop 0, []),
   (.dial 0 true, []), (.connDone 1 (.error 6), []), (.advance 999, [1])]

example : (run {} sampleTrace).pipes.map (·.evs) = [[.pre, .post, .rem]] := by decide
example : (run {} sampleTrace).eps.map (fun e => (e.armed, e.timer)) = [(true, none), (true, none)] := by decide


/-- the hypotheses of the new theorems are satisfiable: after the failed background dial the dialer's
    timer is pending (`redial_timer_bounded`, `redial_progress`), the listener is armed, the reaped pipe is
    off its endpoint; a dialer that owns a pipe (`dialer_owns_at_most_one_pipe`, `redial_after_pipe_loss`);
    a listener in its cool-down (`listener_keeps_accepting`, `accept_progress`); and the judge accepts this
    model trace -/
example : (run {} (sampleTrace.take 7)).eps.map (fun e => (e.dialer, e.armed, e.timer, e.background, e.closed)) =
    [(false, true, none, false, false), (true, false, some (0, 1000), true, false)] := by decide
example : (run {} [(.openSock 0 "pull", []), (.dial 0 true, []), (.connDone 0 (.ok 80), [])]).eps.map
    (fun e => (e.dPipe, e.armed, e.timer)) = [(some 0, false, none)] := by decide
example : (run {} [(.openSock 0 "pull", []), (.listen 0, []), (.connDone 0 (.error 2), [])]).eps.map
    (fun e => (e.armed, e.cool, e.stopped)) = [(false, some 100, false)] := by decide
example : (judgeRun (modelTrace {} sampleTrace)).err14 = none := by decide
example : Modelled sampleTrace := by decide
example : (judgeRun (modelTrace {} sampleTrace)).err14 = none := judge_accepts_model sampleTrace (by decide)

/-! ### the partial-mask clauses of the judge are not vacuous: with only REM_POST (only ADD_POST, only ADD_PRE)
    registered the model delivers exactly that notification and the judge accepts; the same traces with the
    notification taken out are rejected; a registration made while the pipe lives counts at the reaping -/
def onlyTrace (m : Nat) : List (LOp × List Nat) :=
  [(.openSock 0 "pull", []), (.notify 0 m false, []), (.listen 0, []), (.connDone 0 (.ok 80), []), (.close 0, [])]

def dropPev (t : List (LOp × List LOut)) : List (LOp × List LOut) :=
  t.map fun (op, outs) => (op, outs.filter fun | .pev _ _ => false | _ => true)

example : (run {} (onlyTrace 4)).pipes.map (·.evs) = [[.rem]] := by decide
example : (run {} (onlyTrace 2)).pipes.map (·.evs) = [[.post]] := by decide
example : (run {} (onlyTrace 1)).pipes.map (·.evs) = [[.pre]] := by decide
example : (judgeRun (modelTrace {} (onlyTrace 4))).err14 = none := by decide
example : (judgeRun (dropPev (modelTrace {} (onlyTrace 4)))).err14 =
    some "socket 0 close returned but pipe 0 that the protocol had started using has no REM_POST" := by decide
example : (judgeRun (dropPev (modelTrace {} (onlyTrace 2)))).err14 =
    some "pipe 0 was started by the protocol while ADD_POST was registered but ADD_POST was not delivered" := by decide
example : (judgeRun (dropPev (modelTrace {} (onlyTrace 1)))).err14 =
    some "pipe 0: the protocol started using it before the ADD_PRE that was due" := by decide
example : (judgeRun (dropPev (modelTrace {} (onlyTrace 0)))).err14 = none := by decide
/-- registered ADD_PRE only when the pipe was added, REM_POST only when it was reaped: REM_POST is owed -/
def changeTrace : List (LOp × List Nat) :=
  [(.openSock 0 "pull", []), (.notify 0 1 false, []), (.listen 0, []), (.connDone 0 (.ok 80), []), (.notify 0 4 false, []),
   (.pipeDrop 0, []), (.close 0, [])]
example : (run {} changeTrace).pipes.map (·.evs) = [[.pre, .rem]] := by decide
example : (judgeRun (modelTrace {} changeTrace)).err14 = none := by decide
example : ((judgeRun ((modelTrace {} changeTrace).map fun (op, outs) => (op, outs.filter (· != .pev 0 .rem)))).err14).isSome = true := by
  decide
/-- added while nothing was registered: the pipe never gets a notification (the library's "never got an event
    before, so don't start now"), and the judge does not ask for one -/
example : (run {} [(.openSock 0 "pull", []), (.listen 0, []), (.connDone 0 (.ok 80), []), (.notify 0 7 false, []),
    (.close 0, [])]).pipes.map (·.evs) = [[]] := by decide

end Nng.C14
