/-
  C14 — pipe events are ordered; dialers redial; listeners keep accepting.
  Theorems about the lifecycle model (Model/Life.lean), for ALL op sequences and ALL oracles
  (the oracle stands for the randomised redial delays read back from the trace).
-/
import NngModel.Proofs.LifeStep
namespace Nng.C14
open Nng.Life Nng.LifeModel

/-- every pipe of every reachable state satisfies the notification invariants -/
theorem reachable_pipe_inv (tr : List (LOp × List Nat)) (p : Pipe) (hp : p ∈ (run {} tr).pipes) : PipeInv p :=
  run_inv tr {} init_inv p hp

/-- notifications of a pipe are delivered in the order ADD_PRE < ADD_POST < REM_POST -/
theorem pipe_events_ordered (tr : List (LOp × List Nat)) (p : Pipe) (hp : p ∈ (run {} tr).pipes) :
    p.evs.Pairwise (fun a b => a.rank < b.rank) :=
  (reachable_pipe_inv tr p hp).sorted

/-- ... each at most once -/
theorem pipe_events_at_most_once (tr : List (LOp × List Nat)) (p : Pipe) (hp : p ∈ (run {} tr).pipes) :
    p.evs.Nodup := by
  have h := pipe_events_ordered tr p hp
  exact h.imp (fun {a b} hab he => by subst he; omega)

/-- ... never ADD_POST or REM_POST for a pipe whose ADD_PRE did not run; and if an ADD_PRE
    callback was registered when it ran, it was delivered (first, by `pipe_events_ordered`) -/
theorem no_event_without_pre (tr : List (LOp × List Nat)) (p : Pipe) (hp : p ∈ (run {} tr).pipes)
    (h : PEv.post ∈ p.evs ∨ PEv.rem ∈ p.evs) : p.last ≠ 0 ∧ (p.preDue = true → PEv.pre ∈ p.evs) := by
  have hi := reachable_pipe_inv tr p hp
  have hl : p.last ≠ 0 := by
    intro h0
    have := hi.none_empty h0
    rcases h with h | h <;> simp [this] at h
  exact ⟨hl, fun hd => hi.pre_due hd (by omega)⟩

/-- a pipe that got ADD_POST gets REM_POST when it is reaped (if a REM_POST callback is registered
    then), and REM_POST is only ever delivered by the reaping -/
theorem rem_follows_post (tr : List (LOp × List Nat)) (p : Pipe) (hp : p ∈ (run {} tr).pipes) :
    (p.reaped = true → PEv.post ∈ p.evs → p.remReg = true → PEv.rem ∈ p.evs) ∧ (PEv.rem ∈ p.evs → p.reaped = true) :=
  ⟨(reachable_pipe_inv tr p hp).rem_due, (reachable_pipe_inv tr p hp).rem_reaped⟩

/-- a pipe closed inside ADD_PRE is never started by the protocol and never gets ADD_POST -/
theorem closed_in_pre_never_started (tr : List (LOp × List Nat)) (p : Pipe) (hp : p ∈ (run {} tr).pipes)
    (hc : p.cip = true) : p.started = false ∧ PEv.post ∉ p.evs := by
  have hi := reachable_pipe_inv tr p hp
  have hs := (hi.cip_not_started hc).1
  refine ⟨hs, fun hpost => ?_⟩
  have := hi.post_started hpost
  rw [hs] at this; cases this

/-! ### back-off arithmetic of `dialer_timer_start_locked` -/

/-- the armed delay bound is the current back-off; with a maximum configured it then doubles, capped -/
theorem backoff_doubles_capped (now : Nat) (e : Ep) (hc : e.closed = false) (hm : 0 < e.maxr) :
    (timerStart now e).timer = some (now, e.curr) ∧
    (timerStart now e).curr = (if e.curr * 2 > e.maxr then e.maxr else e.curr * 2) := by
  unfold timerStart
  simp only [hc, hm, if_true, Bool.false_eq_true, if_false, true_and]
  by_cases h : e.curr > e.maxr / 2
  · have : e.curr * 2 > e.maxr := by omega
    simp [h, this]
  · have : ¬ e.curr * 2 > e.maxr := by omega
    simp [h, this]

/-- reconnect-time-max = 0 (or negative): no growth -/
theorem backoff_constant_without_max (now : Nat) (e : Ep) (hm : e.maxr ≤ 0) : (timerStart now e).curr = e.curr := by
  unfold timerStart
  have : ¬ e.maxr > 0 := by omega
  simp [this]

/-- the doubling never leaves the range of the configured values (so it cannot overflow) -/
theorem backoff_bounded (now : Nat) (e : Ep) (c : Int) (h1 : e.curr ≤ c) (h2 : e.maxr ≤ c) : (timerStart now e).curr ≤ c := by
  unfold timerStart
  simp only
  split
  · split <;> omega
  · exact h1

/-- a timer that is still armed at the end of a step is not overdue, and one that is overdue has
    fired (whatever the oracle says): the redial delay is at most back-off − 1 -/
theorem timer_never_overdue (now : Nat) (orc : List Nat) (e : Ep) (hd : e.dialer = true) (t0 : Nat) (b : Int)
    (h : (fireOne now orc e).timer = some (t0, b)) : (now : Int) + 1 < t0 + max b 1 := by
  unfold fireOne at h
  simp only [hd, if_true] at h
  split at h
  · simp at h
  · rename_i hf
    unfold timerFires at hf
    rw [h] at hf
    simp at hf
    omega

/-! ### non-vacuity: a concrete history with a full notification sequence, a failed background
    dial and a redial read back from the trace -/
def sampleTrace : List (LOp × List Nat) :=
  [(.openSock 0 "pull", []), (.notify 0 7 false, []), (.listen 0, []), (.connDone 0 (.ok 80), []), (.pipeDrop 0, []),
   (.dial 0 true, []), (.connDone 1 (.error 6), []), (.advance 999, [1])]

example : (run {} sampleTrace).pipes.map (·.evs) = [[.pre, .post, .rem]] := by decide
example : (run {} sampleTrace).eps.map (fun e => (e.armed, e.timer)) = [(true, none), (true, none)] := by decide

end Nng.C14
