/-
  C11 (extension C11T) — hostile SP/UDP peers: the C11 clauses for the association model, over ALL datagram
  sequences from ALL source addresses and all interleavings with the layers above the transport.

  Property theorems only.  Lemmas: Proofs/HostileNet{Q,Iso,Armed,UdpIso,Steps,Tab}.lean.
  Models: Model/HostileNetQ.lean — `qStep` (the transport of src/sp/transport/udp/udp.c by itself: datagram /
  receive posted / pipe closed by the reaper / inactivity timer, per-pipe receive queue, closed-but-not-forgotten
  pipes), `tStep` (plus the shared transmit ring), `armedStep` (plus the socket of `udpStep`), `pt*` (the peer
  table as an id map probed from nng_sockaddr_hash); Model/HostileNet.lean — `udpStep` / `udpRun`, the settled
  model the REAL executor (harness/r_hostile.c `dgram`, vlib/props/c11.py) is compared with on every run.

  What is shared between addresses in udp.c, and therefore is the stated exception of the isolation theorems:
    (1) ep->peer_count against ep->max_peers: one bit, seen only by a CREQ from an address without a pipe (I2, I5);
    (2) ep->tx_ring: decides only whether an answer is queued or dropped (T1);
    (3) the statistics counters (per-step increments in the model: not state);
    (4) the PAIR socket's single pipe slot (above the transport: `udpRun_isolated` excludes PAIR);
    (5) the peer table's probe runs when address hashes collide (IPv6): defect, fixed (see K1..K4).
-/
import NngModel.Proofs.HostileNetSteps
import NngModel.Proofs.HostileNetUdpIso
import NngModel.Proofs.HostileNetTab
import NngModel.Proofs.HostileNetWs
import NngModel.Props.C11
namespace Nng.C11Net
open Nng Nng.Hostile Nng.HostileSpec

/-! ## (a) the size limit -/

/-- A1. For every event sequence (datagrams of any senders in any interleaving, receives posted, pipes closed,
    timers) from an endpoint whose queues respect the limit: every message handed to the protocol and every message
    still queued in any pipe is at most ep->rcvmax long.  -/
theorem never_over_recvmax (ep : QEp) (evs : List (Nat × QEv)) (h : EpOk ep) :
    (∀ o ∈ qRun ep evs, ∀ m ∈ o.2.handed, m.length ≤ ep.cfg.rcvmax) ∧
    (∀ s x, qLookup (qFinal ep evs).pipes s = some x → ∀ m ∈ x.rxq, m.length ≤ ep.cfg.rcvmax) := by
  refine ⟨qRun_handed_small evs ep h, fun s x hx m hm => ?_⟩
  have := ((qFinal_ok evs ep h).pipes s x hx).small m hm
  rwa [qFinal_cfg] at this

/-- A1'. With the limit the option configures (udp_ep_set_recvmaxsz): never more than 65000, and never more than a
    non-zero NNG_OPT_RECVMAXSZ of at most 65000. -/
theorem never_over_option (v : Nat) (ep : QEp) (evs : List (Nat × QEv)) (h : EpOk ep) (hv : ep.cfg.rcvmax = udpSetRecvMax v) :
    ∀ o ∈ qRun ep evs, ∀ m ∈ o.2.handed,
      m.length ≤ Generated.c11UdpRecvMax ∧ (v ≠ 0 → v ≤ Generated.c11UdpRecvMax → m.length ≤ v) := by
  intro o ho m hm
  have := (never_over_recvmax ep evs h).1 o ho m hm
  rw [hv] at this
  unfold udpSetRecvMax at this
  constructor
  · split at this <;> omega
  · intro h0 h1
    rw [if_neg (by omega)] at this
    exact this

/-- A2. An oversize DATA (declared length beyond the datagram or beyond the limit) to an open pipe: exactly one
    DISC(MSGSIZE) to that sender, the pipe is closed (its posted receives fail with NNG_ECLOSED, nni_pipe_close), nothing
    is handed over, the rcv_toobig counter moves — and no other address's pipe, nor the configuration, is touched. -/
theorem oversize_data_closes_only_that_pipe (ep : QEp) (s : Nat) (d : Bytes) (x : QPipe)
    (hx : qLookup ep.pipes s = some x) (hc : x.closed = false)
    (h : hdrOk d) (ho : opOf d = 0) (hl : le16 d 4 > d.length - 8 ∨ le16 d 4 > ep.cfg.rcvmax) :
    (qStep ep s (.dgram d)).2 =
      { act := .discMsgsize, replies := [.disc discMsgsize], failed := x.aios, pclose := true, stats := [.rcvToobig] } ∧
    qLookup (qStep ep s (.dgram d)).1.pipes s = some { x with closed := true, aios := 0 } ∧
    (∀ a, a ≠ s → qLookup (qStep ep s (.dgram d)).1.pipes a = qLookup ep.pipes a) ∧
    (qStep ep s (.dgram d)).1.cfg = ep.cfg ∧ (qStep ep s (.dgram d)).1.others = ep.others := by
  obtain ⟨h1, h2⟩ := oversize_step ep s d x hx hc h ho hl
  exact ⟨h1, h2, fun a ha => qStep_lookup_ne ep s a _ ha, rfl, rfl⟩

/-- A3. Once closed, a pipe hands nothing over any more, whatever arrives for it, and stays closed until the reaper
    makes the endpoint forget it ("closes that connection"). -/
theorem closed_pipe_is_silent (c : QCfg) (lim : Bool) (x : QPipe) (e : QEv) (hc : x.closed = true) (ha : x.aios = 0) :
    (p1Step c lim (some x) e).2.handed = [] ∧
    (∀ y, (p1Step c lim (some x) e).1 = some y → y.closed = true ∧ y.aios = 0) :=
  closed_pipe_step c lim x e hc ha

/-- A4. The same for the settled model the executor runs (`udpRun`): whatever the transport hands to the protocol is
    the declared prefix of a DATA datagram of a sender with an association (`udpAllowed`, the specification of C11 U1)
    and is at most the limit long; what the application receives is what the protocol's callback makes of it. -/
theorem udpRun_within_limit (pc : PCfg) (u : UEp) (ds : List (Nat × Bytes)) :
    ∀ o ∈ udpRun pc u ds, ∀ m, o.tmsg = some m → m.length ≤ u.rcvmax :=
  udpRun_tmsg_small pc ds u

theorem udpStep_hands_over_only_allowed (pc : PCfg) (u : UEp) (s : Nat) (d : Bytes) :
    (∀ m, (udpStep pc u s d).2.tmsg = some m → udpAllowed d true u.rcvmax m = true ∧ (uLookup u.assocs s).isSome = true) ∧
    (∀ hb, (udpStep pc u s d).2.deliver = some hb →
      ∃ m, (udpStep pc u s d).2.tmsg = some m ∧ protoRecv pc 0 none m = .deliver hb.1 hb.2) := by
  constructor
  · intro m hm
    obtain ⟨_, h2, h3⟩ := udpStep_tmsg_small pc u s d m hm
    exact ⟨(C11.udp_decision_is_spec d true u.rcvmax m).1 h2, h3⟩
  · intro hb h
    rw [udpStep_eq] at h ⊢
    exact uOnAct_deliver pc _ _ _ _ hb h

/-! ## (b) isolation: only the offending connection -/

/-- I1. FRAME. An event of one address — any datagram, a receive, a close, a timeout — changes the pipe of no other
    address and nothing of the configuration. -/
theorem frame (ep : QEp) (s a : Nat) (e : QEv) (h : a ≠ s) :
    qLookup (qStep ep s e).1.pipes a = qLookup ep.pipes a ∧ (qStep ep s e).1.cfg = ep.cfg ∧
    (qStep ep s e).1.others = ep.others :=
  ⟨qStep_lookup_ne ep s a e h, rfl, rfl⟩

/-- I2. ISOLATION, exact. For every run and every address `B`: everything nng does for `B` (its answers to `B`, the
    messages handed over from `B`'s pipe, `B`'s pipe events) and the pipe `B` ends with are those of `B` ALONE run on
    `B`'s own events, given one bit per event of the rest of the endpoint: "peer_count has reached max_peers".
    (`p1Step` reads that bit in one place only: a CREQ from an address without a pipe.) -/
theorem isolation_exact (B : Nat) (ep : QEp) (evs : List (Nat × QEv)) :
    viewOf B (qRun ep evs) = (soloRun ep.cfg (qLookup ep.pipes B) (limitBits B ep evs)).1 ∧
    qLookup (qFinal ep evs).pipes B = (soloRun ep.cfg (qLookup ep.pipes B) (limitBits B ep evs)).2 :=
  iso_oracle B evs ep

/-- I3. NON-INTERFERENCE below the peer limit (no limit configured, or room for as many pipes as there are events):
    erasing every event of every other address changes neither what `B` sees nor the pipe `B` ends with. -/
theorem isolation_below_limit (B : Nat) (ep : QEp) (evs : List (Nat × QEv))
    (h : ep.cfg.maxPeers = 0 ∨ ep.peerCount + evs.length < ep.cfg.maxPeers) :
    viewOf B (qRun ep evs) = viewOf B (qRun ep (evsOf B evs)) ∧
    qLookup (qFinal ep evs).pipes B = qLookup (qFinal ep (evsOf B evs)).pipes B :=
  iso_slack B evs ep h

/-- I4. The same for the model the executor runs: `udpRun` on a socket that is not PAIR, below the peer limit. -/
theorem udpRun_isolated (pc : PCfg) (hp : pc.proto.isPair = false) (B : Nat) (u : UEp) (ds : List (Nat × Bytes))
    (h : u.maxPeers = 0 ∨ u.others + u.assocs.length + ds.length < u.maxPeers) :
    uView pc B u ds = uView pc B u (ds.filter (·.1 == B)) ∧
    uLookup (uFinal pc u ds).assocs B = uLookup (uFinal pc u (ds.filter (·.1 == B))).assocs B := by
  have h2 : USlack u (ds.filter (·.1 == B)).length := by
    rcases h with h | h
    · exact Or.inl h
    · right; have := List.length_filter_le (fun x : Nat × Bytes => x.1 == B) ds; omega
  exact udpRun_iso pc hp B ds u u rfl rfl h h2

/-- `uView` is the part of `udpRun`'s output that belongs to `B`'s datagrams. -/
theorem uView_spec (pc : PCfg) (B : Nat) (u : UEp) (ds : List (Nat × Bytes)) :
    uView pc B u ds = ((ds.zip (udpRun pc u ds)).filter (·.1.1 == B)).map (·.2) :=
  uView_is_filter pc B ds u

/-- I5. THE EXCEPTION IS REAL (finding, not a defect by itself: the documented "Peer Admission" bound): at the peer
    limit a well-formed CREQ from a new address is refused with DISC(NOBUF), counted, and changes nothing — while every
    address that has a pipe is served as before (I1, I2: their steps never read the bit). -/
theorem peer_limit_refuses_newcomer (ep : QEp) (s : Nat) (d : Bytes) (hl : ep.limit = true)
    (hn : qLookup ep.pipes s = none) (h : hdrOk d) (ho : opOf d = 1) :
    qStep ep s (.dgram d) =
      (ep, { act := .creq (le16 d 2) (le16 d 4) (le16 d 6), replies := [.disc discNobuf], stats := [.peerReject] }) := by
  apply qStep_dgram_same
  rw [hn, udpRxCb_creq d _ _ h ho]
  simp [qOnAct, qCreqNew, hl]

/-! ## (c) garbage is inert -/

/-- G1. A datagram that fails the header checks changes NO state of the endpoint and produces exactly:
    too short / wrong version — nothing; unknown opcode (incl. MESH) — DISC(PROTO) to the sender;
    DATA without a pipe — nothing but the rcv_nomatch counter; CACK or DISC without a pipe — nothing. -/
theorem garbage_is_inert (ep : QEp) (s : Nat) (d : Bytes) :
    (¬ hdrOk d → qStep ep s (.dgram d) = (ep, { act := .ignore })) ∧
    (hdrOk d → opOf d > 3 → qStep ep s (.dgram d) = (ep, { act := .discProto, replies := [.disc discProto] })) ∧
    (hdrOk d → opOf d = 0 → qLookup ep.pipes s = none →
      qStep ep s (.dgram d) = (ep, { act := .noMatch, stats := [.rcvNomatch] })) ∧
    (hdrOk d → opOf d = 2 → qLookup ep.pipes s = none →
      qStep ep s (.dgram d) = (ep, { act := .cack (le16 d 2) (le16 d 4) (le16 d 6) })) ∧
    (hdrOk d → opOf d = 3 → qLookup ep.pipes s = none →
      qStep ep s (.dgram d) = (ep, { act := .disc (le16 d 4) })) := by
  refine ⟨fun h => ?_, fun h ho => ?_, fun h ho hn => ?_, fun h ho hn => ?_, fun h ho hn => ?_⟩
  · apply qStep_dgram_same
    rw [udpRxCb_bad_header d _ _ h]
    cases qLookup ep.pipes s <;> rfl
  · apply qStep_dgram_same
    rw [udpRxCb_unknown_op d _ _ h ho]
    cases qLookup ep.pipes s <;> rfl
  · apply qStep_dgram_same
    rw [hn, udpRxCb_data d _ _ h ho]
    rfl
  · apply qStep_dgram_same
    rw [hn, udpRxCb_cack d _ _ h ho]
    rfl
  · apply qStep_dgram_same
    rw [hn, udpRxCb_disc d _ _ h ho]
    rfl

/-! ## (d) bounded FIFO per sender -/

/-- F1. For every run and every address `B`: what was handed over from `B`'s pipe, followed by what is still queued
    there, is a SUBLIST (same order, each at most once) of what was queued at the start followed by the payloads of the
    DATA datagrams of `B` that udp_rx_cb accepted during the run.  (A pipe that is closed and forgotten takes its
    queue with it; nothing of another address ever enters.) -/
theorem handed_is_fifo_of_own_data (B : Nat) (ep : QEp) (evs : List (Nat × QEv)) :
    (handedOf B (qRun ep evs) ++ rxqOf (qLookup (qFinal ep evs).pipes B)).Sublist
      (rxqOf (qLookup ep.pipes B) ++ acceptedOf B (qRun ep evs)) :=
  fifo_run B evs ep

/-- F2. "accepted" is the specification's notion: a datagram event is recorded as accepted with payload `pl` iff
    `udpAllowed` (version 1, DATA, a pipe for that address, declared length within datagram and limit, `pl` = exactly the
    declared prefix). -/
theorem accepted_iff_allowed (ep : QEp) (s : Nat) (d : Bytes) (pl : Bytes) :
    accOf (qStep ep s (.dgram d)).2 = [pl] ↔ udpAllowed d (qLookup ep.pipes s).isSome ep.cfg.rcvmax pl = true := by
  rw [← C11.udp_decision_is_spec]
  have hact : (qStep ep s (.dgram d)).2.act = udpRxCb d (qLookup ep.pipes s).isSome ep.cfg.rcvmax := by
    rw [qStep_out]
    simp only [p1Step, qDgram]
    generalize udpRxCb d (qLookup ep.pipes s).isSome ep.cfg.rcvmax = act
    cases act <;> cases qLookup ep.pipes s <;> simp only [qOnAct]
    all_goals first
      | rfl
      | (simp [qSendDisc_act]; done)
      | skip
    · exact (qCreqNew_rxq _ _ _ _).2.2
    · exact (qCreqKnown_rxq _ _ _ _).2.2
    · exact (qCackKnown_rxq _ _ _ _).2.2
  unfold accOf
  rw [hact]
  cases udpRxCb d (qLookup ep.pipes s).isSome ep.cfg.rcvmax <;> simp

/-- F3. DROP-OLDEST ONLY WHEN FULL. One accepted DATA on a pipe: if the queue holds fewer than NNG_UDP_RXQUEUE_LEN
    messages nothing is lost (handed ++ queue' = queue ++ [payload]); if it is full exactly the oldest is dropped; and the
    rcv_nobuf counter moves iff that happened. -/
theorem drop_oldest_only_when_full (c : QCfg) (x : QPipe) (pl : Bytes) :
    ((qRecvData c x pl).2.handed ++ (qRecvData c x pl).1.rxq =
        (if x.rxq.length < c.qcap then x.rxq else x.rxq.drop 1) ++ [pl]) ∧
    (QStat.rcvNobuf ∈ (qRecvData c x pl).2.stats ↔ x.rxq.length ≥ c.qcap) :=
  data_step_fifo c x pl

/-! ## (e) boundedness -/

/-- B1. Every per-pipe receive queue holds at most NNG_UDP_RXQUEUE_LEN messages, always; a closed pipe holds no
    posted receive. -/
theorem queues_bounded (ep : QEp) (evs : List (Nat × QEv)) (h : EpOk ep) :
    ∀ s x, qLookup (qFinal ep evs).pipes s = some x → x.rxq.length ≤ ep.cfg.qcap ∧ (x.closed = true → x.aios = 0) := by
  intro s x hx
  have := (qFinal_ok evs ep h).pipes s x hx
  rw [qFinal_cfg] at this
  exact ⟨this.qlen, this.noaio⟩

/-- B2. With a peer limit (the default: NNG_UDP_MAX_PEERS) the number of associations never exceeds it (nor what
    the endpoint started with), whatever any number of senders does. -/
theorem table_bounded (ep : QEp) (evs : List (Nat × QEv)) (hm : ep.cfg.maxPeers ≠ 0) :
    (qFinal ep evs).peerCount ≤ max ep.peerCount ep.cfg.maxPeers :=
  qFinal_peerCount_bound evs ep _ hm (Nat.le_max_right _ _) (Nat.le_max_left _ _)

/-- B3. GROWTH LAW without a limit (NNG_OPT_UDP_MAX_PEERS = 0, documented as "disables this protection"): at most one
    new association per event — and one 8-byte CREQ from a fresh address does create one (`example` below). -/
theorem table_growth_law (ep : QEp) (evs : List (Nat × QEv)) :
    (qFinal ep evs).peerCount ≤ ep.peerCount + evs.length :=
  qFinal_peerCount_growth evs ep

/-- B4 / T1. The transmit ring never holds more than NNG_UDP_TXQUEUE_LEN descriptors, whatever arrives and whenever
    transmissions complete; it decides nothing but the fate of each answer (queued, or dropped when the ring is full):
    erasing it gives exactly the run of the endpoint (so A*, I*, G*, F*, B* hold with the ring in place), and an
    answer is dropped only by a ring that is full. -/
theorem tx_ring_bounded_and_transparent (t : TEp) (tevs : List TEv) (h : t.tx ≤ t.ep.cfg.txSize) :
    (tFinal t tevs).tx ≤ t.ep.cfg.txSize ∧
    (tRun t tevs).map (fun o => (o.src, o.out)) = qRun t.ep (tErase tevs) ∧
    (tFinal t tevs).ep = qFinal t.ep (tErase tevs) ∧
    (∀ o ∈ tRun t tevs, o.sent.map (·.1) = o.out.replies) := by
  obtain ⟨h1, h2, h3, h4⟩ := tRun_spec tevs t h
  exact ⟨h1, h3, h2, h4⟩

theorem answer_dropped_only_by_full_ring (size tx : Nat) (rs : List URep) (h : tx ≤ size) :
    (txQueue size tx rs).1 ≤ size ∧ (∀ x ∈ (txQueue size tx rs).2, x.2 = false → (txQueue size tx rs).1 = size) :=
  ⟨(txQueue_spec size rs tx h).1, (txQueue_spec size rs tx h).2.2.2.2⟩

/-! ## the tie to the model the executor runs -/

/-- R1. REFINEMENT. On settled endpoints (every pipe open, nothing queued, one receive posted: the states the REAL
    executor waits for between datagrams) the general model with the socket on top — pipe_start verdict, protocol
    callback, reaper at once — is `udpStep`: same answers, pipe events, hand-overs, deliveries, same associations. -/
theorem general_model_refines_to_udpStep (pc : PCfg) (ep : QEp) (s : Nat) (d : Bytes) (hs : EpSettled ep) :
    (armedStep pc ep s d).1.abs = (udpStep pc ep.abs s d).1 ∧
    (armedStep pc ep s d).2 = (udpStep pc ep.abs s d).2 ∧
    EpSettled (armedStep pc ep s d).1 :=
  armed_is_udpStep pc ep s d hs

/-- R2. Every `udpRun` is such a run: from every `udpStep` endpoint. -/
theorem udpRun_is_general_model (pc : PCfg) (u : UEp) (ds : List (Nat × Bytes)) :
    udpRun pc u ds = armedRun pc (liftEp u) ds := by
  rw [armedRun_is_udpRun pc ds (liftEp u) (liftEp_settled u), liftEp_abs]

/-! ## the peer table (udp_find_pipe / udp_add_pipe / udp_remove_pipe over nng_sockaddr_hash) -/

/-- K1. With an INJECTIVE address hash (IPv4: (addr << 16) + port) the id map probed from the hash is the
    address-keyed table the association model uses: after any sequence of pipe creations and removals udp_find_pipe
    finds exactly the addresses that have a pipe, and those are the ones the specification (`setRun`) says —
    for the removal of the pinned tree (`old = true`) and for the fixed one alike. -/
theorem peer_table_is_address_map_partial (hash : Nat → Nat) (hinj : Function.Injective hash) (old : Bool) (evs : List PEv) :
    ptMembers (ptRun hash old [] evs) = setRun [] evs ∧
    ∀ a, ptFinds hash (ptRun hash old [] evs) a = decide (a ∈ setRun [] evs) := by
  have h0 : AtHash hash [] := ⟨by simp, by simp [ptMembers]⟩
  obtain ⟨h1, h2⟩ := ptRun_atHash hinj old evs h0
  refine ⟨h2, fun a => ?_⟩
  rw [h1.finds hinj a, h2]
  rfl

/-- K2 (full statement; proved for injective hashes — K1 `peer_table_is_address_map_partial` — and checked on the implementation for the colliding
    case by the REAL reproducer corpus/C11/udp6_hash_collision_*.txt; NOT proved for arbitrary hashes: the
    invariant "every key between a pipe's hash and its key is occupied" under udp_close_gap's moves is not formalised). -/
def peer_table_is_address_map_statement : Prop :=
  ∀ (hash : Nat → Nat) (evs : List PEv),
    (∀ a, hash a < 2 ^ 64) →
    ptMembers (ptRun hash false [] evs) = setRun [] evs ∧
    ∀ a, ptFinds hash (ptRun hash false [] evs) a = decide (a ∈ setRun [] evs)

/-! ## ws:// sessions (`wsSess`): what C16 does not already give

  Implied by C16 (Props/C16.lean), not restated: the segmentation of the stream is irrelevant (`rx_cut_independent`,
  `rx_blocks`); a frame that breaks a rule — non-minimal length, above the frame limit, taking the message above
  RECVMAXSZ, wrong masking, reserved opcode / RSV, oversize control frame, CONT without a message, data inside a message —
  closes the connection and nothing after it is looked at (`header_violation_rejected`, `frame_violation_rejected`,
  `closed_stays_silent` = C11 W1); fragments are reassembled in order with PINGs answered (`rx_reassembles`).  Malformed
  protocol headers: C11 P1/P2 through `appOut`.  Isolation: `wsSess` is a function of ONE connection's byte stream (each
  connection has its own http_sconn / nni_ws; by construction, as C11 X1).
  NOT implied by C16's local rules, proved here: the GLOBAL size clause (W1) and "no upgrade, no delivery" (W2). -/

/-- W1. Whatever bytes follow a successful upgrade, in whatever segmentation: every message the frame receiver
    completes to the protocol is at most NNG_OPT_RECVMAXSZ long (non-zero limit; frame limit WS_DEF_MAXRXFRAME).
    An invariant of `Ws.rx`: the bytes queued for the message under assembly never exceed the limit, and a data frame
    is only read after its declared length was admitted against it. -/
theorem ws_never_over_recvmax (l : WsL) (pc : PCfg) (stream : Bytes) (hl : l.recvmax > 0)
    (hw : Generated.c11bWsDefMaxRxFrame + l.recvmax < 2 ^ 64) :
    ∀ m ∈ (wsSess l pc stream).tp, m.length ≤ l.recvmax := by
  have hc : Ws.LimCfg (wsFrameCfg l) := ⟨rfl, hl, by show Generated.c11bWsDefMaxRxFrame > 0; decide, hw⟩
  intro m hm
  unfold wsSess at hm
  simp only at hm
  split at hm
  · simp at hm
  · split at hm
    · simp at hm
    · simp only [List.mem_filterMap] at hm
      obtain ⟨e, he, hem⟩ := hm
      rw [Ws.rxFold_eq_rx] at he
      have := (Ws.rx_ok (wsFrameCfg l) hc _ {} (Ws.init_inv _)).2 e he
      cases e with
      | msg b => simp at hem; subst hem; exact this b rfl
      | data b => simp at hem
      | tx b => simp at hem
      | err r => simp at hem

/-- the same for the frame receiver itself, any configuration in message mode with both limits, any state the
    receiver can be in (`RxInv` holds initially and is preserved) -/
theorem ws_rx_never_over_recvmax (cfg : Ws.Cfg) (hc : Ws.LimCfg cfg) (s : Ws.St) (hs : Ws.RxInv cfg s) (bs : Bytes) :
    Ws.RxInv cfg (Ws.rx cfg s bs).1 ∧ ∀ m, Ws.Ev.msg m ∈ (Ws.rx cfg s bs).2 → m.length ≤ cfg.recvmax := by
  obtain ⟨h1, h2⟩ := Ws.rx_ok cfg hc bs s hs
  exact ⟨h1, fun m hm => h2 _ hm m rfl⟩

/-- W2. No upgrade (any malformed, truncated or refused HTTP request sequence), or a pipe the socket refuses: nothing
    reaches the protocol or the application. -/
theorem ws_no_upgrade_no_delivery (l : WsL) (pc : PCfg) (stream : Bytes)
    (h : (wsSess l pc stream).conn.upgraded = false ∨ pipeStart pc.proto pc.proto.peer pc.busy ≠ 0) :
    (wsSess l pc stream).tp = [] ∧ (wsSess l pc stream).deliver = [] := by
  unfold wsSess at h ⊢
  simp only at h ⊢
  split
  · exact ⟨rfl, rfl⟩
  · rename_i hu
    split
    · exact ⟨rfl, rfl⟩
    · rename_i hp
      rcases h with h | h
      · rw [if_neg hu, if_neg hp] at h
        simp at hu
        rw [hu] at h; cases h
      · exact absurd h hp

/-! ## non-vacuity, and the findings as executions of the models -/

def cfg0 : QCfg := { rcvmax := 64, maxPeers := 2, qcap := 2 }
def creq (t : Nat) : Bytes := [1, 1, UInt8.ofNat t, 0, 0xff, 0xff, 5, 0]
def dat (b : List UInt8) : Bytes := [1, 0, 0x50, 0, UInt8.ofNat b.length, 0, 0, 0] ++ b

-- EpOk / EpSettled are satisfiable by endpoints with pipes; A1 is about real deliveries:
example : EpOk { cfg := cfg0, pipes := [(7, { peer := 0x50, rxq := [[1, 2]], aios := 0 })] } :=
  ⟨fun s x h => by
    have := mem_of_qLookup _ _ _ h
    simp at this
    obtain ⟨_, rfl⟩ := this
    exact ⟨by decide, by decide, by decide⟩, by decide⟩

-- a whole session: CREQ, receive posted, two DATA (one handed over, one queued), oversize DATA closes, reaper forgets
example :
    (qRun { cfg := cfg0 } [(7, .dgram (creq 0x50)), (7, .recv), (7, .dgram (dat [9])), (7, .dgram (dat [8, 8])),
        (7, .dgram ([1, 0, 0x50, 0, 200, 0, 0, 0] ++ [1, 2, 3])), (7, .close)]).map (fun o => (o.2.replies, o.2.handed)) =
      [([.cack], []), ([], []), ([], [[9]]), ([], []), ([.disc discMsgsize], []), ([], [])] := by decide

-- F3 with a full queue (capacity 2): the OLDEST goes, the counter moves
example : (qRecvData cfg0 { peer := 0x50, rxq := [[1], [2]] } [3]).1.rxq = [[2], [3]] ∧
    QStat.rcvNobuf ∈ (qRecvData cfg0 { peer := 0x50, rxq := [[1], [2]] } [3]).2.stats := by decide

-- A2's hypotheses: an open pipe and a DATA declaring 200 bytes against a limit of 64
example : hdrOk ([1, 0, 0x50, 0, 200, 0, 0, 0] ++ [1, 2, 3]) ∧ opOf ([1, 0, 0x50, 0, 200, 0, 0, 0] ++ [1, 2, 3]) = 0 ∧
    le16 ([1, 0, 0x50, 0, 200, 0, 0, 0] ++ [1, 2, 3]) 4 > cfg0.rcvmax := by decide

-- I3's hypothesis is satisfiable with traffic of three addresses; I5's too (FINDING "peer limit"): two CREQs from two
-- addresses fill a table of two, the third (well-formed) sender is refused with DISC(NOBUF), the first is still served
example : (({ cfg := { cfg0 with maxPeers := 0 } } : QEp).cfg.maxPeers = 0) := rfl
example :
    (qRun { cfg := cfg0 } [(1, .dgram (creq 0x50)), (2, .dgram (creq 0x50)), (3, .dgram (creq 0x50)),
        (1, .recv), (1, .dgram (dat [7]))]).map (fun o => (o.1, o.2.replies, o.2.handed)) =
      [(1, [.cack], []), (2, [.cack], []), (3, [.disc discNobuf], []), (1, [], []), (1, [], [[7]])] := by decide
example : (qFinal { cfg := cfg0 } [(1, .dgram (creq 0x50)), (2, .dgram (creq 0x50))]).limit = true := by decide

-- B3: without a limit every CREQ from a fresh address adds an association
example : (qFinal { cfg := { cfg0 with maxPeers := 0 } } [(1, .dgram (creq 0x50)), (2, .dgram (creq 0x50)),
    (3, .dgram (creq 0x50))]).peerCount = 3 := by decide

-- G1's cases exist
example : ¬ hdrOk [1, 0, 0x50] ∧ hdrOk [1, 9, 0, 0, 0, 0, 0, 0] ∧ opOf [1, 9, 0, 0, 0, 0, 0, 0] > 3 := by decide

-- T1: a ring of 32 with 31 in flight takes one of two answers, drops the other
example : txQueue 32 31 [.cack, .disc 0] = (32, [(.cack, true), (.disc 0, false)]) := by decide

-- R1: settled endpoints exist, with pipes
example : EpSettled (liftEp { rcvmax := 64, assocs := [(0, ⟨0x50⟩)] }) := liftEp_settled _

-- W1: the limits of `wsFrameCfg` satisfy `LimCfg`; the invariant holds initially
example : Ws.LimCfg (wsFrameCfg { proto := [], host := [], recvmax := 64 }) := ⟨rfl, by decide, by decide, by decide⟩
example : Ws.RxInv (wsFrameCfg { proto := [], host := [], recvmax := 64 }) {} := Ws.init_inv _

-- K1: an injective hash (IPv4 shape).  FINDING "peer table" (K3): with COLLIDING hashes (IPv6: addr[0..8) ^ addr[8..16) ^ port)
-- the removal of the pinned tree loses the association of the well-behaved address 2 when address 1 goes
-- (udp_find_pipe stops at the hole) and, once address 2's pipe is reaped too, leaves its entry in the map (the
-- dangling pointer behind the heap-use-after-free in udp_timer_cb); the fixed removal does neither.
example : Function.Injective (fun a : Nat => 65536 * a + 7) := fun a b h => by simp at h; omega
example : ptFinds (fun _ => 5) (ptRun (fun _ => 5) true [] [.add 1, .add 2, .del 1]) 2 = false ∧
    ptMembers (ptRun (fun _ => 5) true [] [.add 1, .add 2, .del 1]) = [2] := by decide
example : ptMembers (ptRun (fun _ => 5) true [] [.add 1, .add 2, .del 1, .del 2]) = [2] := by decide
example : ptFinds (fun _ => 5) (ptRun (fun _ => 5) false [] [.add 1, .add 2, .del 1]) 2 = true ∧
    ptMembers (ptRun (fun _ => 5) false [] [.add 1, .add 2, .del 1, .del 2]) = [] := by decide
-- … also across the 64-bit wrap of the key (hash 2^64 - 1: the next key is 1)
example : ptFinds (fun _ => 2 ^ 64 - 1) (ptRun (fun _ => 2 ^ 64 - 1) false [] [.add 1, .add 2, .add 3, .del 1, .del 2]) 3 = true := by decide

end Nng.C11Net
