/-
  C11 — hostile or broken peers cannot crash, wedge or bypass size limits.   (PARTIAL)

  Property theorems only (lemmas: Proofs/Hostile.lean; reused: Props/C01, Props/C13, Props/C16).
  `Nng.Hostile` / `Nng.Sp` are the executable models of the connection-level decisions of
  tcp.c / ipc.c / sockfd.c (negotiation test, receive state machine with the size rule), of the
  protocols' pipe_start / pipe receive callbacks and of udp.c's datagram header decisions;
  `Nng.HostileSpec` is the specification (frame grammar + size rule, stated on the peer's byte
  string only).  Every statement is for ALL byte strings and ALL segmentations; nothing is bounded.

  What is NOT here (and cannot be carried by these models): "the process does not crash, corrupt
  memory, hang or spin".  That part of C11 is supported by the REAL executor's stream search
  (harness/r_hostile.c, vlib/props/c11.py: sanitizers + watchdog + control connection), not proved.
-/
import NngModel.Proofs.Hostile
import NngModel.Props.C13
import NngModel.Props.C01
import NngModel.Props.C16
import NngModel.Generated.Base
import NngModel.Generated.C01
import NngModel.Generated.C11
namespace Nng.C11
open Nng Nng.Sp Nng.Hostile Nng.HostileSpec
open Nng.Generated (maxMaxTtl)

/-! ## H — the negotiation header -/

/-- H1. The eight negotiation bytes are accepted iff they are exactly `00 53 50 00 pp pp 00 00`;
    the announced protocol number is whatever `pp pp` says (any 16-bit value passes the transport). -/
theorem handshake_accepted_iff_exact (b : Bytes) (hl : b.length = 8) (p : Nat) :
    negoCheck b = some p ↔ (b = exactHandshake p ∧ p < 65536) := negoCheck_exact b hl p

/-- H2. The peer-protocol test is the protocol's (pipe_start), not the transport's: any announced
    number other than the socket's peer protocol ends in NNG_EPROTO; PAIR additionally refuses a
    second pipe with NNG_EBUSY; otherwise the pipe is added. -/
theorem wrong_peer_protocol_refused (p : Proto) (peer : Nat) (busy : Bool) :
    (peer ≠ p.peer → pipeStart p peer busy = Err.eproto) ∧
    (peer = p.peer → p.isPair = true → busy = true → pipeStart p peer busy = Err.ebusy) ∧
    (peer = p.peer → (p.isPair = false ∨ busy = false) → pipeStart p peer busy = 0) := by
  refine ⟨fun h => by simp [pipeStart, h], fun h hp hb => by simp [pipeStart, h, hp, hb], fun h hb => ?_⟩
  rcases hb with hb | hb <;> simp [pipeStart, h, hb]

/-- H3. One connection, EVERY byte stream in EVERY segmentation: the state after the chunks is a
    function of their concatenation only (`connOf`): fewer than 8 bytes ⇒ still negotiating, nothing
    delivered; 8 bytes that are not an exact header ⇒ dead with NNG_EPROTO; wrong peer protocol ⇒ dead
    with the protocol's error; otherwise the receive machine has consumed exactly the bytes after
    the header. -/
theorem connection_is_function_of_stream (c : Cfg) (pc : PCfg) (chunks : List Bytes) :
    connRun c pc (connInit c.kind) chunks = connOf c pc chunks.flatten := by
  rw [← connOf_nil c pc, connRun_eq_connOf]; simp

/-- H4. Nothing is ever handed to the protocol from a connection whose first eight bytes are not the
    exact header announcing the socket's peer protocol. -/
theorem delivery_needs_exact_handshake (c : Cfg) (pc : PCfg) (chunks : List Bytes)
    (h : (connRun c pc (connInit c.kind) chunks).rx.out ≠ []) :
    chunks.flatten.take 8 = exactHandshake pc.proto.peer := by
  rw [connection_is_function_of_stream] at h
  unfold connOf at h
  simp only [show Generated.c01HandshakeLen = 8 from rfl] at h
  split at h
  · simp [rxInit] at h
  · rename_i hlen
    split at h
    · simp [rxInit] at h
    · rename_i peer hn
      have hl : (chunks.flatten.take 8).length = 8 := by simp only [List.length_take]; omega
      have hex := (negoCheck_exact _ hl peer).mp hn
      by_cases hp : peer = pc.proto.peer
      · rw [← hp]; exact hex.1
      · have : pipeStart pc.proto peer pc.busy ≠ 0 := by simp [pipeStart, hp, Err.eproto]
        rw [if_pos this] at h
        simp [rxInit] at h

/-! ## S — the receive state machine with the size rule (tcp, ipc, socket-fd) -/

/-- S1. For EVERY byte stream cut into ANY chunks the receive path delivers exactly the frames the
    grammar of the specification calls deliverable, in order, and its error is the grammar's stop
    reason: 0 while more bytes could complete a frame, NNG_EPROTO for a wrong ipc type byte,
    NNG_EMSGSIZE for a declared length that is not a valid size or exceeds a non-zero rcvmax. -/
theorem rx_is_frame_grammar (c : Cfg) (chunks : List Bytes) :
    (rxRun c (rxInit c.kind) chunks).out = (parse (framingOf c) chunks.flatten).1 ∧
    (rxRun c (rxInit c.kind) chunks).err = stopErr (parse (framingOf c) chunks.flatten).2 := by
  rw [rxRun_eq_feed, rxInit_eq_idle]
  simpa using rxFeed_eq_parse c chunks.flatten []

/-- S2. Whatever the peer sends: every delivered message passed the size rule — its length is a valid
    message size and, when rcvmax ≠ 0, at most rcvmax. -/
theorem delivered_within_rcvmax (c : Cfg) (chunks : List Bytes) :
    ∀ m ∈ (rxRun c (rxInit c.kind) chunks).out,
      m.length ≤ Generated.c01MaxStreamMsgSz ∧ (c.rcvmax = 0 ∨ m.length ≤ c.rcvmax) := by
  intro m hm
  rw [(rx_is_frame_grammar c chunks).1] at hm
  have := (fits_iff c m.length).mp (parse_fits _ _ m hm)
  refine ⟨by simpa [sizeValid] using this.1, by omega⟩

/-- S3. Every delivered message is a frame of the stream: the peer's bytes begin with, for each
    delivery in order, a header of the transport's width whose length field is the payload length,
    followed by exactly that payload — nothing invented, merged, split or reordered. -/
theorem delivered_are_frames_of_stream (c : Cfg) (chunks : List Bytes) :
    StartsWith (framingOf c) chunks.flatten (rxRun c (rxInit c.kind) chunks).out := by
  rw [(rx_is_frame_grammar c chunks).1]
  exact parse_startsWith _ _

/-- S4. After the first rejected frame the connection's receive path is dead: whatever follows,
    in whatever pieces, changes nothing — nothing of that frame or after it is delivered. -/
theorem nothing_after_rejected_frame (c : Cfg) (chunks more : List Bytes)
    (h : (rxRun c (rxInit c.kind) chunks).err ≠ 0) :
    rxRun c (rxInit c.kind) (chunks ++ more) = rxRun c (rxInit c.kind) chunks := by
  rw [rxRun_eq_feed, rxRun_eq_feed, List.flatten_append, rxFeed_append, ← rxRun_eq_feed c chunks,
    rxFeed_err c _ _ h]

/-- S4'. …and the rejection itself is decided on the header alone: a header whose length field
    violates the size rule fails the connection with NNG_EMSGSIZE without delivering anything
    (C01's T4, restated for an arbitrary prior delivery list). -/
theorem oversize_header_rejected (c : Cfg) (n : Nat) (o : List Bytes) (more : List Bytes) (hn : n < 2 ^ 64)
    (hbad : ¬ Fits c n) :
    (rxRun c (idle c o) (headBytes c.kind n :: more)).err = Err.emsgsize ∧
    (rxRun c (idle c o) (headBytes c.kind n :: more)).out = o :=
  Nng.C01.rx_rejects_oversize c n o more hn hbad

/-- S5. Disconnect at any byte: for ANY stream (valid or not) truncated at ANY offset and delivered in
    ANY pieces, what is delivered is an initial part of what the whole stream would have delivered —
    only the complete deliverable frames before the cut. -/
theorem truncation_delivers_whole_frames_before_cut (c : Cfg) (stream : Bytes) (n : Nat)
    (chunks : List Bytes) (hcut : chunks.flatten = stream.take n) :
    (rxRun c (rxInit c.kind) chunks).out <+: (rxRun c (rxInit c.kind) [stream]).out := by
  rw [(rx_is_frame_grammar c chunks).1, (rx_is_frame_grammar c [stream]).1, hcut]
  have := (parse_append (framingOf c) (stream.take n) (stream.drop n)).1
  simpa using this

/-- S6. Decided before allocation: in every reachable state of the receive path (any bytes, any
    chunks) a header read asks for no more than the header still lacks, and when a body buffer exists
    its size — bytes filled plus bytes the pending read asks for — passed the size rule.  So the
    path never allocates or requests a read for more than min(rcvmax, NNI_MAX_STREAM_MSGSZ). -/
theorem read_request_bounded (c : Cfg) (chunks : List Bytes) :
    let s := rxRun c (rxInit c.kind) chunks
    s.err = 0 →
      match s.msg with
      | none => s.head.length + s.want = c.kind.headLen
      | some b => (b.length + s.want) ≤ Generated.c01MaxStreamMsgSz ∧
                  (c.rcvmax = 0 ∨ b.length + s.want ≤ c.rcvmax) := by
  intro s he
  have hi : RxInv c s := by
    show RxInv c (rxRun c (rxInit c.kind) chunks)
    rw [rxRun_eq_feed]; exact rxFeed_inv c _ _ (rxInv_init c)
  have := hi he
  cases hm : s.msg with
  | none => rw [hm] at this; exact this
  | some b => rw [hm] at this; exact this

/-! ## X — other connections and the listener -/

/-- X1. Product state: bytes on connection `i` — including bytes that kill it — leave every other
    connection's state and the listener's accept untouched, and the listener still accepts.
    (By construction of the model: the C keeps all of this state per pipe; that nothing is shared
    is what the REAL executor's control connection checks on the implementation.) -/
theorem connections_independent (c : Cfg) (pc : PCfg) (s : Sock) (i : Nat) (d : Bytes) :
    (∀ j, j ≠ i → (sockFeed c pc s i d).conns[j]? = s.conns[j]?) ∧
    (sockFeed c pc s i d).accepting = s.accepting ∧
    (sockFeed c pc s i d).conns.length = s.conns.length ∧
    (s.accepting = true →
      (sockAccept c (sockFeed c pc s i d)).conns.length = s.conns.length + 1) := by
  unfold sockFeed
  cases hi : s.conns[i]? with
  | none => simp [sockAccept]; intro h; simp [h]
  | some cn =>
    refine ⟨fun j hj => by simp [List.getElem?_set_ne (Ne.symm hj)], rfl, by simp, fun ha => ?_⟩
    simp [sockAccept, ha]

/-! ## P — protocol headers (by reuse of C13) -/

private theorem protoRecv_factor (pc : PCfg) (pipe : Nat) (eid : Option Bytes) (w : Bytes)
    (ht : pc.ttl ≤ maxMaxTtl) :
    protoRecv pc pipe eid w =
      protoPost pc eid w (Bt.ofVerdict (protoPre pc pipe) (specVerdict pc w)) := by
  obtain ⟨a1, a2, a3, a4, a5, a6⟩ := C13.D5_classification pc.ttl pipe w ht
  have a7 := C13.D7_pair1_classification pc.ttl w
  obtain ⟨proto, raw, ttl, sp, busy⟩ := pc
  cases proto <;> cases raw <;>
    simp only [protoRecv, specVerdict, protoPre, protoPost, a1, a2, a3, a4, a5, a6, a7, reqRecv_ofVerdict,
      Bt.ofVerdict, List.append_nil]

/-- P1. For every byte string a peer can put into a frame: the protocol's receive callback hands a
    message up only if the specification (C13: `classify`, `classifyHop`, `classifyNoTtl`; a reply
    needs its 4-byte id) accepts its header, and then the body is the specification's payload; a
    malformed header (no id word within the hop limit before the bytes run out, missing or > 255 hop
    count, reply shorter than an id) closes the pipe.  Never a delivery of a malformed message. -/
theorem malformed_header_never_delivered (pc : PCfg) (pipe : Nat) (eid : Option Bytes) (w : Bytes)
    (ht : pc.ttl ≤ maxMaxTtl) :
    (∀ h b, protoRecv pc pipe eid w = .deliver h b → ∃ bt, specVerdict pc w = .accept bt b) ∧
    (specVerdict pc w = .malformed → protoRecv pc pipe eid w = .closePipe) := by
  rw [protoRecv_factor pc pipe eid w ht]
  have hs := protoPost_sound pc eid w (Bt.ofVerdict (protoPre pc pipe) (specVerdict pc w))
  refine ⟨fun h b hd => ?_, fun hm => ?_⟩
  · obtain ⟨h', hh⟩ := hs.1 h b hd
    cases hv : specVerdict pc w <;> simp_all [Bt.ofVerdict]
  · rw [hm] at hs ⊢
    rcases hs.2 rfl with h | h
    · exact h
    · -- SUB never has a malformed verdict
      exfalso
      obtain ⟨proto, raw, ttl, sp, busy⟩ := pc
      simp only at h
      subst h
      cases raw <;> simp [specVerdict] at hm

/-- P2. Over a whole connection: everything the application gets is the payload of some transport
    message whose header the specification accepts, and once a malformed one arrives nothing later
    is delivered (the callback closes the pipe without re-arming the receive). -/
theorem app_gets_only_well_formed (pc : PCfg) (pipe : Nat) (eid : Option Bytes) (ws : List Bytes)
    (ht : pc.ttl ≤ maxMaxTtl) :
    ∀ hb ∈ (appOut pc pipe eid ws).1, ∃ w ∈ ws, ∃ bt, specVerdict pc w = .accept bt hb.2 := by
  induction ws with
  | nil => simp [appOut]
  | cons w ws ih =>
    intro hb hmem
    unfold appOut at hmem
    have hsp := (malformed_header_never_delivered pc pipe eid w ht).1
    cases hr : protoRecv pc pipe eid w with
    | deliver h b =>
      rw [hr] at hmem
      simp only [List.mem_cons] at hmem
      rcases hmem with rfl | hmem
      · obtain ⟨bt, hbt⟩ := hsp h b hr
        exact ⟨w, by simp, bt, hbt⟩
      · obtain ⟨w', hw', r⟩ := ih hb hmem
        exact ⟨w', by simp [hw'], r⟩
    | closePipe => rw [hr] at hmem; simp at hmem
    | drop => rw [hr] at hmem; obtain ⟨w', hw', r⟩ := ih hb hmem; exact ⟨w', by simp [hw'], r⟩
    | dropEinval => rw [hr] at hmem; obtain ⟨w', hw', r⟩ := ih hb hmem; exact ⟨w', by simp [hw'], r⟩
    | panic => rw [hr] at hmem; obtain ⟨w', hw', r⟩ := ih hb hmem; exact ⟨w', by simp [hw'], r⟩

theorem nothing_after_malformed_header (pc : PCfg) (pipe : Nat) (eid : Option Bytes) (w : Bytes)
    (ws : List Bytes) (h : protoRecv pc pipe eid w = .closePipe) :
    appOut pc pipe eid (w :: ws) = ([], true) := by
  simp [appOut, h]

/-! ## U — SP over UDP -/

/-- U1. The datagram decision of udp_rx_cb/udp_recv_data hands a payload up exactly when the
    specification allows it: version 1, opcode DATA, a known peer, declared length within the
    datagram and within the limit — and then exactly the declared initial part of the datagram's
    payload. -/
theorem udp_decision_is_spec (d : Bytes) (known : Bool) (rcvmax : Nat) (p : Bytes) :
    udpRxCb d known rcvmax = .data p ↔ udpAllowed d known rcvmax p = true := by
  simp only [udpRxCb, udpAllowed, udpHdrLen, Generated.c11UdpHdrLen, Generated.c11UdpVersion,
    Generated.c11UdpOpcodes, List.getD_cons_zero, List.getD_cons_succ, le16, udpRecvData, Nat.reduceAdd]
  generalize (d.getD 0 0).toNat = v
  generalize (d.getD 1 0).toNat = op
  obtain ⟨L, hL⟩ : ∃ L, (d.getD 4 0).toNat + 256 * (d.getD 5 0).toNat = L := ⟨_, rfl⟩
  obtain ⟨q, hq⟩ : ∃ q, d.drop 8 = q := ⟨_, rfl⟩
  have hql : q.length = d.length - 8 := by rw [← hq]; simp
  simp only [hL, hq]
  by_cases h1 : d.length ≥ 8 ∧ v = 1
  · rw [if_pos h1]
    obtain ⟨h1a, h1b⟩ := h1
    by_cases h2 : op = 0
    · rw [if_pos h2]
      cases known
      · simp
      · simp only [Bool.not_true, Bool.false_eq_true, ↓reduceIte, Bool.true_and]
        by_cases h3 : L > q.length ∨ L > rcvmax
        · rw [if_pos h3]
          have : (decide (L ≤ d.length - 8) && decide (L ≤ rcvmax)) = false := by
            rcases h3 with h3 | h3
            · simp; intro; omega
            · simp; intro; omega
          simp [this]
        · rw [if_neg h3]
          have : (decide (L ≤ d.length - 8) && decide (L ≤ rcvmax)) = true := by
            simp; omega
          simp only [UdpAct.data.injEq, h1a, h1b, h2, decide_true, Bool.true_and, this, beq_iff_eq]
          exact ⟨fun h => h.symm, fun h => h.symm⟩
    · rw [if_neg h2]
      have hf : decide (op = 0) = false := by simp [h2]
      simp only [hf, Bool.and_false, Bool.false_and, Bool.false_eq_true, iff_false]
      repeat' split
      all_goals simp
  · rw [if_neg h1]
    have hf : (decide (d.length ≥ 8) && decide (v = 1)) = false := by
      by_cases hl : d.length ≥ 8
      · have : ¬ v = 1 := fun h => h1 ⟨hl, h⟩
        simp [this]
      · simp [hl]
    simp only [reduceCtorEq, false_iff, Bool.not_eq_true]
    rw [Bool.and_assoc known, hf]
    simp

/-- U2. No datagram can make SP/UDP deliver more than the configured limit, and the limit the
    option can configure never exceeds 65000 (0 and larger values mean 65000). -/
theorem udp_delivered_within_limit (d : Bytes) (known : Bool) (v : Nat) (p : Bytes)
    (h : udpRxCb d known (udpSetRecvMax v) = .data p) :
    p.length ≤ Generated.c11UdpRecvMax ∧ p.length ≤ d.length - 8 ∧
    (v ≠ 0 → v ≤ Generated.c11UdpRecvMax → p.length ≤ v) := by
  have h' := (udp_decision_is_spec d known _ p).mp h
  simp only [udpAllowed, Bool.and_eq_true, decide_eq_true_eq, beq_iff_eq] at h'
  obtain ⟨_, ⟨h1, h2⟩, h3⟩ := h'
  have hp : p.length ≤ (d.getD 4 0).toNat + 256 * (d.getD 5 0).toNat := by
    rw [h3]; simp only [List.length_take]; omega
  have hs : udpSetRecvMax v ≤ Generated.c11UdpRecvMax := by
    unfold udpSetRecvMax; split <;> omega
  refine ⟨by omega, by omega, fun hv0 hv => ?_⟩
  have : udpSetRecvMax v = v := by
    unfold udpSetRecvMax; rw [if_neg (by omega)]
  omega

/-- U3. Datagrams shorter than the 8-byte header or with a version other than 1 are ignored
    outright; an unknown opcode is answered with DISC(PROTO) to the sender and touches no pipe;
    DATA from an address without an association is counted and dropped. -/
theorem udp_garbage_touches_nothing (d : Bytes) (known : Bool) (rcvmax : Nat) :
    ((d.length < 8 ∨ (d.getD 0 0).toNat ≠ 1) → udpRxCb d known rcvmax = .ignore) ∧
    (d.length ≥ 8 → (d.getD 0 0).toNat = 1 → (d.getD 1 0).toNat > 3 → udpRxCb d known rcvmax = .discProto) ∧
    (d.length ≥ 8 → (d.getD 0 0).toNat = 1 → (d.getD 1 0).toNat = 0 → known = false →
      udpRxCb d known rcvmax = .noMatch) := by
  simp only [udpRxCb, udpHdrLen, Generated.c11UdpHdrLen, Generated.c11UdpVersion,
    Generated.c11UdpOpcodes, List.getD_cons_zero, List.getD_cons_succ]
  refine ⟨fun h => ?_, fun h1 h2 h3 => ?_, fun h1 h2 h3 h4 => ?_⟩
  · rw [if_neg (by omega)]
  · rw [if_pos ⟨h1, h2⟩, if_neg (by omega), if_neg (by omega), if_neg (by omega), if_neg (by omega)]
  · rw [if_pos ⟨h1, h2⟩, if_pos h3]; simp [udpRecvData, h4]

/-! ## W — WebSocket (by reuse of C16) -/

/-- W1. ws://: a frame header that breaks a rule (non-minimal 16/64-bit length, frame above the
    frame limit, message above recvmax, wrong masking for the role) closes the connection, leaves
    no read outstanding and delivers nothing, whatever follows (C16 `header_violation_rejected`);
    likewise frame-level violations (C16 `frame_violation_rejected`); and a closed receiver never
    looks at the stream again (C16 `closed_stays_silent`). -/
theorem ws_rule_violation_closes (cfg : Ws.Cfg) (s : Ws.St) (h : s.want = 0) (bs : Bytes) :
    Ws.rx cfg s bs = (s, []) := C16.closed_stays_silent cfg s h bs

/-! ## non-vacuity -/

/-- the exact header for PUSH is accepted by the transport and by a PULL socket -/
example : negoCheck [0, 0x53, 0x50, 0, 0, 0x50, 0, 0] = some 0x50 ∧ pipeStart .pull 0x50 false = 0 := by decide

/-- a valid frame is delivered (so `out ≠ []` in H4 is satisfiable) … -/
example : (rxRun ⟨.tcp, 4⟩ (rxInit .tcp) [[0, 0, 0, 0, 0], [0, 0, 2, 7], [8]]).out = [[7, 8]] := by
  have h := (Nng.C01.rx_delivers_exactly ⟨.tcp, 4⟩ [⟨[], [7, 8]⟩] [[0, 0, 0, 0, 0], [0, 0, 2, 7], [8]]
    (by intro m hm; simp at hm; subst hm; simp [Fits, SpMsg.size, Generated.c01MaxStreamMsgSz])
    (by decide)).2
  rw [h]; rfl

/-- … and a peer announcing rcvmax+1 bytes puts the machine into the failed state that S4 is about -/
example : (rxRun ⟨.tcp, 4⟩ (idle ⟨.tcp, 4⟩ []) (headBytes .tcp 5 :: [[1, 2, 3, 4, 5]])).err ≠ 0 := by
  rw [(oversize_header_rejected ⟨.tcp, 4⟩ 5 [] [[1, 2, 3, 4, 5]] (by decide)
    (by simp [Fits])).1]
  decide

/-- wrong protocol id: refused by the protocol with NNG_EPROTO -/
example : (connRun ⟨.ipc, 0⟩ { proto := .pull } (connInit .ipc)
    [[0, 0x53, 0x50, 0, 0, 0x10, 0, 0], [1, 0, 0, 0, 0, 0, 0, 0, 0]]).err = Err.eproto := by decide

/-- a REP socket never sees a request whose backtrace has no id word -/
example : protoRecv { proto := .rep } 5 none [0, 0, 0, 1, 9] = .closePipe := by decide

example : udpRxCb [1, 0, 0x30, 0, 2, 0, 0, 0, 7, 8, 9] true 64 = .data [7, 8] := by decide
example : udpRxCb [1, 0, 0x30, 0, 4, 0, 0, 0, 7, 8, 9] true 64 = .discMsgsize := by decide

end Nng.C11
