/- C02 (and the liveness side of C10), task layer: src/core/taskq.c - one nni_task, W >= 1 task threads
   (nni_taskq_thread), any number of client threads calling nni_task_prep / dispatch / exec / wait / busy.

   All theorems quantify over EVERY schedule (list of thread choices incl. the nni_cv_wake1 oracle), every number
   `nw >= 1` of task threads, every list `progs` of client programs and both kinds of task (`hasCb = false`: NULL
   callback).  Theorems that need the contract say so by the hypothesis `respects`
   (Model/Taskq.lean `allowed`: K1 dispatch only when every earlier dispatch's callback has begun, K2 prep only
   when no prep is outstanding); everything else holds for all schedules whatsoever.

   Model: Model/Taskq.lean; invariants: Proofs/Taskq{Inv,Term,Contract,Judge,Sim,Facts}.lean; tie to the real
   code: harness/u_taskq.c replays schedules step by step on the real taskq.c (vlib/props/c02_taskq.py);
   structural anchors: vlib/extract_c02t.py -> Generated/C02T.lean.

   There is no nni_task_abort in this tree: a dispatch cannot be withdrawn, so (a) is "exactly one", never zero. -/
import NngModel.Proofs.TaskqFacts
import NngModel.Proofs.TaskqSim
import NngModel.Generated.C02T
namespace Nng.C02Taskq
open Nng.Taskq Nng.TaskqSpec

/-- the states reachable from nni_taskq_init + nni_task_init -/
def reach (hasCb : Bool) (nw : Nat) (progs : List (List Op)) (sched : List Choice) : State :=
  run hasCb (init nw progs) sched

theorem reach_inv (hasCb : Bool) (nw : Nat) (hw : 0 < nw) (progs : List (List Op)) (sched : List Choice) :
    Inv (reach hasCb nw progs sched) := inv_run hasCb (inv_init nw hw progs) sched

/-! ### (a) exactly one callback execution per dispatch / exec -/

/-- none doubled (all schedules, no contract needed): callback executions begun on task threads never exceed the
    dispatch calls, those inside nni_task_exec never exceed the exec calls; ended <= begun; accounted <= ended -/
theorem callbacks_never_exceed_dispatches (hasCb : Bool) (nw : Nat) (hw : 0 < nw) (progs : List (List Op))
    (sched : List Choice) :
    let s := reach hasCb nw progs sched
    s.bw ≤ s.sd ∧ s.bx ≤ s.sx ∧ s.ce ≤ s.bw + s.bx ∧ s.dn ≤ s.ce :=
  counters_le (reach_inv hasCb nw hw progs sched)

/-- K1 + K2 keep the task off the run list when it is appended: nni_list_append never panics -/
theorem no_panic_under_contract (hasCb : Bool) (nw : Nat) (hw : 0 < nw) (progs : List (List Op)) (sched : List Choice)
    (hr : respects hasCb (init nw progs) sched = true) : (reach hasCb nw progs sched).panic = false :=
  (invK_run hasCb (inv_init nw hw progs) (invK_init nw progs) sched hr).noPanic

/-- none lost: when nothing can move any more, every dispatch and every exec has had its callback begun, ended
    and accounted - exactly once each -/
theorem exactly_once_at_rest (hasCb : Bool) (nw : Nat) (hw : 0 < nw) (progs : List (List Op)) (sched : List Choice)
    (hr : respects hasCb (init nw progs) sched = true) :
    let s := reach hasCb nw progs sched
    (∀ ch, enabled s ch = false) → s.bw = s.sd ∧ s.bx = s.sx ∧ s.ce = s.sd + s.sx ∧ s.dn = s.sd + s.sx :=
  fun hst => at_rest (reach_inv hasCb nw hw progs sched) (no_panic_under_contract hasCb nw hw progs sched hr) hst

/-! ### (b) overlap -/

/-- what the code guarantees: the executions in progress never exceed the dispatch/exec calls whose callback has
    not returned yet (all schedules) -/
theorem running_bounded_by_outstanding (hasCb : Bool) (nw : Nat) (hw : 0 < nw) (progs : List (List Op))
    (sched : List Choice) :
    let s := reach hasCb nw progs sched
    running s + s.ce ≤ s.sd + s.sx :=
  running_le (reach_inv hasCb nw hw progs sched)

/-- hence no two executions of the callback overlap if no dispatch/exec is issued while an earlier one is unfinished -/
theorem no_overlap_when_serial (hasCb : Bool) (nw : Nat) (hw : 0 < nw) (progs : List (List Op)) (sched : List Choice)
    (hr : respectsSerial hasCb (init nw progs) sched = true) : running (reach hasCb nw progs sched) ≤ 1 :=
  running_le_one (reach_inv hasCb nw hw progs sched) (serial_run hasCb (by simp [Serial, init]) sched hr)

/-- but taskq.c does NOT serialise the callbacks of one task: within the contract (K1, K2), a dispatch issued
    while the callback runs (what aio.c does when an operation is re-submitted from the callback and completes at
    once) is picked up by a second task thread: two executions overlap -/
theorem overlap_reachable_within_contract :
    let sched : List Choice := [⟨.c 0, 0⟩, ⟨.c 0, 0⟩, ⟨.w 0, 0⟩, ⟨.w 0, 0⟩, ⟨.c 1, 0⟩, ⟨.c 1, 0⟩, ⟨.w 1, 0⟩, ⟨.w 1, 0⟩]
    respects true (init 2 [[.dispatch], [.dispatch]]) sched = true ∧
    running (reach true 2 [[.dispatch], [.dispatch]] sched) = 2 := by
  decide

/-! ### (c) nni_task_wait / nni_task_busy -/

/-- a step in which nni_task_wait returns (or nni_task_busy says false) happens only with task_busy = 0, and then
    nothing is prepared, queued, popped or running and every dispatched callback has begun, ended and been
    accounted; nni_task_busy says true only with task_busy != 0 -/
theorem wait_returns_only_when_idle (hasCb : Bool) (nw : Nat) (hw : 0 < nw) (progs : List (List Op))
    (sched : List Choice) (ch : Choice) (hr : respects hasCb (init nw progs) (sched ++ [ch]) = true) :
    let s := reach hasCb nw progs sched
    let s' := step hasCb s ch
    ∀ r ∈ newRes (s.cs.map (·.res)) (s'.cs.map (·.res)),
      ((r = .waited ∨ r = .busy false) → s'.busy = 0 ∧ Idle s') ∧ (r = .busy true → s'.busy ≠ 0) := by
  intro s s' r hm
  have hI := reach_inv hasCb nw hw progs sched
  have hr' := respects_snoc hasCb ch _ _ hr
  have hK := invK_run hasCb (inv_init nw hw progs) (invK_init nw progs) sched hr'.1
  have hrel := (stepRel_step hasCb hK ch hr'.2).2 r hm
  have hI' : Inv s' := inv_step hasCb hI ch
  constructor
  · intro hw'
    have hb : s'.busy = 0 := hrel.1.trans (hrel.2.1 hw')
    exact ⟨hb, idle_of_busy_zero hI' hb⟩
  · intro ht hz
    exact hrel.2.2 ht (hrel.1.symm.trans hz)

/-- once the task is idle (a wait has returned), no callback starts unless somebody calls dispatch / exec again -/
theorem no_callback_without_new_dispatch (hasCb : Bool) (nw : Nat) (hw : 0 < nw) (progs : List (List Op))
    (sched more : List Choice) :
    let s := reach hasCb nw progs sched
    let s' := reach hasCb nw progs (sched ++ more)
    s.busy = 0 → s'.sd + s'.sx = s.sd + s.sx → s'.bw + s'.bx = s.bw + s.bx := by
  intro s s' hb hsame
  have hdn : s.dn ≤ s'.dn := by
    have := dn_run hasCb s more
    simpa [s, s', reach, run, List.foldl_append] using this
  exact no_new_callbacks (reach_inv hasCb nw hw progs sched) (reach_inv hasCb nw hw progs (sched ++ more)) hdn hb hsame

/-! ### (d) no deadlock, termination -/

/-- no lost wake-up: nobody sleeps on task_cv while task_busy is 0, and while the task is queued some task thread
    is awake (all schedules) -/
theorem no_lost_wakeup (hasCb : Bool) (nw : Nat) (hw : 0 < nw) (progs : List (List Op)) (sched : List Choice) :
    let s := reach hasCb nw progs sched
    (∀ c ∈ s.cs, c.pc = .waitSleep → 0 < s.busy) ∧ (s.onq = true → ∃ w ∈ s.ws, w ≠ .sleep) :=
  no_lost_wakeup_inv (reach_inv hasCb nw hw progs sched)

/-- no deadlock: a state where no thread can move has every task thread asleep on the empty queue, task_busy equal to
    the prep still owed a dispatch, and every client either finished or asleep in nni_task_wait - the latter only
    if such a prep exists; with no prep outstanding everything has terminated (all schedules within the contract) -/
theorem stuck_only_when_finished (hasCb : Bool) (nw : Nat) (hw : 0 < nw) (progs : List (List Op)) (sched : List Choice)
    (hr : respects hasCb (init nw progs) sched = true) :
    let s := reach hasCb nw progs sched
    (∀ ch, enabled s ch = false) →
      (∀ w ∈ s.ws, w = .sleep) ∧ s.onq = false ∧ s.busy = s.owed ∧
      (∀ c ∈ s.cs, c.finished = true ∨ c.pc = .waitSleep) ∧ (s.owed = 0 → ∀ c ∈ s.cs, c.finished = true) :=
  fun hst => stuck_shape (reach_inv hasCb nw hw progs sched) (no_panic_under_contract hasCb nw hw progs sched hr) hst

/-- termination under ANY scheduler (no fairness needed): the number of effective steps of a run is bounded by
    1 + W + sum of the call costs (dispatch 7 + n, exec 4 + n, wait 2, prep / busy 1; n = number of clients) -/
theorem steps_bounded (hasCb : Bool) (nw : Nat) (progs : List (List Op)) (sched : List Choice) :
    effSteps hasCb (init nw progs) sched ≤ 1 + nw + (7 + progs.length) * (progs.map List.length).sum := by
  have := effSteps_le hasCb (init nw progs) sched
  rw [mu_init] at this
  have := progsCost_le progs
  omega

/-- and every effective step makes progress: so under any scheduler that runs some thread whenever one can move,
    after at most that many steps nothing can move, i.e. (previous theorem) every wait has returned -/
theorem effective_step_decreases (hasCb : Bool) (s : State) (ch : Choice) (h : enabled s ch = true) :
    mu (step hasCb s ch) < mu s := mu_step_lt hasCb s ch h

/-! ### (e) the counter -/

/-- task_busy = (prep not yet consumed) + (dispatch/exec calls) - (completed executions), always -/
theorem busy_counter_law (hasCb : Bool) (nw : Nat) (hw : 0 < nw) (progs : List (List Op)) (sched : List Choice) :
    let s := reach hasCb nw progs sched
    s.busy + s.dn = s.owed + (s.sd + s.sx) := busy_law (reach_inv hasCb nw hw progs sched)

/-- the decrement never finds 0 (the unsigned counter never wraps below) - all schedules -/
theorem no_underflow (hasCb : Bool) (nw : Nat) (hw : 0 < nw) (progs : List (List Op)) (sched : List Choice) :
    (reach hasCb nw progs sched).under = false := (reach_inv hasCb nw hw progs sched).noUnder

/-- task_busy is 0 exactly when nothing is prepared, scheduled or running -/
theorem busy_zero_iff_idle (hasCb : Bool) (nw : Nat) (hw : 0 < nw) (progs : List (List Op)) (sched : List Choice) :
    let s := reach hasCb nw progs sched
    s.busy = 0 ↔ (s.owed = 0 ∧ s.sd + s.sx = s.dn) :=
  busy_zero_iff (reach_inv hasCb nw hw progs sched)

/-- within the contract the counter is bounded by the number of threads + 2: it cannot overflow its `unsigned` -/
theorem busy_bounded (hasCb : Bool) (nw : Nat) (hw : 0 < nw) (progs : List (List Op)) (sched : List Choice)
    (hr : respects hasCb (init nw progs) sched = true) :
    let s := reach hasCb nw progs sched
    s.busy ≤ 2 + s.cs.length + s.ws.length ∧
    (2 + s.cs.length + s.ws.length < 2 ^ Generated.taskqBusyBits → s.busy < 2 ^ Generated.taskqBusyBits) := by
  have hb := busy_bound (reach_inv hasCb nw hw progs sched)
    (invK_run hasCb (inv_init nw hw progs) (invK_init nw progs) sched hr)
  exact ⟨hb, fun hlt => Nat.lt_of_le_of_lt hb hlt⟩

/-! ### the contract: each clause is necessary -/

/-- without K1 (a second dispatch before the first one's callback has begun): nni_list_append panics -/
theorem k1_necessary :
    (reach true 1 [[.dispatch, .dispatch]] [⟨.c 0, 0⟩, ⟨.c 0, 0⟩, ⟨.c 0, 0⟩, ⟨.c 0, 0⟩]).panic = true := by decide

/-- without K2 (two preps before the dispatch): all calls have been issued, both callbacks have run, and task_busy
    stays 1 for ever - the wait never returns (nothing can move, the client is asleep in nni_task_wait) -/
theorem k2_necessary :
    let s := reach true 1 [[.prep, .prep, .dispatch, .dispatch, .wait]]
      ((List.replicate 4 ⟨.c 0, 0⟩) ++ (List.replicate 4 ⟨.w 0, 0⟩) ++ (List.replicate 2 ⟨.c 0, 0⟩) ++
       (List.replicate 5 ⟨.w 0, 0⟩) ++ [⟨.c 0, 0⟩])
    s.live = false ∧ s.busy = 1 ∧ s.prep = false ∧ s.bw = 2 ∧ s.dn = 2 ∧
    s.cs = [⟨.waitSleep, [], []⟩] := by decide

/-- K3 (liveness side of the contract): a prep that is never followed by dispatch/exec blocks every wait -/
theorem prep_must_be_dispatched :
    let s := reach true 1 [[.prep, .wait]] [⟨.c 0, 0⟩, ⟨.c 0, 0⟩, ⟨.w 0, 0⟩]
    respects true (init 1 [[.prep, .wait]]) [⟨.c 0, 0⟩, ⟨.c 0, 0⟩, ⟨.w 0, 0⟩] = true ∧
    s.live = false ∧ s.owed = 1 ∧ s.cs = [⟨.waitSleep, [], []⟩] := by decide

/-! ### relation to Model/Aio.lean -/

/-- the model of taskq.c refines the task layer that Model/Aio.lean assumes (fields busy, prep, queued, popped,
    inCb; transitions prepare, dispatch, pop, cbRead, cbDone, stopWait): every run is matched, step by step, by a
    run of that abstract layer (forward simulation with stuttering; all schedules, no contract needed) -/
theorem refines_aio_task_layer (hasCb : Bool) (nw : Nat) (hw : 0 < nw) (progs : List (List Op)) (sched : List Choice) :
    Abs.run (absOf (init nw progs)) (labelsRun hasCb (init nw progs) sched) =
      some (absOf (reach hasCb nw progs sched)) :=
  simulates_run hasCb (inv_init nw hw progs) sched

/-- and Model/Aio.lean uses nothing else of the task layer: each of its transitions moves those five fields by
    zero, one or two transitions of the abstract task layer -/
theorem aio_model_moves_task_fields_only_by_task_transitions (cfg : Aio.Cfg) (s s' : Aio.State) (l : Aio.Label)
    (h : Aio.step cfg s l = some s') : ∃ ls, ls.length ≤ 2 ∧ Abs.run (projAio s) ls = some (projAio s') :=
  aio_task_layer cfg s s' l h

/-- conversely the aio layer keeps the task layer's contract: in every state the (repaired) aio model reaches with
    the generic provider, at most one completion is queued or popped-but-not-begun (K1), and `prepare`
    (nni_task_prep, enabled at subPc = 1) finds task_prep clear (K2) -/
theorem aio_model_keeps_contract (ls : List Aio.Label) (hn : ∀ l ∈ ls, Aio.NoSleepL l) (s : Aio.State)
    (hr : Aio.run Aio.Cfg.fixed {} ls = some s) : s.queued + s.popped ≤ 1 ∧ (s.subPc = 1 → s.prep = false) :=
  aio_keeps_contract s (aio_inv1_run Aio.inv1_init hn hr)

/-! ### the executable specification -/

/-- the judge (Spec/Taskq.lean clauses a-e on observations) accepts every contract-respecting run of the model;
    the same judge runs on the real code's observations -/
theorem judge_model (hasCb : Bool) (nw : Nat) (hw : 0 < nw) (progs : List (List Op)) (sched : List Choice)
    (hr : respects hasCb (init nw progs) sched = true) :
    judgeFrom { prev := obsOf (init nw progs) }
      (obsOf (init nw progs) :: (trace hasCb (init nw progs) sched).map obsOf) = none :=
  judgeFrom_model hasCb nw hw progs sched hr

/-! non-vacuity: a contract-respecting complete run with two task threads, a prep+dispatch+wait client and a
    concurrent busy/wait client - ends with everything finished, one callback, counter back to 0 -/
example :
    let progs : List (List Op) := [[.prep, .dispatch, .wait], [.busy, .wait]]
    let sched : List Choice := [⟨.c 0, 0⟩, ⟨.c 1, 0⟩, ⟨.w 0, 0⟩, ⟨.c 1, 0⟩, ⟨.c 0, 0⟩, ⟨.w 1, 0⟩, ⟨.c 0, 0⟩, ⟨.c 0, 0⟩,
      ⟨.w 0, 0⟩, ⟨.w 0, 0⟩, ⟨.w 0, 0⟩, ⟨.w 0, 0⟩, ⟨.c 0, 0⟩, ⟨.c 1, 0⟩, ⟨.w 0, 0⟩]
    let s := reach true 2 progs sched
    respectsSerial true (init 2 progs) sched = true ∧ s.live = false ∧ s.busy = 0 ∧ s.bw = 1 ∧ s.dn = 1 ∧
    s.cs.map (·.res) = [[.waited], [.busy true, .waited]] := by
  decide

end Nng.C02Taskq
