/-
  C02 — asynchronous operations complete exactly once.  Property theorems about the aio
  model (Model/Aio.lean) in the configuration of the repaired code (`Cfg.fixed`), for ALL
  interleavings: induction over label lists from the initial state.  Helper invariants are in
  Proofs/Aio.lean (counters, tokens, task accounting, expire hold), Proofs/AioB.lean (results,
  deadlines) and Proofs/AioC.lean (stop / free).

  Scope of the universally quantified theorems: executions of the generic provider
  (`NoSleep`: no `nng_sleep_aio` submission).  The reason is `sleep_close_double_completion`
  below: the model, which lets other threads run between the expire thread's scan and its
  taking of the cancel function (as happens in a batch), admits a double completion when
  nni_aio_close, an expiring sleep and a re-submitted sleep interleave.  Sleeps are covered by
  the monitor on the real code only.

  The defects of the pinned tree are theorems about `Cfg.pinned` (concrete label sequences,
  evaluated by `decide`); the same sequences were replayed on the real code (corpus/C02).

  Last part: the monitor of Spec/Aio.lean accepts every execution of the repaired model
  (`judge_sound`, `judge_sound_quiet`; proof in Proofs/AioJudge*.lean: a relation between the
  model's state and the monitor's state, preserved by one model step followed by the monitor's
  steps on that step's observations).  The statement as first written is false
  (`judge_sound_statement_false`); the hypotheses of the corrected one (`NoSleep`, `Contract`)
  are each shown necessary (`judge_needs_*`), and four clauses of the monitor were corrected
  (`old_monitor_false_alarm_*`; the third, "the absolute expiry of nng_aio_set_expire is one-shot",
  replaced a clause of the contract: `expire_needs_no_reconfiguration`).
-/
import NngModel.Proofs.Aio
import NngModel.Proofs.AioB
import NngModel.Proofs.AioC
import NngModel.Proofs.AioJudgeMain
import NngModel.Proofs.AioJudgeTrace
import NngModel.Proofs.AioJudgeSettled
import NngModel.Proofs.AioJudgeOld
import NngModel.Proofs.AioJudgeOld2
import NngModel.Proofs.AioJudgeOld3
namespace Nng.Props.C02
open Nng.Aio Nng.AioSpec

/-- executions of the generic provider: no label submits a sleep -/
def NoSleep (ls : List Label) : Prop := ∀ l ∈ ls, NoSleepL l

theorem run_inv {ls : List Label} : ∀ {s0 s : State}, Inv1 s0 → Inv2 s0 → Inv3 s0 → NoSleep ls →
    run Cfg.fixed s0 ls = some s → Inv1 s ∧ Inv2 s ∧ Inv3 s := by
  induction ls with
  | nil => intro s0 s h1 h2 h3 _ hr; simp only [run] at hr; cases hr; exact ⟨h1, h2, h3⟩
  | cons l ls ih =>
    intro s0 s h1 h2 h3 hn hr
    simp only [run] at hr
    split at hr
    · rename_i s1 hs
      have hl : NoSleepL l := hn l (by simp)
      have hn' : NoSleep ls := fun x hx => hn x (by simp [hx])
      exact ih (inv1_step h1 hl hs) (inv2_step h1 h2 hl hs) (inv3_step h1 h3 hl hs) hn' hr
    · cases hr

/-- every state reachable by the generic provider satisfies the three invariant layers -/
theorem reach_inv {ls : List Label} {s : State} (hn : NoSleep ls) (hr : run Cfg.fixed {} ls = some s) :
    Inv1 s ∧ Inv2 s ∧ Inv3 s :=
  run_inv inv1_init inv2_init inv3_init hn hr

/-- exactly once, upper bound: never more completions than operations started; and the two
    differ by exactly the one operation still open -/
theorem completions_le_starts {ls : List Label} {s : State} (hn : NoSleep ls)
    (hr : run Cfg.fixed {} ls = some s) :
    s.completions ≤ s.starts ∧ s.starts = s.completions + (if s.opTok then 1 else 0) := by
  have h := (reach_inv hn hr).1.cnt
  simp only [b2n] at h
  exact ⟨by omega, h⟩

/-- exactly once, at quiescence (task idle, no submission in progress): every operation started
    has completed, and every completion has been reported (callback ran or skip flag set) -/
theorem quiescent_all_reported {ls : List Label} {s : State} (hn : NoSleep ls)
    (hr : run Cfg.fixed {} ls = some s) (hb : s.busy = 0) (hsub : s.subPc = 0) :
    s.completions = s.starts ∧ s.reported + s.skips = s.completions := by
  have h1 := (reach_inv hn hr).1
  have hz := busy_zero h1 hb
  have ht : s.opTok = false := by
    cases ht : s.opTok
    · rfl
    · have := hz.2.2.2.2.2.2.2.2.2 ht; omega
  have hc := h1.cnt
  simp only [b2n, ht, Bool.false_eq_true, ↓reduceIte] at hc
  exact ⟨by omega, hz.2.2.2.2.2.2.2.2.1.symm⟩

/-- callbacks run (or skip flags set) account for every completion: a completion is either
    reported, queued, taken by a task thread, or held back until the expire thread lets go -/
theorem reports_account_for_completions {ls : List Label} {s : State} (hn : NoSleep ls)
    (hr : run Cfg.fixed {} ls = some s) :
    s.completions = s.reported + s.skips + s.queued + s.popped + (if s.expDispatch then 1 else 0) := by
  have h := (reach_inv hn hr).1.rep
  simpa only [b2n] using h

/-- a completion only ever happens to an operation that had not completed (in particular a
    cancel, stop or timeout code is never given to an operation that already completed) -/
theorem no_second_completion {ls : List Label} {s : State} (hn : NoSleep ls)
    (hr : run Cfg.fixed {} ls = some s) : s.dbl = false :=
  (reach_inv hn hr).2.1.dbl

/-- one final result: while no operation is open `a_result` is the result given at completion,
    and no callback ever read anything else -/
theorem result_stable {ls : List Label} {s : State} (hn : NoSleep ls)
    (hr : run Cfg.fixed {} ls = some s) :
    s.mismatch = false ∧ (s.opTok = false → s.result = s.final) :=
  ⟨(reach_inv hn hr).2.1.mm, (reach_inv hn hr).2.1.res⟩

/-- no early timeout: the expire thread never completes an operation that is not the one it
    scanned or whose deadline has not strictly passed; while it holds the aio the operation is
    the scanned one and overdue -/
theorem no_early_timeout {ls : List Label} {s : State} (hn : NoSleep ls)
    (hr : run Cfg.fixed {} ls = some s) :
    s.early = false ∧
    (s.expiring = true → s.expGen = s.starts ∧
      (match s.opDeadline with | some e => decide (e < s.now) | none => false) = true) :=
  ⟨(reach_inv hn hr).2.1.early, (reach_inv hn hr).2.1.due⟩

/-- when nng_aio_stop sees the task idle (its last step before returning): nothing is queued or
    running, every completion has reported, and the only operation that can be open is a
    submission that has not reached nni_aio_start yet -/
theorem stop_sees_everything_done {ls : List Label} {s s' : State} (hn : NoSleep ls)
    (hr : run Cfg.fixed {} ls = some s) (hs : Aio.step Cfg.fixed s .stopWait = some s') :
    s.busy = 0 ∧ s.queued = 0 ∧ s.popped = 0 ∧ s.inCb = 0 ∧ s.parked = false ∧
    s.completions = s.reported + s.skips ∧ (s.opTok = true → s.subPc = 1) ∧ s.stop = true := by
  have hi := reach_inv hn hr
  have hb : s.busy = 0 := by
    simp only [Aio.step] at hs
    split at hs
    · rename_i hg; simp_all
    · cases hs
  have hpc : s.stopPc = 4 := by
    simp only [Aio.step] at hs
    split at hs
    · rename_i hg; simp_all
    · cases hs
  have hz := busy_zero hi.1 hb
  exact ⟨hb, hz.2.1, hz.2.2.1, hz.2.2.2.1, hz.2.2.2.2.1, hz.2.2.2.2.2.2.2.2.1, hz.2.2.2.2.2.2.2.2.2,
    hi.2.2.pcStop (by omega)⟩

/-- after that instant the aio stays stopped and nni_aio_start never lets an operation in -/
theorem stopped_stays_stopped {ls : List Label} {s : State} (hn : NoSleep ls)
    (hr : run Cfg.fixed {} ls = some s) (hst : s.stoppedAt.isSome = true) :
    s.stop = true ∧ s.lateBad = false :=
  ⟨(reach_inv hn hr).2.2.stopMono hst, (reach_inv hn hr).2.2.late⟩

/-- on a stopped aio nni_aio_start completes the operation with NNG_ESTOPPED -/
theorem start_on_stopped_gives_estopped {s s' : State} (hst : s.stop = true)
    (hs : Aio.step Cfg.fixed s .begin = some s') : s'.result = ESTOPPED ∧ s'.final = ESTOPPED := by
  simp only [Aio.step] at hs
  split at hs
  · cases hs
  · simp only [hst] at hs
    cases hs
    simp [completed]

/-- after nng_aio_free has seen the task idle nothing references the aio: no callback queued or
    running, nothing parked, no cancel function registered or taken, not on the expire list, not
    held by the expire thread, no call in progress -/
theorem freed_nothing_references {ls : List Label} {s : State} (hn : NoSleep ls)
    (hr : run Cfg.fixed {} ls = some s) (hf : s.freed = true) :
    s.busy = 0 ∧ s.queued = 0 ∧ s.popped = 0 ∧ s.inCb = 0 ∧ s.parked = false ∧ s.pendFin = none ∧
    s.expiring = false ∧ s.onExp = false ∧ s.cancelFn = none ∧ s.subPc = 0 ∧
    s.aborts = [] ∧ s.calls = [] ∧ s.closes = 0 := by
  have hi := reach_inv hn hr
  have hq := hi.2.2.freedQ hf
  have hz := busy_zero hi.1 hq.1
  have hon : s.onExp = false := hi.2.2.noOnExp (hi.2.2.freedStop hf)
  exact ⟨hq.1, hz.2.1, hz.2.2.1, hz.2.2.2.1, hz.2.2.2.2.1, hz.2.2.2.2.2.1, hq.2.2.2.2.2.1, hon,
    hq.2.2.2.2.2.2.1, hq.2.1, hq.2.2.1, hq.2.2.2.1, hq.2.2.2.2.1⟩

-- the defects of the pinned tree, as theorems about the unrepaired configuration ---------

/-- F14: the expire thread takes operation 1's cancel function and drops the lock; operation 1
    completes, its callback resubmits the aio (operation 2, deadline 23); the stale cancel
    function then times operation 2 out at time 12 -/
def f14Witness : List Label :=
  [.setTimeout (.ms 11), .subCall .gen false, .prepare, .begin, .subRet true 1, .tick 12,
   .expScan, .expTake, .complete 0, .finish, .pop, .cbRead,
   .subCall .gen true, .prepare, .begin, .subRet true 1, .expCall, .finish, .pop, .cbRead]

theorem f14_pinned_times_out_early :
    (run Cfg.pinned {} f14Witness).map (fun s => (s.early, s.result, s.now, s.opDeadline))
      = some (true, ETIMEDOUT, 12, some 23) := by decide

/-- with the repair the same interleaving is impossible: the completion is held back until the
    expire thread lets go, so the callback cannot run (and resubmit) before the stale call -/
theorem f14_fixed_blocks_witness : run Cfg.fixed {} f14Witness = none := by decide

/-- the full-strength statement is false for the pinned code -/
theorem no_early_timeout_fails_pinned :
    ¬ (∀ ls s, NoSleep ls → run Cfg.pinned {} ls = some s → s.early = false) := by
  intro h
  have hn : NoSleep f14Witness := by
    intro l hl
    simp only [f14Witness, List.mem_cons, List.not_mem_nil, or_false] at hl
    rcases hl with h | h | h | h | h | h | h | h | h | h | h | h | h | h | h | h | h | h | h | h <;> subst h <;> trivial
  have hw := f14_pinned_times_out_early
  cases hr : run Cfg.pinned {} f14Witness with
  | none => rw [hr] at hw; cases hw
  | some s =>
    rw [hr] at hw
    have he : s.early = true := by
      simp only [Option.map_some, Option.some.injEq, Prod.mk.injEq] at hw
      exact hw.1
    have := h _ s hn hr
    rw [this] at he
    cases he

/-- abort after completion (pinned): nni_aio_abort finds no cancel function and stores its code
    in `a_result`, which the callback of the already completed operation then reports -/
def abortWitness : List Label :=
  [.subCall .gen false, .prepare, .begin, .subRet true 1, .complete 0, .finish,
   .abortCall 20, .abortSec 20, .pop, .cbRead]

theorem abort_pinned_overwrites_result :
    (run Cfg.pinned {} abortWitness).map (fun s => (s.mismatch, s.final, s.result)) = some (true, 0, 20) := by
  decide

theorem abort_fixed_keeps_result :
    (run Cfg.fixed {} abortWitness).map (fun s => (s.mismatch, s.final, s.result)) = some (false, 0, 0) := by
  decide

/-- why the theorems above exclude sleeps: nni_aio_close takes the sleep's cancel function while
    the expire thread holds the aio between scan and take; the sleep expires, the callback
    submits a new sleep (`a_sleep = true` before nni_aio_start), the stale nni_sleep_cancel
    completes it, and nni_aio_start (aio stopped) completes it again -/
def sleepCloseWitness : List Label :=
  [.subCall (.slp 5) false, .prepare, .begin, .subRet false 1, .tick 6, .expScan, .closeCall, .closeSec,
   .expTake, .pop, .cbRead, .subCall (.slp 5) true, .prepare, .callCancel .slp ESTOPPED, .finish, .begin]

theorem sleep_close_double_completion :
    (run Cfg.fixed {} sleepCloseWitness).map (fun s => (s.dbl, s.starts, s.completions)) = some (true, 2, 3) := by
  decide

/-- non-vacuity: a non-trivial execution of the repaired model (timeout 11, expiry at 12 wins
    against the provider, callback, stop) reaches a state satisfying all hypotheses used above -/
def sampleRun : List Label :=
  [.setTimeout (.ms 11), .subCall .gen false, .prepare, .begin, .subRet true 1, .tick 12,
   .expScan, .expTake, .expCall, .complete 0, .finish, .expRelease, .pop, .cbRead, .cbDone,
   .stopCall false, .stopMark, .stopCancel, .stopWait, .stopRet]

example : (run Cfg.fixed {} sampleRun).map (fun s => (s.starts, s.completions, s.reported, s.result, s.busy, s.stoppedAt))
    = some (1, 1, 1, ETIMEDOUT, 0, some 1) := by decide

-- the monitor accepts every execution of the model ---------------------------------------------

/-- the statement as first written, about the model's own `trace`.  It is FALSE
    (`judge_sound_statement_false`): `trace` never emits `cbEnd`, so for the monitor every callback
    is still running when `nng_aio_stop` returns. -/
def judge_sound_statement : Prop :=
  ∀ ls s, NoSleep ls → run Cfg.fixed {} ls = some s → judge (trace Cfg.fixed {} ls) = none

theorem judge_sound_statement_false : ¬ judge_sound_statement := by
  intro h
  have hn : NoSleep sampleRun := by
    intro l hl
    simp only [sampleRun, List.mem_cons, List.not_mem_nil, or_false] at hl
    rcases hl with h | h | h | h | h | h | h | h | h | h | h | h | h | h | h | h | h | h | h | h <;> subst h <;> trivial
  cases hr : run Cfg.fixed {} sampleRun with
  | none => exact absurd hr (by decide)
  | some s => exact absurd (h _ s hn hr) (by decide)

/-- THE THEOREM: the monitor of Spec/Aio.lean (all clauses: exactly-once, result stability, no
    early timeout, cancel codes, stop / free quiescence) accepts the observable trace of every
    execution of the repaired aio model on the generic provider, the trace being `traceX` =
    the model's `trace` with the observations `cbEnd` and `abortRet` that the monitor's clauses
    inspect (`traceX_extends_trace`), provided the environment keeps to `Contract`
    (Proofs/AioJudgeDefs.lean, `okL`); every clause of the contract, and `NoSleep`, is necessary
    (`judge_needs_*` below). -/
theorem judge_sound (ls : List Label) (s : State) (hn : NoSleep ls) (hc : Contract Cfg.fixed {} {} ls)
    (hr : run Cfg.fixed {} ls = some s) : judge (traceX Cfg.fixed {} {} ls) = none :=
  judge_accepts ls s hn hc hr

/-- ... including the end-of-execution clause when everything has drained -/
theorem judge_sound_quiet (ls : List Label) (s : State) (hn : NoSleep ls) (hc : Contract Cfg.fixed {} {} ls)
    (hr : run Cfg.fixed {} ls = some s) (hb : s.busy = 0) (hsub : s.subPc = 0) (hrets : s.subRets = []) :
    judge (traceX Cfg.fixed {} {} ls ++ [.quiet]) = none :=
  judge_accepts_quiet ls s hn hc hr hb hsub hrets

/-- the same however late (or never) the return of an `nng_aio_abort` call is observed: `traceX`
    puts `abortRet` at the earliest point (the call has done its work); under a return policy `pol`
    (after each step of the model, how many of the finished calls are seen to return) the trace is
    `traceP`; the contract `ContractP` adds that `nng_aio_free` is called only when every
    `nng_aio_abort` call has returned (necessary: `judge_needs_aborts_returned_before_free`) -/
theorem judge_sound_delayed_returns (pol : RetPolicy) (ls : List Label) (s : State) (hn : NoSleep ls)
    (hc : ContractP Cfg.fixed pol {} {} ls) (hr : run Cfg.fixed {} ls = some s) :
    judge (traceP Cfg.fixed pol {} {} ls) = none :=
  judge_accepts_delayed pol ls s hn hc hr

theorem traceP_extends_trace (pol : RetPolicy) (ls : List Label) :
    (traceP Cfg.fixed pol {} {} ls).filter (fun o => !isExtra o) = trace Cfg.fixed {} ls :=
  traceP_filter Cfg.fixed pol ls {} {}

/-- `traceX` only adds `cbEnd` / `abortRet` observations to the model's trace -/
theorem traceX_extends_trace (ls : List Label) :
    (traceX Cfg.fixed {} {} ls).filter (fun o => !isExtra o) = trace Cfg.fixed {} ls :=
  traceX_filter Cfg.fixed ls {} {}

/-- non-vacuity: `sampleRun` (timeout, expiry winning against the provider, callback, stop) keeps
    to the contract and is accepted through the theorem; so does an execution with an abort in
    flight over a restart from the callback, a skipped callback and nng_aio_free -/
def sampleRun2 : List Label :=
  [.subCall .gen false, .prepare, .begin, .subRet true 1, .abortCall 20, .abortSec 20, .complete 0, .finish,
   .pop, .cbRead, .subCall .gen true, .prepare, .begin, .subRet true 1, .cbDone, .callCancel .gen 20, .finish,
   .pop, .cbRead, .cbDone, .peek, .skipArm, .subCall (.direct 7) false, .direct, .subRet false 1, .peek,
   .stopCall true, .stopMark, .stopCancel, .stopWait, .stopRet, .tick 3, .complete 0]

example : NoSleep sampleRun ∧ Contract Cfg.fixed {} {} sampleRun ∧ (run Cfg.fixed {} sampleRun).isSome = true := by
  refine ⟨?_, by decide, by decide⟩
  intro l hl
  simp only [sampleRun, List.mem_cons, List.not_mem_nil, or_false] at hl
  rcases hl with h | h | h | h | h | h | h | h | h | h | h | h | h | h | h | h | h | h | h | h <;> subst h <;> trivial

example : Contract Cfg.fixed {} {} sampleRun2 ∧
    (run Cfg.fixed {} sampleRun2).map (fun s => (s.starts, s.reported, s.skips, s.freed)) = some (3, 2, 1, true) ∧
    judge (traceX Cfg.fixed {} {} sampleRun2 ++ [.quiet]) = none := by decide

/-- the same execution with the abort's return observed only at the next `nng_aio_result` call -/
def retAtPeek : RetPolicy := fun _ _ l => match l with | .peek => 1 | _ => 0

example : ContractP Cfg.fixed retAtPeek {} {} sampleRun2 ∧
    (traceP Cfg.fixed retAtPeek {} {} sampleRun2).count .abortRet = 1 ∧
    judge (traceP Cfg.fixed retAtPeek {} {} sampleRun2) = none := by decide

/-- the monitor is not vacuous on such traces: it rejects `sampleRun2` with the second callback
    reporting 0 instead of the abort's code -/
example : (judge ((traceX Cfg.fixed {} {} sampleRun2).map
    (fun o => if o == .cbBegin 20 then .cbBegin 0 else o))).isSome = true := by decide

-- every hypothesis is necessary: executions of the repaired model that break exactly one of them
-- (they keep to the contract up to the offending step) and are rejected by the monitor

/-- NoSleep: the double completion of `sleep_close_double_completion` shows in the trace as a
    callback without an operation (the execution keeps to the contract) -/
theorem judge_needs_no_sleep :
    (run Cfg.fixed {} (sleepCloseWitness ++ [.pop, .cbRead, .pop, .cbRead])).isSome = true ∧
    Contract Cfg.fixed {} {} (sleepCloseWitness ++ [.pop, .cbRead, .pop, .cbRead]) ∧
    (judge (traceX Cfg.fixed {} {} (sleepCloseWitness ++ [.pop, .cbRead, .pop, .cbRead]))).isSome = true := by
  decide

/-- the offending step is number `n` (from 0) of `w`: the execution is one of the model, keeps to the
    contract before that step, and the monitor rejects its trace -/
def Breaks (w : List Label) (n : Nat) : Prop :=
  NoSleep w ∧ (run Cfg.fixed {} w).isSome = true ∧ Contract Cfg.fixed {} {} (w.take n) ∧
  ¬ Contract Cfg.fixed {} {} (w.take (n + 1)) ∧ (judge (traceX Cfg.fixed {} {} w)).isSome = true

instance (w : List Label) : Decidable (NoSleep w) :=
  decidable_of_iff (w.all fun l => match l with | .subCall (.slp _) _ => false | _ => true) (by
    simp only [NoSleep, List.all_eq_true]
    constructor
    · intro h l hl
      have := h l hl
      cases l <;> try trivial
      rename_i k f; cases k <;> first | trivial | simp at this
    · intro h l hl
      have := h l hl
      cases l <;> try rfl
      rename_i k f; cases k <;> first | rfl | exact absurd this (by simp [NoSleepL]))

instance (w : List Label) (n : Nat) : Decidable (Breaks w n) := by unfold Breaks; infer_instance

/-- the provider completes an operation with NNG_ETIMEDOUT of its own (asynchronously) -/
theorem judge_needs_provider_no_timeout :
    Breaks [.subCall .gen false, .prepare, .begin, .subRet true 1, .complete ETIMEDOUT, .finish, .pop, .cbRead] 4 := by
  decide

/-- ... or synchronously -/
theorem judge_needs_provider_no_timeout_direct :
    Breaks [.subCall (.direct ETIMEDOUT) false, .direct, .pop, .cbRead] 0 := by decide

/-- an operation is started while the previous start call has not returned: the monitor takes that
    return for the new operation's (here: for "skip flag set") -/
theorem judge_needs_ordered_returns :
    Breaks [.skipArm, .subCall (.direct 0) false, .direct, .subCall (.direct 7) false, .subRet false 1] 3 := by
  decide

/-- NO LONGER a hypothesis (the contract used to demand that, after an operation that used
    nng_aio_set_expire has finished, the timeout is configured again before the next start, because the
    monitor kept the absolute expiry although `a_use_expire` is one-shot): the former witness of
    `judge_needs_expire_reconfigured` — set_timeout 3, set_expire 30, an operation completed synchronously,
    then an operation on the generic provider that times out at 4 — keeps to the contract and is accepted -/
def expireNotReconfigured : List Label :=
  [.setTimeout (.ms 3), .setExpire 30, .subCall (.direct 0) false, .direct, .subRet false 0, .pop, .cbRead,
   .cbDone, .subCall .gen false, .prepare, .begin, .subRet true 1, .tick 4, .expScan, .expTake, .expCall, .finish,
   .expRelease, .pop, .cbRead]

theorem expire_needs_no_reconfiguration :
    NoSleep expireNotReconfigured ∧ Contract Cfg.fixed {} {} expireNotReconfigured ∧
    (run Cfg.fixed {} expireNotReconfigured).isSome = true ∧
    (Nng.AioSpecOld2.judge (traceX Cfg.fixed {} {} expireNotReconfigured)).isSome = true ∧
    judge (traceX Cfg.fixed {} {} expireNotReconfigured) = none := by decide

/-- nng_aio_result after nng_aio_free -/
theorem judge_needs_no_peek_after_free :
    Breaks [.stopCall true, .stopMark, .stopCancel, .stopWait, .stopRet, .peek] 5 := by decide

/-- a start call that returns after nng_aio_free has -/
theorem judge_needs_returns_before_free :
    Breaks [.subCall (.direct 0) false, .direct, .pop, .cbRead, .cbDone, .stopCall true, .stopMark, .stopCancel,
      .stopWait, .stopRet, .subRet false 0] 8 := by decide

/-- (delayed returns) nng_aio_free is called while an `nng_aio_abort` call has not returned, and
    the return is observed after nng_aio_free's -/
def retAfterFree : RetPolicy := fun s _ _ => if s.freed && s.stopPc == 0 then 1 else 0

theorem judge_needs_aborts_returned_before_free :
    let w : List Label := [.abortCall 20, .abortSec 20, .stopCall true, .stopMark, .stopCancel, .stopWait, .stopRet, .tick 1]
    (run Cfg.fixed {} w).isSome = true ∧ ContractP Cfg.fixed retAfterFree {} {} (w.take 2) ∧
    ¬ ContractP Cfg.fixed retAfterFree {} {} (w.take 3) ∧ Contract Cfg.fixed {} {} w ∧
    (judge (traceP Cfg.fixed retAfterFree {} {} w)).isSome = true := by decide

/-- NO LONGER a hypothesis (the contract used to demand that no callback begins between nng_aio_stop's last
    look at the task and its return, because the monitor counted every running callback at that return): a
    start refused because of the stop, whose NNG_ESTOPPED callback begins in that window — the former witness
    of `judge_needs_no_callback_in_stop_window` — keeps to the contract, the old monitor
    (`Nng.AioSpecOld3.judge`, verbatim copy) rejects it, the corrected one accepts it -/
def stopWindowCallback : List Label :=
  [.stopCall false, .stopMark, .stopCancel, .stopWait, .subCall .gen false, .prepare, .begin, .pop,
   .cbRead, .stopRet, .subRet true 0, .cbDone]

theorem stop_window_needs_no_hypothesis :
    NoSleep stopWindowCallback ∧ Contract Cfg.fixed {} {} stopWindowCallback ∧
    (run Cfg.fixed {} stopWindowCallback).isSome = true ∧
    Nng.AioSpecOld3.judge (traceX Cfg.fixed {} {} stopWindowCallback)
      = some "quiescence: a callback is running when nng_aio_stop returns" ∧
    judge (traceX Cfg.fixed {} {} stopWindowCallback ++ [.quiet]) = none := by decide

-- the two corrections of the monitor delivered with this proof: executions of the repaired model
-- that keep to the contract, satisfy the property, were rejected by the monitor as it was
-- (`Nng.AioSpecOld.judge`, verbatim copy) and are accepted by the corrected one

/-- `nng_aio_abort(aio, NNG_ETIMEDOUT)` is called before an operation starts and takes effect on it:
    the callback reports the user's own NNG_ETIMEDOUT.  The old monitor noted "the user passed
    ETIMEDOUT" only for aborts called after the start ("timeout: NNG_ETIMEDOUT before the configured
    duration"); the clause "cancel codes" already counted aborts in flight at the start. -/
def abortTimeoutInFlight : List Label :=
  [.abortCall ETIMEDOUT, .subCall .gen false, .prepare, .abortSec ETIMEDOUT, .begin, .pop, .cbRead]

theorem old_monitor_false_alarm_abort_timeout_in_flight :
    NoSleep abortTimeoutInFlight ∧ Contract Cfg.fixed {} {} abortTimeoutInFlight ∧
    (run Cfg.fixed {} abortTimeoutInFlight).isSome = true ∧
    (Nng.AioSpecOld.judge (traceX Cfg.fixed {} {} abortTimeoutInFlight)).isSome = true ∧
    judge (traceX Cfg.fixed {} {} abortTimeoutInFlight) = none := by decide

/-- an operation reports by callback (here NNG_ESTOPPED), the next one completes with the skip flag
    (no callback) and result 0; `nng_aio_result` then returns 0.  The old monitor compared it with
    the last CALLBACK's result ("result: result changed from 999 to 0 after the callback"). -/
def peekAfterSkip : List Label :=
  [.closeCall, .subCall .gen false, .closeSec, .prepare, .begin, .subRet true 0, .pop, .cbRead, .cbDone,
   .skipArm, .subCall (.direct 0) false, .direct, .subRet false 1, .peek]

theorem old_monitor_false_alarm_peek_after_skip :
    NoSleep peekAfterSkip ∧ Contract Cfg.fixed {} {} peekAfterSkip ∧
    (run Cfg.fixed {} peekAfterSkip).isSome = true ∧
    (Nng.AioSpecOld.judge (traceX Cfg.fixed {} {} peekAfterSkip)).isSome = true ∧
    judge (traceX Cfg.fixed {} {} peekAfterSkip) = none := by decide

/-- the scenario corpus/C02/expire_flag_is_one_shot.json as an execution of the model: relative timeout 11,
    absolute expiry 40 (as surv0_ctx_recv sets on the user's aio), the operation is completed by the
    provider at 20; the next operation is started at 20 without touching the timeout and times out at 32
    (relative timeout 11, strictly after 31).  The old monitor still held the absolute expiry 40
    ("timeout: NNG_ETIMEDOUT before the configured duration"); `nni_aio_finish_impl` had cleared
    `a_use_expire`, and so does the model (`finishCore`). -/
def absExpireOneShot : List Label :=
  [.setTimeout (.ms 11), .setExpire 40, .subCall .gen false, .prepare, .begin, .subRet true 1, .tick 20,
   .complete 0, .finish, .pop, .cbRead, .peek, .cbDone, .peek,
   .subCall .gen false, .prepare, .begin, .subRet true 1, .tick 12,
   .expScan, .expTake, .expCall, .finish, .expRelease, .pop, .cbRead, .peek, .cbDone, .peek]

theorem old_monitor_false_alarm_abs_expire :
    NoSleep absExpireOneShot ∧ Contract Cfg.fixed {} {} absExpireOneShot ∧
    (run Cfg.fixed {} absExpireOneShot).map (fun s => (s.starts, s.reported, s.result, s.now, s.useExpire))
      = some (2, 2, ETIMEDOUT, 32, false) ∧
    Nng.AioSpecOld2.judge (traceX Cfg.fixed {} {} absExpireOneShot)
      = some "timeout: NNG_ETIMEDOUT before the configured duration" ∧
    judge (traceX Cfg.fixed {} {} absExpireOneShot ++ [.settled, .quiet]) = none := by decide

/-- the corrected clause is not vacuous the other way: a start that `nni_aio_start` REFUSES (here: the
    absolute expiry 5 has passed at 6) does not consume the absolute expiry — the next operation is refused
    with NNG_ETIMEDOUT again although the relative timeout is infinite, and the monitor accepts (it would
    reject if it dropped the expiry at every report) -/
def absExpireRefusedTwice : List Label :=
  [.setExpire 5, .tick 6, .subCall .gen false, .prepare, .begin, .subRet true 0, .pop, .cbRead, .cbDone,
   .subCall .gen false, .prepare, .begin, .subRet true 0, .pop, .cbRead, .cbDone]

theorem refused_start_keeps_abs_expire :
    NoSleep absExpireRefusedTwice ∧ Contract Cfg.fixed {} {} absExpireRefusedTwice ∧
    (run Cfg.fixed {} absExpireRefusedTwice).map (fun s => (s.starts, s.reported, s.result, s.useExpire))
      = some (2, 2, ETIMEDOUT, true) ∧
    judge (traceX Cfg.fixed {} {} absExpireRefusedTwice ++ [.quiet]) = none := by decide

/-- the clause "timer liveness" is sound for the model too: `traceS` is `traceX` with the observation
    `settled` after every step that leaves the model in a settled state (`settledB`, Proofs/AioJudgeSettled.lean:
    no internal step is enabled — no step of the expire thread, of a task thread or of a call in progress,
    no return of a call; only the clock or a new call of the environment can move the system;
    `settledB_complete`: the list of internal steps it tests misses none).  The harness makes this
    observation when its main thread gets the baton back, i.e. when every other thread is blocked.
    Proof: a parked operation always has somebody able to cancel it (`Inv5.holder`), and while its cancel
    function is registered it is on the expire list iff it has a deadline (`Inv5.onq`); the monitor's upper
    bound of the deadline (`RH.dlA/dlS/dlU`) then makes `expScan` enabled — not settled. -/
theorem judge_sound_settled (ls : List Label) (s : State) (hn : NoSleep ls) (hc : Contract Cfg.fixed {} {} ls)
    (hr : run Cfg.fixed {} ls = some s) : judge (traceS Cfg.fixed {} {} ls) = none :=
  judge_accepts_settled ls s hn hc hr

/-- `traceS` only adds `settled` observations to `traceX` -/
theorem traceS_extends_traceX (ls : List Label) :
    (traceS Cfg.fixed {} {} ls).filter (fun o => o != .settled) = traceX Cfg.fixed {} {} ls :=
  traceS_filter Cfg.fixed ls {} {}

/-- non-vacuity of the clause on the model: in the execution of `old_monitor_false_alarm_abs_expire` the
    model is settled 9 times (e.g. while the first operation is parked before its expiry 40, and while the
    second one is parked before 31), not settled once the second deadline has passed (time 32: the expire
    thread's scan is enabled), and the monitor accepts the trace with these observations -/
theorem settled_observed_in_sample :
    (traceS Cfg.fixed {} {} absExpireOneShot).count .settled = 9 ∧
    (run Cfg.fixed {} (absExpireOneShot.take 18)).map settledB = some true ∧
    (run Cfg.fixed {} (absExpireOneShot.take 19)).map settledB = some false ∧
    judge (traceS Cfg.fixed {} {} absExpireOneShot) = none := by decide

/-- ... and the clause is not vacuous on implementation traces: the trace the
    seeded fault C07-3A produces (`a_use_expire` left set: the second operation is never scheduled for
    expiry) is rejected at the first settled point after the deadline 31 -/
theorem settled_rejects_lost_timeout :
    judge [.setTimeout (.ms 11), .setExpire 40, .subCall .gen, .tick 20, .subRet 1, .provDone 0 true, .cbBegin 0, .cbEnd,
           .subCall .gen, .subRet 1, .settled, .tick 4, .settled, .tick 4, .settled, .tick 4, .settled]
      = some "timeout: an operation is still pending after its deadline although nothing else can happen" ∧
    judge [.setTimeout (.ms 11), .setExpire 40, .subCall .gen, .tick 20, .subRet 1, .provDone 0 true, .cbBegin 0, .cbEnd,
           .subCall .gen, .subRet 1, .settled, .tick 4, .settled, .tick 4, .settled] = none := by decide

/-- the scenario corpus/C02/stop_races_refused_resubmission.json as an execution of the model (harness trace:
    `S c stp ; U c sub ; T cb 999 ; U r sub 0 ; T c sub ; T r sub 0 ; T cx ; T cb 999 ; T c sub ; S r stp ; …`):
    nng_aio_stop is called, sees the task idle and has in fact returned; a start that had been called meanwhile is
    refused with NNG_ESTOPPED, its callback starts the next operation (refused again), and the return of
    nng_aio_stop is observed while the second NNG_ESTOPPED callback runs; then nng_aio_free.  The old monitor
    counted that callback ("quiescence: a callback is running when nng_aio_stop returns"); the stop's guarantee
    is about the callbacks that began before the stop was called and the operations whose start had returned
    before it. -/
def stopRacesRefusedResubmission : List Label :=
  [.setTimeout (.ms 11), .stopCall false, .subCall .gen false, .stopMark, .stopCancel, .stopWait, .prepare, .begin,
   .pop, .cbRead, .peek, .subRet true 0, .subCall .gen true, .prepare, .begin, .subRet true 0, .cbDone,
   .pop, .cbRead, .peek, .subCall .gen true, .stopRet, .prepare, .begin, .subRet true 0, .cbDone,
   .stopCall true, .pop, .cbRead, .cbDone, .stopMark, .stopCancel, .stopWait, .stopRet, .tick 40]

theorem old_monitor_false_alarm_stop_window :
    NoSleep stopRacesRefusedResubmission ∧ Contract Cfg.fixed {} {} stopRacesRefusedResubmission ∧
    (run Cfg.fixed {} stopRacesRefusedResubmission).map (fun s => (s.starts, s.reported, s.result, s.freed, s.busy))
      = some (3, 3, ESTOPPED, true, 0) ∧
    Nng.AioSpecOld3.judge (traceX Cfg.fixed {} {} stopRacesRefusedResubmission)
      = some "quiescence: a callback is running when nng_aio_stop returns" ∧
    judge (traceS Cfg.fixed {} {} stopRacesRefusedResubmission ++ [.quiet]) = none := by decide

/-- the corrected clause still has teeth: a callback that began BEFORE the stop was called and is running when
    the stop returns is rejected, and so is the callback of an operation whose start had returned before the stop
    was called -/
theorem stop_clause_rejects_old_callbacks :
    judge [.subCall .gen, .subRet 1, .provDone 0 true, .cbBegin 0, .stopCall, .stopRet]
      = some "quiescence: a callback is running when nng_aio_stop returns" ∧
    judge [.subCall .gen, .subRet 1, .stopCall, .cancelRan ESTOPPED true, .cbBegin ESTOPPED, .stopRet]
      = some "quiescence: a callback is running when nng_aio_stop returns" ∧
    judge [.subCall .gen, .subRet 1, .stopCall, .cancelRan ESTOPPED true, .cbBegin ESTOPPED, .cbEnd, .stopRet] = none := by
  decide

end Nng.Props.C02
