/-
  C16 (extension U): the SHA-1 of src/supplemental/websocket/sha1.c and ws_make_accept.

  Model:  Model/Sha1.lean (nni_sha1_init / update / process / pad / final, function by function),
          Model/WsAccept.lean (ws_make_accept, the key generation of ws_conn_cb; nni_base64_encode as the
          caller's buffer sees it).
  Spec:   Spec/Sha1.lean (FIPS 180-4 SHA-1, one shot on a byte list), Spec/Base64.lean (RFC 4648),
          Spec/WsUpgrade.lean `acceptFor` (RFC 6455 4.2.2 step 5.4).
  Every theorem is for ALL byte lists, all segmentations, all prior contents of the context.

  The bit counter: `ctx->len` is a uint64_t counting BITS and sha1.c has no guard on it (its header comment says
  "2^56 bytes is the maximum message size"; the code is exact up to 2^61 - 1 bytes, which is the whole domain of
  FIPS 180-4, ℓ < 2^64).  From 2^61 bytes on the counter wraps; `Sha1Spec.lenField` takes ℓ mod 2^64 there as well,
  so `incremental_eq_reference` needs no length hypothesis; `length_field_exact` says where the field is ℓ itself.
-/
import NngModel.Proofs.Sha1
import NngModel.Proofs.BytesLemmas
import NngModel.Proofs.WsUpgrade
namespace Nng.C16Sha1
open Nng.Sha1

/-! ## (a) segmentation independence -/

theorem update_append (c : Ctx) (a b : Bytes) : update c (a ++ b) = update (update c a) b := by
  simp only [update_eq_foldl, List.foldl_append]

/-- feeding b1, b2, …, bn (empty segments included) leaves the same context as feeding b1 ++ … ++ bn at once:
    any context, any segmentation.  (So does every later `final`.) -/
theorem update_segmentation_independent (c : Ctx) (segs : List Bytes) :
    segs.foldl update c = update c segs.flatten := by
  induction segs generalizing c with
  | nil => simp [update]
  | cons s r ih => rw [List.foldl_cons, ih, List.flatten_cons, update_append]

theorem final_segmentation_independent (c : Ctx) (segs : List Bytes) :
    final (segs.foldl update c) = final (update c segs.flatten) := by
  rw [update_segmentation_independent]

/-! ## (b) the incremental code computes FIPS 180-4 SHA-1 -/

/-- init, any sequence of updates, final = the one-shot reference on the concatenation; whatever the context held
    before nni_sha1_init (`garbage`), for messages of ANY length (see the header for ≥ 2^61 bytes) -/
theorem incremental_eq_reference (garbage : Bytes) (segs : List Bytes) :
    (final (segs.foldl update (init (raw garbage)))).2 = Sha1Spec.sha1 segs.flatten := by
  rw [update_segmentation_independent]
  obtain ⟨f, p, h, e⟩ := update_inv _ segs.flatten _ _ (init_inv (raw garbage) rfl (raw_blk garbage))
  rw [(final_inv _ _ _ h).1, e]; simp

/-- nni_sha1 (the one-call convenience) -/
theorem hash_eq_reference (msg : Bytes) : Sha1.hash msg = Sha1Spec.sha1 msg := by
  have := incremental_eq_reference [] [msg]
  simpa [Sha1.hash] using this

/-- the running bit counter is 8·(bytes fed) mod 2^64: there is no test on it in sha1.c -/
theorem bit_counter (garbage : Bytes) (segs : List Bytes) :
    (segs.foldl update (init (raw garbage))).len = (8 * segs.flatten.length) % 2 ^ 64 := by
  rw [update_segmentation_independent]
  obtain ⟨f, p, h, e⟩ := update_inv _ segs.flatten _ _ (init_inv (raw garbage) rfl (raw_blk garbage))
  have hl : f.length + p.length = segs.flatten.length := by rw [← List.length_append, e]; simp only [List.nil_append]
  rw [h.len, hl]

/-- below 2^61 bytes the length field of the padding is ℓ = 8·len itself (FIPS 180-4's domain) -/
theorem length_field_exact (len : Nat) (h : len < 2 ^ 61) : beDecode (Sha1Spec.lenField (8 * len)) = 8 * len := by
  have e : Sha1Spec.lenField (8 * len) = beEncode 8 (8 * len) := by
    rw [lenField_eq]; simp only [beEncode, Nat.reducePow]
  rw [e, Nng.Msg.beDecode_beEncode]
  exact Nat.mod_eq_of_lt (by omega)

/-- sanity of the specification's padding: the padded message is a whole number of blocks, with the least
    number of zero bytes -/
theorem spec_pad_blocks (m : Bytes) : (Sha1Spec.pad m).length % 64 = 0 ∧
    ∀ z, (m.length + 1 + z + 8) % 64 = 0 → Sha1Spec.zeros m.length ≤ z := by
  refine ⟨?_, ?_⟩
  · simp [Sha1Spec.pad, Sha1Spec.zeros, Sha1Spec.lenField]; omega
  · intro z hz; simp only [Sha1Spec.zeros]; omega

/-! ## (c) memory safety, digest length -/

/-- for any sequence of init / update / final calls on a context (in any order, also update or final after final),
    every `blk[idx++]` / `blk[56..63]` store stayed inside blk[0..63] and idx < 64 between calls -/
theorem accesses_in_bounds (garbage : Bytes) (ops : List Op) :
    (ops.foldl apply (raw garbage)).safe = true ∧ (ops.foldl apply (raw garbage)).idx < 64 ∧
      (ops.foldl apply (raw garbage)).blk.length = Generated.sha1BlkSize := by
  have : WF (ops.foldl apply (raw garbage)) := by
    generalize raw garbage = c0, raw_wf garbage = h0
    induction ops generalizing c0 with
    | nil => exact h0
    | cons o r ih => exact ih _ (apply_wf c0 o h0)
  exact ⟨this.safe, this.idxLt, this.blkLen⟩

/-- the loop bounds of nni_sha1_process and nni_sha1_final keep their literal-indexed accesses inside
    blk[64], W[80] (only entries already written are read) and digest[20] -/
theorem static_indices : (∀ t, t < 16 → t * 4 + 3 < Generated.sha1BlkSize) ∧
    (∀ blk : Bytes, (w16 blk).length = 16) ∧
    (∀ t, 16 ≤ t → t < 80 → t - 3 < t ∧ t - 16 < t) ∧
    (∀ i, i < 5 → i * 4 + 3 < Generated.sha1DigestLen) := by
  refine ⟨fun t h => by simp [Generated.sha1BlkSize]; omega, fun blk => by simp [w16], fun t h1 h2 => by omega,
    fun i h => by simp [Generated.sha1DigestLen]; omega⟩

theorem digest_is_20_bytes (c : Ctx) : (final c).2.length = 20 := by simp [final, wordBytes]

/-! ## ws_make_accept -/

open Nng.WsAccept Nng.WsUp in
/-- for a 24-character key: accept = base64(SHA1ref(key ‖ "258EAFA5-E914-47DA-95CA-C5AB0DC85B11")), 28 characters, the
    29 bytes accept[0..28] written and nothing else, with either caller's buffer (char key[29] in ws_handler, char
    wskey[29] in ws_http_cb_dialer); nni_base64_encode's return value, which the code ignores, is (size_t)-1 -/
theorem make_accept_spec (key : Bytes) (h : key.length = 24) :
    makeAccept key Generated.wsHandlerKeyBuf = makeAccept key Generated.wsDialerKeyBuf ∧
    (makeAccept key Generated.wsHandlerKeyBuf).rv = 0 ∧
    (makeAccept key Generated.wsHandlerKeyBuf).accept = Base64Spec.encode (Sha1Spec.sha1 (key ++ WsSpec.guid)) ∧
    (makeAccept key Generated.wsHandlerKeyBuf).accept.length = 28 ∧
    (makeAccept key Generated.wsHandlerKeyBuf).safe = true ∧
    (makeAccept key Generated.wsHandlerKeyBuf).stored = Generated.wsKeybufSize ∧
    (makeAccept key Generated.wsHandlerKeyBuf).encRv = none := by
  have h1 := makeAccept_ok key Generated.wsHandlerKeyBuf h (by decide)
  have h2 := makeAccept_ok key Generated.wsDialerKeyBuf h (by decide)
  have hl : (Base64Spec.encode (Sha1Spec.sha1 (key ++ WsSpec.guid))).length = 28 := by
    rw [spec_encode_length _ _ (Nat.le_refl _), sha1_digest_length]
  rw [h1, h2]
  exact ⟨rfl, rfl, rfl, hl, rfl, rfl, rfl⟩

open Nng.WsAccept Nng.WsUp in
/-- any other key length: NNG_EINVAL and nothing is touched -/
theorem make_accept_rejects (key : Bytes) (n : Nat) (h : key.length ≠ 24) :
    makeAccept key n = { rv := 3, accept := [], stored := 0, encRv := none, safe := true } :=
  makeAccept_bad key n h

open Nng.WsAccept in
/-- ws_conn_cb: the key is RFC 4648's encoding of the 16 random bytes, 24 characters, inside keybuf[29] -/
theorem gen_key_spec (rawBytes : Bytes) (h : rawBytes.length = 16) :
    genKey rawBytes = { rv := 0, accept := Base64Spec.encode rawBytes, stored := 25, encRv := none, safe := true } ∧
    (Base64Spec.encode rawBytes).length = 24 := by
  have hl : (Base64Spec.encode rawBytes).length = 24 := by rw [spec_encode_length _ _ (Nat.le_refl _), h]
  have ht : rawBytes.take Generated.wsNonceLen = rawBytes := by
    rw [show Generated.wsNonceLen = 16 from rfl, ← h]; exact List.take_length
  have he := encodeS_spec rawBytes 24 (by rw [h]; decide)
  refine ⟨?_, hl⟩
  simp only [genKey, ht, show Generated.wsKeyEncOut = 24 from rfl, he]
  have ht2 : (Base64Spec.encode rawBytes).take Generated.wsKeyNulAt = Base64Spec.encode rawBytes := by
    rw [show Generated.wsKeyNulAt = 24 from rfl, ← hl]; exact List.take_length
  rw [ht2]
  simp [hl, rvOf, h, Generated.wsKeyNulAt, Generated.wsKeybufSize]

/-! ## tests (FIPS 180-4 / RFC 3174 vectors, RFC 6455's example) — evaluated by the kernel, not theorems about all inputs -/

-- "abc"
example : Sha1.hash [97, 98, 99] = [0xa9, 0x99, 0x3e, 0x36, 0x47, 0x06, 0x81, 0x6a, 0xba, 0x3e, 0x25, 0x71, 0x78, 0x50, 0xc2, 0x6c, 0x9c, 0xd0, 0xd8, 0x9d] := by
  decide +kernel
example : Sha1Spec.sha1 [97, 98, 99] = [0xa9, 0x99, 0x3e, 0x36, 0x47, 0x06, 0x81, 0x6a, 0xba, 0x3e, 0x25, 0x71, 0x78, 0x50, 0xc2, 0x6c, 0x9c, 0xd0, 0xd8, 0x9d] := by
  decide +kernel
-- the empty message
example : Sha1Spec.sha1 [] = [0xda, 0x39, 0xa3, 0xee, 0x5e, 0x6b, 0x4b, 0x0d, 0x32, 0x55, 0xbf, 0xef, 0x95, 0x60, 0x18, 0x90, 0xaf, 0xd8, 0x07, 0x09] ∧
    Sha1.hash [] = Sha1Spec.sha1 [] := by decide +kernel
-- "abcdbcdecdefdefgefghfghighijhijkijkljklmklmnlmnomnopnopq" (448 bits: the padding needs a second block)
example : Sha1Spec.sha1 (WsSpec.s "abcdbcdecdefdefgefghfghighijhijkijkljklmklmnlmnomnopnopq") =
    [0x84, 0x98, 0x3e, 0x44, 0x1c, 0x3b, 0xd2, 0x6e, 0xba, 0xae, 0x4a, 0xa1, 0xf9, 0x51, 0x29, 0xe5, 0xe5, 0x46, 0x70, 0xf1] ∧
    Sha1.hash (WsSpec.s "abcdbcdecdefdefgefghfghighijhijkijkljklmklmnlmnomnopnopq") =
      Sha1Spec.sha1 (WsSpec.s "abcdbcdecdefdefgefghfghighijhijkijkljklmklmnlmnomnopnopq") := by decide +kernel
-- a split feed with an empty segment, on a dirty context
example : (final ([[97], [], [98, 99]].foldl update (init (raw [1, 2, 3])))).2 = Sha1.hash [97, 98, 99] := by decide +kernel
-- RFC 6455 section 1.3: key "dGhlIHNhbXBsZSBub25jZQ==" gives "s3pPLMBiTxaQ9kYGzzhZRbK+xOo="
example : (WsAccept.makeAccept (WsSpec.s "dGhlIHNhbXBsZSBub25jZQ==") 29).accept = WsSpec.s "s3pPLMBiTxaQ9kYGzzhZRbK+xOo=" := by
  decide +kernel
-- non-vacuity of the safety statement: a sequence with update after final
example : (([Op.init, .update [1, 2, 3], .final, .update [4], .final].foldl apply (raw [])).safe, ([Op.init, .update (List.replicate 70 7)].foldl apply (raw [])).idx) = (true, 6) := by
  decide +kernel

end Nng.C16Sha1
