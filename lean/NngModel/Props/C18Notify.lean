/-
  C18N -- the two pollable levels of a message queue (mq_sendable / mq_recvable, maintained by
  nni_msgq_run_notify) mirror the readiness of the queue: this is C15 ("poll descriptors mirror
  readiness") for every socket whose poll descriptors are the pollables of its upper queues
  (the raw protocols, see `queue_pollables_are_the_raw_socket_descriptors`).

  Property theorems only (model: Model/MsgqNotify.lean on top of Model/Msgq.lean; specification:
  Spec/MsgqNotify.lean on the FIFO channel of Spec/Queues.lean; lemmas: Proofs/MsgqNotify.lean).
  All statements are about arbitrary call sequences (`NOp` = tryput, aio_put, aio_get, the same two
  with a zero timeout, cancel, close, resize with either allocator answer, get_sendable,
  get_recvable, cap).

  The model mirrors the FIXED code.  Findings on the pinned tree (section "pinned tree" below,
  each exhibited by `decide` and replayed on the real functions by the C18 check):
    C18N-1  nni_msgq_resize never ran the notification: the send level kept its old value after
            NNG_OPT_SENDBUF changed the capacity (missed wake-up on growth, busy loop on shrink);
    C18N-2  run_notify's sendable test ignored parked writers, nni_msgq_aio_put's waiting test does
            not: level up while every non-blocking put is refused.
-/
import NngModel.Proofs.MsgqNotify
import NngModel.Generated.C18N
namespace Nng.C18N
open Nng Nng.QSpec Nng.MsgqN
open Nng.Msgq (Msgq RingRep chanOf notify)

/-! ## what "a non-blocking operation would succeed now" means -/

/-- every zero-timeout put issued now completes its own aio with result 0 within the call -/
def NbPutSucceeds (s : NQ) : Prop := ∀ a m ok, (a, 0, none) ∈ (step s (.nbPut a m) ok).evs
/-- every zero-timeout put issued now fails with NNG_ETIMEDOUT (NNG_EAGAIN at the public API) and
    changes nothing -- neither the queue nor the levels -/
def NbPutRefused (s : NQ) : Prop :=
  ∀ a m ok, (step s (.nbPut a m) ok).evs = [(a, Err.etimedout, none)] ∧ (step s (.nbPut a m) ok).s = s
/-- every zero-timeout get issued now completes its own aio with a message within the call -/
def NbGetSucceeds (s : NQ) : Prop := ∀ a ok, ∃ m, (a, 0, some m) ∈ (step s (.nbGet a) ok).evs
def NbGetRefused (s : NQ) : Prop :=
  ∀ a ok, (step s (.nbGet a) ok).evs = [(a, Err.etimedout, none)] ∧ (step s (.nbGet a) ok).s = s

/-- N1. A zero-timeout operation is decided by the waiting test alone: refused without any effect, or
    completed within the call (and then nothing of its kind stays parked). -/
theorem nonblocking_outcome (s : NQ) :
    (mustWaitPut s.q = true → NbPutRefused s) ∧
    (mustWaitPut s.q = false → NbPutSucceeds s ∧ ∀ a m ok, (step s (.nbPut a m) ok).s.q.putq = []) ∧
    (mustWaitGet s.q = true → NbGetRefused s) ∧
    (mustWaitGet s.q = false → NbGetSucceeds s ∧ ∀ a ok, (step s (.nbGet a) ok).s.q.getq = []) := by
  refine ⟨fun h a m ok => ?_, fun h => ⟨fun a m ok => (nbPut_accepted h a m ok).1, fun a m ok => (nbPut_accepted h a m ok).2⟩,
    fun h a ok => ?_, fun h => ⟨fun a ok => (nbGet_accepted h a ok).1, fun a ok => (nbGet_accepted h a ok).2⟩⟩
  · rw [nbPut_refused h]; exact ⟨rfl, rfl⟩
  · rw [nbGet_refused h]; exact ⟨rfl, rfl⟩

private theorem snd_iff {s : NQ} (h : s.snd = !mustWaitPut s.q) :
    (s.snd = true ↔ NbPutSucceeds s) ∧ (s.snd = false ↔ NbPutRefused s) := by
  obtain ⟨r1, r2, _, _⟩ := nonblocking_outcome s
  cases hm : mustWaitPut s.q with
  | true =>
    have hs : s.snd = false := by rw [h, hm]; rfl
    refine ⟨⟨fun x => by rw [hs] at x; exact absurd x (by simp), fun x => ?_⟩, ⟨fun _ => r1 hm, fun _ => hs⟩⟩
    have := x 0 0 true
    rw [(r1 hm 0 0 true).1] at this
    simp [Err.etimedout] at this
  | false =>
    have hs : s.snd = true := by rw [h, hm]; rfl
    refine ⟨⟨fun _ => (r2 hm).1, fun _ => hs⟩, ⟨fun x => by rw [hs] at x; exact absurd x (by simp), fun x => ?_⟩⟩
    have h1 := (r2 hm).1 0 0 true
    rw [(x 0 0 true).1] at h1
    simp [Err.etimedout] at h1

private theorem rcv_iff {s : NQ} (h : s.rcv = !mustWaitGet s.q) :
    (s.rcv = true ↔ NbGetSucceeds s) ∧ (s.rcv = false ↔ NbGetRefused s) := by
  obtain ⟨_, _, r1, r2⟩ := nonblocking_outcome s
  cases hm : mustWaitGet s.q with
  | true =>
    have hs : s.rcv = false := by rw [h, hm]; rfl
    refine ⟨⟨fun x => by rw [hs] at x; exact absurd x (by simp), fun x => ?_⟩, ⟨fun _ => r1 hm, fun _ => hs⟩⟩
    obtain ⟨m, hx⟩ := x 0 true
    rw [(r1 hm 0 true).1] at hx
    simp [Err.etimedout] at hx
  | false =>
    have hs : s.rcv = true := by rw [h, hm]; rfl
    refine ⟨⟨fun _ => (r2 hm).1, fun _ => hs⟩, ⟨fun x => by rw [hs] at x; exact absurd x (by simp), fun x => ?_⟩⟩
    obtain ⟨m, h1⟩ := (r2 hm).1 0 true
    rw [(x 0 true).1] at h1
    simp at h1

/-! ## (a) the levels mirror readiness after every call -/

/-- N2 (main theorem, both directions).  Take any queue, any calls `pre` made before a pollable is
    handed out, the getter call itself (nni_msgq_get_sendable or nni_msgq_get_recvable -- the only way
    core/socket.c or anybody else comes by the pollable), and any calls `post` afterwards.  After the
    getter and after EVERY later call, as long as the queue has not been closed:
      sendable level up   ⇔ a non-blocking put would succeed now,
      sendable level down ⇔ it would be refused (NNG_ETIMEDOUT / NNG_EAGAIN) without any effect,
      recvable level up   ⇔ a non-blocking get would succeed now,
      recvable level down ⇔ it would be refused without any effect. -/
theorem levels_mirror_nonblocking_ops (cap : Nat) (pre post : List (NOp × Bool)) (getter : NOp)
    (hg : getter = .getSendable ∨ getter = .getRecvable) (ok : Bool) :
    ∀ r ∈ step (after (MsgqN.init cap) pre) getter ok :: run (step (after (MsgqN.init cap) pre) getter ok).s post,
      r.s.q.closed = false →
      (r.s.snd = true ↔ NbPutSucceeds r.s) ∧ (r.s.snd = false ↔ NbPutRefused r.s) ∧
      (r.s.rcv = true ↔ NbGetSucceeds r.s) ∧ (r.s.rcv = false ↔ NbGetRefused r.s) := by
  have h0 := after_inv0 pre _ (init_inv0 cap)
  have hn : reachesNotify (after (MsgqN.init cap) pre).q getter ok = true := by
    rcases hg with rfl | rfl <;> rfl
  have hi : Inv (step (after (MsgqN.init cap) pre) getter ok).s := notified_inv h0 hn
  intro r hr hopen
  have hir : Inv r.s := by
    simp only [List.mem_cons] at hr
    rcases hr with rfl | hr
    · exact hi
    · exact run_inv post _ hi r hr
  obtain ⟨h1, h2⟩ := inv_levels hir hopen
  exact ⟨(snd_iff h1).1, (snd_iff h1).2, (rcv_iff h2).1, (rcv_iff h2).2⟩

/-- N3. The same from any state that satisfies the invariant (`Inv`: ring well formed, a parked reader
    means an empty channel, levels as run_notify would compute them unless closed), e.g. `attach cap`. -/
theorem levels_mirror_nonblocking_ops_from {s : NQ} (h : Inv s) (ops : List (NOp × Bool)) :
    ∀ r ∈ run s ops, r.s.q.closed = false →
      (r.s.snd = true ↔ NbPutSucceeds r.s) ∧ (r.s.snd = false ↔ NbPutRefused r.s) ∧
      (r.s.rcv = true ↔ NbGetSucceeds r.s) ∧ (r.s.rcv = false ↔ NbGetRefused r.s) := by
  intro r hr hopen
  obtain ⟨h1, h2⟩ := inv_levels (run_inv ops s h r hr) hopen
  exact ⟨(snd_iff h1).1, (snd_iff h1).2, (rcv_iff h2).1, (rcv_iff h2).2⟩

/-- N4. Any call that reaches a run_notify site (not only the getters) brings the levels in line,
    whatever they were before -- in particular after nni_msgq_init, which leaves both levels down
    without computing them (`init_levels_are_not_computed`). -/
theorem any_notifying_call_synchronises (cap : Nat) (pre : List (NOp × Bool)) (op : NOp) (ok : Bool)
    (hn : (step (after (MsgqN.init cap) pre) op ok).notified = true) :
    Inv (step (after (MsgqN.init cap) pre) op ok).s := by
  rw [step_notified] at hn
  exact notified_inv (after_inv0 pre _ (init_inv0 cap)) hn

/-- N5. What run_notify computes, as a formula: sendable = "a zero-timeout put need not wait" in every
    state; recvable = "a zero-timeout get need not wait" in every state where a parked reader means an
    empty channel (an invariant of all reachable states, `Inv0`). -/
theorem notify_computes_the_waiting_tests (q : Msgq) :
    (notify q).1 = !mustWaitPut q ∧
    ((q.getq ≠ [] → q.len = 0 ∧ q.putq = []) → (notify q).2 = !mustWaitGet q) :=
  ⟨notify_snd q, notify_rcv⟩

/-- N6. Refinement of the specification (Spec/MsgqNotify.lean) by every call sequence: outputs
    (result, completions, freed messages) and the abstract channel follow `Chan.nstep` -- or the call
    is a growing resize whose allocation failed and nothing at all happened --, every array access is
    in bounds, and the levels are the ones the specification asks for (`Chan.wantLevels`: acceptance
    of a non-blocking put / get on the abstract channel; nothing is asked of a closed channel).
    This is the statement the differential run checks on the real code. -/
def Explains (c : Chan) : List (NOp × Bool) → List NRes → Prop
  | [], [] => True
  | (op, ok) :: ops, r :: outs =>
    r.safe = true ∧ ∃ l, RingRep r.s.q l ∧
      ((ok = false ∧ (∃ n, op = .base (.resize n)) ∧ r.rv = Err.enomem ∧ r.evs = [] ∧ r.freed = [] ∧
          chanOf r.s.q l = c) ∨
        c.nstep op = ⟨chanOf r.s.q l, r.rv, r.evs, r.freed⟩) ∧
      (∀ lv, (chanOf r.s.q l).wantLevels = some lv → lv = (r.s.snd, r.s.rcv)) ∧
      Explains (chanOf r.s.q l) ops outs
  | _, _ => False

theorem levels_and_outputs_refine_the_specification : ∀ (ops : List (NOp × Bool)) (s : NQ) (l : List Msg),
    Inv s → RingRep s.q l → Explains (chanOf s.q l) ops (run s ops) := by
  intro ops
  induction ops with
  | nil => intro s l _ _; exact trivial
  | cons p rest ih =>
    intro s l h hr
    obtain ⟨op, ok⟩ := p
    have hi := step_inv h op ok
    obtain ⟨hsafe, l', hr', hd⟩ := step_refines hr op ok
    refine ⟨hsafe, l', hr', ?_, inv_wantLevels hi hr', ih _ l' hi hr'⟩
    rcases hd with ⟨h1, h2, h3, h4, h5, h6, h7⟩ | hd
    · exact Or.inl ⟨h1, h2, h3, h4, h5, by rw [h6, h7]⟩
    · exact Or.inr hd

/-! ## (b) the levels only change at the anchored call sites -/

/-- N7. Which calls reach a `nni_msgq_run_notify(mq)` site (`reachesNotify`, branch by branch as in the
    C text: tryput only when it delivers or queues; aio_put/aio_get unless a zero timeout makes them
    return early; cancel always; close never; resize unless its allocation fails; the two getters
    always; cap never), and that nothing else touches the levels:
    * a call that reaches a site leaves exactly the levels run_notify computes on the new queue;
    * a call that reaches none leaves both levels as they were;
    * such a call -- unless it is nni_msgq_close -- also leaves the queue as it was, so there was
      nothing to recompute. -/
theorem levels_change_only_at_notify_sites (s : NQ) (op : NOp) (ok : Bool) :
    (step s op ok).notified = reachesNotify s.q op ok ∧
    (reachesNotify s.q op ok = true →
      (step s op ok).s.snd = (notify (step s op ok).s.q).1 ∧ (step s op ok).s.rcv = (notify (step s op ok).s.q).2) ∧
    (reachesNotify s.q op ok = false →
      (step s op ok).s.snd = s.snd ∧ (step s op ok).s.rcv = s.rcv ∧
      (op ≠ .base .close → (step s op ok).s = s)) := by
  refine ⟨step_notified s op ok, step_levels_notified, fun hn => ?_⟩
  obtain ⟨h1, h2⟩ := step_levels_kept hn
  refine ⟨h1, h2, fun hop => ?_⟩
  have hq : (step s op ok).s.q = s.q := by rw [step_q]; exact qstep_unnotified hn hop
  cases hs : (step s op ok).s with
  | mk q snd rcv =>
    rw [hs] at h1 h2 hq
    cases s with
    | mk q0 s0 r0 => simp only at h1 h2 hq; subst h1 h2 hq; rfl

/-- N8. The call sites of the C text are the ones the model mirrors (extracted on every run by
    vlib/extract_c18n.py, which also checks the position of each call inside its function and the two
    formulas of run_notify; a missing anchor or a changed count breaks this theorem or the
    extraction). -/
theorem notify_call_sites_anchored :
    Nng.Generated.c18nNotifyCalls =
      [("nni_msgq_init", 0), ("nni_msgq_fini", 0), ("nni_msgq_run_putq", 0), ("nni_msgq_run_getq", 0),
       ("nni_msgq_cancel", 1), ("nni_msgq_aio_put", 1), ("nni_msgq_aio_get", 1), ("nni_msgq_tryput", 2),
       ("nni_msgq_close", 0), ("nni_msgq_cap", 0), ("nni_msgq_resize", 1), ("nni_msgq_get_recvable", 1),
       ("nni_msgq_get_sendable", 1)] := by decide

/-! ## (c) closed queues -/

/-- N9. nni_msgq_close empties the queue, fails every parked operation, sets `closed` -- and touches
    neither level: no run_notify, so no poller is woken and none is put to sleep by the close itself.
    What run_notify would compute afterwards is (0 < cap, false). -/
theorem close_leaves_the_levels {s : NQ} (h : Inv0 s) (ok : Bool) :
    (step s (.base .close) ok).notified = false ∧
    (step s (.base .close) ok).s.snd = s.snd ∧ (step s (.base .close) ok).s.rcv = s.rcv ∧
    (step s (.base .close) ok).s.q.closed = true ∧
    (step s (.base .close) ok).s.q.len = 0 ∧ (step s (.base .close) ok).s.q.putq = [] ∧
    (step s (.base .close) ok).s.q.getq = [] ∧
    notify (step s (.base .close) ok).s.q = (decide (0 < s.q.cap), false) := by
  obtain ⟨l, hr, _⟩ := h.rep
  obtain ⟨h1, h2, h3, h4, h5, h6, h7, h8⟩ := close_facts hr ok
  refine ⟨h1, h2, h3, h4, h5, h6, h7, ?_⟩
  simp [notify, h5, h6, h7, h8]

/-- N10. A closed queue stays closed, and on it nni_msgq_tryput answers NNG_ECLOSED without touching
    queue or levels; the other calls behave as on an open queue (aio_put / aio_get do not look at
    `mq_closed`), so the next call that reaches a run_notify site makes the levels exact again
    (`levels_change_only_at_notify_sites`). -/
theorem closed_queue_stays_closed {s : NQ} (h : Inv0 s) (hc : s.q.closed = true) (op : NOp) (ok : Bool) :
    (step s op ok).s.q.closed = true ∧
    (∀ m, op = .base (.tryput m) → (step s op ok).rv = Err.eclosed ∧ (step s op ok).s = s) := by
  obtain ⟨l, hr, _⟩ := h.rep
  refine ⟨closed_sticky hr hc op ok, fun m hop => ?_⟩
  subst hop
  simp [step, MsgqN.tryput, hc, lift, Msgq.tryput]

/-- N11. Stale levels on a closed queue are reachable: one message queued (recvable up), close frees
    it; the level stays up although a non-blocking get is refused, and the send level stays down
    although a non-blocking put is accepted (aio_put does not look at `mq_closed`).  C15 does not ask
    for anything here: the queue is closed only by nni_sock_shutdown, after which the socket answers
    NNG_ECLOSED itself, and the descriptors are closed with the socket. -/
theorem closed_queue_levels_can_be_stale :
    let s := after (attach 1) [(.base (.tryput 7), true), (.base .close, true)]
    s.q.closed = true ∧ s.rcv = true ∧ mustWaitGet s.q = true ∧ s.snd = false ∧ mustWaitPut s.q = false := by
  decide

/-! ## initial levels -/

/-- N12. nni_msgq_init does not compute the levels: both are down, also when the queue has room.  Not
    observable: the pollables are private to msgqueue.c and only handed out by the two getters. -/
theorem init_levels_are_not_computed :
    (MsgqN.init 1).snd = false ∧ mustWaitPut (MsgqN.init 1).q = false ∧ Inv (attach 1) ∧ (attach 1).snd = true :=
  ⟨rfl, by decide, attach_inv 1, by decide⟩

/-! ## composition with C15: raw sockets -/

/-- N13. core/socket.c hands out exactly these pollables: for every protocol implementation without
    poll-fd getters of its own (`c18nQueuePolled`: file, uses the send queue, uses the receive queue)
    `nng_socket_get_send_poll_fd` is `nni_msgq_get_sendable(s_uwq)` + `nni_pollable_getfd` and
    `nng_socket_get_recv_poll_fd` is `nni_msgq_get_recvable(s_urq)` + `nni_pollable_getfd`; a user send
    is `nni_msgq_aio_put(uwq)`, a user receive `nni_msgq_aio_get(urq)` (NNG_FLAG_NONBLOCK = zero
    timeout); NNG_OPT_SENDBUF / NNG_OPT_RECVBUF are `nni_msgq_resize` (0 ‥ `c18nBufMax`) of queues
    created with depth `c18nInitSendBuf` / `c18nInitRecvBuf`.  (All anchored by the extraction.)
    Hence `levels_mirror_nonblocking_ops` with `getter := .getSendable` on `s_uwq` resp.
    `.getRecvable` on `s_urq` is C15's "descriptor mirrors readiness" for these sockets at the level of
    the upper queues: the protocol side enters only as further calls (`aio_get(uwq)`, `aio_put(urq)`,
    `tryput(urq)`, their cancellation when a pipe closes) in `pre` / `post`; the pipe behind a level
    is C15Pollable. -/
theorem queue_pollables_are_the_raw_socket_descriptors :
    Nng.Generated.c18nQueuePolled =
      [("pair1_poly", 1, 1), ("xsub", 0, 1), ("xrep", 1, 1), ("xreq", 1, 1), ("xrespond", 1, 1), ("xsurvey", 1, 1)] ∧
    Nng.Generated.c18nInitSendBuf = 0 ∧ Nng.Generated.c18nInitRecvBuf = 1 ∧ Nng.Generated.c18nBufMax = 8192 := by
  decide

/-- N14. The instance for a raw socket as created by nni_sock_create: whatever the protocol and the
    user did before and do after the descriptor is fetched (incl. NNG_OPT_SENDBUF / RECVBUF changes and
    cancelled pipe operations), the send descriptor's level is up iff a non-blocking send would be
    accepted by the upper write queue, the receive descriptor's level is up iff a non-blocking receive
    would be served by the upper read queue. -/
theorem raw_socket_descriptor_levels (pre post : List (NOp × Bool)) (ok : Bool) :
    (∀ r ∈ run (step (after (MsgqN.init Nng.Generated.c18nInitSendBuf) pre) .getSendable ok).s post,
      r.s.q.closed = false → (r.s.snd = true ↔ NbPutSucceeds r.s) ∧ (r.s.snd = false ↔ NbPutRefused r.s)) ∧
    (∀ r ∈ run (step (after (MsgqN.init Nng.Generated.c18nInitRecvBuf) pre) .getRecvable ok).s post,
      r.s.q.closed = false → (r.s.rcv = true ↔ NbGetSucceeds r.s) ∧ (r.s.rcv = false ↔ NbGetRefused r.s)) := by
  constructor
  · intro r hr hopen
    obtain ⟨h1, h2, _, _⟩ := levels_mirror_nonblocking_ops _ pre post .getSendable (Or.inl rfl) ok r
      (List.mem_cons_of_mem _ hr) hopen
    exact ⟨h1, h2⟩
  · intro r hr hopen
    obtain ⟨_, _, h3, h4⟩ := levels_mirror_nonblocking_ops _ pre post .getRecvable (Or.inr rfl) ok r
      (List.mem_cons_of_mem _ hr) hopen
    exact ⟨h3, h4⟩

/-! ## the pinned tree (findings), each sequence replayed on the real functions by the check -/

namespace Pinned
/-- nni_msgq_resize of the pinned tree: unlocks at `out:` without run_notify -/
def resize (s : NQ) (cap : Nat) : NQ := (lift s (Msgq.resize s.q cap true) false).s
/-- run_notify's sendable test of the pinned tree: `mq_len < mq_cap || !nni_list_empty(&mq_aio_getq)` -/
def sendable (q : Msgq) : Bool := decide (q.len < q.cap) || !q.getq.isEmpty
/-- nni_msgq_cancel with the seeded fault C15-2B: no run_notify -/
def cancelNoNotify (s : NQ) (aio : Nat) : NQ := (lift s (Msgq.cancel s.q aio Err.ecanceled) false).s
end Pinned

/-- F1 (finding C18N-1, missed wake-up): depth 0, level down; NNG_OPT_SENDBUF := 2; the level stays down
    although a non-blocking put is accepted.  `init 0; resize 2; nbput` -/
theorem pinned_resize_missed_wakeup :
    let s := Pinned.resize (attach 0) 2
    s.snd = false ∧ mustWaitPut s.q = false ∧ (step (attach 0) (.base (.resize 2)) true).s.snd = true := by decide

/-- F2 (finding C18N-1, busy loop): depth 2, one message; NNG_OPT_SENDBUF := 0; the level stays up
    although every non-blocking put is refused.  `init 2; tryput 1; resize 0; nbput` -/
theorem pinned_resize_busy_loop :
    let s0 := after (attach 2) [(.base (.tryput 1), true)]
    let s := Pinned.resize s0 0
    s.snd = true ∧ mustWaitPut s.q = true ∧ (step s0 (.base (.resize 0)) true).s.snd = false := by decide

/-- F3 (finding C18N-2): depth 1, full, a writer parked; a reader takes the queued message (the parked
    writer is only served by the next reader that finds the ring empty): the pinned test says sendable,
    yet every non-blocking put is refused because a writer is parked.
    `init 1; tryput 1; aput 0 2; aget 1; nbput` -/
theorem pinned_sendable_ignores_parked_writers :
    let s := after (attach 1) [(.base (.tryput 1), true), (.base (.aioPut 0 2), true), (.base (.aioGet 1), true)]
    Pinned.sendable s.q = true ∧ mustWaitPut s.q = true ∧ s.snd = false := by decide

/-- F4 (seeded fault C15-2B): depth 0, a reader parked (level up), the reader is cancelled without
    run_notify: the level stays up, every non-blocking put is refused.  `init 0; aget 0; cancel 0; nbput` -/
theorem seeded_cancel_without_notify_is_stale :
    let s0 := after (attach 0) [(.base (.aioGet 0), true)]
    let s := Pinned.cancelNoNotify s0 0
    s.snd = true ∧ mustWaitPut s.q = true ∧ (step s0 (.base (.cancel 0 Err.ecanceled)) true).s.snd = false := by decide

/-! ## non-vacuity -/

example : Inv (attach 3) := attach_inv 3
example : ∃ s, Inv s ∧ s.q.putq ≠ [] ∧ s.snd = false ∧ s.rcv = true :=
  ⟨after (attach 0) [(.base (.aioPut 3 9), true)],
   by
     have h := run_inv [(.base (.aioPut 3 9), true)] (attach 0) (attach_inv 0)
     exact h (step (attach 0) (.base (.aioPut 3 9)) true) (by simp [run]),
   by decide, by decide, by decide⟩
example : (run (attach 1) [(.base (.tryput 5), true), (.nbPut 0 6, true), (.nbGet 1, true), (.nbGet 2, true)]).map
    (fun r => (r.evs, r.s.snd, r.s.rcv)) =
    [([], false, true), ([(0, Err.etimedout, none)], false, true), ([(1, 0, some 5)], true, false),
     ([(2, Err.etimedout, none)], true, false)] := by decide

end Nng.C18N
