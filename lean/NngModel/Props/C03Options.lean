/-
  C03, option part — memory safety, typing and atomicity of the option plumbing
  (src/core/options.c, the by-name layering of sockets / contexts / dialers / listeners, the typed public
  wrappers of src/nng.c and core/stream.c).

  `Nng.Opt` (Model/Options.lean) is the executable model tied to the C code by harness/u_options.c;
  `Nng.OptSpec` (Spec/Options.lean) is the specification "an object's options are a typed key-value store".
  Property theorems only; lemmas are in Proofs/Options*.lean.  All statements are for ALL tags, buffers,
  sizes, values, tables and layerings; the extracted tables enter only the last section.

  Hypothesis that cannot be dropped (it is what the code relies on, see (d)): a caller of the generic functions
  passes a buffer at least as large as the C type its tag stands for.  options.c never looks at a size
  (`sz` / `szp` are NNI_ARG_UNUSED), the tag is the only guard.
-/
import NngModel.Proofs.OptionsTables
import NngModel.Proofs.OptionsStr
import NngModel.Generated.Base
import NngModel.Generated.C05
import NngModel.Generated.C06
import NngModel.Generated.C08
import NngModel.Generated.C09
namespace Nng.C03Options
open Nng Nng.Opt Nng.OptSpec

/-! ## (a) memory safety -/

/-- A1. The type test comes first: with the wrong tag every copy-in returns NNG_EBADTYPE, leaves its destination
    as it was and performs NO access to the caller's buffer — whatever its size, even empty. -/
theorem copyin_wrong_tag_no_access (v : Bytes) (sz : Nat) (t : Tag) :
    (∀ (d : Int) (lo hi : Int), t ≠ .int → copyinInt d v sz lo hi t = ⟨Err.ebadtype, d, true⟩) ∧
    (∀ (d : Int), t ≠ .ms → copyinMs d v sz t = ⟨Err.ebadtype, d, true⟩) ∧
    (∀ (d lo hi : Nat), t ≠ .size → copyinSize d v sz lo hi t = ⟨Err.ebadtype, d, true⟩) ∧
    (∀ (d : Bool), t ≠ .bool → copyinBool d v sz t = ⟨Err.ebadtype, d, true⟩) ∧
    (∀ (d : Bytes), t ≠ .addr → copyinSockaddr d v t = ⟨Err.ebadtype, d, true⟩) ∧
    (∀ (g : Bool) (d : Bytes), t ≠ .str → copyinStr g d v sz t = ⟨Err.ebadtype, d, true⟩) ∧
    (∀ (g null : Bool), t ≠ .str → checkString g null v sz t = (Err.ebadtype, true)) :=
  ⟨fun d lo hi h => copyinInt_badtype d v sz lo hi t h, fun d h => copyinMs_badtype d v sz t h,
   fun d lo hi h => copyinSize_badtype d v sz lo hi t h, fun d h => copyinBool_badtype d v sz t h,
   fun d h => copyinSockaddr_badtype d v t h, fun g d h => by simp [copyinStr, h],
   fun g null h => by simp [checkString, h]⟩

/-- A2. With the right tag a copy-in performs one load of sizeof(the tag's C type) bytes: it stays inside every
    buffer that is at least that large (the `sz` argument plays no role), and an error leaves the destination. -/
theorem copyin_in_bounds (v : Bytes) (sz : Nat) (t : Tag) :
    (∀ (d lo hi : Int), csize .int ≤ v.length → (copyinInt d v sz lo hi t).safe = true) ∧
    (∀ (d : Int), csize .ms ≤ v.length → (copyinMs d v sz t).safe = true) ∧
    (∀ (d lo hi : Nat), csize .size ≤ v.length → (copyinSize d v sz lo hi t).safe = true) ∧
    (∀ (d : Bool), csize .bool ≤ v.length → (copyinBool d v sz t).safe = true) ∧
    (∀ (d : Bytes), csize .addr ≤ v.length → (copyinSockaddr d v t).safe = true) ∧
    (∀ (d lo hi : Int), (copyinInt d v sz lo hi t).rv ≠ 0 → (copyinInt d v sz lo hi t).val = d) ∧
    (∀ (d : Int), (copyinMs d v sz t).rv ≠ 0 → (copyinMs d v sz t).val = d) ∧
    (∀ (d lo hi : Nat), (copyinSize d v sz lo hi t).rv ≠ 0 → (copyinSize d v sz lo hi t).val = d) :=
  ⟨fun d lo hi h => copyinInt_safe d v sz lo hi t h, fun d h => copyinMs_safe d v sz t h,
   fun d lo hi h => copyinSize_safe d v sz lo hi t h, fun d h => copyinBool_safe d v sz t h,
   fun d h => copyinSockaddr_safe d v t h, fun d lo hi h => copyinInt_err_keeps d v sz lo hi t h,
   fun d h => copyinMs_err_keeps d v sz t h, fun d lo hi h => copyinSize_err_keeps d v sz lo hi t h⟩

/-- A3. nni_copyin_int stores exactly the patterns inside [minv, maxv] (INT_MIN and every value above INT_MAX's
    pattern included: the comparison is on the decoded `int`), anything else is NNG_EINVAL. -/
theorem copyin_int_range (d : Int) (v : Bytes) (sz : Nat) (lo hi : Int) :
    ((copyinInt d v sz lo hi .int).rv = 0 ↔
      (lo ≤ toI32 (leDecode (load v (csize .int)).1) ∧ toI32 (leDecode (load v (csize .int)).1) ≤ hi)) ∧
    ((copyinInt d v sz lo hi .int).rv = 0 → (copyinInt d v sz lo hi .int).val = toI32 (leDecode (load v (csize .int)).1)) ∧
    ((copyinInt d v sz lo hi .int).rv ≠ 0 → (copyinInt d v sz lo hi .int).rv = Err.einval) :=
  copyinInt_ok_iff d v sz lo hi

/-- A4. With the wrong tag every copy-out returns NNG_EBADTYPE and writes NOTHING to the caller's buffer. -/
theorem copyout_wrong_tag_writes_nothing (dst : Bytes) (t : Tag) :
    (∀ b, t ≠ .bool → copyoutBool b dst t = ⟨Err.ebadtype, dst, true⟩) ∧
    (∀ i, t ≠ .int → copyoutInt i dst t = ⟨Err.ebadtype, dst, true⟩) ∧
    (∀ i, t ≠ .ms → copyoutMs i dst t = ⟨Err.ebadtype, dst, true⟩) ∧
    (∀ n, t ≠ .size → copyoutSize n dst t = ⟨Err.ebadtype, dst, true⟩) ∧
    (∀ a, t ≠ .addr → copyoutSockaddr a dst t = ⟨Err.ebadtype, dst, true⟩) ∧
    (∀ p, t ≠ .str → copyoutStr p dst t = ⟨Err.ebadtype, dst, true⟩) :=
  ⟨fun b h => copyout_badtype.1 b dst t h, fun i h => copyout_badtype.2.1 i dst t h,
   fun i h => copyout_badtype.2.2.1 i dst t h, fun n h => copyout_badtype.2.2.2.1 n dst t h,
   fun a h => copyout_badtype.2.2.2.2.1 a dst t h, fun p h => copyout_badtype.2.2.2.2.2 p dst t h⟩

/-- A5. With the right tag a copy-out into a buffer of at least sizeof(T) bytes succeeds, stays inside, replaces
    exactly the first sizeof(T) bytes by the value's object representation and touches nothing behind them. -/
theorem copyout_in_bounds (dst : Bytes) :
    (∀ i, csize .int ≤ dst.length → copyoutInt i dst .int = ⟨0, leEncode (csize .int) (ofI32 i) ++ dst.drop (csize .int), true⟩) ∧
    (∀ i, csize .ms ≤ dst.length → copyoutMs i dst .ms = ⟨0, leEncode (csize .ms) (ofI32 i) ++ dst.drop (csize .ms), true⟩) ∧
    (∀ n, csize .size ≤ dst.length → copyoutSize n dst .size = ⟨0, leEncode (csize .size) n ++ dst.drop (csize .size), true⟩) ∧
    (∀ b, csize .bool ≤ dst.length →
      copyoutBool b dst .bool = ⟨0, leEncode (csize .bool) (if b then 1 else 0) ++ dst.drop (csize .bool), true⟩) ∧
    (∀ p, csize .str ≤ dst.length → copyoutStr p dst .str = ⟨0, leEncode (csize .str) p ++ dst.drop (csize .str), true⟩) ∧
    (∀ a, csize .addr ≤ dst.length → copyoutSockaddr a dst .addr =
      ⟨0, (a.take (csize .addr) ++ List.replicate (csize .addr - a.length) 0) ++ dst.drop (csize .addr), true⟩) :=
  ⟨fun i h => copyoutInt_ok i dst h, fun i h => copyoutMs_ok i dst h, fun n h => copyoutSize_ok n dst h,
   fun b h => copyoutBool_ok b dst h, fun p h => copyoutStr_ok p dst h, fun a h => copyoutSockaddr_ok a dst h⟩

/-- the caller's part of nni_copyin_str's contract: the source is readable up to its terminator or up to `maxsz` -/
def SrcReadable (v : Bytes) (maxsz : Nat) : Prop := (v.take maxsz).contains 0 = true ∨ maxsz ≤ v.length

/-- A6. nni_copyin_str with the repaired too-long test, for every maxsz (0 included), every source that is readable
    up to its terminator or up to maxsz, every destination of at least maxsz bytes: no access outside either buffer;
    either NNG_EINVAL (no terminator within maxsz) with the destination untouched, or the string is copied and
    NUL-terminated strictly inside maxsz. -/
theorem copyin_str_safe_and_terminated (dst v : Bytes) (maxsz : Nat) (hr : SrcReadable v maxsz)
    (hd : maxsz ≤ dst.length) :
    (copyinStr true dst v maxsz .str).safe = true ∧
    (((copyinStr true dst v maxsz .str).rv = Err.einval ∧ (copyinStr true dst v maxsz .str).val = dst ∧
        (v.take maxsz).contains 0 = false) ∨
     ((copyinStr true dst v maxsz .str).rv = 0 ∧ (cstr v).length < maxsz ∧
        (copyinStr true dst v maxsz .str).val = (cstr v ++ [0]) ++ dst.drop ((cstr v).length + 1))) := by
  by_cases hc : (v.take maxsz).contains 0 = true
  · obtain ⟨h1, h2, h3, h4, _⟩ := strnlen_found v maxsz hc
    have hne : ¬ ((strnlen v maxsz).1 = maxsz) := by omega
    have hlen : (v.take (strnlen v maxsz).1 ++ [0]).length ≤ dst.length := by
      rw [h4]; simp; omega
    have hval : copyinStr true dst v maxsz .str = ⟨0, (cstr v ++ [0]) ++ dst.drop ((cstr v).length + 1), true⟩ := by
      simp only [copyinStr, ne_eq, not_true_eq_false, if_false, hne, store_inside _ _ hlen, h1, Bool.and_self]
      rw [h4]; simp
    rw [hval]
    exact ⟨rfl, Or.inr ⟨rfl, by omega, rfl⟩⟩
  · have hc' : (v.take maxsz).contains 0 = false := by simpa using hc
    have hl : maxsz ≤ v.length := by
      rcases hr with h | h
      · exact absurd h hc
      · exact h
    obtain ⟨h1, h2⟩ := strnlen_full v maxsz hc' hl
    have hval : copyinStr true dst v maxsz .str = ⟨Err.einval, dst, true⟩ := by
      simp only [copyinStr, ne_eq, not_true_eq_false, if_false, h2, if_true, h1]
    rw [hval]
    exact ⟨rfl, Or.inl ⟨rfl, rfl, hc'⟩⟩

/-- A6-witness. The pinned too-long test `z == maxsz && ((char *) v)[maxsz - 1] != 0` reads v[-1] for maxsz = 0
    (ASan: heap-buffer-overflow; replay corpus/C03O/copyin_str_maxsz0). -/
theorem pinned_copyin_str_reads_before_buffer : (copyinStr false [] [] 0 .str).safe = false := by decide

/-- A7. nni_strlcpy (as used by nng_pipe_get_strcpy) into a buffer of at least `len` bytes: no access outside;
    returns strlen(src) (so "≥ len" means truncated and len-1 < needed); the copy is a prefix of the source,
    NUL-terminated inside `len`; nothing at or beyond `len` is written. -/
theorem strlcpy_safe_terminated (dst s : Bytes) (len : Nat) (hl : len ≤ dst.length) :
    (strlcpy dst s len).safe = true ∧ (strlcpy dst s len).rv = s.length ∧
    (strlcpy dst s len).val.length = dst.length ∧
    (∀ i, i < min s.length (len - 1) → (strlcpy dst s len).val[i]? = s[i]?) ∧
    (0 < len → (strlcpy dst s len).val[min s.length (len - 1)]? = some 0) ∧
    (∀ i, len ≤ i → (strlcpy dst s len).val[i]? = dst[i]?) := by
  refine ⟨strlcpyGo_safe len _ 0 dst hl, rfl, strlcpyGo_length _ _ _ _ _, ?_, ?_, ?_⟩
  · intro i hi
    simp only [strlcpy]
    rw [strlcpyGo_get len _ 0 dst true hl i]
    have c : 0 ≤ i ∧ i < 0 + (s ++ [0]).length ∧ i + 1 < len := by simp; omega
    rw [if_pos c]
    have : i < s.length := by omega
    simp [List.getElem?_append_left this]
  · intro hp
    simp only [strlcpy]
    rw [strlcpyGo_get len _ 0 dst true hl]
    by_cases c : s.length + 1 < len
    · have e : min s.length (len - 1) = s.length := by omega
      rw [e]
      have c1 : 0 ≤ s.length ∧ s.length < 0 + (s ++ [0]).length ∧ s.length + 1 < len := by simp; omega
      rw [if_pos c1]
      simp
    · have e : min s.length (len - 1) = len - 1 := by omega
      rw [e]
      have c1 : ¬ (0 ≤ len - 1 ∧ len - 1 < 0 + (s ++ [0]).length ∧ len - 1 + 1 < len) := by omega
      have c2 : 0 ≤ len - 1 ∧ len - 1 < 0 + (s ++ [0]).length ∧ len - 1 + 1 = len := by simp; omega
      rw [if_neg c1, if_pos c2]
  · intro i hi
    simp only [strlcpy]
    rw [strlcpyGo_get len _ 0 dst true hl i]
    have c1 : ¬ (0 ≤ i ∧ i < 0 + (s ++ [0]).length ∧ i + 1 < len) := by omega
    have c2 : ¬ (0 ≤ i ∧ i < 0 + (s ++ [0]).length ∧ i + 1 = len) := by omega
    rw [if_neg c1, if_neg c2]

/-- A8. nng_pipe_get_strcpy: a failed lookup leaves the caller's buffer alone; otherwise it is in bounds and
    NNG_ENOSPC is returned exactly when the string (with its terminator) does not fit into `len`. -/
theorem pipe_get_strcpy (rv : Nat) (s : Option Bytes) (buf : Bytes) (len : Nat) (hl : len ≤ buf.length) :
    (pipeGetStrcpy rv s buf len).safe = true ∧
    (rv ≠ 0 → pipeGetStrcpy rv s buf len = ⟨rv, buf, true⟩) ∧
    (rv = 0 → ((pipeGetStrcpy rv s buf len).rv = Err.enospc ↔ len < (s.getD []).length + 1) ∧
              ((pipeGetStrcpy rv s buf len).rv = 0 ↔ (s.getD []).length + 1 ≤ len)) := by
  have hs := (strlcpy_safe_terminated buf (s.getD []) len hl)
  by_cases h : rv ≠ 0
  · simp [pipeGetStrcpy, h]
  · have h0 : rv = 0 := by simpa using h
    subst h0
    by_cases c : (strlcpy buf (s.getD []) len).rv ≥ len
    · have hval : pipeGetStrcpy 0 s buf len = ⟨Err.enospc, (strlcpy buf (s.getD []) len).val, (strlcpy buf (s.getD []) len).safe⟩ := by
        simp only [pipeGetStrcpy, ne_eq, not_true_eq_false, if_false, c, if_true]
      rw [hs.2.1] at c
      rw [hval]
      refine ⟨hs.1, fun h => absurd rfl h, fun _ => ⟨⟨fun _ => by omega, fun _ => rfl⟩, ⟨fun h => ?_, fun h => by omega⟩⟩⟩
      simp [Err.enospc] at h
    · have hval : pipeGetStrcpy 0 s buf len = ⟨0, (strlcpy buf (s.getD []) len).val, (strlcpy buf (s.getD []) len).safe⟩ := by
        simp only [pipeGetStrcpy, ne_eq, not_true_eq_false, if_false, c]
      rw [hs.2.1] at c
      rw [hval]
      refine ⟨hs.1, fun h => absurd rfl h, fun _ => ⟨⟨fun h => ?_, fun h => by omega⟩, ⟨fun _ => by omega, fun _ => rfl⟩⟩⟩
      simp [Err.enospc] at h

/-- A9. ws_check_string with the repaired NULL test: the buffers the string wrappers build (strlen+1 bytes incl. the
    terminator, or NULL with size 0) are accepted / rejected without any access outside them. -/
theorem check_string_safe (s : Bytes) (hs : s.contains 0 = false) :
    checkString true false (s ++ [0]) (s.length + 1) .str = (0, true) ∧
    checkString true true [] 0 .str = (Err.einval, true) := by
  have h1 := strnlen_terminated s [] hs (s.length + 1) (by omega)
  have h3 : ¬ (s.length ≥ s.length + 1) := by omega
  simp [checkString, h1, h3]

/-- A9-witness. The pinned ws_check_string hands the NULL pointer of nng_dialer_set_string(d, n, NULL) to strnlen
    (declared nonnull: undefined behaviour, UBSan report; replay corpus/C03O/ws_protocol_null). -/
theorem pinned_check_string_null : (checkString false true [] 0 .str).2 = false := by decide

/-! ## (b) typing and atomicity of set -/

/-- B1. For ANY layering of ANY tables, ANY store, name and representable value: the typed setter
    (buffer = the value's object representation, size and tag as the wrapper passes them) stays inside its buffer
    and does exactly what the specification says — same return code, same store afterwards. -/
theorem set_refines_spec (layers : List Table) (st : Store) (nm : String) (v : Val) (hw : wfVal v = true) :
    (wrapSet true layers st nm v).safe = true ∧
    ((wrapSet true layers st nm v).rv, (wrapSet true layers st nm v).val) = OptSpec.set layers st nm v := by
  unfold wrapSet
  rw [setLayers_wrap layers nm st v hw]
  exact specSetR_eq layers st nm v

/-- B2. A value is stored iff the option exists, is settable, the tag matches the option's type and the value is in
    the option's range; the error codes are exactly NNG_ENOTSUP, NNG_EREADONLY, NNG_EBADTYPE, NNG_EINVAL in
    that order of precedence; and a failing set changes NOTHING (the old value stays). -/
theorem set_stores_iff_typed_and_in_range (layers : List Table) (st : Store) (nm : String) (v : Val)
    (hw : wfVal v = true) :
    ((wrapSet true layers st nm v).rv = 0 ↔
      ∃ r, findRow layers nm = some r ∧ r.hasSet = true ∧ r.tag ≠ .none ∧ v.tag = r.tag ∧ inRange r v = true) ∧
    ((wrapSet true layers st nm v).rv = 0 → (wrapSet true layers st nm v).val = st.put nm v) ∧
    ((wrapSet true layers st nm v).rv ≠ 0 → (wrapSet true layers st nm v).val = st) ∧
    (findRow layers nm = none → (wrapSet true layers st nm v).rv = Err.enotsup) ∧
    (∀ r, findRow layers nm = some r → r.hasSet = false → (wrapSet true layers st nm v).rv = Err.ereadonly) ∧
    (∀ r, findRow layers nm = some r → r.hasSet = true → r.tag ≠ .none → v.tag ≠ r.tag →
      (wrapSet true layers st nm v).rv = Err.ebadtype) ∧
    (∀ r, findRow layers nm = some r → r.hasSet = true → v.tag = r.tag → inRange r v = false →
      (wrapSet true layers st nm v).rv = Err.einval) := by
  obtain ⟨_, h⟩ := set_refines_spec layers st nm v hw
  have hrv : (wrapSet true layers st nm v).rv = (OptSpec.set layers st nm v).1 := congrArg Prod.fst h
  have hval : (wrapSet true layers st nm v).val = (OptSpec.set layers st nm v).2 := congrArg Prod.snd h
  rw [hrv, hval]
  unfold OptSpec.set
  cases hf : findRow layers nm with
  | none => simp [Err.enotsup]
  | some r =>
    by_cases h1 : r.hasSet = true
    · by_cases h2 : r.tag = .none
      · simp [h1, h2, rvUnmodelled]
        cases v <;> simp [Val.tag]
      · by_cases h3 : v.tag = r.tag
        · by_cases h4 : inRange r v = true
          · simp [h1, h2, h3, h4]
          · simp [h1, h2, h3, h4, Err.einval]
        · simp [h1, h2, h3, Err.ebadtype]
    · simp [h1, Err.ereadonly]

/-- B3. nng_dialer_set_string(d, name, NULL) (repaired ws_check_string): in bounds, never stores, exact codes. -/
theorem set_null_refines_spec (layers : List Table) (st : Store) (nm : String) :
    (wrapSetNull true layers st nm).safe = true ∧ (wrapSetNull true layers st nm).val = st ∧
    ((wrapSetNull true layers st nm).rv, (wrapSetNull true layers st nm).val) = OptSpec.setNull layers st nm := by
  unfold wrapSetNull
  rw [setLayers_null]
  unfold specNullR OptSpec.setNull
  cases hf : findRow layers nm with
  | none => simp
  | some r =>
    by_cases h1 : r.hasSet = true
    · by_cases h2 : r.tag = .none
      · simp [h1, h2]
      · by_cases h3 : r.tag = .str
        · simp [h1, h2, h3]
        · simp [h1, h2, h3]
    · simp [h1]

/-! ## (c) get, round trip -/

/-- C1. For ANY layering, stores, name and tag: the typed getter (the caller's variable = sizeof(T) bytes, NULL for
    the size pointer) stays inside the variable, returns the specification's code, on failure writes nothing at
    all, on success leaves everything behind the first sizeof(T) bytes alone and the caller reads back exactly the
    stored value. -/
theorem get_refines_spec (layers : List GLayer) (own parent : Store) (nm : String) (t : Tag) :
    (wrapGet layers own parent nm t).safe = true ∧
    (wrapGet layers own parent nm t).rv = (OptSpec.get layers own parent nm t).1 ∧
    ((wrapGet layers own parent nm t).rv ≠ 0 → (wrapGet layers own parent nm t).val = canary t) ∧
    ((wrapGet layers own parent nm t).rv = 0 →
      (wrapGet layers own parent nm t).val.length = csize t ∧
      ∀ v, (OptSpec.get layers own parent nm t).2 = some v → v.tag = t → wfVal v = true →
        decodeVal t (wrapGet layers own parent nm t).val (whichStore layers nm own parent) nm = some v) := by
  have hc : csize t ≤ (canary t).length := by simp [canary]
  obtain ⟨h1, h2, h3, h4⟩ := getLayers_ok layers nm own parent (canary t) t hc
  refine ⟨h1, h2, h3, fun h0 => ?_⟩
  obtain ⟨h5, _, h7⟩ := h4 h0
  exact ⟨by rw [show (wrapGet layers own parent nm t).val.length = (canary t).length from h5]; simp [canary], h7⟩

/-- C2. A get with another type than the option's returns NNG_EBADTYPE and writes nothing. -/
theorem get_wrong_type_writes_nothing (layers : List GLayer) (own parent : Store) (nm : String) (t : Tag)
    (par : Bool) (r : Row) (hf : findG layers nm = some (par, r)) (hg : r.hasGet = true) (hn : r.tag ≠ .none)
    (ht : t ≠ r.tag) :
    (wrapGet layers own parent nm t).rv = Err.ebadtype ∧ (wrapGet layers own parent nm t).val = canary t ∧
    (wrapGet layers own parent nm t).safe = true := by
  obtain ⟨h1, h2, h3, _⟩ := get_refines_spec layers own parent nm t
  have hs : (OptSpec.get layers own parent nm t).1 = Err.ebadtype := by
    simp [OptSpec.get, hf, hg, hn, ht]
  rw [hs] at h2
  exact ⟨h2, h3 (by rw [h2]; simp [Err.ebadtype]), h1⟩

/-- C3. Round trip: after a successful typed set of v, a typed get of the same type on the same object (whose get
    search order starts with its set search order — true of every object kind, theorem `objects_get_extends_set`)
    succeeds, is in bounds and hands back exactly v. -/
theorem get_after_set_returns_value (setL : List Table) (rest : List GLayer) (own parent : Store) (nm : String)
    (v : Val) (hw : wfVal v = true) (hs : (wrapSet true setL own nm v).rv = 0)
    (hg : ∀ r, findRow setL nm = some r → r.hasGet = true) :
    (wrapGet (setL.map (fun t => (false, t)) ++ rest) (wrapSet true setL own nm v).val parent nm v.tag).rv = 0 ∧
    (wrapGet (setL.map (fun t => (false, t)) ++ rest) (wrapSet true setL own nm v).val parent nm v.tag).safe = true ∧
    decodeVal v.tag (wrapGet (setL.map (fun t => (false, t)) ++ rest) (wrapSet true setL own nm v).val parent nm v.tag).val
      (wrapSet true setL own nm v).val nm = some v := by
  obtain ⟨hiff, hput, _⟩ := set_stores_iff_typed_and_in_range setL own nm v hw
  obtain ⟨r, hf, _, hn, ht, _⟩ := hiff.mp hs
  have hval := hput hs
  obtain ⟨fg, ws⟩ := findG_prefix setL rest nm r hf
  obtain ⟨g1, g2, _, g4⟩ := get_refines_spec (setL.map (fun t => (false, t)) ++ rest) (wrapSet true setL own nm v).val parent nm v.tag
  have hspec : OptSpec.get (setL.map (fun t => (false, t)) ++ rest) (wrapSet true setL own nm v).val parent nm v.tag = (0, some v) := by
    simp [OptSpec.get, fg, hg r hf, hn, ht, hval, store_get_put]
  rw [hspec] at g2 g4
  refine ⟨g2, g1, ?_⟩
  have := (g4 g2).2 v rfl rfl hw
  rw [ws] at this
  exact this

/-! ## (d) the typed public wrappers and the extracted tables -/

/-- the C type a tag stands for, as written in the wrappers' parameter lists -/
def ctypeOf : String → String
  | "bool" => "bool" | "int" => "int" | "size" => "size_t" | "ms" => "nng_duration" | _ => "?"

/-- one wrapper row is exactly of the shape the model's `wrapSet` / `wrapGet` assume -/
def wrapperOk (w : String × String × String × String × String × String × String) : Bool :=
  let dir := w.2.2.1; let vt := w.2.2.2.1; let barg := w.2.2.2.2.1; let sarg := w.2.2.2.2.2.1; let tag := w.2.2.2.2.2.2
  if dir == "set" then
    if tag == "str" then vt == "const char *" && barg == "v" && sarg == "v == NULL ? 0 : strlen(v) + 1"
    else if tag == "addr" then vt == "const nng_sockaddr *" && barg == "v" && sarg == "sizeof(*v)"
    else vt == ctypeOf tag && barg == "&v" && sarg == "sizeof(v)"
  else if dir == "get" then
    (if tag == "str" then vt == "const char **" else vt == ctypeOf tag ++ " *") && barg == "v" && sarg == "NULL"
  else false

/-- D1. Every typed public getter/setter of nng.c and core/stream.c (all 69 of them) passes: for a set, the address
    of a parameter of the tag's C type with sizeof of it (strings: the string with strlen+1, NULL with 0; socket
    addresses: the caller's structure with sizeof(*v)); for a get, a pointer to a variable of the tag's C type and
    NULL for the size; and the tag of that type.  The copy function of each tag loads/stores that very C type. -/
theorem wrappers_pass_exact_tag_and_size :
    Nng.Generated.c03oWrappers.all wrapperOk = true ∧
    Nng.Generated.c03oWrappers.length = 69 ∧
    Nng.Generated.c03oCopyin.all (fun c => c.2.1 == "str" || c.2.1 == "addr" || c.2.2.1 == ctypeOf c.2.1) = true ∧
    Nng.Generated.c03oCopyout.all (fun c => c.2.1 == "str" || c.2.1 == "addr" || c.2.2 == ctypeOf c.2.1) = true := by
  decide

/-- D2. The buffers the model's wrappers build have exactly the declared size the real wrappers pass:
    sizeof(T) for scalars and socket addresses, strlen+1 for strings, sizeof(T) for the variable of a get. -/
theorem wrapper_buffers_have_declared_size (v : Val) (hw : wfVal v = true) (t : Tag) :
    (v.tag ≠ .str → (encodeVal v).length = csize v.tag) ∧
    (∀ s, v = .str s → (encodeVal v).length = s.length + 1) ∧
    (canary t).length = csize t := by
  refine ⟨?_, ?_, by simp [canary]⟩
  · intro h
    cases v with
    | str s => simp [Val.tag] at h
    | addr a =>
      have : a.length = csize .addr := by simpa [wfVal] using hw
      simp [encodeVal, Val.tag, this]
    | _ => simp [encodeVal, Val.tag]
  · intro s hs; subst hs; simp [encodeVal]

/-- the rows of all tables as model rows -/
def allRows : List Row := Nng.Generated.c03oRows.map (fun x => (mkRow x).2)

/-- D3. Every extracted row is well formed: a known tag or "other"; int ranges inside [INT_MIN, INT_MAX] with
    lo ≤ hi; size ranges inside [0, SIZE_MAX] with lo ≤ hi; durations from -1; every entry has a handler. -/
theorem tables_wellformed :
    allRows.all (fun r =>
      (r.flags % 4 != 0) &&
      (match r.tag with
       | .int => decide (-2147483648 ≤ r.lo ∧ r.lo ≤ r.hi ∧ r.hi ≤ 2147483647) || !r.hasSet
       | .size => decide (0 ≤ r.lo ∧ r.lo ≤ r.hi ∧ r.hi < 18446744073709551616) || !r.hasSet
       | .ms => decide (r.lo = -1 ∧ r.hi = 2147483647) || !r.hasSet
       | _ => true)) = true ∧
    Nng.Generated.c03oRows.all (fun x => (Tag.ofName x.2.2.1).isSome || x.2.2.1 == "other") = true := by
  decide

/-- D4. For every object kind the get search order is the set search order (own values) followed by tables of the
    owning socket: the hypothesis of the round-trip theorem C3. -/
theorem objects_get_extends_set :
    objKinds.all (fun o =>
      o.kind == "pipe:ws" ||      -- pipes have getters only
      (o.getL.take o.setL.length == o.setL.map (fun t => (false, t))) &&
      (o.getL.drop o.setL.length).all (fun l => l.1)) = true := by
  decide

/-- D5. The ranges in the extracted rows are the ranges the protocol models were proved with (older extraction
    hooks, other anchors): PUSH, PAIR0/1, BUS, SUB/PUB buffers, the TTL limits. -/
theorem rows_agree_with_protocol_models :
    ((tableOf "push0_sock_options").find? (·.name == "send-buffer")).map (fun r => (r.lo, r.hi)) = some (0, (Nng.Generated.pushSendBufMax : Int)) ∧
    ((tableOf "pair0_sock_options").find? (·.name == "send-buffer")).map (·.hi) = some (Nng.Generated.pair0SendBufMax : Int) ∧
    ((tableOf "pair0_sock_options").find? (·.name == "recv-buffer")).map (·.hi) = some (Nng.Generated.pair0RecvBufMax : Int) ∧
    ((tableOf "pair1_sock_options").find? (·.name == "send-buffer")).map (·.hi) = some (Nng.Generated.pair1SendBufMax : Int) ∧
    ((tableOf "pair1_sock_options").find? (·.name == "recv-buffer")).map (·.hi) = some (Nng.Generated.pair1RecvBufMax : Int) ∧
    ((tableOf "pair1_sock_options").find? (·.name == "ttl-max")).map (fun r => (r.lo, r.hi)) =
      some ((Nng.Generated.pair1TtlMin : Int), (Nng.Generated.pair1TtlMax : Int)) ∧
    ((tableOf "bus0_sock_options").find? (·.name == "recv-buffer")).map (fun r => (r.lo, r.hi)) =
      some ((Nng.Generated.busBufMin : Int), (Nng.Generated.busBufMax : Int)) ∧
    ((tableOf "sub0_ctx_options").find? (·.name == Nng.Generated.c05OptRecvBuf)).map (fun r => (r.lo, r.hi)) =
      some ((Nng.Generated.c05SubRecvBufMin : Int), (Nng.Generated.c05SubRecvBufMax : Int)) ∧
    ((tableOf "pub0_sock_options").find? (·.name == Nng.Generated.c05OptSendBuf)).map (fun r => (r.lo, r.hi)) =
      some ((Nng.Generated.c05PubSendBufMin : Int), (Nng.Generated.c05PubSendBufMax : Int)) ∧
    ((tableOf "sock_options").find? (·.name == Nng.Generated.c05OptRecvBuf)).map (fun r => (r.lo, r.hi)) =
      some ((Nng.Generated.c05SockRecvBufMin : Int), (Nng.Generated.c05SockRecvBufMax : Int)) ∧
    (allRows.filter (·.name == "ttl-max")).all (fun r => r.lo == 1 && r.hi == (Nng.Generated.maxMaxTtl : Int)) = true := by
  decide

/-- D6. Options whose range the public documentation fixes have exactly that range in EVERY table that implements
    them (NNG_OPT_MAXTTL 1..NNI_MAX_MAX_TTL from core/defs.h; buffer lengths up to 8192 messages): a protocol
    whose setter drops or widens the check breaks this theorem (and `opt-spec`, which judges with the documented range,
    then disagrees with the implementation on a concrete set). -/
theorem tables_have_documented_ranges :
    allRows.all (fun r => !r.hasSet || r.tag == .none || (docOverride r == r)) = true := by
  decide

/-! ## non-vacuity -/

/-- the REQ socket's layers: a set of ttl-max 15 is stored and read back; 16 is NNG_EINVAL and the old value stays;
    a duration for it is NNG_EBADTYPE; resend-time reaches the protocol table before sock_options -/
example :
    let L := [tableOf "req0_sock_options", tableOf "sock_options"]
    let G : List GLayer := L.map (fun t => (false, t))
    let s1 := wrapSet true L [] "ttl-max" (.int 15)
    let s2 := wrapSet true L s1.val "ttl-max" (.int 16)
    let s3 := wrapSet true L s2.val "ttl-max" (.ms 3)
    s1.rv = 0 ∧ s2.rv = Err.einval ∧ s3.rv = Err.ebadtype ∧ s3.val = s1.val ∧ s3.safe = true ∧
    decodeVal .int (wrapGet G s3.val [] "ttl-max" .int).val s3.val "ttl-max" = some (.int 15) ∧
    (wrapGet G s3.val [] "ttl-max" .size).rv = Err.ebadtype ∧
    (wrapGet G s3.val [] "ttl-max" .size).val = canary .size ∧
    (wrapSet true L [] "recv-timeout" (.ms (-2))).rv = Err.einval ∧
    (wrapSet true L [] "recv-timeout" (.ms (-1))).rv = 0 ∧
    (wrapSet true L [] "no-such-option" (.int 1)).rv = Err.enotsup := by
  decide

end Nng.C03Options
