/-
  C16 (extension U): the WebSocket opening handshake on both sides.

  Model: Model/WsUpgrade.lean (ws_contains_word, ws_handler, ws_http_cb_dialer, ws_conn_cb's request).
  Spec:  Spec/WsUpgrade.lean — part 2, the rule tables (what "rule-enforcing" is judged against), and part 1,
         RFC 6455 section 4 (what "well-formed for a conforming peer" is judged against).
  All theorems are for every header list, every configuration, every key.
-/
import NngModel.Proofs.WsUpgrade
namespace Nng.C16Upgrade
open Nng.WsUp
open Nng.WsSpec (s lookup hasWord hasToken acceptFor serverExpected serverRules clientExpected Expect ServerRequires
  clientRequiresB serverRequiresB tokens)

/-! ## the word test -/

/-- ws_contains_word decides the positional rule: a case-insensitive occurrence at the start of the value or right
    after a run of ' ' / ',' containing a space, followed by the end, ' ' or ',' -/
theorem contains_word_is_positional_rule (phrase word : Bytes) : containsWord phrase word = hasWord phrase word :=
  containsWord_eq phrase word

/-- nng_http_get_header is the case-insensitive first-match lookup -/
theorem header_lookup (h : Hdrs) (name : Bytes) : getHeader h name = lookup h name := getHeader_eq h name

/-! ## server -/

/-- ws_handler: the request is upgraded (101, Sec-WebSocket-Accept = base64(SHA1(key ‖ GUID)), the client's protocol
    value echoed) iff every rule of the table holds; otherwise it answers exactly the status of the first failing
    rule (503 closed, 505 version, 400 method, 413 body announced, 400 Upgrade/Connection/Version, 400 key, 400 protocol) -/
theorem server_decision (cfg : SrvCfg) (req : Request) :
    toExpect (serverDecide cfg req) =
      serverExpected Generated.wsSrvSingleOffer cfg.closed cfg.proto req.method req.version req.headers :=
  serverDecide_eq cfg req

theorem server_upgrades_iff (cfg : SrvCfg) (req : Request) :
    (∃ a p, serverDecide cfg req = .upgrade a p) ↔
      ∀ r ∈ serverRules Generated.wsSrvSingleOffer cfg.closed cfg.proto req.method req.version req.headers, r.1 = true := by
  have h := serverDecide_eq cfg req
  unfold serverExpected at h
  constructor
  · rintro ⟨a, p, hd⟩
    rw [hd] at h
    cases hf : (serverRules Generated.wsSrvSingleOffer cfg.closed cfg.proto req.method req.version req.headers).find? (fun r => !r.1) with
    | some r => rw [hf] at h; simp [toExpect] at h
    | none =>
      intro r hr
      have := List.find?_eq_none.mp hf r hr
      simpa using this
  · intro hall
    have hf : (serverRules Generated.wsSrvSingleOffer cfg.closed cfg.proto req.method req.version req.headers).find? (fun r => !r.1) = none := by
      apply List.find?_eq_none.mpr
      intro r hr; simp [hall r hr]
    rw [hf] at h
    exact ⟨_, _, toExpect_upgrade _ _ _ h⟩

/-- a rejected request gets an error status of the table, never 101, and no accept value is produced -/
theorem server_error_is_from_table (cfg : SrvCfg) (req : Request) (st : Nat) (h : serverDecide cfg req = .error st) :
    ∃ r ∈ serverRules Generated.wsSrvSingleOffer cfg.closed cfg.proto req.method req.version req.headers, r.1 = false ∧ r.2 = st := by
  have h' := serverDecide_eq cfg req
  rw [h] at h'
  unfold serverExpected at h'
  cases hf : (serverRules Generated.wsSrvSingleOffer cfg.closed cfg.proto req.method req.version req.headers).find? (fun r => !r.1) with
  | none => rw [hf] at h'; simp [toExpect] at h'
  | some r =>
    rw [hf] at h'
    have hm := List.mem_of_find?_eq_some hf
    have hp := List.find?_some hf
    refine ⟨r, hm, by simpa using hp, ?_⟩
    simp [toExpect] at h'
    exact h'.symm

/-! ## client -/

/-- ws_http_cb_dialer: the dial succeeds iff status 101, Sec-WebSocket-Accept equals base64(SHA1(key ‖ GUID)) for the key
    it sent, Connection has the word "upgrade", Upgrade is "websocket", and (with a configured protocol) the server's
    Sec-WebSocket-Protocol value is a word of the configured list; otherwise NNG_EPERM (401/403), NNG_ECONNREFUSED
    (404/405/501) or NNG_EPROTO -/
theorem client_decision (cfg : CliCfg) (key : Bytes) (res : Response) :
    clientDecide cfg key res = clientExpected cfg.proto key res.status res.headers := clientDecide_eq cfg key res

/-- the accept value the client compares with is the one the server computes, and both are RFC 6455's -/
theorem accept_value_agrees (key : Bytes) (h : key.length = 24) :
    (WsAccept.makeAccept key Generated.wsDialerKeyBuf).accept = (WsAccept.makeAccept key Generated.wsHandlerKeyBuf).accept ∧
    (WsAccept.makeAccept key Generated.wsHandlerKeyBuf).accept = acceptFor key := by
  rw [makeAccept_ok key _ h (by decide), makeAccept_ok key _ h (by decide)]
  exact ⟨rfl, rfl⟩

/-! ## nng client against nng server -/

/-- the request the dialer emits (any Host, any 24-character key, any non-empty subprotocol or none) is upgraded by a
    listener with the same subprotocol setting, with the RFC accept value.  `hsingle` is void at the pinned revision
    (`Generated.wsSrvSingleOffer = false`); with the single-offer fix the common protocol must be one token -/
theorem nng_client_accepted_by_nng_server (po : Option Bytes) (hpo : ∀ p, po = some p → p ≠ [])
    (hsingle : Generated.wsSrvSingleOffer = true → ∀ p, po = some p → p.any WsSpec.isSep = false) (host key : Bytes)
    (hk : key.length = 24) :
    serverDecide { proto := po } (clientRequest { proto := po } host key) = .upgrade (acceptFor key) po :=
  client_accepted_by_server po hpo hsingle host key hk

/-- (`hsingle` is void at the pinned revision, where `Generated.wsSrvSingleOffer = false`; with the single-offer fix
    a dialer configured with a protocol *list* is refused by nng's own listener, hence the hypothesis)
    … and the listener's 101 response to it makes the dial succeed -/
theorem nng_server_accepted_by_nng_client (po : Option Bytes) (hpo : ∀ p, po = some p → p ≠ [])
    (hsingle : Generated.wsSrvSingleOffer = true → ∀ p, po = some p → p.any WsSpec.isSep = false) (host key : Bytes)
    (hk : key.length = 24) :
    clientDecide { proto := po } key (serverResponse (serverDecide { proto := po } (clientRequest { proto := po } host key))) = 0 := by
  rw [client_accepted_by_server po hpo hsingle host key hk]
  exact server_accepted_by_client po hpo key hk

/-! ## what nng emits, judged by RFC 6455 -/

/-- the dialer's request satisfies every requirement of RFC 6455 4.2.1 (the key being the base64 of its 16-byte nonce) -/
theorem nng_request_conforms (po : Option Bytes) (host nonce : Bytes) (hn : nonce.length = 16) :
    ServerRequires (clientRequest { proto := po } host (Base64Spec.encode nonce)).method
      (clientRequest { proto := po } host (Base64Spec.encode nonce)).version
      (clientRequest { proto := po } host (Base64Spec.encode nonce)).headers := by
  rw [req_eq]
  refine ⟨rfl, (by decide : WsSpec.versionAtLeast11 (s "HTTP/1.1") = true), by cases po <;> rfl, ⟨s "websocket", by cases po <;> rfl, by decide⟩,
    ⟨s "Upgrade", by cases po <;> rfl, by decide⟩, ⟨_, by cases po <;> rfl, nonce, hn, rfl⟩, by cases po <;> rfl⟩

/-- the listener's 101 response satisfies RFC 6455 4.1 for the client that sent `key`, provided the echoed protocol value
    is one of the tokens the client offered (true whenever the client offered a single token: see `echo_*` below) -/
theorem nng_response_conforms (key : Bytes) (po offered : Option Bytes)
    (hp : ∀ p, po = some p → ∃ o, offered = some o ∧ (tokens o).any (· == p) = true) :
    clientRequiresB key offered (serverResponse (.upgrade (acceptFor key) po)).status
      (serverResponse (.upgrade (acceptFor key) po)).headers = true := by
  rw [(res_eq _ _).1, (res_eq _ _).2]
  have l1 : lookup (WsSpec.serverResponse (acceptFor key) po) (s "Sec-WebSocket-Accept") = some (acceptFor key) := by cases po <;> rfl
  have l2 : lookup (WsSpec.serverResponse (acceptFor key) po) (s "Connection") = some (s "Upgrade") := by cases po <;> rfl
  have l3 : lookup (WsSpec.serverResponse (acceptFor key) po) (s "Upgrade") = some (s "websocket") := by cases po <;> rfl
  have l4 : lookup (WsSpec.serverResponse (acceptFor key) po) (s "Sec-WebSocket-Protocol") = po := by cases po <;> rfl
  have l5 : lookup (WsSpec.serverResponse (acceptFor key) po) (s "Sec-WebSocket-Extensions") = none := by cases po <;> rfl
  have w1 : WsSpec.ciEq (s "websocket") (s "websocket") = true := by decide
  have w2 : hasToken (s "Upgrade") (s "upgrade") = true := by decide
  simp only [clientRequiresB, l1, l2, l3, l4, l5, w1, w2]
  cases po with
  | none => simp
  | some p =>
    obtain ⟨o, ho, ht⟩ := hp p rfl
    simp [ho, ht]

/-- with the single-offer rule (`single = true`: the proposed fix) whatever is upgraded echoes a non-empty value
    without ' ' and ',', namely the client's whole Sec-WebSocket-Protocol value: the one token the client offered -/
theorem single_offer_rule_echoes_one_token (closed : Bool) (lproto : Option Bytes) (method version : Bytes) (h : Hdrs)
    (a p : Bytes) (hu : serverExpected true closed lproto method version h = .upgrade a (some p)) :
    lookup h (s "Sec-WebSocket-Protocol") = some p ∧ p ≠ [] ∧ p.any WsSpec.isSep = false := by
  unfold serverExpected at hu
  cases hf : (serverRules true closed lproto method version h).find? (fun r => !r.1) with
  | some r => rw [hf] at hu; simp at hu
  | none =>
    rw [hf] at hu
    simp only [Expect.upgrade.injEq] at hu
    have hall := List.find?_eq_none.mp hf
    have hlen : 6 < (serverRules true closed lproto method version h).length := by
      unfold serverRules; simp only [List.length_cons, List.length_nil]; omega
    have h7 := hall _ (List.getElem_mem hlen)
    simp only [serverRules, List.getElem_cons_succ, List.getElem_cons_zero] at h7
    rw [hu.2] at h7
    refine ⟨hu.2, ?_⟩
    cases lproto with
    | none => simp at h7
    | some lp =>
      simp at h7
      refine ⟨fun e => by simp [e] at h7, ?_⟩
      apply List.any_eq_false.mpr
      intro x hx
      have := h7.1.2 x hx
      simpa using this

/-- … so under that rule every 101 response conforms to RFC 6455 4.1 for the client that sent the request (its field
    values being free of surrounding white space, as any HTTP parser delivers them) -/
theorem single_offer_response_conforms (closed : Bool) (lproto : Option Bytes) (method version : Bytes) (h : Hdrs)
    (key a p : Bytes) (hk : lookup h (s "Sec-WebSocket-Key") = some key) (htrim : WsSpec.trim p = p)
    (hu : serverExpected true closed lproto method version h = .upgrade a (some p)) :
    clientRequiresB key (lookup h (s "Sec-WebSocket-Protocol")) (serverResponse (.upgrade a (some p))).status
      (serverResponse (.upgrade a (some p))).headers = true := by
  obtain ⟨hl, hne, hsep⟩ := single_offer_rule_echoes_one_token closed lproto method version h a p hu
  have ha : a = acceptFor key := by
    unfold serverExpected at hu
    cases hf : (serverRules true closed lproto method version h).find? (fun r => !r.1) with
    | some r => rw [hf] at hu; simp at hu
    | none => rw [hf] at hu; simp only [Expect.upgrade.injEq, hk, Option.getD_some] at hu; exact hu.1.symm
  rw [ha]
  apply nng_response_conforms key (some p) (lookup h (s "Sec-WebSocket-Protocol"))
  intro q hq
  have : q = p := by simpa using hq.symm
  subst this
  exact ⟨q, hl, by rw [tokens_single q hne hsep htrim]; simp⟩

/-! ## where the code is laxer or stricter than RFC 6455 (witnesses; kernel-evaluated) -/

def plainReq (extra : Hdrs) : Request :=
  { method := s "GET", version := s "HTTP/1.1",
    headers := [(s "Host", s "h"), (s "Upgrade", s "websocket"), (s "Connection", s "Upgrade"),
                (s "Sec-WebSocket-Key", s "dGhlIHNhbXBsZSBub25jZQ=="), (s "Sec-WebSocket-Version", s "13")] ++ extra }

def isUpgrade : SrvDecision → Bool
  | .upgrade _ _ => true
  | .error _ => false


/-- the tree has the single-offer rule (extracted from ws_handler on every run): without it a 101 response can
    carry a list of subprotocols (`echo_of_offer_list_not_conforming`), which no conforming client accepts -/
theorem single_offer : Generated.wsSrvSingleOffer = true := by decide

/-- every 101 response of the handler as it is in the tree conforms to RFC 6455 4.1 for the client that sent the
    request (`single_offer_response_conforms` with the extracted flag) -/
theorem tree_response_conforms (closed : Bool) (lproto : Option Bytes) (method version : Bytes) (h : Hdrs)
    (key a p : Bytes) (hk : lookup h (s "Sec-WebSocket-Key") = some key) (htrim : WsSpec.trim p = p)
    (hu : serverExpected Generated.wsSrvSingleOffer closed lproto method version h = .upgrade a (some p)) :
    clientRequiresB key (lookup h (s "Sec-WebSocket-Protocol")) (serverResponse (.upgrade a (some p))).status
      (serverResponse (.upgrade a (some p))).headers = true := by
  rw [single_offer] at hu
  exact single_offer_response_conforms closed lproto method version h key a p hk htrim hu

/-- STRICTER than RFC 7230 list syntax: a comma without a following space hides the next element
    ("Connection: keep-alive,Upgrade" is refused with 400 although `upgrade` is a token of the list) -/
theorem strict_comma_without_space :
    hasToken (s "keep-alive,Upgrade") (s "upgrade") = true ∧ containsWord (s "keep-alive,Upgrade") (s "upgrade") = false ∧
    containsWord (s "keep-alive, Upgrade") (s "upgrade") = true := by decide

/-- LAXER: space-separated words are accepted where the RFC has one element "keep-alive Upgrade" -/
theorem lax_space_separated :
    hasToken (s "keep-alive Upgrade") (s "upgrade") = false ∧ containsWord (s "keep-alive Upgrade") (s "upgrade") = true := by decide

/-- LAXER: the key is only measured (24 bytes), not decoded: 24 characters outside the base64 alphabet are upgraded -/
theorem lax_key_not_decoded :
    isUpgrade (serverDecide {} { (plainReq []) with headers := [(s "Upgrade", s "websocket"), (s "Connection", s "Upgrade"),
      (s "Sec-WebSocket-Key", s "!!!!!!!!!!!!!!!!!!!!!!!!"), (s "Sec-WebSocket-Version", s "13")] }) = true ∧
    WsSpec.validKeyB (s "!!!!!!!!!!!!!!!!!!!!!!!!") = false := by decide +kernel

/-- LAXER: `atoi` wraps: "Content-Length: 4294967296" does not count as an announced body -/
theorem lax_content_length_wraps :
    isUpgrade (serverDecide {} (plainReq [(s "Content-Length", s "4294967296")])) = true ∧
    serverDecide {} (plainReq [(s "Content-Length", s "1")]) = .error 413 := by decide +kernel

/-- STRICTER: a client offering two subprotocols to a listener that speaks one of them is refused (RFC: the server
    picks one of the offered values) -/
theorem strict_protocol_offer_list :
    serverExpected false false (some (s "b")) (s "GET") (s "HTTP/1.1") (plainReq [(s "Sec-WebSocket-Protocol", s "a, b")]).headers = .error 400 ∧
    serverExpected true false (some (s "b")) (s "GET") (s "HTTP/1.1") (plainReq [(s "Sec-WebSocket-Protocol", s "a, b")]).headers = .error 400 := by
  decide +kernel

/-- STRICTER (client): the Upgrade value is compared with strcmp: "WebSocket" fails the dial although RFC 6455 4.1 asks
    for a case-insensitive match -/
theorem strict_client_upgrade_case :
    clientExpected none (s "dGhlIHNhbXBsZSBub25jZQ==") 101
      [(s "Upgrade", s "WebSocket"), (s "Connection", s "Upgrade"), (s "Sec-WebSocket-Accept", s "s3pPLMBiTxaQ9kYGzzhZRbK+xOo=")] = 13 ∧
    clientRequiresB (s "dGhlIHNhbXBsZSBub25jZQ==") none 101
      [(s "Upgrade", s "WebSocket"), (s "Connection", s "Upgrade"), (s "Sec-WebSocket-Accept", s "s3pPLMBiTxaQ9kYGzzhZRbK+xOo=")] = true ∧
    clientExpected none (s "dGhlIHNhbXBsZSBub25jZQ==") 101
      [(s "Upgrade", s "websocket"), (s "Connection", s "Upgrade"), (s "Sec-WebSocket-Accept", s "s3pPLMBiTxaQ9kYGzzhZRbK+xOo=")] = 0 := by
  decide +kernel

/-- LAXER (client): an unrequested Sec-WebSocket-Extensions in the response is not looked at -/
theorem lax_client_ignores_extensions :
    clientExpected none (s "dGhlIHNhbXBsZSBub25jZQ==") 101
      [(s "Upgrade", s "websocket"), (s "Connection", s "Upgrade"), (s "Sec-WebSocket-Accept", s "s3pPLMBiTxaQ9kYGzzhZRbK+xOo="),
       (s "Sec-WebSocket-Extensions", s "permessage-deflate")] = 0 ∧
    clientRequiresB (s "dGhlIHNhbXBsZSBub25jZQ==") none 101
      [(s "Upgrade", s "websocket"), (s "Connection", s "Upgrade"), (s "Sec-WebSocket-Accept", s "s3pPLMBiTxaQ9kYGzzhZRbK+xOo="),
       (s "Sec-WebSocket-Extensions", s "permessage-deflate")] = false := by decide +kernel

/-- EMITTED, not conforming (corner; finding E1 of integration/C16U.md): the listener echoes the client's whole Sec-WebSocket-Protocol value.  When a client
    offers exactly the list the listener is configured with ("a, b"), the 101 response carries "a, b", which is not one
    of the offered tokens: a conforming client must fail the connection.  With a single offered token the echo conforms. -/
theorem echo_of_offer_list_not_conforming :
    serverExpected false false (some (s "a, b")) (s "GET") (s "HTTP/1.1") (plainReq [(s "Sec-WebSocket-Protocol", s "a, b")]).headers =
      .upgrade (s "s3pPLMBiTxaQ9kYGzzhZRbK+xOo=") (some (s "a, b")) ∧
    serverExpected true false (some (s "a, b")) (s "GET") (s "HTTP/1.1") (plainReq [(s "Sec-WebSocket-Protocol", s "a, b")]).headers =
      .error 400 ∧
    clientRequiresB (s "dGhlIHNhbXBsZSBub25jZQ==") (some (s "a, b")) 101
      (serverResponse (.upgrade (s "s3pPLMBiTxaQ9kYGzzhZRbK+xOo=") (some (s "a, b")))).headers = false ∧
    clientRequiresB (s "dGhlIHNhbXBsZSBub25jZQ==") (some (s "a")) 101
      (serverResponse (.upgrade (s "s3pPLMBiTxaQ9kYGzzhZRbK+xOo=") (some (s "a")))).headers = true := by decide +kernel

/-- the empty string as subprotocol on both sides: nng refuses its own client (the hypothesis `p ≠ []` above is needed) -/
theorem empty_protocol_refused :
    serverExpected false false (some []) (s "GET") (s "HTTP/1.1") (WsSpec.clientRequest (some []) (s "h") (s "dGhlIHNhbXBsZSBub25jZQ==")) = .error 400 ∧
    serverExpected true false (some []) (s "GET") (s "HTTP/1.1") (WsSpec.clientRequest (some []) (s "h") (s "dGhlIHNhbXBsZSBub25jZQ==")) = .error 400 := by
  decide +kernel

/-! ## tests / non-vacuity -/

-- RFC 6455 1.3's example handshake goes through both sides
example : serverDecide {} (plainReq []) = .upgrade (s "s3pPLMBiTxaQ9kYGzzhZRbK+xOo=") none := by decide +kernel
example : serverRequiresB (plainReq []).method (plainReq []).version (plainReq []).headers = true := by decide +kernel
example : serverDecide { closed := true } (plainReq []) = .error 503 ∧
    serverDecide {} { (plainReq []) with version := s "HTTP/1.0" } = .error 505 ∧
    serverDecide {} { (plainReq []) with method := s "HEAD" } = .error 400 ∧
    serverDecide {} (plainReq [(s "Transfer-Encoding", s "gzip, Chunked")]) = .error 413 ∧
    serverDecide { proto := some (s "x") } (plainReq []) = .error 400 := by decide +kernel
example : clientDecide {} (s "dGhlIHNhbXBsZSBub25jZQ==") ⟨403, []⟩ = 16 ∧ clientDecide {} (s "dGhlIHNhbXBsZSBub25jZQ==") ⟨404, []⟩ = 6 ∧
    clientDecide {} (s "dGhlIHNhbXBsZSBub25jZQ==") ⟨200, []⟩ = 13 := by decide +kernel
-- how the HTTP layer's list comes out of header lines (repeated names merged, white space trimmed)
example : store [(s "Connection", s " keep-alive"), (s "connection", s "Upgrade \t")] = [(s "Connection", s "keep-alive, Upgrade")] := by
  decide +kernel

end Nng.C16Upgrade
