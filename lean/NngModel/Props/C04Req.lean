/-
  C04, requester half (cooked REQ socket and contexts).  Property theorems about the model
  `Nng.Req.step` (Model/Req.lean, tied to req.c by the correspondence check); lemmas are in
  Proofs/ReqInv.lean and Proofs/ReqSteps.lean; "the C04 judge accepts every trace of the model" is proved in
  Proofs/ReqJudge*.lean (simulation between model state and judge state).  The REP half is in its own module.
-/
import NngModel.Proofs.ReqSteps
import NngModel.Proofs.ReqJudgeMain
import NngModel.Spec.Req
namespace Nng.C04Req
open Nng Nng.Proto Nng.Req

/-- the protocol numbers and the request bit used by the model are those of the C source -/
theorem consts_ok : Nng.Req.peerRep = Nng.Proto.protoId 3 1 ∧ Nng.Req.idMin = 2 ^ 31 := by decide

/-- R1 (all histories).  Whenever req0_recv_cb is in a position to take a reply for internal id `iid`
    (the id is in the map for context `k`, whose request is not waiting to be sent and which holds no
    reply yet), then `iid` is that context's request id at that moment, the request has been handed to a
    pipe since the context's last send, and no earlier reply for this id was ever taken. -/
theorem R1_reply_matches_outstanding_request (evs : List Ev) (iid k : Nat)
    (h : Accepts (run {} evs).1 iid k) :
    ((run {} evs).1.ctx k).requestId = iid ∧ ((run {} evs).1.ctx k).wired = true ∧ iid ∉ (run {} evs).1.accepted := by
  have inv := inv_reachable evs
  obtain ⟨h1, h2, _⟩ := h
  obtain ⟨a, _, c⟩ := inv.map_ctx iid k h1
  refine ⟨a, inv.wired k (by simp) (by rw [a]; exact c) h2, ?_⟩
  intro hin
  have := (inv.acc_gone iid hin).1
  rw [h1] at this; cases this

/-- R1, at most once (all histories): no request id is answered twice -/
theorem R1_at_most_once (evs : List Ev) : (run {} evs).1.accepted.Nodup :=
  (inv_reachable evs).acc_nodup

/-- R1: a receive completion carrying a message comes out of the reply path only for the context the
    reply's id maps to, only when that context accepts (previous theorem applies), and it carries
    exactly the bytes that followed the id -/
theorem R1_delivery_only_by_acceptance (s : State) (iid? : Option Nat) (b : Bytes) (a rv : Nat) (m : Option WMsg) (mb : Bool)
    (h : Out.done a rv m mb ∈ (recvCb s iid? b).2) :
    ∃ iid k ua, iid? = some iid ∧ Accepts s iid k ∧ (s.ctx k).recvAio = some ua ∧ ua.aio = a ∧ rv = 0 ∧ m = some ⟨[], b⟩ :=
  recvCb_delivers s iid? b a rv m mb h

/-- R1/R2: taking a reply consumes the id, so a duplicate of it is an unknown reply afterwards -/
theorem R2_duplicate_is_unknown (s : State) (iid k : Nat) (b b' : Bytes) (h : Accepts s iid k) :
    recvCb (recvCb s (some iid) b).1 (some iid) b' = ((recvCb s (some iid) b).1, []) :=
  recvCb_unknown _ _ _ (recvCb_consumes s iid k b h).1

/-- R2: replies that name nothing change nothing — an id below the request bit, an id the socket never
    put on the wire, an id that is no longer (or not) in the map -/
theorem R2_unknown_changes_nothing (s : State) (v : Nat) (b : Bytes)
    (h : v < idMin ∨ s.alias.length ≤ (v - idMin) % relBase ∨ ∃ iid, resolveWire s v = some iid ∧ s.idmap iid = none) :
    recvCb s (resolveWire s v) b = (s, []) := by
  rcases h with h | h | ⟨iid, h1, h2⟩
  · rw [resolveWire_low s v h]; exact recvCb_none s b
  · rw [resolveWire_unknown s v h]; exact recvCb_none s b
  · rw [h1]; exact recvCb_unknown s iid b h2

/-- R2: a reply for a request that is not yet on the wire (its send is still parked), or for a context
    that already holds a reply, changes nothing -/
theorem R2_early_or_second_reply_changes_nothing (s : State) (iid k : Nat) (b : Bytes) (h : s.idmap iid = some k)
    (hs : (s.ctx k).sendAio.isSome ∨ (s.ctx k).repMsg.isSome) : recvCb s (some iid) b = (s, []) := by
  rcases hs with hs | hs
  · exact recvCb_not_wired s iid k b h hs
  · exact recvCb_duplicate s iid k b h hs

/-- R4: whatever a reply does, it does to the one context its id maps to: every other context is
    left exactly as it was -/
theorem R4_other_contexts_untouched (s : State) (iid? : Option Nat) (b : Bytes) (k' : Nat)
    (h : ∀ iid, iid? = some iid → s.idmap iid ≠ some k') : (recvCb s iid? b).1.ctx k' = s.ctx k' :=
  recvCb_others s iid? b k' h

/-- R3: receive before send fails with NNG_ESTATE and changes nothing -/
theorem R3_recv_before_send (s : State) (k a : Nat) (mode : Mode)
    (h1 : (s.ctx k).reqMsg = none) (h2 : (s.ctx k).repMsg = none) (h3 : (s.ctx k).connReset = false) :
    ctxRecv s k a mode = (s, [Out.done a Err.estate none false]) :=
  ctxRecv_estate_no_request s k a mode h1 h2 h3

/-- R3: a second concurrent receive fails with NNG_ESTATE and changes nothing -/
theorem R3_second_recv (s : State) (k a : Nat) (mode : Mode)
    (h1 : (s.ctx k).recvAio.isSome) (h3 : (s.ctx k).connReset = false) :
    ctxRecv s k a mode = (s, [Out.done a Err.estate none false]) :=
  ctxRecv_estate_second s k a mode h1 h3

/-- id map and contexts agree in every history (needs the F12 fix: without it `request_id` may name an
    id that is no longer in the map) -/
theorem idmap_agrees (evs : List Ev) (k : Nat) (h : ((run {} evs).1.ctx k).requestId ≠ 0) :
    (run {} evs).1.idmap ((run {} evs).1.ctx k).requestId = some k :=
  (inv_reachable evs).ctx_map k h

/-- request bodies submitted in a history -/
def sendBodies (evs : List Ev) : List Bytes :=
  evs.filterMap fun e => match e with | .send _ _ m _ => some m.body | _ => none

/-- what the check's generator guarantees and the C04 judge relies on: no operation is aborted with
    result 0 (`nni_aio_abort(aio, 0)`, a harness-only operation), request bodies are pairwise distinct -/
def JudgeHyps (evs : List Ev) : Prop := (∀ a, Ev.abort a 0 ∉ evs) ∧ (sendBodies evs).Nodup

/-- the unconditional statement "the C04 judge accepts every trace of the model" is FALSE: after
    `abort <recv aio> 0` the model (and req.c: replayed, same outputs) completes the receive with result 0 and
    no message and cancels the request; the judge only treats non-zero completions as failures, so it still
    expects the next reply with that id to be delivered to the receive -/
theorem judge04_rejects_abort_with_zero :
    ¬ ∀ evs : List Ev, Nng.ReqSpec.judge04 (evs.zip (run {} evs).2) = none := by
  intro h
  have := h [.openSock "req" false, .pipeAdd 0x31, .send none 0 ⟨[], [1]⟩ .inf, .recv none 1 .inf,
             .abort 1 0, .recvDone 0 (.ok (beEncode 4 idMin ++ [7]))]
  revert this
  decide

/-- `sendBodies` here and in the simulation proof are the same function -/
theorem sendBodies_eq (evs : List Ev) : sendBodies evs = Nng.ReqJ.sendBodies evs := rfl

/-- further guarantees of the check's generator (vlib/props/c04req.py) that the judge relies on:
    * at most `relBase` = 65536 requests are submitted in one case (the model names requests on the wire by
      `idMin + index` and reserves the values from `idMin + relBase` up for relative names, so it stands for the
      implementation only up to that many requests; the generator submits at most 60);
    * a reply that uses a relative name ("the request allocated d ids after the k-th request seen on the wire",
      Model/Req.lean `resolveWire`) does so only for a request that has no wire name of its own
      (`Ids.concretise` in c04req.py: "if the id at that distance was seen after all, its own first-occurrence
      name is used"); decidable, evaluated along the run of the model -/
def GenHyps (evs : List Ev) : Prop :=
  (sendBodies evs).length ≤ relBase ∧ Nng.ReqJ.RepliesNamed {} evs

/-- **The C04 judge accepts every trace of the REQ model** (all event lists satisfying the generator's guarantees). -/
theorem judge_accepts_model (evs : List Ev) (h : JudgeHyps evs) (g : GenHyps evs) :
    Nng.ReqSpec.judge04 (evs.zip (run {} evs).2) = none :=
  Nng.ReqJ.judge04_accepts evs h.1 h.2 g.1 g.2

/-- the statement with `JudgeHyps` alone (the former `judge_accepts_model_statement`) is FALSE: a reply that names
    a request *with* a wire name by a relative name is delivered by the model (and by req.c, which only sees the
    real id) but the judge, which compares the four id bytes, does not expect it -/
def judge_accepts_model_statement : Prop :=
  ∀ evs : List Ev, JudgeHyps evs → Nng.ReqSpec.judge04 (evs.zip (run {} evs).2) = none

theorem judge_needs_reply_names : ¬ judge_accepts_model_statement := by
  intro h
  have := h [.openSock "req" false, .pipeAdd 0x31, .pipeAdd 0x31, .send none 0 ⟨[], [1]⟩ .inf, .ctxOpen 0,
             .send (some 0) 1 ⟨[], [2]⟩ .inf, .recv (some 0) 2 .inf,
             .recvDone 0 (.ok (beEncode 4 (idMin + relBase * (relOff + 1)) ++ [9]))]
    ⟨fun a h => by simp at h, by decide⟩
  revert this
  decide

/-- distinct request bodies are needed: the judge identifies a request on the wire by its body -/
theorem judge_needs_distinct_bodies :
    ¬ ∀ evs : List Ev, (∀ a, Ev.abort a 0 ∉ evs) → GenHyps evs → Nng.ReqSpec.judge04 (evs.zip (run {} evs).2) = none := by
  intro h
  have := h [.openSock "req" false, .pipeAdd 0x31, .pipeAdd 0x31, .ctxOpen 0, .send none 0 ⟨[], [1]⟩ .inf,
             .send (some 0) 1 ⟨[], [1]⟩ .inf, .recv (some 0) 2 .inf, .recvDone 1 (.ok (beEncode 4 (idMin + 1) ++ [9]))]
    (fun a h => by simp at h) ⟨by decide, by decide⟩
  revert this
  decide

/-- the hypotheses are satisfiable by a non-trivial history, which the judge accepts -/
example :
    let evs : List Ev := [.openSock "req" false, .pipeAdd 0x31, .send none 0 ⟨[], [1, 2]⟩ .inf, .recv none 1 .inf,
                          .recvDone 0 (.ok (beEncode 4 idMin ++ [7])), .recv none 2 .nb, .poll]
    JudgeHyps evs ∧ GenHyps evs ∧ Nng.ReqSpec.judge04 (evs.zip (run {} evs).2) = none := by
  refine ⟨⟨fun a h => by simp at h, by decide⟩, ⟨by decide, by decide⟩, ?_⟩
  exact judge_accepts_model _ ⟨fun a h => by simp at h, by decide⟩ ⟨by decide, by decide⟩

/-- the hypotheses of the theorems are satisfiable: a request on the wire, its reply is delivered to the
    waiting receive -/
example :
    let evs : List Ev := [.openSock "req" false, .pipeAdd 0x31, .send none 0 ⟨[], [1, 2]⟩ .inf, .recv none 1 .inf]
    ((run {} evs).1.idmap 1 = some 0 ∧ ((run {} evs).1.ctx 0).sendAio = none ∧ ((run {} evs).1.ctx 0).repMsg = none) ∧
    (step (run {} evs).1 (.recvDone 0 (.ok (beEncode 4 idMin ++ [7])))).2 =
      [.rv 0, .parm 0, .done 1 0 (some ⟨[], [7]⟩) false] := by
  decide

end Nng.C04Req
