/- C10 (close completes everything) / C03 (each object released exactly once), reaper layer: src/core/reap.c -
   one reaper thread, any number of client threads calling nni_reap / nni_reap_sys_drain / nni_reap_sys_fini, reap
   functions that hand a further object to the reaper.

   All theorems quantify over EVERY schedule (list of thread choices), every number `nl` of reap lists and every list
   `progs` of client programs.  `respects` = the caller contract K2 (nni_reap_sys_fini is a client's last call and is
   made when every other client has returned; core/init.c); `(allIds progs).Nodup` = K1 (an object is handed to the
   reaper once - a second nni_reap of a linked node would tie rl_nodes into a cycle).

   Model: Model/Reap.lean; invariants: Proofs/Reap{Inv,Acct,K}.lean; tie to the real code: harness/u_reap.c replays
   schedules one critical section at a time on the real reap.c (vlib/props/c10_reap.py). -/
import NngModel.Proofs.ReapK
import NngModel.Proofs.ReapTerm
import NngModel.Proofs.ReapWF
import NngModel.Model.ReapObs
namespace Nng.C10Reap
open Nng.Reap

def allIds (progs : List (List Op)) : List Nat := progs.flatMap fun p => p.flatMap opIds

def reach (nl : Nat) (progs : List (List Op)) (sched : List Tid) : State := run (init nl progs) sched

theorem future_init (nl : Nat) (progs : List (List Op)) (x : Nat) :
    List.count x (future (init nl progs)) = List.count x (allIds progs) := by
  have h1 : (init nl progs).clients.flatMap clientFuture = allIds progs := by
    simp [init, allIds, List.flatMap_map, clientFuture, Client.prog]
  have h2 : (init nl progs).lists.flatMap listFuture = [] := by
    simp [init, listFuture, nodesFuture]
  unfold future; rw [h1, h2]; simp [init, Worker.future]

theorem reach_inv (nl : Nat) (progs : List (List Op)) (sched : List Tid) : Inv (reach nl progs sched) :=
  run_inv (inv_init nl progs) sched

theorem reach_acct (nl : Nat) (progs : List (List Op)) (sched : List Tid) :
    Acct (future (init nl progs)) (reach nl progs sched) := run_acct (acct_init nl progs) sched

theorem reach_invK (nl : Nat) (progs : List (List Op)) (sched : List Tid)
    (hr : respects (init nl progs) sched = true) : InvK (reach nl progs sched) :=
  run_invK (inv_init nl progs) (invK_init nl progs) sched hr

theorem count_done_le (nl : Nat) (progs : List (List Op)) (sched : List Tid) (x : Nat) :
    List.count x (reach nl progs sched).done ≤ List.count x (reach nl progs sched).subm := by
  have h := reach_acct nl progs sched
  have a := h.A x
  rw [h.doneEq, List.count_append]; omega

/-! ### (a) each object finalised at most once, and only objects that were handed over -/

/-- the reap function is entered at most once per object (all schedules) -/
theorem reaped_at_most_once (nl : Nat) (progs : List (List Op)) (hd : (allIds progs).Nodup) (sched : List Tid) :
    (reach nl progs sched).done.Nodup := by
  rw [List.nodup_iff_count] at hd ⊢
  intro x
  have h := reach_acct nl progs sched
  have d := h.D x
  have := count_done_le nl progs sched x
  have := hd x
  rw [future_init] at d
  omega

/-- ... and an object is handed over at most once -/
theorem submitted_at_most_once (nl : Nat) (progs : List (List Op)) (hd : (allIds progs).Nodup) (sched : List Tid) :
    (reach nl progs sched).subm.Nodup := by
  rw [List.nodup_iff_count] at hd ⊢
  intro x
  have d := (reach_acct nl progs sched).D x
  have := hd x
  rw [future_init] at d
  omega

/-- the reap function only ever runs on an object that nni_reap was called with (all schedules) -/
theorem reaped_only_submitted (nl : Nat) (progs : List (List Op)) (sched : List Tid) :
    ∀ x ∈ (reach nl progs sched).done, x ∈ (reach nl progs sched).subm := by
  intro x hx
  have := count_done_le nl progs sched x
  have h1 := List.count_pos_iff.mpr hx
  exact List.count_pos_iff.mp (by omega)

/-- ... and nni_reap only ever sees objects the program names -/
theorem submitted_only_named (nl : Nat) (progs : List (List Op)) (sched : List Tid) :
    ∀ x ∈ (reach nl progs sched).subm, x ∈ allIds progs := by
  intro x hx
  have d := (reach_acct nl progs sched).D x
  rw [future_init] at d
  have h1 := List.count_pos_iff.mpr hx
  exact List.count_pos_iff.mp (by omega)

/-- every submitted object is in exactly one place: queued on a reap list, in the batch the worker took, inside its
    reap function, or finalised (all schedules) -/
theorem conservation (nl : Nat) (progs : List (List Op)) (sched : List Tid) :
    (reach nl progs sched).subm.Perm
      ((reach nl progs sched).fin ++ (reach nl progs sched).worker.inFunc ++ pendingIds (reach nl progs sched)) := by
  rw [List.perm_iff_count]
  intro x
  have a := (reach_acct nl progs sched).A x
  simp only [pendingIds, List.count_append]
  omega

/-! ### (b) nni_reap_sys_drain returns only when everything handed over so far has been finalised -/

theorem quiet_of_empty {s : State} (hi : Inv s) {tot : List Nat} (ha : Acct tot s) (he : s.empty = true) :
    pendingIds s = [] ∧ s.worker.inFunc = [] ∧ s.subm.Perm s.fin := by
  obtain ⟨hl, hw⟩ := hi.emptyIdle he
  have hq : queuedIds s = [] := by
    unfold queuedIds
    rw [List.flatMap_eq_nil_iff]
    intro rl hrl; rw [hl rl hrl]; rfl
  have hb : s.worker.batchIds = [] ∧ s.worker.inFunc = [] := by
    cases hw' : s.worker <;> rw [hw'] at hw <;> first | exact ⟨rfl, rfl⟩ | cases hw
  refine ⟨by simp [pendingIds, hq, hb.1], hb.2, ?_⟩
  rw [List.perm_iff_count]
  intro x
  have a := ha.A x
  rw [hq, hb.1, hb.2] at a
  simpa using a

/-- the step in which a client's nni_reap_sys_drain returns (its result list grows) ends with nothing queued, no
    batch in the worker's hands, no reap function running and every submitted object finalised (all schedules) -/
theorem drain_returns_only_when_reaped (nl : Nat) (progs : List (List Op)) (sched : List Tid) (t : Tid) :
    let s := reach nl progs sched
    (step s t).res ≠ s.res →
      pendingIds (step s t) = [] ∧ (step s t).worker.inFunc = [] ∧ (step s t).subm.Perm (step s t).fin := by
  intro s h
  have he := res_change h
  exact quiet_of_empty (step_inv (reach_inv nl progs sched) t) (step_acct (reach_acct nl progs sched) t) he

/-! ### (c) no lost wake-up, and nothing left behind at rest -/

/-- the worker sleeps (unwoken) only with reap_empty set, nothing queued and reap_exit clear; a drainer sleeps
    (unwoken) only while reap_empty is clear (all schedules) -/
theorem no_lost_wakeup (nl : Nat) (progs : List (List Op)) (sched : List Tid) :
    let s := reach nl progs sched
    (s.worker = .asleep false → s.empty = true ∧ s.exit = false ∧ queuedIds s = []) ∧
    (∀ p, Client.drainSleep false p ∈ s.clients → s.empty = false ∧ s.worker ≠ .asleep false) := by
  intro s
  have hi := reach_inv nl progs sched
  refine ⟨fun hw => ?_, fun p hp => ?_⟩
  · obtain ⟨he, hx⟩ := hi.asleep hw
    refine ⟨he, hx, ?_⟩
    unfold queuedIds
    rw [List.flatMap_eq_nil_iff]
    intro rl hrl; rw [(hi.emptyIdle he).1 rl hrl]; rfl
  · have he := hi.drainS p hp
    refine ⟨he, fun hw => ?_⟩
    have := (hi.asleep hw).1
    rw [he] at this; cases this

/-- within the contract: when no thread can move, every client has returned from all of its calls (no drain or fini
    hangs), the worker sleeps or has exited, and every object handed to the reaper has been finalised -/
theorem stuck_only_when_finished (nl : Nat) (progs : List (List Op)) (sched : List Tid)
    (hr : respects (init nl progs) sched = true) :
    let s := reach nl progs sched
    (∀ t, enabled s t = false) →
      (∀ c ∈ s.clients, c = Client.ready []) ∧ (s.worker = .asleep false ∨ s.worker = .fin) ∧
      pendingIds s = [] ∧ s.subm.Perm s.fin := by
  intro s hst
  have hi := reach_inv nl progs sched
  have hk := reach_invK nl progs sched hr
  have hw : s.worker = .asleep false ∨ s.worker = .fin := by
    have := hst .w
    simp only [enabled] at this
    cases hw : s.worker with
    | asleep wk => cases wk with
      | false => exact Or.inl rfl
      | true => rw [hw] at this; simp [workerEnabled] at this
    | fin => exact Or.inr rfl
    | top => rw [hw] at this; simp [workerEnabled] at this
    | run b p => rw [hw] at this; simp [workerEnabled] at this
    | nest a b c d e => rw [hw] at this; simp [workerEnabled] at this
    | relock p => rw [hw] at this; simp [workerEnabled] at this
  have hemp : s.empty = true := by
    rcases hw with h | h
    · exact (hi.asleep h).1
    · exact hk.finEmpty h
  have hcl : ∀ c ∈ s.clients, c = Client.ready [] := by
    intro c hc
    obtain ⟨i, hi'⟩ := List.getElem?_of_mem hc
    have hen := hst (.c i)
    simp only [enabled, hi'] at hen
    cases c with
    | ready p =>
      cases p with
      | nil => rfl
      | cons a b => simp [clientEnabled] at hen
    | drainSleep wk p =>
      simp only [clientEnabled] at hen
      subst hen
      have := hi.drainS p hc
      rw [hemp] at this; cases this
    | joining p =>
      simp only [clientEnabled, decide_eq_false_iff_not] at hen
      rcases hw with h | h
      · have := (hi.asleep h).2
        rw [hi.joinExit p hc] at this; cases this
      · exact absurd h hen
  obtain ⟨h1, _, h3⟩ := quiet_of_empty hi (reach_acct nl progs sched) hemp
  exact ⟨hcl, hw, h1, h3⟩

/-- nni_reap_sys_fini (the join) returns only after the worker has seen a pass with nothing to reap: reap_empty is
    set, nothing is queued and everything submitted has been finalised -/
theorem fini_loses_nothing (nl : Nat) (progs : List (List Op)) (sched : List Tid)
    (hr : respects (init nl progs) sched = true) :
    let s := reach nl progs sched
    s.worker = .fin → pendingIds s = [] ∧ s.subm.Perm s.fin := by
  intro s hw
  have hk := reach_invK nl progs sched hr
  obtain ⟨h1, _, h3⟩ := quiet_of_empty (reach_inv nl progs sched) (reach_acct nl progs sched) (hk.finEmpty hw)
  exact ⟨h1, h3⟩

/-! ### (d) termination: no scheduler can keep the reaper layer busy for ever -/

/-- every step of a thread that can move strictly decreases the potential `mu` (Proofs/ReapTerm.lean; `nc` = number of
    clients): no livelock between nni_reap, the worker's passes, drainers that re-sleep and the join -/
theorem effective_step_decreases (nl : Nat) (progs : List (List Op)) (sched : List Tid) (t : Tid)
    (he : enabled (reach nl progs sched) t = true) :
    mu progs.length (step (reach nl progs sched) t) < mu progs.length (reach nl progs sched) := by
  refine mu_step progs.length ?_ he
  have : ∀ (s : State) (sc : List Tid), (run s sc).clients.length = s.clients.length := by
    intro s sc
    induction sc generalizing s with
    | nil => rfl
    | cons a r ih => simp only [run, List.foldl_cons] at ih ⊢; rw [ih, step_clients_length]
  simp [reach, this, init]

/-- the potential of the initial state, in closed form: a wake-up of the worker plus the credit of every call -/
theorem initial_potential (nl : Nat) (progs : List (List Op)) :
    mu progs.length (init nl progs) = (progs.length + 1) + (progs.map (progPot progs.length)).sum := by
  have hl : ((List.replicate nl ({} : RList)).map (listPot progs.length)).sum = 0 := by
    induction nl with
    | zero => rfl
    | succ k ih => simp [List.replicate_succ, listPot] at ih ⊢
  simp only [mu, init, hl, workerPot, wP, List.map_map]
  have : (clientPot progs.length ∘ Client.ready) = progPot progs.length := by funext p; rfl
  rw [this]; omega

/-- ANY schedule, fair or not, contains at most that many steps in which the chosen thread could move: after them
    nothing is enabled any more, and then (`stuck_only_when_finished`) every drain / fini call has returned -/
theorem steps_bounded (nl : Nat) (progs : List (List Op)) (sched : List Tid) :
    effSteps (init nl progs) sched ≤ (progs.length + 1) + (progs.map (progPot progs.length)).sum := by
  have := effSteps_le progs.length (init nl progs) (by simp [init]) sched
  rw [initial_potential] at this
  omega

/-! ### (e) nothing the program names is dropped: at rest every named object has been finalised, exactly once -/

/-- well-formed programs: every list index (of a call and of a reap function's nested call) names one of the `nl` lists -/
def wfProgs (nl : Nat) (progs : List (List Op)) : Prop := ∀ p ∈ progs, ∀ op ∈ p, op.wf nl

/-- at every moment, for every schedule: the objects handed to the reaper so far together with those still to be handed
    over (remaining calls, children of queued / batched nodes, the nested call in progress) are exactly the named ones -/
theorem nothing_named_is_dropped (nl : Nat) (progs : List (List Op)) (hw : wfProgs nl progs) (sched : List Tid) (x : Nat) :
    List.count x (reach nl progs sched).subm + List.count x (future (reach nl progs sched)) =
      List.count x (allIds progs) := by
  have h := run_fc (wf_init nl progs hw) sched x
  have h0 : fc (init nl progs) x = List.count x (allIds progs) := by
    rw [← future_init nl progs x]
    simp only [fc, parts, future, List.count_append, init, List.count_nil]; omega
  rw [h0] at h
  rw [← h]
  simp only [fc, parts, future, List.count_append, reach]
  omega

/-- within the contract, when no thread can move: the finalised objects are exactly the named ones (as multisets) -/
theorem all_named_finalised_at_rest (nl : Nat) (progs : List (List Op)) (hw : wfProgs nl progs) (sched : List Tid)
    (hr : respects (init nl progs) sched = true) :
    (∀ t, enabled (reach nl progs sched) t = false) → (reach nl progs sched).fin.Perm (allIds progs) := by
  intro hst
  obtain ⟨hc, hwk, hp, hperm⟩ := stuck_only_when_finished nl progs sched hr hst
  refine hperm.symm.trans ?_
  rw [List.perm_iff_count]
  intro x
  have h := nothing_named_is_dropped nl progs hw sched x
  have hf : future (reach nl progs sched) = [] := by
    have h1 : (reach nl progs sched).clients.flatMap clientFuture = [] := by
      rw [List.flatMap_eq_nil_iff]; intro c hcm; rw [hc c hcm]; rfl
    have hq : ∀ rl ∈ (reach nl progs sched).lists, rl.nodes = [] := by
      intro rl hrl
      have : nodeIds rl.nodes = [] := by
        have hq0 : queuedIds (reach nl progs sched) = [] := by
          have := hp; simp only [pendingIds, List.append_eq_nil_iff] at this; exact this.1
        unfold queuedIds at hq0
        rw [List.flatMap_eq_nil_iff] at hq0
        exact hq0 rl hrl
      simpa [nodeIds] using this
    have h2 : (reach nl progs sched).lists.flatMap listFuture = [] := by
      rw [List.flatMap_eq_nil_iff]; intro rl hrl; simp [listFuture, hq rl hrl, nodesFuture]
    have h3 : (reach nl progs sched).worker.future = [] := by
      rcases hwk with h | h <;> rw [h] <;> rfl
    simp [future, h1, h2, h3]
  rw [hf] at h
  simpa using h

/-- ... so with K1 every named object's reap function has run exactly once -/
theorem each_named_finalised_exactly_once (nl : Nat) (progs : List (List Op)) (hw : wfProgs nl progs)
    (hd : (allIds progs).Nodup) (sched : List Tid) (hr : respects (init nl progs) sched = true)
    (hst : ∀ t, enabled (reach nl progs sched) t = false) :
    ∀ x ∈ allIds progs, List.count x (reach nl progs sched).fin = 1 := by
  intro x hx
  have hp := all_named_finalised_at_rest nl progs hw sched hr hst
  rw [List.perm_iff_count] at hp
  rw [hp x]
  have h1 := (List.nodup_iff_count.mp hd) x
  have h2 := List.count_pos_iff.mpr hx
  omega

/-! ### the judge of Model/ReapObs.lean accepts every contract-respecting run of the model -/

theorem judge_model (nl : Nat) (progs : List (List Op)) (hd : (allIds progs).Nodup) (sched : List Tid) (t : Tid)
    (hr : respects (init nl progs) (sched ++ [t]) = true) :
    judge (obsOf (reach nl progs sched)) (obsOf (step (reach nl progs sched) t)) = none := by
  have hrun : step (reach nl progs sched) t = reach nl progs (sched ++ [t]) := by
    simp [reach, run, List.foldl_append]
  unfold judge
  have h1 : decide (obsOf (step (reach nl progs sched) t)).done.Nodup = true := by
    rw [hrun]; exact decide_eq_true (reaped_at_most_once nl progs hd _)
  have h2 : (obsOf (step (reach nl progs sched) t)).done.all
      ((obsOf (step (reach nl progs sched) t)).subm.contains ·) = true := by
    rw [hrun, List.all_eq_true]
    intro x hx
    exact List.contains_iff_mem.mpr (reaped_only_submitted nl progs _ x hx)
  rw [h1, h2]
  simp only [Bool.not_true, Bool.false_eq_true, if_false]
  have h3 : ¬ (((obsOf (step (reach nl progs sched) t)).res != (obsOf (reach nl progs sched)).res &&
      !(obsOf (step (reach nl progs sched) t)).subm.isPerm (obsOf (step (reach nl progs sched) t)).fin) = true) := by
    intro h
    simp only [Bool.and_eq_true, bne_iff_ne, ne_eq, Bool.not_eq_true'] at h
    obtain ⟨hne, hp⟩ := h
    have := (drain_returns_only_when_reaped nl progs sched t hne).2.2
    rw [← List.isPerm_iff] at this
    simp only [obsOf] at hp
    rw [this] at hp; cases hp
  rw [if_neg h3]
  have h4 : ¬ ((!(obsOf (step (reach nl progs sched) t)).live &&
      !((obsOf (step (reach nl progs sched) t)).allFin &&
        (obsOf (step (reach nl progs sched) t)).subm.isPerm (obsOf (step (reach nl progs sched) t)).fin)) = true) := by
    intro h
    simp only [Bool.and_eq_true, Bool.not_eq_true'] at h
    obtain ⟨hl, hn⟩ := h
    rw [hrun] at hl hn
    have hst : ∀ t', enabled (reach nl progs (sched ++ [t])) t' = false := by
      intro t'
      simp only [obsOf, List.any_eq_false] at hl
      cases t' with
      | w => simpa using hl .w (by simp [allTids])
      | c i =>
        by_cases hi : i < (reach nl progs (sched ++ [t])).clients.length
        · simpa using hl (.c i) (by simp [allTids]; exact hi)
        · simp only [enabled]
          rw [List.getElem?_eq_none (by omega)]
    obtain ⟨hc, _, _, hp⟩ := stuck_only_when_finished nl progs (sched ++ [t]) hr hst
    rw [← List.isPerm_iff] at hp
    have hall : (reach nl progs (sched ++ [t])).clients.all Client.finished = true := by
      rw [List.all_eq_true]; intro c hcm; rw [hc c hcm]; rfl
    simp only [obsOf, hall, hp, Bool.and_self] at hn
    cases hn
  rw [if_neg h4]

/-! ### non-vacuity and necessity of the hypotheses (tests, labelled as such) -/

/-- a run inside the contract: two clients, a nested reap, a drain that sleeps and returns true, fini -/
example :
    let progs := [[Op.reap 0 { id := 1, child := some (1, 2) }, .drain, .fini], [Op.reap 1 { id := 3 }]]
    let sched := [Tid.c 0, .c 1, .c 0, .w, .w, .w, .w, .w, .w, .w, .w, .c 0, .c 0, .w, .c 0]
    (allIds progs).Nodup ∧ respects (init 2 progs) sched = true ∧
    (reach 2 progs sched).res = [[true], []] ∧ (reach 2 progs sched).fin.length = 3 ∧
    (reach 2 progs sched).worker = .fin ∧ (∀ c ∈ (reach 2 progs sched).clients, c = Client.ready []) := by
  decide

/-- K1 is necessary: handing the same object over twice runs its reap function twice -/
example :
    let progs := [[Op.reap 0 { id := 1 }, .reap 0 { id := 1 }]]
    ¬ (reach 1 progs [.c 0, .c 0, .w, .w, .w]).done.Nodup := by
  decide

/-- K2 is necessary: an nni_reap that races with nni_reap_sys_fini can be left behind for ever -/
example :
    let progs := [[Op.fini], [Op.reap 0 { id := 1 }]]
    let s := reach 1 progs [.w, .c 0, .w, .c 0, .c 1]
    (∀ t ∈ allTids s, enabled s t = false) ∧ pendingIds s = [1] := by
  decide

end Nng.C10Reap
