/-
  C13 / C09 / C08 / C06 (device half): nng_device forwards every message it accepts exactly once,
  unchanged, in the order received per direction; it never runs two forwarders on one direction;
  it accepts exactly the documented socket pairs; on any error or cancel it completes the user aio
  exactly once, closes both sockets and leaks no message.

  About the model of src/core/device.c in Model/Device.lean (tied to the C code by
  vlib/extract_c13dev.py anchors, harness/u_device.c step-for-step and harness/s_device.c end to end).
  Theorems only; lemmas are in Proofs/Device*.lean.
-/
import NngModel.Proofs.DeviceInit
import NngModel.Proofs.DeviceRv
import NngModel.Proofs.DeviceTrace
import NngModel.Proofs.DeviceSysStart
namespace Nng.C13Device
open Nng Nng.Device Nng.DeviceSpec

/-! ## (c) device_init accepts exactly the documented pairs, with the documented error codes -/

/-- device_init = the documented rule: same verdict, same error code, same forwarding directions
    in the same order, for every pair of (possibly absent, possibly identical) sockets. -/
theorem init_matches_documented_rule (info : Nat → SockInfo) (s1 s2 : Option Nat) (memOk : Bool) :
    (deviceInit info s1 s2 memOk).map dirPairs = (initRule (descOf info) s1 s2 memOk).map Shape.dirs := by
  rw [deviceInit_eq]
  cases s1 <;> cases s2 <;> simp only [initRule]
  · rfl
  · exact initAB_rule info _ _ memOk
  · exact initAB_rule info _ _ memOk
  · exact initAB_rule info _ _ memOk

/-- no socket at all: NNG_EINVAL -/
theorem init_no_socket (info : Nat → SockInfo) (m : Bool) :
    deviceInit info none none m = .error Nng.Generated.devErrInval := rfl

/-- the only errors are NNG_EINVAL (no socket, not each other's peers, a cooked socket) and
    NNG_ENOMEM (exactly when the pair is acceptable and the allocation fails) -/
theorem init_error_codes (info : Nat → SockInfo) (s1 s2 : Option Nat) (m : Bool) (e : Nat)
    (h : deviceInit info s1 s2 m = .error e) :
    e = Nng.Generated.devErrInval ∨
      (e = Nng.Generated.devErrNomem ∧ m = false ∧ ∃ ds, deviceInit info s1 s2 true = .ok ds) := by
  rw [deviceInit_eq] at h
  rw [deviceInit_eq]
  cases s1 <;> cases s2 <;> simp only at h ⊢
  · left; cases h; rfl
  all_goals
    rcases initAB_error info _ _ m e h with ⟨h1, _⟩ | ⟨h1, h2, h3⟩
    · left; exact h1
    · right; exact ⟨h1, h2, h3⟩

/-- an accepted pair: both raw, each the other's peer -/
theorem init_accepts_only_raw_peers (info : Nat → SockInfo) (a b : Nat) (m : Bool) (ds : List Dir)
    (h : deviceInit info (some a) (some b) m = .ok ds) :
    (info a).peer = (info b).proto ∧ (info b).peer = (info a).proto ∧ (info a).raw = true ∧ (info b).raw = true := by
  rw [deviceInit_eq] at h
  have := initAB_ok info a b m ds h
  exact ⟨this.1, this.2.1, this.2.2.1, this.2.2.2.1⟩

/-- a reflector (a socket missing) or a same-socket device has exactly ONE forwarder -/
theorem init_reflector_one_path (info : Nat → SockInfo) (s1 s2 : Option Nat) (m : Bool) (ds : List Dir)
    (h : deviceInit info s1 s2 m = .ok ds) (hr : s1 = none ∨ s2 = none ∨ s1 = s2) :
    ∃ s, ds = [⟨s, s⟩] ∧ (s1 = some s ∨ s2 = some s) := by
  rw [deviceInit_eq] at h
  cases s1 with
  | none =>
    cases s2 with
    | none => cases h
    | some b =>
      rcases (initAB_ok info b b m ds h).2.2.2.2.2 with ⟨_, hd⟩ | ⟨hn, _⟩ | ⟨hn, _⟩ | ⟨hn, _⟩
      · exact ⟨b, hd, Or.inr rfl⟩
      all_goals exact absurd rfl hn
  | some a =>
    cases s2 with
    | none =>
      rcases (initAB_ok info a a m ds h).2.2.2.2.2 with ⟨_, hd⟩ | ⟨hn, _⟩ | ⟨hn, _⟩ | ⟨hn, _⟩
      · exact ⟨a, hd, Or.inl rfl⟩
      all_goals exact absurd rfl hn
    | some b =>
      have hab : a = b := by
        rcases hr with h1 | h1 | h1
        · cases h1
        · cases h1
        · cases h1; rfl
      subst hab
      rcases (initAB_ok info a a m ds h).2.2.2.2.2 with ⟨_, hd⟩ | ⟨hn, _⟩ | ⟨hn, _⟩ | ⟨hn, _⟩
      · exact ⟨a, hd, Or.inl rfl⟩
      all_goals exact absurd rfl hn

/-- a one-way device (one of two different sockets cannot receive) has exactly ONE forwarder; it reads
    from the first socket iff that one can receive -/
theorem init_one_way_one_path (info : Nat → SockInfo) (a b : Nat) (m : Bool) (ds : List Dir)
    (h : deviceInit info (some a) (some b) m = .ok ds) (hab : a ≠ b)
    (hr : (info a).canRecv = false ∨ (info b).canRecv = false) :
    (ds = [⟨a, b⟩] ∧ (info a).canRecv = true) ∨ (ds = [⟨b, a⟩] ∧ (info a).canRecv = false) := by
  rw [deviceInit_eq] at h
  rcases (initAB_ok info a b m ds h).2.2.2.2.2 with ⟨he, _⟩ | ⟨_, h1, h2, _⟩ | ⟨_, h1, _, hd⟩ | ⟨_, h1, hd⟩
  · exact absurd he hab
  · rcases hr with hr | hr
    · rw [h1] at hr; cases hr
    · rw [h2] at hr; cases hr
  · exact Or.inl ⟨hd, h1⟩
  · exact Or.inr ⟨hd, h1⟩

/-- a two-way device has exactly TWO forwarders with opposite directions -/
theorem init_two_way_two_paths (info : Nat → SockInfo) (a b : Nat) (m : Bool) (ds : List Dir)
    (h : deviceInit info (some a) (some b) m = .ok ds) (hab : a ≠ b)
    (hr : (info a).canRecv = true ∧ (info b).canRecv = true) :
    ds = [⟨a, b⟩, ⟨b, a⟩] := by
  rw [deviceInit_eq] at h
  rcases (initAB_ok info a b m ds h).2.2.2.2.2 with ⟨he, _⟩ | ⟨_, _, _, hd⟩ | ⟨_, _, h2, _⟩ | ⟨_, h1, _⟩
  · exact absurd he hab
  · exact hd
  · rw [hr.2] at h2; cases h2
  · rw [hr.1] at h1; cases h1

/-- device_init never creates two forwarders reading from the same socket (hence never two with the
    same direction), never none, never more than `paths[]` holds; two forwarders are always opposite -/
theorem init_distinct_sources (info : Nat → SockInfo) (s1 s2 : Option Nat) (m : Bool) (ds : List Dir)
    (h : deviceInit info s1 s2 m = .ok ds) :
    (ds.map (·.src)).Nodup ∧ ds ≠ [] ∧ ds.length ≤ Nng.Generated.devMaxPaths ∧
      (∀ x y, ds = [x, y] → y = ⟨x.dst, x.src⟩ ∧ x.src ≠ x.dst) := by
  have key : ∀ a b, initAB info a b m = .ok ds →
      (ds.map (·.src)).Nodup ∧ ds ≠ [] ∧ ds.length ≤ Nng.Generated.devMaxPaths ∧
      (∀ x y, ds = [x, y] → y = ⟨x.dst, x.src⟩ ∧ x.src ≠ x.dst) := by
    intro a b hab
    rcases (initAB_ok info a b m ds hab).2.2.2.2.2 with ⟨_, hd⟩ | ⟨hn, _, _, hd⟩ | ⟨_, _, _, hd⟩ | ⟨_, _, hd⟩ <;>
      subst hd <;> simp [Nng.Generated.devMaxPaths] <;> grind
  rw [deviceInit_eq] at h
  cases s1 <;> cases s2 <;> simp only at h
  · cases h
  all_goals exact key _ _ h

/-- whenever one of the sockets can receive, every forwarder reads from a socket that can -/
theorem init_source_can_receive (info : Nat → SockInfo) (s1 s2 : Option Nat) (m : Bool) (ds : List Dir)
    (h : deviceInit info s1 s2 m = .ok ds) :
    (∃ s, (s1 = some s ∨ s2 = some s) ∧ (info s).canRecv = true) → ∀ x ∈ ds, (info x.src).canRecv = true := by
  have key : ∀ a b, initAB info a b m = .ok ds → ((info a).canRecv = true ∨ (info b).canRecv = true) →
      ∀ x ∈ ds, (info x.src).canRecv = true := by
    intro a b hab hor
    rcases (initAB_ok info a b m ds hab).2.2.2.2.2 with ⟨he, hd⟩ | ⟨_, h1, h2, hd⟩ | ⟨_, h1, _, hd⟩ | ⟨_, h1, hd⟩ <;>
      subst hd <;> intro x hx <;> simp at hx
    · subst hx; subst he; simpa using hor
    · rcases hx with hx | hx <;> subst hx <;> assumption
    · subst hx; exact h1
    · subst hx
      rcases hor with h | h
      · rw [h1] at h; cases h
      · exact h
  intro ⟨s, hs, hcs⟩
  rw [deviceInit_eq] at h
  cases s1 with
  | none =>
    cases s2 with
    | none => cases h
    | some b =>
      apply key b b h
      rcases hs with hs | hs
      · cases hs
      · cases hs; exact Or.inl hcs
  | some a =>
    cases s2 with
    | none =>
      apply key a a h
      rcases hs with hs | hs
      · cases hs; exact Or.inl hcs
      · cases hs
    | some b =>
      apply key a b h
      rcases hs with hs | hs
      · cases hs; exact Or.inl hcs
      · cases hs; exact Or.inr hcs

/-! ## (a), (b) every message obtained is forwarded exactly once, unchanged, in order, one at a time -/

/-- the state a device is in after any sequence of events -/
def after (dirs : List Dir) (evs : List DEv) : Dev := (run (started dirs) evs).1

/-- For every direction, at every moment, under every sequence of completions, errors and cancels:
    what the forwarder passed to `nni_sock_send` is — as a LIST, so with multiplicity, content
    (header and body: the very `Msg` value) and order — a prefix of what it obtained from
    `nni_sock_recv`; nothing is invented, duplicated, edited or reordered.  The only message that can
    be missing is the single one obtained after the device had failed; while the device has not failed
    the two lists are equal. -/
theorem forward_exactly_once_in_order (dirs : List Dir) (hne : dirs ≠ []) (evs : List DEv) (j : Nat) (p : Path)
    (h : (after dirs evs).paths[j]? = some p) :
    p.subm <+: p.rcvd ∧ p.rcvd.length ≤ p.subm.length + 1 ∧ ((after dirs evs).rv = 0 → p.subm = p.rcvd) := by
  have hI : Inv dirs (after dirs evs) := run_inv dirs evs _ (started_inv dirs hne)
  rcases List.getElem?_eq_some_iff.mp h with ⟨hj, hp⟩
  have hP := hI.pinv j hj
  rw [hp] at hP
  refine ⟨?_, ?_, ?_⟩
  · rcases hP.fwd with h1 | ⟨_, m, h1⟩
    · rw [h1]; exact List.prefix_refl _
    · rw [h1]; exact List.prefix_append _ _
  · rcases hP.fwd with h1 | ⟨_, m, h1⟩ <;> rw [h1] <;> simp
  · intro hrv
    rcases hP.fwd with h1 | ⟨hf, _⟩
    · exact h1.symm
    · exact absurd (hp ▸ hf) ((hI.clean hrv).2 j hj)

/-- ownership, and at most one message in flight per direction: everything a forwarder obtained was
    consumed by the destination socket (`acked`), released by the device (`freed`, at most one, and only
    when the forwarder stops) or is the single message of the outstanding send; the aio's message slot is
    empty whenever no send is outstanding. -/
theorem one_in_flight_and_ownership (dirs : List Dir) (hne : dirs ≠ []) (evs : List DEv) (j : Nat) (p : Path)
    (h : (after dirs evs).paths[j]? = some p) :
    p.rcvd = p.acked ++ p.freed ++ (if p.state = .send then p.amsg.toList else []) ∧
    p.subm.length ≤ p.acked.length + p.freed.length + 1 ∧
    p.freed.length ≤ 1 ∧ (p.state ≠ .fini → p.freed = []) ∧ (p.state ≠ .send → p.amsg = none) := by
  have hI : Inv dirs (after dirs evs) := run_inv dirs evs _ (started_inv dirs hne)
  rcases List.getElem?_eq_some_iff.mp h with ⟨hj, hp⟩
  have hP := hI.pinv j hj
  rw [hp] at hP
  refine ⟨hP.own, ?_, hP.freedOne, hP.freedFini, hP.slot⟩
  have hlen : p.rcvd.length ≤ p.acked.length + p.freed.length + 1 := by
    rw [hP.own]
    by_cases hs : p.state = .send
    · simp only [hs, if_true, List.length_append]
      cases p.amsg <;> simp
    · simp [hs]
  have hsub : p.subm.length ≤ p.rcvd.length := by
    rcases hP.fwd with h1 | ⟨_, m, h1⟩ <;> rw [h1] <;> simp
  omega

/-- the ghost list is the real thing: `subm` of direction j is exactly the sequence of messages carried by the
    device's `nni_sock_send(dst, &paths[j].aio)` calls (the `Act.sockSend` entries the UNIT harness prints for the
    real device.c), so the statements above are statements about the calls the device makes -/
theorem submissions_are_the_send_calls (dirs : List Dir) (evs : List DEv) (j : Nat) (p : Path)
    (h : (after dirs evs).paths[j]? = some p) :
    p.subm = sendsOf j (run (started dirs) evs).2 := by
  have := run_subm evs (started dirs) j
  rw [show (run (started dirs) evs).1.paths[j]? = some p from h] at this
  cases hq : (started dirs).paths[j]? with
  | none => rw [hq] at this; simp at this
  | some q =>
    rw [hq] at this
    simp only [Option.map_some, Option.some.injEq] at this
    have hq0 : q.subm = [] := by
      simp only [started, List.getElem?_map] at hq
      cases hd : dirs[j]? with
      | none => rw [hd] at hq; simp at hq
      | some x => rw [hd] at hq; simp at hq; rw [← hq]
    rw [this, hq0]; rfl

/-! ## (b) order end to end: FIFO sockets around the device, all schedules -/

/-- Two forwarders on the SAME direction do not keep the order: with two paths 0→0 (what the same-socket test
    evaluated before the NULL normalisation produces for a reflector), messages A then B arrive, the socket hands
    A to the first waiting receive and B to the second, the callback of the second runs first: B is sent
    before A. -/
theorem two_forwarders_reorder :
    sentTo 0 (srun (sysStart [⟨0, 0⟩, ⟨0, 0⟩] 1)
      [.arrive 0 ⟨[], [1]⟩, .arrive 0 ⟨[], [2]⟩, .run 1, .run 0]).trace = [⟨[], [2]⟩, ⟨[], [1]⟩] := by
  decide

/-- ... while device_init never builds that: for every device it accepts, whatever arrives at a socket the device
    reads from is forwarded by the one forwarder reading it in arrival order — under EVERY schedule of arrivals,
    callbacks, send completions, errors and cancels.  `k.arrived` is everything that ever reached socket `p.src`,
    `p.subm` what forwarder j passed to the other socket: a prefix of it, with conservation: every arrival was
    obtained by the forwarder, is in a completed receive waiting for its callback, or is still queued in the socket. -/
theorem order_end_to_end (info : Nat → SockInfo) (s1 s2 : Option Nat) (dirs : List Dir) (n : Nat)
    (hinit : deviceInit info s1 s2 true = .ok dirs) (hn : ∀ x ∈ dirs, x.src < n) (evs : List SEv)
    (j : Nat) (p : Path) (k : Sock)
    (hp : (srun (sysStart dirs n) evs).dev.paths[j]? = some p)
    (hk : (srun (sysStart dirs n) evs).socks[p.src]? = some k) :
    p.subm <+: k.arrived ∧
    k.arrived = p.rcvd ++ pendOf (srun (sysStart dirs n) evs).ready j ++ k.rxq := by
  rcases sinv_start_init info s1 s2 dirs n hinit hn with ⟨hD, h0⟩
  have hS := srun_inv dirs hD evs _ h0
  rcases List.getElem?_eq_some_iff.mp hp with ⟨hj, hpe⟩
  have hP := hS.path j hj k (by rw [hpe]; exact hk)
  rw [hpe] at hP
  refine ⟨?_, hP.cons⟩
  have hI := (hS.dev.pinv j hj)
  rw [hpe] at hI
  rw [hP.cons, List.append_assoc]
  rcases hI.fwd with h1 | ⟨_, m, h1⟩
  · rw [h1]; exact List.prefix_append _ _
  · rw [h1, List.append_assoc]; exact List.prefix_append _ _

/-- the same for any set of directions in which no two forwarders read the same socket -/
theorem order_end_to_end_general (dirs : List Dir) (hD : DistinctSrc dirs) (sy0 : System) (h0 : SInv dirs sy0)
    (evs : List SEv) (j : Nat) (p : Path) (k : Sock)
    (hp : (srun sy0 evs).dev.paths[j]? = some p) (hk : (srun sy0 evs).socks[p.src]? = some k) :
    p.subm <+: k.arrived := by
  have hS := srun_inv dirs hD evs _ h0
  rcases List.getElem?_eq_some_iff.mp hp with ⟨hj, hpe⟩
  have hP := hS.path j hj k (by rw [hpe]; exact hk)
  rw [hpe] at hP
  have hI := (hS.dev.pinv j hj)
  rw [hpe] at hI
  rw [hP.cons, List.append_assoc]
  rcases hI.fwd with h1 | ⟨_, m, h1⟩
  · rw [h1]; exact List.prefix_append _ _
  · rw [h1, List.append_assoc]; exact List.prefix_append _ _

/-! ## (d) termination: exactly one completion, both sockets closed, nothing leaked -/

/-- the user aio is never completed twice -/
theorem user_completes_at_most_once (dirs : List Dir) (hne : dirs ≠ []) (evs : List DEv) :
    (after dirs evs).userDone.length ≤ 1 := by
  have hI : Inv dirs (after dirs evs) := run_inv dirs evs _ (started_inv dirs hne)
  by_cases hu : (after dirs evs).user = true
  · have : (after dirs evs).userDone = [] := hI.once hu
    rw [this]; simp
  · have := (hI.fin (by simpa using hu)).1
    have h2 : (after dirs evs).userDone = [(after dirs evs).rv] := this
    rw [h2]; simp

/-- the user aio is completed exactly when the last forwarder has stopped -/
theorem completed_iff_all_stopped (dirs : List Dir) (hne : dirs ≠ []) (evs : List DEv) :
    (after dirs evs).userDone ≠ [] ↔ ∀ p ∈ (after dirs evs).paths, p.state = .fini := by
  have hI : Inv dirs (after dirs evs) := run_inv dirs evs _ (started_inv dirs hne)
  have hcount : (0 < (after dirs evs).running) ↔ ¬ ∀ p ∈ (after dirs evs).paths, p.state = .fini := by
    rw [hI.run, List.countP_pos_iff]
    constructor
    · rintro ⟨p, hp, hl⟩ hall
      have := hall p hp
      simp [live, this] at hl
    · intro hn
      apply Classical.byContradiction
      intro hno
      apply hn
      intro p hp
      apply Classical.byContradiction
      intro hst
      exact hno ⟨p, hp, by simp [live, hst]⟩
  constructor
  · intro hd
    apply Classical.byContradiction
    intro hn
    have hu : (after dirs evs).user = true := hI.userRun.mpr (hcount.mpr hn)
    exact hd (hI.once hu)
  · intro hall hd
    have hu : (after dirs evs).user = false := by
      cases hx : (after dirs evs).user with
      | false => rfl
      | true => exact absurd hall (hcount.mp (hI.userRun.mp hx))
    have h2 : (after dirs evs).userDone = [(after dirs evs).rv] := (hI.fin hu).1
    rw [h2] at hd; cases hd

/-- when the user aio has been completed: it was completed with the device's (non-zero, first — see
    `first_error_wins`) error; device_close closed the source of forwarder 0 and then, if it is a
    different socket, its destination, exactly once each; the device was handed to the reaper exactly
    once; and every message ever obtained was either consumed by the destination socket or freed by the
    device — nothing is held, nothing is leaked. -/
theorem completion_releases_everything (dirs : List Dir) (hne : dirs ≠ []) (evs : List DEv)
    (hd : (after dirs evs).userDone ≠ []) :
    (after dirs evs).userDone = [(after dirs evs).rv] ∧ (after dirs evs).rv ≠ 0 ∧
    (after dirs evs).closed = socketsOf dirs ∧ (after dirs evs).owned = false ∧ (after dirs evs).reaps = 1 ∧
    ∀ p ∈ (after dirs evs).paths, p.state = .fini ∧ p.amsg = none ∧ p.rcvd = p.acked ++ p.freed := by
  have hI : Inv dirs (after dirs evs) := run_inv dirs evs _ (started_inv dirs hne)
  have hall := (completed_iff_all_stopped dirs hne evs).mp hd
  have hu : (after dirs evs).user = false := by
    cases hx : (after dirs evs).user with
    | false => rfl
    | true => exact absurd (hI.once hx) hd
  have hf := hI.fin hu
  refine ⟨hf.1, hf.2.1, hf.2.2.2.1, hf.2.2.1, hf.2.2.2.2, ?_⟩
  intro p hp
  rcases List.mem_iff_getElem.mp hp with ⟨j, hj, hpj⟩
  have hP := hI.pinv j hj
  rw [hpj] at hP
  have hst := hall p hp
  refine ⟨hst, hP.slot (by rw [hst]; decide), ?_⟩
  have := hP.own
  simpa [hst] using this

/-- the device never stops by itself: as long as no error and no cancel has happened, the user aio is
    pending, the sockets are held, and every forwarder is running -/
theorem runs_until_first_error (dirs : List Dir) (hne : dirs ≠ []) (evs : List DEv)
    (h0 : (after dirs evs).rv = 0) :
    (after dirs evs).userDone = [] ∧ (after dirs evs).owned = true ∧ (after dirs evs).closed = [] ∧
    ∀ p ∈ (after dirs evs).paths, p.state = .recv ∨ p.state = .send := by
  have hI : Inv dirs (after dirs evs) := run_inv dirs evs _ (started_inv dirs hne)
  have hc := hI.clean h0
  refine ⟨hI.once hc.1, (hI.alive hc.1).1, (hI.alive hc.1).2.1, ?_⟩
  intro p hp
  rcases List.mem_iff_getElem.mp hp with ⟨j, hj, hpj⟩
  have h1 := hc.2 j hj
  have h2 := (hI.pinv j hj).notInit
  rw [hpj] at h1 h2
  cases hs : p.state <;> simp_all

/-- the first error (of a receive, of a send, or the cancel) is the device's result: later errors
    never replace it -/
theorem first_error_wins (d : Dev) (evs : List DEv) (h : d.rv ≠ 0) : (run d evs).1.rv = d.rv :=
  run_rv_sticky evs d h

/-- after the first error every forwarder that has not stopped has been aborted
    (`nni_aio_abort` on its aio) -/
theorem failure_aborts_all (dirs : List Dir) (hne : dirs ≠ []) (evs : List DEv)
    (hrv : (after dirs evs).rv ≠ 0) :
    ∀ p ∈ (after dirs evs).paths, p.state ≠ .fini → p.aborted = true := by
  have hI : Inv dirs (after dirs evs) := run_inv dirs evs _ (started_inv dirs hne)
  intro p hp hst
  rcases List.mem_iff_getElem.mp hp with ⟨j, hj, hpj⟩
  have := hI.ab hrv j hj
  rw [hpj] at this
  exact this hst

/-- ... and whatever then completes on a forwarder — success or error, receive or send — stops it
    (so the device finishes after at most one more completion per forwarder) -/
theorem failure_drains (dirs : List Dir) (hne : dirs ≠ []) (evs : List DEv) (hrv : (after dirs evs).rv ≠ 0)
    (i : Nat) (p : Path) (hp : (after dirs evs).paths[i]? = some p) :
    (p.state = .recv → ∀ r, okRes r = true →
        ∃ q, (step (after dirs evs) (.recvDone i r)).1.paths[i]? = some q ∧ q.state = .fini) ∧
    (p.state = .send → ∀ rv,
        ∃ q, (step (after dirs evs) (.sendDone i rv)).1.paths[i]? = some q ∧ q.state = .fini) := by
  have hI : Inv dirs (after dirs evs) := run_inv dirs evs _ (started_inv dirs hne)
  rcases List.getElem?_eq_some_iff.mp hp with ⟨hi, hpe⟩
  have hP := hI.pinv i hi
  rw [hpe] at hP
  constructor
  · intro hs r hr
    rw [step_recv_eq, hp]
    simp only [hs, hr, beq_self_eq_true, Bool.and_self, if_true]
    exact failed_completion_stops _ i _ hi hrv (by
      rw [show (after dirs evs).paths[i] = p from hpe]; exact cbOK_recv _ i p r hP hs hr)
  · intro hs rv
    rw [step_send_eq, hp]
    simp only [hs, beq_self_eq_true, if_true]
    exact failed_completion_stops _ i _ hi hrv (by
      rw [show (after dirs evs).paths[i] = p from hpe]; exact cbOK_send _ i p rv hP hs)

/-! ## non-vacuity -/

/-- PAIR1 raw (protocol 0x11, peer 0x11, flags SND|RCV|RAW) -/
def exPair1 : SockInfo := ⟨0x11, 0x11, 7⟩
/-- PULL raw (0x51, peer 0x50, RCV|RAW) and PUSH raw (0x50, peer 0x51, SND|RAW) -/
def exPull : SockInfo := ⟨0x51, 0x50, 5⟩
def exPush : SockInfo := ⟨0x50, 0x51, 6⟩

example : deviceInit (fun _ => exPair1) (some 3) none true = .ok [⟨3, 3⟩] := by rfl
example : deviceInit (fun _ => exPair1) (some 0) (some 1) true = .ok [⟨0, 1⟩, ⟨1, 0⟩] := by rfl
example : deviceInit (fun s => if s = 0 then exPush else exPull) (some 0) (some 1) true = .ok [⟨1, 0⟩] := by rfl
example : deviceInit (fun s => if s = 0 then exPush else exPair1) (some 0) (some 1) true = .error 3 := by rfl
example : deviceInit (fun _ => ⟨0x11, 0x11, 3⟩) (some 0) none true = .error 3 := by rfl
example : deviceInit (fun _ => exPair1) (some 0) (some 1) false = .error 2 := by rfl

/-- a two-way device that forwards one message each way, then is cancelled while one send is outstanding and one
    receive is posted; the late send completion is followed by the completion of the user aio with
    NNG_ECANCELED, both sockets closed, nothing held -/
example :
    let d := after [⟨0, 1⟩, ⟨1, 0⟩]
      [.recvDone 0 (.ok ⟨[1], [10]⟩), .sendDone 0 0, .recvDone 1 (.ok ⟨[], [20]⟩), .recvDone 0 (.ok ⟨[2], [11]⟩),
       .cancel 20, .sendDone 1 0, .recvDone 0 (.error 20), .sendDone 0 20]
    d.userDone = [20] ∧ d.closed = [0, 1] ∧ d.reaps = 1 ∧
    d.paths.map (·.subm) = [[⟨[1], [10]⟩, ⟨[2], [11]⟩], [⟨[], [20]⟩]] ∧
    d.paths.map (·.acked) = [[⟨[1], [10]⟩], [⟨[], [20]⟩]] ∧
    d.paths.map (·.freed) = [[⟨[2], [11]⟩], []] := by decide

end Nng.C13Device
