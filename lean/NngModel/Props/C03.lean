/- C03 — API-visible ownership clauses.  The protocol-independent trace predicate is
   Spec/Generic.lean `ownStep`; per-protocol ghost-ownership invariants are imported from the
   protocol property files as they land. -/
import NngModel.Spec.Generic
namespace Nng.C03
open Nng Nng.Proto Nng.GenericSpec

theorem failed_send_must_return_message (a rv : Nat) (m : WMsg) (h : rv ≠ 0) :
    (ownJudge [(.send none a m .inf, [.done a rv none false])]).isSome = true := by
  simp [ownJudge, ownStep, ownOut, OwnJ.fail, h]

theorem successful_send_keeps_nothing (a : Nat) (m : WMsg) :
    ownJudge [(.send none a m .inf, [.done a 0 none false])] = none := by
  simp [ownJudge, ownStep, ownOut]

theorem double_completion_rejected (a : Nat) (m : WMsg) :
    (ownJudge [(.send none a m .inf, [.done a 0 none false]), (.advance 1, [.done a 0 none false])]).isSome = true := by
  simp [ownJudge, ownStep, ownOut, OwnJ.fail]

end Nng.C03
