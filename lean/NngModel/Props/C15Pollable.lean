/- C15, poll-descriptor half: "poll descriptors mirror readiness" for the lock-free object under
   every poll descriptor (src/core/pollable.c + the pipe of src/platform/posix/posix_pipe.c).

   All theorems quantify over EVERY schedule (list of thread choices incl. the pipe_open oracle),
   every number `n` of concurrent nni_pollable_getfd callers, every program `prog` of raise/clear
   calls of the one mutator (raise/clear are serialised by the protocol's socket mutex) and both
   initial flag values.  `fixed = true` is the repaired getfd
   (integration/fixes/POLLB-pollable-getfd-race.patch), `fixed = false` the pinned tree.

   Model: Model/Pollable.lean; invariant: Proofs/PollableInv*.lean; tie to the real code:
   harness/u_pollable.c replays schedules step by step on the real pollable.c (vlib/props/c15_pollable.py). -/
import NngModel.Proofs.PollableJudge
namespace Nng.C15Pollable
open Nng.Pollable Nng.PollSpec

/-- the states reachable from nni_pollable_init (+ optional early raise) -/
def reach (fixed r0 : Bool) (n : Nat) (prog : List Op) (sched : List Choice) : State :=
  run fixed (init r0 n prog) sched

/-- (a) REPAIRED code: whenever no thread is inside a call and a descriptor has been handed out,
    the descriptor is readable exactly if the flag is raised -/
theorem quiescent_readable_iff_raised (r0 : Bool) (n : Nat) (prog : List Op) (sched : List Choice) :
    let s := reach true r0 n prog sched
    s.quiescent = true → s.sh.fds.isSome = true → (0 < s.sh.instBytes ↔ s.sh.raised = true) :=
  fun hq hf => inv_quiescent_iff (inv_run (inv_init true r0 n prog) sched) hq hf

/-- (a) as one would like to state it for the code in the pinned tree -/
def current_quiescent_iff_statement : Prop :=
  ∀ (r0 : Bool) (n : Nat) (prog : List Op) (sched : List Choice),
    let s := reach false r0 n prog sched
    s.quiescent = true → s.sh.fds.isSome = true → (0 < s.sh.instBytes ↔ s.sh.raised = true)

/-- the schedule of the defect: flag raised before any descriptor exists; getfd: load p_fds,
    pipe_open, CAS, load p_raised (= true); clear: swap, load p_fds, drain (nothing there);
    getfd: write.  Quiescent, flag false, descriptor readable. -/
def staleSchedule : List Choice :=
  [⟨.g 0, true⟩, ⟨.g 0, true⟩, ⟨.g 0, true⟩, ⟨.g 0, true⟩, ⟨.m1, true⟩, ⟨.m1, true⟩, ⟨.m1, true⟩, ⟨.g 0, true⟩]

/-- CURRENT code: a stale "readable" is reachable (poll says readable, a non-blocking receive
    returns NNG_EAGAIN; it persists until the next raise followed by a clear) -/
theorem current_code_stale_readable :
    let s := reach false true 1 [.clear] staleSchedule
    s.quiescent = true ∧ s.sh.fds = some 0 ∧ s.sh.instBytes = 1 ∧ s.sh.raised = false := by
  decide

theorem current_quiescent_iff_false : ¬ current_quiescent_iff_statement := by
  intro h
  have := h true 1 [.clear] staleSchedule (by decide) (by decide)
  revert this
  decide

/-- the same schedule (continued until the loop exits) on the repaired code ends consistent -/
theorem fixed_code_on_stale_schedule :
    let s := reach true true 1 [.clear]
      (staleSchedule ++ [⟨.g 0, true⟩, ⟨.g 0, true⟩, ⟨.g 0, true⟩, ⟨.g 0, true⟩])
    s.quiescent = true ∧ s.sh.fds = some 0 ∧ s.sh.instBytes = 0 ∧ s.sh.raised = false := by
  decide

/-- (a), the half that holds for BOTH variants: no missed wake-up - at rest a raised flag is
    always visible on the descriptor -/
theorem quiescent_raised_readable_partial (fixed r0 : Bool) (n : Nat) (prog : List Op) (sched : List Choice) :
    let s := reach fixed r0 n prog sched
    s.quiescent = true → s.sh.fds.isSome = true → s.sh.raised = true → 0 < s.sh.instBytes :=
  fun hq hf hr => inv_quiescent_raised (inv_run (inv_init fixed r0 n prog) sched) hq hf hr

/-- (b) every successful getfd call returned the descriptor that is installed - hence all the same -/
theorem getfd_results_agree (fixed r0 : Bool) (n : Nat) (prog : List Op) (sched : List Choice) (p q : Nat) :
    let s := reach fixed r0 n prog sched
    GPc.done (some p) ∈ s.gs → GPc.done (some q) ∈ s.gs → p = q ∧ s.sh.fds = some p := by
  intro s hp hq
  have h := inv_run (inv_init fixed r0 n prog) sched
  have e1 := inv_results h hp
  have e2 := inv_results h hq
  rw [e1] at e2
  exact ⟨by cases e2; rfl, e1⟩

/-- (b) once published, the descriptor never changes -/
theorem descriptor_stable (fixed r0 : Bool) (n : Nat) (prog : List Op) (sched more : List Choice) (p : Nat) :
    (reach fixed r0 n prog sched).sh.fds = some p → (reach fixed r0 n prog (sched ++ more)).sh.fds = some p := by
  intro h
  simp only [reach, run, List.foldl_append] at h ⊢
  exact run_fds_some fixed _ more h

/-- (b) no descriptor leak: at rest exactly the installed pipe is open (every pipe created by a
    caller that lost the CAS has been closed), none if no pipe was installed -/
theorem no_fd_leak (fixed r0 : Bool) (n : Nat) (prog : List Op) (sched : List Choice) :
    let s := reach fixed r0 n prog sched
    s.quiescent = true → s.sh.nOpen = if s.sh.fds.isSome then 1 else 0 :=
  fun hq => inv_no_leak (inv_run (inv_init fixed r0 n prog) sched) hq

/-- (b) a failing nni_plat_pipe_open is the only source of an error return, and it leaves the
    pollable and all pipes exactly as they were -/
theorem open_failure_no_effect (fixed : Bool) (sh : Shared) (g : GPc) (ok : Bool) :
    gstep fixed sh .open_ false = (sh, .done none) ∧
    ((gstep fixed sh g ok).2 = .done none → g ≠ .done none →
      g = .open_ ∧ ok = false ∧ (gstep fixed sh g ok).1 = sh) :=
  ⟨rfl, gstep_err fixed sh g ok⟩

/-- (c) no write, drain or close is ever issued on a closed (or never opened) pipe -/
theorem no_io_on_closed_pipe (fixed r0 : Bool) (n : Nat) (prog : List Op) (sched : List Choice) :
    (reach fixed r0 n prog sched).sh.bad = false :=
  (inv_run (inv_init fixed r0 n prog) sched).bad

/-- (d) the pipe never fills: at most 3 bytes are ever buffered in any pipe (2 with the current
    code), independent of the number of callers and of the length of the mutator's program -/
theorem bytes_bounded (fixed r0 : Bool) (n : Nat) (prog : List Op) (sched : List Choice) (k : Nat) :
    bytesAt (reach fixed r0 n prog sched).sh.pipes k ≤ if fixed then 3 else 2 :=
  inv_bytes_le (inv_run (inv_init fixed r0 n prog) sched) k

/-- termination under ANY scheduler (no fairness needed): the number of effective steps of a run
    is bounded; in particular the re-check loop of the repaired getfd cannot spin - an extra
    iteration is paid for by a mutator swap -/
theorem steps_bounded (fixed r0 : Bool) (n : Nat) (prog : List Op) (sched : List Choice) :
    effSteps fixed (init r0 n prog) sched ≤ (3 * n + 1) * (3 * prog.length) + 6 * n := by
  have := effSteps_le fixed (init r0 n prog) sched
  rw [mu_init] at this
  omega

/-- and every effective step makes progress -/
theorem effective_step_decreases (fixed : Bool) (s : State) (c : Choice) (h : enabled s c = true) :
    mu (step fixed s c) < mu s := mu_step_lt fixed s c h

/-- no deadlock: a state where no thread can move is fully terminated -/
theorem stuck_only_when_finished (s : State) (h : ∀ c, enabled s c = false) :
    s.quiescent = true ∧ s.m1.prog = [] ∧ s.m2.prog = [] ∧ ∀ g ∈ s.gs, ∃ r, g = .done r :=
  stuck_is_finished s h

/-- the executable specification (Spec/Pollable.lean: clauses a-d on observations) accepts every
    run of the repaired model; the same judge runs on the real code's observations -/
theorem judge_model (r0 : Bool) (n : Nat) (prog : List Op) (sched : List Choice) :
    judgeFrom (obsOf (init r0 n prog)) ((trace true (init r0 n prog) sched).map obsOf) = none :=
  judgeFrom_model (inv_init true r0 n prog) sched

/-- the hypothesis "ONE mutator" is necessary even for the repaired getfd: a raise and a clear
    that are not serialised (survey0/respond.c resp0_ctx_send clears `writable` before taking the
    socket mutex) leave a stale readable descriptor -/
theorem unserialised_mutators_stale :
    let s := run true (init false 1 [.raise] [.clear])
      [⟨.g 0, true⟩, ⟨.g 0, true⟩, ⟨.g 0, true⟩, ⟨.g 0, true⟩, ⟨.g 0, true⟩, ⟨.g 0, true⟩,
       ⟨.m1, true⟩, ⟨.m2, true⟩, ⟨.m2, true⟩, ⟨.m2, true⟩, ⟨.m1, true⟩, ⟨.m1, true⟩]
    s.quiescent = true ∧ s.sh.fds = some 0 ∧ s.sh.instBytes = 1 ∧ s.sh.raised = false := by
  decide

/-! non-vacuity: a run with two callers (one loses the CAS, closes its pipe and returns the winner's
    descriptor) and a raise/clear/raise program interleaved with the winner's loop reaches a quiescent
    state with a descriptor handed out (hypotheses of (a) satisfiable); and a failing pipe_open -/
example :
    let s := reach true false 2 [.raise, .clear, .raise]
      [⟨.g 0, true⟩, ⟨.g 1, true⟩, ⟨.g 0, true⟩, ⟨.g 1, true⟩, ⟨.g 1, true⟩, ⟨.g 0, true⟩, ⟨.g 1, true⟩,
       ⟨.m1, true⟩, ⟨.m1, true⟩, ⟨.g 1, true⟩, ⟨.m1, true⟩, ⟨.g 1, true⟩, ⟨.g 1, true⟩, ⟨.g 1, true⟩,
       ⟨.g 1, true⟩, ⟨.g 0, true⟩, ⟨.g 0, true⟩, ⟨.m1, true⟩, ⟨.m1, true⟩, ⟨.m1, true⟩, ⟨.m1, true⟩,
       ⟨.m1, true⟩, ⟨.m1, true⟩]
    s.quiescent = true ∧ s.sh.fds = some 1 ∧ s.sh.raised = true ∧ 0 < s.sh.instBytes ∧ s.sh.nOpen = 1 := by
  decide

example : reach true false 1 [] [⟨.g 0, false⟩] =
    { sh := ⟨false, none, [], false⟩, m1 := ⟨.idle, []⟩, m2 := ⟨.idle, []⟩, gs := [.open_] } := by decide

end Nng.C15Pollable
