/-
  C16 — WebSocket / HTTP codecs: property theorems (obligations).  Helper lemmas live in
  Proofs/{WsMask,WsFrame,WsConform,WsRx,WsRules,HttpChunk}.lean.
  Models: Model/Ws.lean (websocket.c), Model/HttpChunk.lean (http_chunk.c), Model/Base64.lean.
  Specifications: Spec/Ws.lean (RFC 6455 wire format, `conforming`, reference decoder),
  Spec/HttpChunk.lean (chunked-body grammar), Spec/Base64.lean (RFC 4648).
-/
import NngModel.Proofs.WsConform
import NngModel.Proofs.WsRules
import NngModel.Proofs.HttpChunk
import NngModel.Model.Base64
import NngModel.Spec.Base64
import NngModel.Spec.HttpChunk
namespace Nng.C16
open Nng.Ws

/-! ## masking -/

/-- ws_apply_mask's 16/8/4-byte strides followed by the byte tail compute the bytewise transformation -/
theorem mask_wordwise_eq_bytewise (key : Bytes) (hk : key.length = 4) (buf : Bytes) :
    applyMask key buf = applyMaskBytewise key buf := applyMask_eq_bytewise key hk buf

/-- masking twice with the same key is the identity (ws_mask_frame then ws_unmask_frame) -/
theorem mask_involution (key : Bytes) (hk : key.length = 4) (buf : Bytes) :
    applyMask key (applyMask key buf) = buf := applyMask_involutive key hk buf

/-- what the code computes is RFC 6455's transformation: the reference unmasking undoes it -/
theorem mask_matches_rfc (key payload : Bytes) (hk : key.length = 4) :
    WsSpec.unmask key (applyMask key payload) = payload := unmask_applyMask key payload hk

theorem mask_preserves_length (key : Bytes) (hk : key.length = 4) (buf : Bytes) :
    (applyMask key buf).length = buf.length := applyMask_length key hk buf

/-! ## what is emitted is well-formed -/

/-- every data or control frame built by ws_frame_prep_tx / ws_msg_init_control (+ ws_mask_frame) is a
    conforming frame for the sender's role: mask bit and key iff client, no reserved bits, minimal
    length form, control frames final and at most 125 bytes -/
theorem encoder_conforming (server : Bool) (key : Bytes) (op : Nat) (fin : Bool) (payload : Bytes)
    (hk : server = false → key.length = 4) (hop : op ∈ [0, 1, 2, 8, 9, 10]) (hlen : payload.length < 2 ^ 63)
    (hctl : op ≥ 8 → payload.length ≤ 125 ∧ fin = true) :
    WsSpec.conforming (!server) (encode server key op fin payload) = true :=
  encode_conforming server key op fin payload hk hop hlen hctl

/-- the reference parser reads back exactly the fields and payload the encoder was given -/
theorem encoder_parses_back (server : Bool) (key : Bytes) (op : Nat) (fin : Bool) (payload rest : Bytes)
    (hk : server = false → key.length = 4) (hlen : payload.length < 2 ^ 64) :
    WsSpec.parseFrame (encode server key op fin payload ++ rest) =
      some ({ fin := fin, rsv := op % 128 / 16, opcode := op % 16, masked := !server, lenCode := lenCode payload.length,
              len := payload.length, key := keyBytes server key, payload := payload }, rest) :=
  parseFrame_encode server key op fin payload rest hk hlen

/-- ws_msg_init_control refuses payloads above 125 bytes and otherwise emits a conforming control frame -/
theorem control_conforming (server : Bool) (rng op : Nat) (payload : Bytes) (hop : op ∈ [8, 9, 10]) :
    (payload.length > 125 → encodeControl server rng op payload = none) ∧
    (∀ fr rng', encodeControl server rng op payload = some (fr, rng') → WsSpec.conforming (!server) fr = true) := by
  constructor
  · intro h; simp [encodeControl, h]
  · intro fr rng' h
    unfold encodeControl at h
    by_cases hl : payload.length > 125
    · simp [hl] at h
    · have hop' : op ∈ [0, 1, 2, 8, 9, 10] := by simp at hop ⊢; omega
      cases server
      · simp [hl] at h
        rw [← h.1]
        exact encode_conforming false _ op true payload (fun _ => by simp [keyOf, Nng.Msg.length_beEncode]) hop' (by omega)
          (fun _ => ⟨by omega, rfl⟩)
      · simp [hl] at h
        rw [← h.1]
        exact encode_conforming true [] op true payload (fun h => by cases h) hop' (by omega) (fun _ => ⟨by omega, rfl⟩)

/-! ## receiver: segmentation independence -/

/-- feeding a byte stream in two pieces is the same as feeding it at once, wherever it is cut -/
theorem rx_cut_independent (cfg : Cfg) (s : St) (a b : Bytes) :
    rx cfg s (a ++ b) = ((rx cfg (rx cfg s a).1 b).1, (rx cfg s a).2 ++ (rx cfg (rx cfg s a).1 b).2) :=
  rx_append cfg s a b

/-- any list of blocks: only the concatenation matters -/
theorem rx_blocks (cfg : Cfg) (s : St) (blocks : List Bytes) :
    blocks.foldl (fun acc b => ((rx cfg acc.1 b).1, acc.2 ++ (rx cfg acc.1 b).2)) (s, []) = rx cfg s blocks.flatten := by
  suffices h : ∀ (ev : List Ev) (s : St), blocks.foldl (fun acc b => ((rx cfg acc.1 b).1, acc.2 ++ (rx cfg acc.1 b).2)) (s, ev)
      = ((rx cfg s blocks.flatten).1, ev ++ (rx cfg s blocks.flatten).2) by
    simpa using h [] s
  induction blocks with
  | nil => intro ev s; simp [rx]
  | cons b bs ih =>
    intro ev s
    simp only [List.foldl_cons, List.flatten_cons, ih, rx_append, List.append_assoc]

/-- the compiled driver's tail-recursive form is the model function -/
theorem rx_fold (cfg : Cfg) (s : St) (bs : Bytes) : rxFold cfg s bs = rx cfg s bs := rxFold_eq_rx cfg s bs

/-! ## receiver: rule enforcement -/

/-- non-minimal 16/64-bit length, frame above maxframe, message above recvmax, masked toward a client,
    unmasked toward a server: whatever follows the offending header (payload included), the connection is
    closed, no further byte is read, and nothing is delivered -/
theorem header_violation_rejected (cfg : Cfg) (s : St) (hb : Boundary s) (b0 b1 : UInt8) (ek more : Bytes)
    (hek : ek.length = (if b1.toNat ≥ 128 then 4 else 0) +
       (if b1.toNat % 128 = 127 then 8 else if b1.toNat % 128 = 126 then 2 else 0))
    (hv : HdrViolation cfg (idleOf s) (mkF0 b0 b1 ek)) :
    let r := rx cfg s (b0 :: b1 :: (ek ++ more))
    r.1.closed = true ∧ r.1.want = 0 ∧ r.2.all (fun e => !isDelivery e) = true :=
  rx_rejects_header cfg s hb b0 b1 ek more hek hv

/-- reserved opcode or RSV bit, PING/PONG above 125 bytes, continuation with no message open, new data
    frame while one is open, TEXT when not accepted: ws_read_frame_cb closes, restarts no read, delivers nothing -/
theorem frame_violation_rejected (cfg : Cfg) (s : St) (f : RxFrame) (payload : Bytes) (h : FrameViolation cfg s f) :
    let r := frameCb cfg s f payload
    r.1.closed = true ∧ r.1.want = 0 ∧ r.2.all (fun e => !isDelivery e) = true := by
  obtain ⟨code, hc⟩ := frameCb_rejects cfg s f payload h
  intro r
  have : r = fail cfg s code := hc
  rw [this]
  exact fail_props cfg s code

/-- once no read is outstanding (after a failure or a close) the rest of the stream is never looked at -/
theorem closed_stays_silent (cfg : Cfg) (s : St) (h : s.want = 0) (bs : Bytes) : rx cfg s bs = (s, []) :=
  rx_idle cfg s h bs

/-- the code under test has the recvmax test limited to data frames (a PING between fragments must not
    count toward the message size); false on a tree without the fix -/
theorem recvmax_ignores_control_frames : Generated.wsRecvmaxSkipsControl = true := by decide

/-! ## chunked transfer decoding -/

/-- a size line character that is not a hex digit, `;` or CR is a protocol error, state unchanged -/
theorem chunk_bad_hex (s : Chunk.St) (c : UInt8) (h : Chunk.hexDigitVal c = none) (h1 : c ≠ 59) (h2 : c ≠ Chunk.CR) :
    Chunk.ingestLen s c = (s, Chunk.rvProto) := Chunk.ingestLen_bad s c h h1 h2

/-- a digit that would push the size beyond SIZE_MAX is refused with NNG_EMSGSIZE; otherwise it is accumulated exactly -/
theorem chunk_size_overflow (s : Chunk.St) (c : UInt8) (d : Nat) (h : Chunk.hexDigitVal c = some d) (hd : d < 16) :
    (s.size * 16 + d > Chunk.sizeMax → Chunk.ingestLen s c = (s, Chunk.rvMsgSize)) ∧
    (s.size * 16 + d ≤ Chunk.sizeMax → Chunk.ingestLen s c = ({ s with size := s.size * 16 + d }, Chunk.rvOk)) := by
  rw [Chunk.ingestLen_digit s c d h]
  exact ⟨fun h => Chunk.addDigit_overflow s d h hd, fun h => Chunk.addDigit_ok s d h hd⟩

/-- a chunk that would take the body above the configured maximum is refused with NNG_EMSGSIZE -/
theorem chunk_exceeds_max (s : Chunk.St) (hs : s.size ≠ 0) (hm : s.maxsz > 0) (h : s.total + s.size > s.maxsz) :
    Chunk.ingestNewline s Chunk.LF = (s, Chunk.rvMsgSize) := Chunk.ingestNewline_too_big s hs hm h

/-- chunk data is stored inside the chunk's buffer: consumed ≤ offered, stored + residual = allocated -/
theorem chunk_data_in_bounds (s : Chunk.St) (c : Chunk.Chunk) (rest : List Chunk.Chunk) (blk : Bytes)
    (hc : s.chunksR = c :: rest) (hinv : c.dataR.length + c.resid = c.alloc) :
    (Chunk.ingestData s blk).2.1 ≤ blk.length ∧
    match (Chunk.ingestData s blk).1.chunksR with
    | c' :: _ => c'.dataR.length + c'.resid = c'.alloc ∧ c'.alloc = c.alloc
    | [] => False := Chunk.ingestData_in_bounds s c rest blk hc hinv

/-! ## base64 -/

set_option maxRecDepth 8192 in
/-- the decode table (extracted from base64.c) inverts the encode alphabet -/
theorem b64_tables_inverse : ∀ i, i < 64 → Base64.decTab (Base64.encTab i) = i := by decide

set_option maxRecDepth 8192 in
/-- the alphabet of the code is RFC 4648's -/
theorem b64_alphabet_is_rfc : ∀ i, i < 64 → Base64.encTab i = Base64Spec.sym i := by decide

set_option maxRecDepth 8192 in
/-- the decode table is indexed with an unsigned byte, so the index is below the table size 256;
    false on a tree without the fix (`decode[(int) in[ii]]` with a signed char reads before the table) -/
theorem b64_index_in_bounds : Generated.b64IndexUnsigned = true ∧ Generated.b64DecodeTable.length = 256 := by decide

/-! ## statements not yet proved (kept at full strength; evidence for them is the differential run only) -/

/-- reassembly: for every way of cutting a message into fragments, with PING/PONG frames of at most 125
    bytes interleaved, the receiver delivers exactly the message, once -/
def rx_reassembles_statement : Prop :=
  ∀ (cfg : Cfg) (s : St) (pieces : List (List (Bool × Bytes × Bytes) × Bytes × Bytes)),
    Boundary s → s.closed = false → s.inmsg = false → s.rxq = [] → cfg.isstream = false → pieces ≠ [] →
    (∀ p ∈ pieces, p.2.1.length = 4 ∧ (cfg.maxframe = 0 ∨ p.2.2.length ≤ cfg.maxframe) ∧ p.2.2.length ≤ cfg.allocLimit ∧
        ∀ c ∈ p.1, c.2.1.length = 4 ∧ c.2.2.length ≤ 125 ∧ (cfg.maxframe = 0 ∨ c.2.2.length ≤ cfg.maxframe)) →
    (cfg.recvmax = 0 ∨ ((pieces.map (·.2.2)).flatten.length ≤ cfg.recvmax)) →
    let n := pieces.length
    let wire := (pieces.zipIdx.map fun (p, i) =>
      (p.1.map fun c => encode (!cfg.server) c.2.1 (if c.1 then opPing else opPong) true c.2.2).flatten ++
        encode (!cfg.server) p.2.1 (if i = 0 then opBinary else opCont) (decide (i + 1 = n)) p.2.2).flatten
    ((rx cfg s wire).2.filterMap fun e => match e with | .msg b => some b | _ => none) = [(pieces.map (·.2.2)).flatten]

/-- the per-block decoder is the per-byte machine folded over the block, hence cut independent -/
def chunk_parse_eq_steps_statement : Prop :=
  ∀ (s : Chunk.St) (blk : Bytes), Chunk.parse s blk = Chunk.steps s blk 0

/-- base64 round trip through the code's accumulator loops -/
def base64_roundtrip_statement : Prop :=
  ∀ (b : Bytes) (n m : Nat), n > (b.length + 2) / 3 * 4 → m ≥ b.length → b.length < 2 ^ 30 →
    ∃ e, Base64.encode b n = some e ∧ e = Base64Spec.encode b ∧ Base64.decode e m = some b

/-! ## non-vacuity: concrete, non-trivial instances -/

def exCfg : Cfg := { server := true, maxframe := 1000, recvmax := 1000, fragsize := 2 }

/-- a masked two-fragment message with a PING in between, fed to a server: PONG emitted, message delivered -/
example :
    let k : Bytes := [1, 2, 3, 4]
    let wire := encode false k opBinary false [104, 105] ++ encode false k opPing true [7] ++ encode false k opCont true [33]
    ((rx exCfg {} wire).2.filterMap fun e => match e with | .msg b => some b | _ => none) = [[104, 105, 33]] := by decide

/-- `Boundary` and `HdrViolation` are satisfiable: an unmasked frame toward a server -/
example : Boundary ({} : St) := ⟨rfl, rfl, rfl, rfl⟩
example : HdrViolation exCfg (idleOf {}) (mkF0 130 1 []) := by
  unfold HdrViolation; right; right; right; right; right; decide
example : FrameViolation exCfg {} { op := 3 } := by unfold FrameViolation; left; decide

/-- the sender cuts "hello" into 2-byte frames: BINARY, CONT, CONT+FIN -/
example : (sendMsg exCfg 0 [104, 101, 108, 108, 111]).frames.length = 3 := by decide

example : (Chunk.parse { maxsz := 0 } [51, 13, 10, 97, 98, 99, 13, 10, 48, 13, 10, 13, 10]).2 = (13, 0) := by decide
example : Chunk.body (Chunk.parse { maxsz := 0 } [51, 13, 10, 97, 98, 99, 13, 10, 48, 13, 10, 13, 10]).1 = [97, 98, 99] := by decide
example : Base64.encode [77, 97, 110] 5 = some [84, 87, 70, 117] := by decide
example : Base64.decode [84, 87, 70, 117] 3 = some [77, 97, 110] := by decide

end Nng.C16
