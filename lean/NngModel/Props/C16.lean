/-
  C16 — WebSocket / HTTP codecs: property theorems (obligations).  Helper lemmas live in
  Proofs/{WsMask,WsFrame,WsConform,WsRx,WsRules,HttpChunk}.lean.
  Models: Model/Ws.lean (websocket.c), Model/HttpChunk.lean (http_chunk.c), Model/Base64.lean.
  Specifications: Spec/Ws.lean (RFC 6455 wire format, `conforming`, reference decoder),
  Spec/HttpChunk.lean (chunked-body grammar), Spec/Base64.lean (RFC 4648).
-/
import NngModel.Proofs.WsConform
import NngModel.Proofs.WsRules
import NngModel.Proofs.WsReasm
import NngModel.Proofs.HttpChunk
import NngModel.Proofs.HttpChunkSteps
import NngModel.Proofs.HttpChunkRound
import NngModel.Proofs.Base64
import NngModel.Model.Base64
import NngModel.Spec.Base64
import NngModel.Spec.HttpChunk
import NngModel.Generated.C16
namespace Nng.C16
open Nng.Ws

/-! ## masking -/

/-- ws_apply_mask's 16/8/4-byte strides followed by the byte tail compute the bytewise transformation -/
theorem mask_wordwise_eq_bytewise (key : Bytes) (hk : key.length = 4) (buf : Bytes) :
    applyMask key buf = applyMaskBytewise key buf := applyMask_eq_bytewise key hk buf

/-- masking twice with the same key is the identity (ws_mask_frame then ws_unmask_frame) -/
theorem mask_involution (key : Bytes) (hk : key.length = 4) (buf : Bytes) :
    applyMask key (applyMask key buf) = buf := applyMask_involutive key hk buf

/-- what the code computes is RFC 6455's transformation: the reference unmasking undoes it -/
theorem mask_matches_rfc (key payload : Bytes) (hk : key.length = 4) :
    WsSpec.unmask key (applyMask key payload) = payload := unmask_applyMask key payload hk

theorem mask_preserves_length (key : Bytes) (hk : key.length = 4) (buf : Bytes) :
    (applyMask key buf).length = buf.length := applyMask_length key hk buf

/-! ## what is emitted is well-formed -/

/-- every data or control frame built by ws_frame_prep_tx / ws_msg_init_control (+ ws_mask_frame) is a
    conforming frame for the sender's role: mask bit and key iff client, no reserved bits, minimal
    length form, control frames final and at most 125 bytes -/
theorem encoder_conforming (server : Bool) (key : Bytes) (op : Nat) (fin : Bool) (payload : Bytes)
    (hk : server = false → key.length = 4) (hop : op ∈ [0, 1, 2, 8, 9, 10]) (hlen : payload.length < 2 ^ 63)
    (hctl : op ≥ 8 → payload.length ≤ 125 ∧ fin = true) :
    WsSpec.conforming (!server) (encode server key op fin payload) = true :=
  encode_conforming server key op fin payload hk hop hlen hctl

/-- the reference parser reads back exactly the fields and payload the encoder was given -/
theorem encoder_parses_back (server : Bool) (key : Bytes) (op : Nat) (fin : Bool) (payload rest : Bytes)
    (hk : server = false → key.length = 4) (hlen : payload.length < 2 ^ 64) :
    WsSpec.parseFrame (encode server key op fin payload ++ rest) =
      some ({ fin := fin, rsv := op % 128 / 16, opcode := op % 16, masked := !server, lenCode := lenCode payload.length,
              len := payload.length, key := keyBytes server key, payload := payload }, rest) :=
  parseFrame_encode server key op fin payload rest hk hlen

/-- ws_msg_init_control refuses payloads above 125 bytes and otherwise emits a conforming control frame -/
theorem control_conforming (server : Bool) (rng op : Nat) (payload : Bytes) (hop : op ∈ [8, 9, 10]) :
    (payload.length > 125 → encodeControl server rng op payload = none) ∧
    (∀ fr rng', encodeControl server rng op payload = some (fr, rng') → WsSpec.conforming (!server) fr = true) := by
  constructor
  · intro h; simp [encodeControl, h]
  · intro fr rng' h
    unfold encodeControl at h
    by_cases hl : payload.length > 125
    · simp [hl] at h
    · have hop' : op ∈ [0, 1, 2, 8, 9, 10] := by simp at hop ⊢; omega
      cases server
      · simp [hl] at h
        rw [← h.1]
        exact encode_conforming false _ op true payload (fun _ => by simp [keyOf, Nng.Msg.length_beEncode]) hop' (by omega)
          (fun _ => ⟨by omega, rfl⟩)
      · simp [hl] at h
        rw [← h.1]
        exact encode_conforming true [] op true payload (fun h => by cases h) hop' (by omega) (fun _ => ⟨by omega, rfl⟩)

/-! ## receiver: segmentation independence -/

/-- feeding a byte stream in two pieces is the same as feeding it at once, wherever it is cut -/
theorem rx_cut_independent (cfg : Cfg) (s : St) (a b : Bytes) :
    rx cfg s (a ++ b) = ((rx cfg (rx cfg s a).1 b).1, (rx cfg s a).2 ++ (rx cfg (rx cfg s a).1 b).2) :=
  rx_append cfg s a b

/-- any list of blocks: only the concatenation matters -/
theorem rx_blocks (cfg : Cfg) (s : St) (blocks : List Bytes) :
    blocks.foldl (fun acc b => ((rx cfg acc.1 b).1, acc.2 ++ (rx cfg acc.1 b).2)) (s, []) = rx cfg s blocks.flatten := by
  suffices h : ∀ (ev : List Ev) (s : St), blocks.foldl (fun acc b => ((rx cfg acc.1 b).1, acc.2 ++ (rx cfg acc.1 b).2)) (s, ev)
      = ((rx cfg s blocks.flatten).1, ev ++ (rx cfg s blocks.flatten).2) by
    simpa using h [] s
  induction blocks with
  | nil => intro ev s; simp [rx]
  | cons b bs ih =>
    intro ev s
    simp only [List.foldl_cons, List.flatten_cons, ih, rx_append, List.append_assoc]

/-- the compiled driver's tail-recursive form is the model function -/
theorem rx_fold (cfg : Cfg) (s : St) (bs : Bytes) : rxFold cfg s bs = rx cfg s bs := rxFold_eq_rx cfg s bs

/-! ## receiver: rule enforcement -/

/-- non-minimal 16/64-bit length, frame above maxframe, message above recvmax, masked toward a client,
    unmasked toward a server: whatever follows the offending header (payload included), the connection is
    closed, no further byte is read, and nothing is delivered -/
theorem header_violation_rejected (cfg : Cfg) (s : St) (hb : Boundary s) (b0 b1 : UInt8) (ek more : Bytes)
    (hek : ek.length = (if b1.toNat ≥ 128 then 4 else 0) +
       (if b1.toNat % 128 = 127 then 8 else if b1.toNat % 128 = 126 then 2 else 0))
    (hv : HdrViolation cfg (idleOf s) (mkF0 b0 b1 ek)) :
    let r := rx cfg s (b0 :: b1 :: (ek ++ more))
    r.1.closed = true ∧ r.1.want = 0 ∧ r.2.all (fun e => !isDelivery e) = true :=
  rx_rejects_header cfg s hb b0 b1 ek more hek hv

/-- reserved opcode or RSV bit, PING/PONG above 125 bytes, continuation with no message open, new data
    frame while one is open, TEXT when not accepted: ws_read_frame_cb closes, restarts no read, delivers nothing -/
theorem frame_violation_rejected (cfg : Cfg) (s : St) (f : RxFrame) (payload : Bytes) (h : FrameViolation cfg s f) :
    let r := frameCb cfg s f payload
    r.1.closed = true ∧ r.1.want = 0 ∧ r.2.all (fun e => !isDelivery e) = true := by
  obtain ⟨code, hc⟩ := frameCb_rejects cfg s f payload h
  intro r
  have : r = fail cfg s code := hc
  rw [this]
  exact fail_props cfg s code

/-- once no read is outstanding (after a failure or a close) the rest of the stream is never looked at -/
theorem closed_stays_silent (cfg : Cfg) (s : St) (h : s.want = 0) (bs : Bytes) : rx cfg s bs = (s, []) :=
  rx_idle cfg s h bs

/-- the code under test has the recvmax test limited to data frames (a PING between fragments must not
    count toward the message size); false on a tree without the fix -/
theorem recvmax_ignores_control_frames : Generated.wsRecvmaxSkipsControl = true := by decide

/-! ## chunked transfer decoding -/

/-- a size line character that is not a hex digit, `;` or CR is a protocol error, state unchanged -/
theorem chunk_bad_hex (s : Chunk.St) (c : UInt8) (h : Chunk.hexDigitVal c = none) (h1 : c ≠ 59) (h2 : c ≠ Chunk.CR) :
    Chunk.ingestLen s c = (s, Chunk.rvProto) := Chunk.ingestLen_bad s c h h1 h2

/-- a digit that would push the size beyond SIZE_MAX is refused with NNG_EMSGSIZE; otherwise it is accumulated exactly -/
theorem chunk_size_overflow (s : Chunk.St) (c : UInt8) (d : Nat) (h : Chunk.hexDigitVal c = some d) (hd : d < 16) :
    (s.size * 16 + d > Chunk.sizeMax → Chunk.ingestLen s c = (s, Chunk.rvMsgSize)) ∧
    (s.size * 16 + d ≤ Chunk.sizeMax → Chunk.ingestLen s c = ({ s with size := s.size * 16 + d }, Chunk.rvOk)) := by
  rw [Chunk.ingestLen_digit s c d h]
  exact ⟨fun h => Chunk.addDigit_overflow s d h hd, fun h => Chunk.addDigit_ok s d h hd⟩

/-- a chunk that would take the body above the configured maximum is refused with NNG_EMSGSIZE -/
theorem chunk_exceeds_max (s : Chunk.St) (hs : s.size ≠ 0) (hm : s.maxsz > 0) (h : s.total + s.size > s.maxsz) :
    Chunk.ingestNewline s Chunk.LF = (s, Chunk.rvMsgSize) := Chunk.ingestNewline_too_big s hs hm h

/-- chunk data is stored inside the chunk's buffer: consumed ≤ offered, stored + residual = allocated -/
theorem chunk_data_in_bounds (s : Chunk.St) (c : Chunk.Chunk) (rest : List Chunk.Chunk) (blk : Bytes)
    (hc : s.chunksR = c :: rest) (hinv : c.dataR.length + c.resid = c.alloc) :
    (Chunk.ingestData s blk).2.1 ≤ blk.length ∧
    match (Chunk.ingestData s blk).1.chunksR with
    | c' :: _ => c'.dataR.length + c'.resid = c'.alloc ∧ c'.alloc = c.alloc
    | [] => False := Chunk.ingestData_in_bounds s c rest blk hc hinv

/-- the per-block decoder (with chunk_ingest_data's bulk copy of min(remaining, available) bytes) is the per-byte
    machine `Chunk.step` folded over the block: same number of bytes consumed, same return value, and the same
    decoder state unless the result is NNG_EPROTO.  (After a failed CRLF test at the end of a chunk the bulk path has
    left the rejected chunk untouched while the bytewise path has filled it — in the C code `c_resid` differs in the
    same way — so the unqualified equation is false: `Chunk.parse_steps_state_differs`, example below.) -/
theorem chunk_parse_eq_steps (s : Chunk.St) (blk : Bytes) :
    (Chunk.parse s blk).2 = (Chunk.steps s blk 0).2 ∧
    ((Chunk.parse s blk).2.2 ≠ Chunk.rvProto → (Chunk.parse s blk).1 = (Chunk.steps s blk 0).1) :=
  Chunk.parse_agrees_steps s blk

/-- the data fast path: a block that completes the open chunk (CRLF test passed) is that many single steps -/
theorem chunk_bulk_copy_eq_steps (s : Chunk.St) (c : Chunk.Chunk) (rest : List Chunk.Chunk) (blk : Bytes) (i : Nat)
    (hs : s.state = .data) (hc : s.chunksR = c :: rest) (hr : c.resid > 0) :
    (blk.length < c.resid → Chunk.steps s blk i = ((Chunk.ingestData s blk).1, i + blk.length, Chunk.rvAgain)) ∧
    (blk.length ≥ c.resid → Chunk.crlfOk c ((blk.take c.resid).reverse ++ c.dataR) = true →
      Chunk.steps s blk i = Chunk.steps (Chunk.ingestData s blk).1 (blk.drop c.resid) (i + c.resid)) := by
  have h := Chunk.steps_data blk s c rest i hs hc hr
  constructor
  · intro hl; rw [h.1 hl, Chunk.ingestData_partial s c rest blk hc hl]
  · intro hl hk; rw [h.2.1 hl hk, Chunk.ingestData_full s c rest blk hc hl]; simp [hk]

/-- cut independence: handing the decoder a byte stream block by block (while it answers NNG_EAGAIN) gives the
    result of parsing the concatenation in one call — total bytes consumed, return value, and (unless NNG_EPROTO)
    the decoder state with all stored chunks -/
theorem chunk_cut_independent (s : Chunk.St) (blocks : List Bytes) :
    (Chunk.feed s blocks 0).2 = (Chunk.parse s blocks.flatten).2 ∧
    ((Chunk.parse s blocks.flatten).2.2 ≠ Chunk.rvProto → (Chunk.feed s blocks 0).1 = (Chunk.parse s blocks.flatten).1) :=
  Chunk.feed_agrees_parse s blocks

/-- ROUND TRIP, any segmentation.  A well-formed chunked body `encBody cs zs zext ts` — for every chunk a non-empty
    line of hexadecimal digits (either case, leading zeros allowed) whose value is the length of its data, an
    optional extension (`;` and printable characters), CR LF, the data, CR LF; every chunk non-empty and within the
    limits in force when it starts (`ChunksOk`: size + 2 and the running total fit size_t, the total stays within
    `maxsz` if that is set, the allocation succeeds); then a last-chunk `zs` of value 0 with its optional extension,
    CR LF, any trailer lines `ts` (non-empty, printable, each with CR LF) and the final CR LF — followed by ANY
    further bytes `more`, handed to the decoder in ANY blocks: the decoder answers NNG_OK having consumed exactly
    the encoding (not one byte of `more`), and the entity body it holds is the concatenation of the chunk data
    after what it held before. -/
theorem chunk_round_trip (s : Chunk.St) (cs : List Chunk.WChunk) (zs zext more : Bytes) (ts : List Bytes) (blocks : List Bytes)
    (hs : s.state = .init) (hz : s.size = 0) (hok : Chunk.ChunksOk s cs) (hne : zs ≠ []) (hv : Chunk.digitsVal 0 zs = some 0)
    (hx : Chunk.ExtOk zext) (ht : ∀ L ∈ ts, L ≠ [] ∧ ∀ c ∈ L, Chunk.isPrint c = true)
    (hb : blocks.flatten = Chunk.encBody cs zs zext ts ++ more) :
    (Chunk.feed s blocks 0).2 = ((Chunk.encBody cs zs zext ts).length, Chunk.rvOk) ∧
    Chunk.body (Chunk.feed s blocks 0).1 = Chunk.body s ++ (cs.map (·.data)).flatten := by
  obtain ⟨h1, h2⟩ := Chunk.steps_encBody s cs zs zext more ts hs hz hok hne hv hx ht
  obtain ⟨a1, a2⟩ := Chunk.feed_agrees_steps blocks s 0
  rw [hb] at a1 a2
  have hrv : (Chunk.feed s blocks 0).2.2 ≠ Chunk.rvProto := by
    rw [a1, h1]; show Chunk.rvOk ≠ Chunk.rvProto; decide
  rw [a1, a2 hrv]
  exact ⟨h1, h2⟩

/-- the same for one call of the per-block parser (nni_http_chunks_parse) on the whole encoding -/
theorem chunk_round_trip_parse (s : Chunk.St) (cs : List Chunk.WChunk) (zs zext more : Bytes) (ts : List Bytes)
    (hs : s.state = .init) (hz : s.size = 0) (hok : Chunk.ChunksOk s cs) (hne : zs ≠ []) (hv : Chunk.digitsVal 0 zs = some 0)
    (hx : Chunk.ExtOk zext) (ht : ∀ L ∈ ts, L ≠ [] ∧ ∀ c ∈ L, Chunk.isPrint c = true) :
    (Chunk.parse s (Chunk.encBody cs zs zext ts ++ more)).2 = ((Chunk.encBody cs zs zext ts).length, Chunk.rvOk) ∧
    Chunk.body (Chunk.parse s (Chunk.encBody cs zs zext ts ++ more)).1 = Chunk.body s ++ (cs.map (·.data)).flatten := by
  obtain ⟨h1, h2⟩ := Chunk.steps_encBody s cs zs zext more ts hs hz hok hne hv hx ht
  obtain ⟨a1, a2⟩ := Chunk.parse_agrees_steps s (Chunk.encBody cs zs zext ts ++ more)
  have hrv : (Chunk.parse s (Chunk.encBody cs zs zext ts ++ more)).2.2 ≠ Chunk.rvProto := by
    rw [a1, h1]; show Chunk.rvOk ≠ Chunk.rvProto; decide
  rw [a1, a2 hrv]
  exact ⟨h1, h2⟩

/-- the conditions are needed: a chunk that takes the body above `maxsz` is refused (`chunk_exceeds_max`); an empty size
    line is a protocol error; so is a non-printable character (here HT) in an extension or in a trailer line -/
theorem chunk_round_trip_needs_conditions :
    (Chunk.parse { maxsz := 2 } [51, 13, 10, 97, 98, 99, 13, 10, 48, 13, 10, 13, 10]).2 = (2, Chunk.rvMsgSize) ∧
    (Chunk.parse { maxsz := 0 } [13, 10, 48, 13, 10, 13, 10]).2 = (0, Chunk.rvProto) ∧
    (Chunk.parse { maxsz := 0 } [48, 59, 9, 13, 10, 13, 10]).2 = (2, Chunk.rvProto) ∧
    (Chunk.parse { maxsz := 0 } [48, 13, 10, 65, 9, 13, 10, 13, 10]).2 = (4, Chunk.rvProto) := by decide

/-! ## base64 -/

set_option maxRecDepth 8192 in
/-- the decode table (extracted from base64.c) inverts the encode alphabet -/
theorem b64_tables_inverse : ∀ i, i < 64 → Base64.decTab (Base64.encTab i) = i := by decide

set_option maxRecDepth 8192 in
/-- the alphabet of the code is RFC 4648's -/
theorem b64_alphabet_is_rfc : ∀ i, i < 64 → Base64.encTab i = Base64Spec.sym i := by decide

set_option maxRecDepth 8192 in
/-- the decode table is indexed with an unsigned byte, so the index is below the table size 256;
    false on a tree without the fix (`decode[(int) in[ii]]` with a signed char reads before the table) -/
theorem b64_index_in_bounds : Generated.b64IndexUnsigned = true ∧ Generated.b64DecodeTable.length = 256 := by decide

/-! ## byte-level reassembly, base64 round trip -/

/-- reassembly on the byte stream: a message cut into any number of fragments (`pieces`, BINARY then CONT,
    FIN on the last), with any PING/PONG frames of at most 125 bytes before each fragment, encoded by the peer
    role and delivered to the receiver machine in ANY segmentation (`blocks`), followed by any further bytes
    `more`: the receiver answers every PING with the PONG `ws_send_control` builds (`pongRun`, in order; see
    `pongs_echo`), then delivers exactly the concatenation of the fragments, once, and is back at a frame
    boundary with no message open (only the random state moved), ready for `more`.
    Acceptance hypotheses, all necessary: every frame within `maxframe`, data payloads within the allocation
    limit and below 2^64 (the 64-bit length field), the message within `recvmax`
    (control frames are not counted: `recvmax_ignores_control_frames`). -/
theorem rx_reassembles (cfg : Cfg) (s : St) (pieces : List (List (Bool × Bytes × Bytes) × Bytes × Bytes)) (more : Bytes)
    (hb : Boundary s) (hc : s.closed = false) (him : s.inmsg = false) (hq : s.rxq = []) (hst : cfg.isstream = false)
    (hne : pieces ≠ [])
    (hok : ∀ p ∈ pieces, p.2.1.length = 4 ∧ (cfg.maxframe = 0 ∨ p.2.2.length ≤ cfg.maxframe) ∧ p.2.2.length ≤ cfg.allocLimit ∧
        p.2.2.length < 2 ^ 64 ∧
        ∀ c ∈ p.1, c.2.1.length = 4 ∧ c.2.2.length ≤ 125 ∧ (cfg.maxframe = 0 ∨ c.2.2.length ≤ cfg.maxframe))
    (hmax : cfg.recvmax = 0 ∨ ((pieces.map (·.2.2)).flatten.length ≤ cfg.recvmax)) :
    let n := pieces.length
    let wire := (pieces.zipIdx.map fun (p, i) =>
      (p.1.map fun c => encode (!cfg.server) c.2.1 (if c.1 then opPing else opPong) true c.2.2).flatten ++
        encode (!cfg.server) p.2.1 (if i = 0 then opBinary else opCont) (decide (i + 1 = n)) p.2.2).flatten
    let pongs := pongRun cfg.server s.rng (pieces.flatMap (·.1))
    let s' : St := { s with rng := pongs.2 }
    ∀ blocks : List Bytes, blocks.flatten = wire ++ more →
      blocks.foldl (fun acc b => ((rx cfg acc.1 b).1, acc.2 ++ (rx cfg acc.1 b).2)) (s, []) =
        ((rx cfg s' more).1, pongs.1.map Ev.tx ++ Ev.msg (pieces.map (·.2.2)).flatten :: (rx cfg s' more).2) := by
  intro n wire pongs s' blocks hbl
  rw [rx_blocks, hbl]
  have hw : wire = wireFrom (!cfg.server) n 0 pieces := rfl
  have hmax' : cfg.recvmax = 0 ∨ (([] : List Bytes).map List.length).sum + ((pieces.map (·.2.2)).map List.length).sum ≤ cfg.recvmax := by
    rcases hmax with h | h
    · exact Or.inl h
    · right; rw [List.length_flatten] at h; simpa using h
  have h := rx_pieces cfg hst s.peerClosed n more pieces 0 [] s.rng hne (by simp [n]) (fun _ => rfl) hok hmax'
  rw [hw, eq_bd s hb hc him hq]
  simp only [ne_eq, not_true_eq_false, decide_false, List.nil_append] at h
  rw [h, bd_rng s hb hc him hq]

/-- the whole event list when nothing follows: the PONGs, then the message, nothing else -/
theorem rx_reassembles_events (cfg : Cfg) (s : St) (pieces : List (List (Bool × Bytes × Bytes) × Bytes × Bytes))
    (hb : Boundary s) (hc : s.closed = false) (him : s.inmsg = false) (hq : s.rxq = []) (hst : cfg.isstream = false)
    (hne : pieces ≠ [])
    (hok : ∀ p ∈ pieces, p.2.1.length = 4 ∧ (cfg.maxframe = 0 ∨ p.2.2.length ≤ cfg.maxframe) ∧ p.2.2.length ≤ cfg.allocLimit ∧
        p.2.2.length < 2 ^ 64 ∧
        ∀ c ∈ p.1, c.2.1.length = 4 ∧ c.2.2.length ≤ 125 ∧ (cfg.maxframe = 0 ∨ c.2.2.length ≤ cfg.maxframe))
    (hmax : cfg.recvmax = 0 ∨ ((pieces.map (·.2.2)).flatten.length ≤ cfg.recvmax)) :
    let n := pieces.length
    let wire := (pieces.zipIdx.map fun (p, i) =>
      (p.1.map fun c => encode (!cfg.server) c.2.1 (if c.1 then opPing else opPong) true c.2.2).flatten ++
        encode (!cfg.server) p.2.1 (if i = 0 then opBinary else opCont) (decide (i + 1 = n)) p.2.2).flatten
    (rx cfg s wire).2 = (pongRun cfg.server s.rng (pieces.flatMap (·.1))).1.map Ev.tx ++ [Ev.msg (pieces.map (·.2.2)).flatten] ∧
    ((rx cfg s wire).2.filterMap fun e => match e with | .msg b => some b | _ => none) = [(pieces.map (·.2.2)).flatten] := by
  intro n wire
  have h := rx_reassembles cfg s pieces [] hb hc him hq hst hne hok hmax [wire] (by simp [wire, n])
  simp only [List.foldl_cons, List.foldl_nil, List.nil_append, rx] at h
  have h2 := congrArg Prod.snd h
  simp only [] at h2
  refine ⟨h2, ?_⟩
  rw [h2, List.filterMap_append]
  have : ∀ l : List Bytes, (l.map Ev.tx).filterMap (fun e => match e with | .msg b => some b | _ => none) = [] := by
    intro l; induction l with
    | nil => rfl
    | cons x xs ih => simp
  rw [this]; rfl

/-- each PONG is a conforming frame of the receiver's role echoing the PING's payload -/
theorem pongs_echo (server : Bool) (rng : Nat) (payload : Bytes) (h : payload.length ≤ 125) :
    WsSpec.conforming (!server) (pongOf server rng payload).1 = true ∧
    ∃ f, WsSpec.parseFrame (pongOf server rng payload).1 = some (f, []) ∧ f.opcode = 10 ∧ f.fin = true ∧ f.payload = payload :=
  pongOf_echo server rng payload h

/-- base64 round trip through the code's accumulator loops (uint32 accumulator, room test before every store,
    flush of the partial sextet, `=` padding): with room for the encoding and one more byte, nni_base64_encode
    produces exactly RFC 4648's encoding (3-byte groups → 4 symbols, 1 or 2 trailing bytes padded), and
    nni_base64_decode of that, with room for the original, gives the original back.  Every byte list, any length. -/
theorem base64_roundtrip (b : Bytes) (n m : Nat) (hn : n > (b.length + 2) / 3 * 4) (hm : m ≥ b.length) :
    ∃ e, Base64.encode b n = some e ∧ e = Base64Spec.encode b ∧ Base64.decode e m = some b :=
  ⟨Base64Spec.encode b, Base64.encode_spec b n hn, rfl, Base64.decode_encode b m hm⟩

/-! ## non-vacuity: concrete, non-trivial instances -/

def exCfg : Cfg := { server := true, maxframe := 1000, recvmax := 1000, fragsize := 2 }

/-- a masked two-fragment message with a PING in between, fed to a server: PONG emitted, message delivered -/
example :
    let k : Bytes := [1, 2, 3, 4]
    let wire := encode false k opBinary false [104, 105] ++ encode false k opPing true [7] ++ encode false k opCont true [33]
    ((rx exCfg {} wire).2.filterMap fun e => match e with | .msg b => some b | _ => none) = [[104, 105, 33]] := by decide

/-- the hypotheses of `rx_reassembles` are satisfiable with both limits in force and met exactly (frames of at most
    2 bytes, a 3-byte message): two fragments, a PING before the first and a PONG before the second -/
def exCfgTight : Cfg := { server := true, maxframe := 2, recvmax := 3 }
def exPieces : List (List (Bool × Bytes × Bytes) × Bytes × Bytes) :=
  [([(true, [1, 2, 3, 4], [7])], [1, 2, 3, 4], [104, 105]), ([(false, [5, 6, 7, 8], [])], [9, 9, 9, 9], [33])]
example :
    let wire := (exPieces.zipIdx.map fun (p, i) =>
      (p.1.map fun c => encode (!exCfgTight.server) c.2.1 (if c.1 then opPing else opPong) true c.2.2).flatten ++
        encode (!exCfgTight.server) p.2.1 (if i = 0 then opBinary else opCont) (decide (i + 1 = exPieces.length)) p.2.2).flatten
    ((rx exCfgTight {} wire).2.filterMap fun e => match e with | .msg b => some b | _ => none) = [[104, 105, 33]] :=
  (rx_reassembles_events exCfgTight {} exPieces ⟨rfl, rfl, rfl, rfl⟩ rfl rfl rfl rfl (by decide) (by decide) (by decide)).2

/-- `Boundary` and `HdrViolation` are satisfiable: an unmasked frame toward a server -/
example : Boundary ({} : St) := ⟨rfl, rfl, rfl, rfl⟩
example : HdrViolation exCfg (idleOf {}) (mkF0 130 1 []) := by
  unfold HdrViolation; right; right; right; right; right; decide
example : FrameViolation exCfg {} { op := 3 } := by unfold FrameViolation; left; decide

/-- the sender cuts "hello" into 2-byte frames: BINARY, CONT, CONT+FIN -/
example : (sendMsg exCfg 0 [104, 101, 108, 108, 111]).frames.length = 3 := by decide

example : (Chunk.parse { maxsz := 0 } [51, 13, 10, 97, 98, 99, 13, 10, 48, 13, 10, 13, 10]).2 = (13, 0) := by decide
example : Chunk.body (Chunk.parse { maxsz := 0 } [51, 13, 10, 97, 98, 99, 13, 10, 48, 13, 10, 13, 10]).1 = [97, 98, 99] := by decide
/-- why `chunk_parse_eq_steps` is qualified: a 1-byte chunk whose CRLF is wrong, fed at once and bytewise -/
example :
    let s : Chunk.St := { maxsz := 0, state := .data, chunksR := [{ size := 1, alloc := 3, resid := 3 }] }
    (Chunk.parse s [1, 2, 3]).2.2 = Chunk.rvProto ∧
    (Chunk.parse s [1, 2, 3]).1.chunksR.map (·.resid) = [3] ∧ (Chunk.steps s [1, 2, 3] 0).1.chunksR.map (·.resid) = [1] := by
  decide
/-- blocks cut inside the size line, inside the data and inside the CRLF -/
example : (Chunk.feed { maxsz := 0 } [[51], [13, 10, 97], [98, 99, 13], [10, 48, 13, 10, 13], [10]] 0).2 = (13, 0) := by decide
/-- `ChunksOk` is satisfiable: chunks "abc" (size line "3", extension ";x=1") and ten bytes (size line "00A", upper
    case with leading zeros), last-chunk "00", one trailer line "T: 1", with a limit of 13 bytes met exactly,
    something following, cut inside everything -/
def exChunks : List Chunk.WChunk :=
  [{ digits := [51], ext := [59, 120, 61, 49], data := [97, 98, 99] }, { digits := [48, 48, 65], data := [1, 2, 3, 4, 5, 6, 7, 8, 9, 10] }]
theorem exChunks_ok : Chunk.ChunksOk { maxsz := 13 } exChunks :=
  ⟨by decide, by decide, Or.inr ⟨[120, 61, 49], rfl, by decide⟩, ⟨by decide, by decide, by decide, by decide, by decide⟩,
   by decide, by decide, Or.inl rfl, ⟨by decide, by decide, by decide, by decide, by decide⟩, trivial⟩
example :
    Chunk.body (Chunk.feed { maxsz := 13 } [[51, 59, 120], [61, 49, 13], [10, 97, 98], [99, 13, 10, 48],
      [48, 65, 13, 10, 1, 2, 3, 4, 5, 6, 7, 8, 9, 10, 13], [10, 48, 48, 13, 10, 84, 58], [32, 49, 13, 10, 13], [10, 71, 69, 84]] 0).1 =
      [97, 98, 99, 1, 2, 3, 4, 5, 6, 7, 8, 9, 10] :=
  (chunk_round_trip { maxsz := 13 } exChunks [48, 48] [] [71, 69, 84] [[84, 58, 32, 49]] _ rfl rfl exChunks_ok (by decide) (by decide)
    (Or.inl rfl) (by decide) (by decide)).2
example : Base64.encode [77, 97, 110] 5 = some [84, 87, 70, 117] := by decide
example : Base64.decode [84, 87, 70, 117] 3 = some [77, 97, 110] := by decide
/-- both padding cases of the round trip -/
example : Base64.encode [77] 5 = some [84, 81, 61, 61] ∧ Base64.decode [84, 81, 61, 61] 1 = some [77] := by decide
example : Base64.encode [77, 97] 5 = some [84, 87, 69, 61] ∧ Base64.decode [84, 87, 69, 61] 2 = some [77, 97] := by decide

end Nng.C16
