/-
  C16, HTTP client transaction (http_client.c nni_http_transact_conn / http_txn_cb) — property theorems.
  Model: Model/HttpClient.lean on top of Model/HttpConn.lean (response head) and Model/HttpChunk.lean (chunk decoder,
  whose own segmentation independence is Props/C16.lean).
-/
import NngModel.Model.HttpClient
import NngModel.Proofs.HttpConn
set_option linter.unusedSimpArgs false
namespace Nng.C16Client
open Nng Nng.HttpConn Nng.HttpCli

/-- FRAMING RULE the code implements after the response head, exactly: HEAD ⇒ no body; else Transfer-Encoding containing
    "chunked" (case-sensitive substring) ⇒ chunked; else Content-Length read by strtoull with a non-zero value and
    nothing behind the number ⇒ that many bytes; else (absent, zero, or not a number) ⇒ NO body is read -/
theorem framing_rule (m : Msg) :
    afterHead m =
      if m.meth = HttpSrv.sHEAD then .none
      else if (∃ v, resHeader m HttpSrv.sTransferEncoding = some v ∧ HttpSrv.strContains v sChunked = true) then .chunked
      else
        match resHeader m sContentLength with
        | none => .none
        | some v => if (HttpSrv.strtoull v).1 ≠ 0 ∧ (HttpSrv.strtoull v).2 = [] then .body (HttpSrv.strtoull v).1 else .none := by
  unfold afterHead
  by_cases hh : m.meth = HttpSrv.sHEAD
  · simp [hh]
  · have hh' : (m.meth == HttpSrv.sHEAD) = false := by simpa using hh
    simp only [hh', Bool.not_false, Bool.true_and, hh, if_false, Bool.false_eq_true]
    cases ht : resHeader m HttpSrv.sTransferEncoding with
    | none => 
      simp only [Bool.false_eq_true, if_false, reduceCtorEq, false_and, exists_false]
      cases resHeader m sContentLength with
      | none => rfl
      | some v =>
        simp only
        by_cases h0 : (HttpSrv.strtoull v).1 = 0
        · simp [h0]
        · by_cases h1 : (HttpSrv.strtoull v).2 = []
          · simp [h0, h1]
          · simp [h0, h1]
    | some tv =>
      simp only [Option.some.injEq, exists_eq_left']
      by_cases hc : HttpSrv.strContains tv sChunked = true
      · simp [hc]
      · simp only [hc, Bool.false_eq_true, if_false]
        cases resHeader m sContentLength with
        | none => rfl
        | some v =>
          simp only
          by_cases h0 : (HttpSrv.strtoull v).1 = 0
          · simp [h0]
          · by_cases h1 : (HttpSrv.strtoull v).2 = []
            · simp [h0, h1]
            · simp [h0, h1]

/-- a Content-Length body is delivered complete or not at all: exactly the declared number of bytes, taken from directly
    behind the head, and the transaction has then consumed head + body and nothing more -/
theorem length_body_exact (rd : Msg → Bytes → ResHead) (m m1 : Msg) (s : Bytes) (n k : Nat)
    (hr : rd (resReset m) s = .done m1 n) (ha : afterHead m1 = .body k) :
    (transactWith rd m s = .waiting ∧ (s.drop n).length < k) ∨
    (transactWith rd m s = .ok m1 ((s.drop n).take k) (n + k) ∧ ((s.drop n).take k).length = k) := by
  unfold transactWith
  rw [hr]
  simp only [ha]
  by_cases hl : (s.drop n).length < k
  · left; rw [if_pos hl]; exact ⟨rfl, hl⟩
  · right; rw [if_neg hl]
    refine ⟨rfl, ?_⟩
    rw [List.length_take]; omega

/-- a failed head (malformed status line, unknown version, control character, head larger than the buffer) fails the
    transaction with that error: nothing is delivered -/
theorem bad_head_fails (rd : Msg → Bytes → ResHead) (m : Msg) (s : Bytes) (rv : Nat) (hr : rd (resReset m) s = .fail rv) :
    transactWith rd m s = .error rv := by
  unfold transactWith; rw [hr]

/-! ### segmentation independence -/

def resHeadOfOut : Out → ResHead
  | .more _ _ _ _ => .more
  | .done m n => .done m n
  | .fail rv => .fail rv

def resHeadOf (r : Rd) : ResHead := resHeadOfOut (modelOut r)

theorem readResHead_eq (m0 : Msg) (s : Bytes) : readResHead m0 s = resHeadOf (runRead false { m := m0 } [s]) := by
  unfold readResHead resHeadOf modelOut resHeadOfOut
  by_cases h1 : (runRead false { m := m0 } [s]).rv = rvAgain
  · simp only [h1, if_true]
  · simp only [h1, if_false]
    by_cases h2 : (runRead false { m := m0 } [s]).rv = rvOk
    · simp only [h2, if_true]
    · simp only [h2, if_false]

/-- the response head the transaction sees does not depend on what the buffer held before or on how the stream is cut
    into reads -/
theorem response_head_is_stream_function (c : Conn) (chunks : List Bytes) (hopen : c.closed = false) (hfit : c.put ≤ bufsz) :
    resHeadOf (runRead false c chunks) = readResHead c.m (c.pend ++ chunks.flatten) := by
  rw [readResHead_eq]
  unfold resHeadOf
  have h1 := runRead_decode false (by decide) c chunks hopen hfit
  have h2 := runRead_decode false (by decide) { m := c.m } [c.pend ++ chunks.flatten] rfl (by simp [Conn.put])
  simp only [Bool.false_eq_true, if_false, List.nil_append, List.flatten_cons, List.flatten_nil, List.append_nil] at h1 h2
  rw [h1, h2]

/-- a way of cutting the response stream for the head read -/
structure Cut where
  conn : Msg → Bytes → Conn
  chunks : Msg → Bytes → List Bytes

def Cut.Valid (k : Cut) : Prop :=
  ∀ m s, (k.conn m s).m = m ∧ (k.conn m s).closed = false ∧ (k.conn m s).put ≤ bufsz ∧
    (k.conn m s).pend ++ (k.chunks m s).flatten = s

def readCut (k : Cut) (m : Msg) (s : Bytes) : ResHead := resHeadOf (runRead false (k.conn m s) (k.chunks m s))

/-- THE TRANSACTION is a function of the response byte stream: every valid cutting gives the result `transact` computes
    from the bytes alone (a body of Content-Length bytes is taken by count; the chunked body by Chunk.parse, which is
    segmentation independent by Props/C16.lean) -/
theorem transaction_is_stream_function (k : Cut) (hk : k.Valid) (m : Msg) (s : Bytes) :
    transactWith (readCut k) m s = transact m s := by
  have : readCut k = readResHead := by
    funext m s
    obtain ⟨h1, h2, h3, h4⟩ := hk m s
    unfold readCut
    rw [response_head_is_stream_function _ _ h2 h3, h1, h4]
  unfold transact
  rw [this]

/-! ### observations (recorded, mirrored by model and specification) -/

def exRes (hs : List Hdr) : Msg := { resHdrs := hs }

/-- a Content-Length that is not a number ("5x"), and "Chunked" with a capital C, mean "no body": the transaction
    completes successfully and the body bytes stay in the stream, where the next transaction on the connection reads
    them as its response head.  RFC 9112 6.3 asks for an error (invalid Content-Length) resp. for case-insensitive
    coding names.  Not in the C16 text (which lists request lines, status lines and chunk sizes); recorded. -/
theorem lenient_framing :
    afterHead (exRes [⟨sContentLength, HttpSrv.asc "5x", 3⟩]) = .none ∧
    afterHead (exRes [⟨HttpSrv.sTransferEncoding, HttpSrv.asc "Chunked", 0⟩]) = .none ∧
    afterHead (exRes [⟨HttpSrv.sTransferEncoding, HttpSrv.asc "gzip, chunked", 0⟩]) = .chunked ∧
    afterHead (exRes [⟨sContentLength, HttpSrv.asc "+5", 3⟩]) = .body 5 := by decide

/-- a complete exchange: the head in two pieces, then a chunked body — `transact` on the whole stream -/
example : (match transact {} (HttpSrv.asc "HTTP/1.1 200 OK\r\nTransfer-Encoding: chunked\r\n\r\n3\r\nabc\r\n2\r\nde\r\n0\r\n\r\nNEXT") with
    | .ok m b used => (getStatus m, b, used)
    | _ => (0, [], 0)) = (200, HttpSrv.asc "abcde", 67) := by decide +kernel

end Nng.C16Client
