/-
  C16, HTTP client transaction (http_client.c nni_http_transact_conn / http_txn_cb) — property theorems.
  Model: Model/HttpClient.lean on top of Model/HttpConn.lean (response head) and Model/HttpChunk.lean (chunk decoder,
  whose own segmentation independence is Props/C16.lean).
-/
import NngModel.Model.HttpClient
import NngModel.Proofs.HttpConn
set_option linter.unusedSimpArgs false
namespace Nng.C16Client
open Nng Nng.HttpConn Nng.HttpCli

/-- FRAMING RULE the code implements after the response head, exactly: HEAD ⇒ no body; else Transfer-Encoding containing
    "chunked" (case-sensitive substring) ⇒ chunked; else Content-Length read by strtoull with a non-zero value and
    nothing behind the number ⇒ that many bytes; else (absent, zero, or not a number) ⇒ NO body is read -/
theorem framing_rule (m : Msg) :
    afterHead m =
      if m.meth = HttpSrv.sHEAD then .none
      else if (∃ v, resHeader m HttpSrv.sTransferEncoding = some v ∧ HttpSrv.strContains v sChunked = true) then .chunked
      else
        match resHeader m sContentLength with
        | none => .none
        | some v => if (HttpSrv.strtoull v).1 ≠ 0 ∧ (HttpSrv.strtoull v).2 = [] then .body (HttpSrv.strtoull v).1 else .none := by
  unfold afterHead
  by_cases hh : m.meth = HttpSrv.sHEAD
  · simp [hh]
  · have hh' : (m.meth == HttpSrv.sHEAD) = false := by simpa using hh
    simp only [hh', Bool.not_false, Bool.true_and, hh, if_false, Bool.false_eq_true]
    cases ht : resHeader m HttpSrv.sTransferEncoding with
    | none => 
      simp only [Bool.false_eq_true, if_false, reduceCtorEq, false_and, exists_false]
      cases resHeader m sContentLength with
      | none => rfl
      | some v =>
        simp only
        by_cases h0 : (HttpSrv.strtoull v).1 = 0
        · simp [h0]
        · by_cases h1 : (HttpSrv.strtoull v).2 = []
          · simp [h0, h1]
          · simp [h0, h1]
    | some tv =>
      simp only [Option.some.injEq, exists_eq_left']
      by_cases hc : HttpSrv.strContains tv sChunked = true
      · simp [hc]
      · simp only [hc, Bool.false_eq_true, if_false]
        cases resHeader m sContentLength with
        | none => rfl
        | some v =>
          simp only
          by_cases h0 : (HttpSrv.strtoull v).1 = 0
          · simp [h0]
          · by_cases h1 : (HttpSrv.strtoull v).2 = []
            · simp [h0, h1]
            · simp [h0, h1]

/-- a Content-Length body is delivered complete or not at all: exactly the declared number of bytes, taken from directly
    behind the head, and the transaction has then consumed head + body and nothing more -/
theorem length_body_exact (rd : Msg → Bytes → ResHead) (m m1 : Msg) (s : Bytes) (n k : Nat)
    (hr : rd (resReset m) s = .done m1 n) (ha : afterHead m1 = .body k) :
    (transactWith rd m s = .waiting ∧ (s.drop n).length < k) ∨
    (transactWith rd m s = .ok m1 ((s.drop n).take k) (n + k) ∧ ((s.drop n).take k).length = k) := by
  unfold transactWith transactAs
  have hrr : resResetAs true m = resReset m := rfl
  rw [hrr, hr]
  simp only [ha]
  by_cases hl : (s.drop n).length < k
  · left; rw [if_pos hl]; exact ⟨rfl, hl⟩
  · right; rw [if_neg hl]
    refine ⟨rfl, ?_⟩
    rw [List.length_take]; omega

/-- a failed head (malformed status line, unknown version, control character, head larger than the buffer) fails the
    transaction with that error: nothing is delivered -/
theorem bad_head_fails (rd : Msg → Bytes → ResHead) (m : Msg) (s : Bytes) (rv : Nat) (hr : rd (resReset m) s = .fail rv) :
    transactWith rd m s = .error rv := by
  unfold transactWith transactAs
  have hrr : resResetAs true m = resReset m := rfl
  rw [hrr, hr]

/-! ### segmentation independence -/

def resHeadOfOut : Out → ResHead
  | .more _ _ _ _ => .more
  | .done m n => .done m n
  | .fail rv => .fail rv

def resHeadOf (r : Rd) : ResHead := resHeadOfOut (modelOut r)

theorem readResHead_eq (m0 : Msg) (s : Bytes) : readResHead m0 s = resHeadOf (runRead false { m := m0 } [s]) := by
  unfold readResHead resHeadOf modelOut resHeadOfOut
  by_cases h1 : (runRead false { m := m0 } [s]).rv = rvAgain
  · simp only [h1, if_true]
  · simp only [h1, if_false]
    by_cases h2 : (runRead false { m := m0 } [s]).rv = rvOk
    · simp only [h2, if_true]
    · simp only [h2, if_false]

/-- the response head the transaction sees does not depend on what the buffer held before or on how the stream is cut
    into reads -/
theorem response_head_is_stream_function (c : Conn) (chunks : List Bytes) (hopen : c.closed = false) (hfit : c.put ≤ bufsz) :
    resHeadOf (runRead false c chunks) = readResHead c.m (c.pend ++ chunks.flatten) := by
  rw [readResHead_eq]
  unfold resHeadOf
  have h1 := runRead_decode false (by decide) c chunks hopen hfit
  have h2 := runRead_decode false (by decide) { m := c.m } [c.pend ++ chunks.flatten] rfl (by simp [Conn.put])
  simp only [Bool.false_eq_true, if_false, List.nil_append, List.flatten_cons, List.flatten_nil, List.append_nil] at h1 h2
  rw [h1, h2]

/-- a way of cutting the response stream for the head read -/
structure Cut where
  conn : Msg → Bytes → Conn
  chunks : Msg → Bytes → List Bytes

def Cut.Valid (k : Cut) : Prop :=
  ∀ m s, (k.conn m s).m = m ∧ (k.conn m s).closed = false ∧ (k.conn m s).put ≤ bufsz ∧
    (k.conn m s).pend ++ (k.chunks m s).flatten = s

def readCut (k : Cut) (m : Msg) (s : Bytes) : ResHead := resHeadOf (runRead false (k.conn m s) (k.chunks m s))

/-- THE TRANSACTION is a function of the response byte stream: every valid cutting gives the result `transact` computes
    from the bytes alone (a body of Content-Length bytes is taken by count; the chunked body by Chunk.parse, which is
    segmentation independent by Props/C16.lean) -/
theorem transaction_is_stream_function (k : Cut) (hk : k.Valid) (m : Msg) (s : Bytes) :
    transactWith (readCut k) m s = transact m s := by
  have : readCut k = readResHead := by
    funext m s
    obtain ⟨h1, h2, h3, h4⟩ := hk m s
    unfold readCut
    rw [response_head_is_stream_function _ _ h2 h3, h1, h4]
  unfold transact
  rw [this]

/-! ### observations (recorded, mirrored by model and specification) -/

def exRes (hs : List Hdr) : Msg := { resHdrs := hs }

/-- a Content-Length that is not a number ("5x"), and "Chunked" with a capital C, mean "no body": the transaction
    completes successfully and the body bytes stay in the stream, where the next transaction on the connection reads
    them as its response head.  RFC 9112 6.3 asks for an error (invalid Content-Length) resp. for case-insensitive
    coding names.  Not in the C16 text (which lists request lines, status lines and chunk sizes); recorded. -/
theorem lenient_framing :
    afterHead (exRes [⟨sContentLength, HttpSrv.asc "5x", 3⟩]) = .none ∧
    afterHead (exRes [⟨HttpSrv.sTransferEncoding, HttpSrv.asc "Chunked", 0⟩]) = .none ∧
    afterHead (exRes [⟨HttpSrv.sTransferEncoding, HttpSrv.asc "gzip, chunked", 0⟩]) = .chunked ∧
    afterHead (exRes [⟨sContentLength, HttpSrv.asc "+5", 3⟩]) = .body 5 := by decide

/-- a complete exchange: the head in two pieces, then a chunked body — `transact` on the whole stream -/
example : (match transact {} (HttpSrv.asc "HTTP/1.1 200 OK\r\nTransfer-Encoding: chunked\r\n\r\n3\r\nabc\r\n2\r\nde\r\n0\r\n\r\nNEXT") with
    | .ok m b used => (getStatus m, b, used)
    | _ => (0, [], 0)) = (200, HttpSrv.asc "abcde", 67) := by decide +kernel

/-! ### no state of earlier transactions leaks into a transaction -/

/-- what a transaction reads of the connection's message state: the response part and the request method -/
def Rel (a b : Msg) : Prop :=
  a.parsedRes = b.parsedRes ∧ a.code = b.code ∧ a.rsn = b.rsn ∧ a.resHdrs = b.resHdrs ∧ a.meth = b.meth

theorem rel_resParseLine (a b : Msg) (l : Bytes) (h : Rel a b) :
    Rel (resParseLine a l).1 (resParseLine b l).1 ∧ (resParseLine a l).2 = (resParseLine b l).2 := by
  obtain ⟨h1, h2, h3, h4, h5⟩ := h
  unfold resParseLine
  cases strchr SP l with
  | none => exact ⟨⟨h1, h2, h3, h4, h5⟩, rfl⟩
  | some p =>
    obtain ⟨version, r1⟩ := p
    simp only
    cases strchr SP r1 with
    | none => exact ⟨⟨h1, h2, h3, h4, h5⟩, rfl⟩
    | some q =>
      obtain ⟨codestr, reason⟩ := q
      simp only
      split
      · exact ⟨⟨h1, h2, h3, h4, h5⟩, rfl⟩
      · unfold setVersion setStatusReason
        by_cases hv : versions.contains version = true
        · simp only [hv, if_true]
          exact ⟨⟨h1, rfl, rfl, h4, h5⟩, trivial⟩
        · simp only [hv, Bool.false_eq_true, if_false]
          exact ⟨⟨h1, rfl, rfl, h4, h5⟩, trivial⟩

theorem rel_parseHeader (a b : Msg) (l : Bytes) (h : Rel a b) :
    Rel (parseHeader a false l).1 (parseHeader b false l).1 ∧ (parseHeader a false l).2 = (parseHeader b false l).2 := by
  obtain ⟨h1, h2, h3, h4, h5⟩ := h
  unfold parseHeader
  cases strchr COLON l with
  | none => exact ⟨⟨h1, h2, h3, h4, h5⟩, rfl⟩
  | some p =>
    obtain ⟨k, v⟩ := p
    simp only
    refine ⟨?_, trivial⟩
    unfold addHeader setKnown withHdrs hdrsOf
    simp only [Bool.false_eq_true, if_false, Bool.false_and]
    by_cases c1 : ieq k sContentType = true
    · simp only [c1, if_true, h4]; exact ⟨h1, h2, h3, rfl, h5⟩
    · simp only [c1, Bool.false_eq_true, if_false]
      by_cases c2 : ieq k sContentLength = true
      · simp only [c2, if_true, h4]; exact ⟨h1, h2, h3, rfl, h5⟩
      · simp only [c2, Bool.false_eq_true, if_false, h4]; exact ⟨h1, h2, h3, rfl, h5⟩

theorem rel_onLine (a b : Msg) (l : Bytes) (h : Rel a b) :
    Rel ((msem false).onLine a l).1 ((msem false).onLine b l).1 ∧ ((msem false).onLine a l).2 = ((msem false).onLine b l).2 := by
  simp only [msem, lineStep, Bool.false_eq_true, if_false, resLineStep]
  rw [← h.1]
  by_cases hp : a.parsedRes = true
  · simp only [hp, if_true]; exact rel_parseHeader a b l h
  · simp only [hp, Bool.false_eq_true, if_false]
    obtain ⟨r1, r2⟩ := rel_resParseLine a b l h
    rw [← r2]
    by_cases hr : (resParseLine a l).2 = rvOk
    · simp only [hr, if_true]
      exact ⟨⟨rfl, r1.2.1, r1.2.2.1, r1.2.2.2.1, r1.2.2.2.2⟩, trivial⟩
    · simp only [hr, if_false]
      exact ⟨r1, r2⟩

theorem rel_finish (a b : Msg) (h : Rel a b) :
    Rel ((msem false).finish a).1 ((msem false).finish b).1 ∧ ((msem false).finish a).2 = ((msem false).finish b).2 := by
  obtain ⟨h1, h2, h3, h4, h5⟩ := h
  have he : emptyRv false a = emptyRv false b := by unfold emptyRv; rw [h1]
  simp only [msem]
  rw [← he]
  refine ⟨?_, rfl⟩
  unfold parseEnd
  simp only [Bool.false_eq_true, if_false]
  by_cases hz : emptyRv false a = rvOk
  · simp only [hz, if_true]; exact ⟨rfl, h2, h3, h4, h5⟩
  · simp only [hz, if_false]; exact ⟨h1, h2, h3, h4, h5⟩

/-- decoder states that differ only in what `Rel` ignores -/
def StRel : HttpSpec.St Msg → HttpSpec.St Msg → Prop
  | .run a ra la na, .run b rb lb nb => Rel a b ∧ ra = rb ∧ la = lb ∧ na = nb
  | .done a n, .done b n' => Rel a b ∧ n = n'
  | .fail r, .fail r' => r = r'
  | _, _ => False

theorem strel_step (x y : HttpSpec.St Msg) (c : UInt8) (h : StRel x y) :
    StRel (HttpSpec.stepByte (msem false) bufsz marker x c) (HttpSpec.stepByte (msem false) bufsz marker y c) := by
  cases x with
  | done a n => cases y with
    | done b n' => exact h
    | run _ _ _ _ => exact h.elim
    | fail _ => exact h.elim
  | fail r => cases y with
    | fail r' => exact h
    | run _ _ _ _ => exact h.elim
    | done _ _ => exact h.elim
  | run a ra la na => cases y with
    | done _ _ => exact h.elim
    | fail _ => exact h.elim
    | run b rb lb nb =>
      obtain ⟨hr, e1, e2, e3⟩ := h
      subst e1; subst e2; subst e3
      unfold HttpSpec.stepByte
      by_cases hc : c = HttpSpec.LF
      · simp only [hc, if_true]
        by_cases he : (HttpSpec.lineOfAcc ra).isEmpty = true
        · simp only [he, if_true]
          obtain ⟨f1, f2⟩ := rel_finish a b hr
          rw [← f2]
          by_cases hz : ((msem false).finish a).2 ≠ 0
          · simp only [hz, if_true, ne_eq, not_false_eq_true]; exact rfl
          · simp only [hz, if_false]; exact ⟨f1, rfl⟩
        · simp only [he, Bool.false_eq_true, if_false]
          obtain ⟨f1, f2⟩ := rel_onLine a b (HttpSpec.lineOfAcc ra) hr
          rw [← f2]
          by_cases hz : ((msem false).onLine a (HttpSpec.lineOfAcc ra)).2 ≠ 0
          · simp only [hz, if_true, ne_eq, not_false_eq_true]; exact rfl
          · simp only [hz, if_false]; exact ⟨f1, rfl, rfl, rfl⟩
      · simp only [hc, if_false]
        by_cases hb : (HttpSpec.isBadCtl c || HttpSpec.endsWithCR ra) = true
        · simp only [hb, if_true]; exact rfl
        · simp only [hb, Bool.false_eq_true, if_false]
          by_cases hl : la + 1 = bufsz
          · have ho : ∀ x : Msg, (msem false).onLong x = none := fun _ => rfl
            simp only [hl, if_true, ho]
            exact rfl
          · simp only [hl, if_false]; exact ⟨hr, rfl, rfl, rfl⟩

theorem strel_fold (s : Bytes) : ∀ x y, StRel x y →
    StRel (s.foldl (HttpSpec.stepByte (msem false) bufsz marker) x) (s.foldl (HttpSpec.stepByte (msem false) bufsz marker) y) := by
  induction s with
  | nil => intro x y h; exact h
  | cons c r ih => intro x y h; rw [List.foldl_cons, List.foldl_cons]; exact ih _ _ (strel_step x y c h)

/-- reading a response head into two connection states that agree on the response part and the method -/
theorem readResHead_rel (a b : Msg) (s : Bytes) (h : Rel a b) :
    match readResHead a s, readResHead b s with
    | .more, .more => True
    | .done m n, .done m' n' => Rel m m' ∧ n = n'
    | .fail r, .fail r' => r = r'
    | _, _ => False := by
  rw [readResHead_eq, readResHead_eq]
  unfold resHeadOf
  have h1 := runRead_decode false (by decide) { m := a } [s] rfl (by simp [Conn.put])
  have h2 := runRead_decode false (by decide) { m := b } [s] rfl (by simp [Conn.put])
  simp only [Bool.false_eq_true, if_false, List.nil_append, List.flatten_cons, List.flatten_nil, List.append_nil] at h1 h2
  rw [h1, h2]
  have hf := strel_fold s (.run a [] 0 0) (.run b [] 0 0) ⟨h, rfl, rfl, rfl⟩
  unfold HttpSpec.decode
  generalize s.foldl (HttpSpec.stepByte (msem false) bufsz marker) (.run a [] 0 0) = x at hf
  generalize s.foldl (HttpSpec.stepByte (msem false) bufsz marker) (.run b [] 0 0) = y at hf
  cases x <;> cases y <;> simp only [specOut, resHeadOfOut] <;> first | exact hf | exact hf.elim | trivial

/-- what the application sees of a transaction -/
inductive View where
  | waiting
  | error (rv : Nat)
  | ok (status : Nat) (hdrs : List Hdr) (body : Bytes) (used : Nat)
deriving DecidableEq

def view : Outcome → View
  | .waiting => .waiting
  | .error rv => .error rv
  | .ok m body used => .ok (getStatus m) m.resHdrs body used

theorem afterHead_rel (a b : Msg) (h : Rel a b) : afterHead a = afterHead b := by
  obtain ⟨_, _, _, h4, h5⟩ := h
  unfold afterHead resHeader
  rw [h4, h5]

/-- ONE TRANSACTION: its result — success or error, status, response headers, body, bytes consumed — depends on the
    connection's message state only through the request METHOD (HEAD or not): the response headers, status, reason
    and parse state left by whatever was received before are reset and cannot influence it -/
theorem transaction_ignores_connection_state (a b : Msg) (s : Bytes) (hm : a.meth = b.meth) :
    view (transact a s) = view (transact b s) := by
  have hrel : Rel (resReset a) (resReset b) := ⟨rfl, rfl, rfl, rfl, hm⟩
  have hh := readResHead_rel (resReset a) (resReset b) s hrel
  unfold transact transactWith transactAs
  have e1 : resResetAs true a = resReset a := rfl
  have e2 : resResetAs true b = resReset b := rfl
  rw [e1, e2]
  cases ha : readResHead (resReset a) s with
  | more =>
    cases hb : readResHead (resReset b) s with
    | more => rfl
    | done _ _ => rw [ha, hb] at hh; exact hh.elim
    | fail _ => rw [ha, hb] at hh; exact hh.elim
  | fail r =>
    cases hb : readResHead (resReset b) s with
    | fail r' => rw [ha, hb] at hh; simp only at hh; rw [hh]
    | more => rw [ha, hb] at hh; exact hh.elim
    | done _ _ => rw [ha, hb] at hh; exact hh.elim
  | done m n =>
    cases hb : readResHead (resReset b) s with
    | more => rw [ha, hb] at hh; exact hh.elim
    | fail _ => rw [ha, hb] at hh; exact hh.elim
    | done m' n' =>
      rw [ha, hb] at hh
      obtain ⟨hr, hn⟩ := hh
      subst hn
      simp only
      rw [← afterHead_rel m m' hr]
      have hst : getStatus m = getStatus m' := by unfold getStatus; rw [hr.2.1]
      cases afterHead m with
      | none => simp only [view, hst, hr.2.2.2.1]
      | body k =>
        simp only
        by_cases hl : (s.drop n).length < k
        · simp only [hl, if_true, view]
        · simp only [hl, if_false, view, hst, hr.2.2.2.1]
      | chunked =>
        simp only
        split
        · rfl
        · split
          · simp only [view, hst, hr.2.2.2.1]
          · rfl

/-- a connection used for a SEQUENCE of transactions: for each, the request method and the response bytes it gets;
    the message state left by one transaction (parsed headers, status, version …) is what the next one starts from -/
def session : Msg → List (Bytes × Bytes) → List Outcome
  | _, [] => []
  | m, (meth, s) :: rest =>
    let o := transact { m with meth := meth } s
    o :: session (match o with | .ok m1 _ _ => m1 | _ => { m with meth := meth }) rest

/-- NO HISTORY: on a connection used for any sequence of transactions (with or without nng_http_reset in between —
    `m0` and everything earlier transactions left behind are arbitrary), the result of the k-th transaction is the
    result a FRESH connection gives for the k-th method and the k-th response's bytes alone -/
theorem transaction_independent_of_history (xs : List (Bytes × Bytes)) : ∀ (m0 : Msg),
    (session m0 xs).map view = xs.map fun x => view (transact { meth := x.1 } x.2) := by
  induction xs with
  | nil => intro m0; rfl
  | cons x rest ih =>
    intro m0
    obtain ⟨meth, s⟩ := x
    simp only [session, List.map_cons]
    rw [ih]
    congr 1
    exact transaction_ignores_connection_state _ _ s rfl

/-- without it the second response of a connection is framed by the first one's headers: a chunked response
    followed by a Content-Length response is handed to the chunk decoder (here "BB" is read as a chunk size and the
    transaction waits for 187 bytes that never come; other bodies fail with NNG_EPROTO) -/
theorem unreset_response_leaks :
    let r1 := HttpSrv.asc "HTTP/1.1 200 OK\r\nTransfer-Encoding: chunked\r\n\r\n1\r\nA\r\n0\r\n\r\n"
    let r2 := HttpSrv.asc "HTTP/1.1 200 OK\r\nContent-Length: 2\r\n\r\nBB"
    (match transactAs false readResHead {} r1 with
     | .ok m1 _ _ => (view (transactAs false readResHead m1 r2), view (transactAs true readResHead m1 r2))
     | _ => (.waiting, .waiting)) =
      (.waiting, .ok 200 [⟨sContentLength, HttpSrv.asc "2", 3⟩] (HttpSrv.asc "BB") 40) := by decide +kernel

end Nng.C16Client
