/-
  C01 — whole-message integrity on stream transports under any segmentation.

  Property theorems only; lemmas are in Proofs/SpStream.lean and Proofs/SpPullUp.lean.
  `Nng.Sp` is the executable model of the framing code of the tcp, ipc and socket-fd
  transports, of nni_aio_iov_advance / nni_aio_iov_count, and of nni_msg_pull_up (tied to
  the C code by the UNIT and REAL correspondence checks of vlib/props/c01.py);
  `Nng.SpSpec` states the property: received list = sent list.
-/
import NngModel.Proofs.SpStream
import NngModel.Proofs.SpPullUp
import NngModel.Spec.SpStream
import NngModel.Generated.C01
namespace Nng.C01
open Nng Nng.Sp

/-- what the specification expects the receiver to see for `ms` -/
def sentOf (ms : List SpMsg) : List (Bytes × Bytes) := ms.map fun m => (m.hdr, m.body)

private theorem sentOf_payload (ms : List SpMsg) :
    (sentOf ms).map (fun m => SpSpec.payload m.1 m.2) = ms.map SpMsg.flat := by
  simp [sentOf, SpSpec.payload, SpMsg.flat, Function.comp_def]

/-- T1. NNI_PUT64 / NNI_GET64 round trip: the length field is 8 bytes and decodes to the
    length that was encoded. -/
theorem be64_round_trip (n : Nat) (h : n < 2 ^ 64) :
    (be64 n).length = 8 ∧ beDecode (be64 n) = n :=
  ⟨by simp [be64], be64_roundtrip n h⟩

/-- T2. Receive side, any segmentation.  For every list of messages the receiver accepts
    (size rule of the code: ≤ 2^60-1 and ≤ rcvmax when rcvmax ≠ 0) and EVERY way of cutting
    the concatenated frames into chunks (any list of byte lists, empty ones included, whose
    concatenation is the stream), the receive path hands over exactly those messages in
    order — nothing truncated, merged, altered, duplicated or reordered — and ends idle:
    no error, no half-gathered header or body left. -/
theorem rx_delivers_exactly (c : Cfg) (ms : List SpMsg) (chunks : List Bytes)
    (hfit : ∀ m ∈ ms, Fits c m.size) (hcut : chunks.flatten = stream c.kind ms) :
    SpSpec.Delivered (sentOf ms) (rxRun c (rxInit c.kind) chunks).out ∧
    rxRun c (rxInit c.kind) chunks = idle c (ms.map SpMsg.flat) := by
  have : rxRun c (rxInit c.kind) chunks = idle c (ms.map SpMsg.flat) := by
    rw [rxRun_eq_feed, hcut, rxInit_eq_idle]
    have := rxFeed_stream c ms [] [] hfit
    simp only [List.append_nil, List.nil_append, rxFeed_nil] at this
    exact this
  refine ⟨?_, this⟩
  rw [this]; simp [SpSpec.Delivered, sentOf_payload, idle]

/-- T3. Completely or not at all.  If the connection stops anywhere (the chunks are any
    segmentation of any initial part of the stream), what has been delivered is an initial
    part of the sent list: whole messages only, in order, and the receive path has not failed. -/
theorem rx_prefix_whole_messages (c : Cfg) (ms : List SpMsg) (chunks : List Bytes) (tail : Bytes)
    (hfit : ∀ m ∈ ms, Fits c m.size) (hcut : chunks.flatten ++ tail = stream c.kind ms) :
    SpSpec.DeliveredSoFar (sentOf ms) (rxRun c (rxInit c.kind) chunks).out ∧
    (rxRun c (rxInit c.kind) chunks).err = 0 := by
  have hall := rxFeed_stream c ms [] [] hfit
  simp only [List.append_nil, List.nil_append, rxFeed_nil] at hall
  rw [← hcut, rxFeed_append, ← rxInit_eq_idle, ← rxRun_eq_feed] at hall
  obtain ⟨l, hl⟩ := rxFeed_out_mono c tail (rxRun c (rxInit c.kind) chunks)
  rw [hall] at hl
  constructor
  · simp only [SpSpec.DeliveredSoFar, sentOf_payload]
    exact ⟨l, by simpa [idle] using hl.symm⟩
  · by_cases he : (rxRun c (rxInit c.kind) chunks).err = 0
    · exact he
    · rw [rxFeed_err c _ tail he] at hall
      rw [hall]; rfl

/-- T4. A frame whose length field violates the size rule is refused with NNG_EMSGSIZE
    before anything is allocated or delivered, and nothing is delivered afterwards. -/
theorem rx_rejects_oversize (c : Cfg) (n : Nat) (o : List Bytes) (more : List Bytes) (hn : n < 2 ^ 64)
    (hbad : ¬ Fits c n) :
    (rxRun c (idle c o) (headBytes c.kind n :: more)).err = Err.emsgsize ∧
    (rxRun c (idle c o) (headBytes c.kind n :: more)).out = o := by
  have hdec := be64_roundtrip n hn
  have hpos : c.kind.headLen ≠ 0 := by
    cases c.kind <;> simp [Kind.headLen, Generated.c01TcpHeadLen, Generated.c01IpcHeadLen]
  have hne : headBytes c.kind n ≠ [] := by
    intro h; have := congrArg List.length h; rw [headBytes_length] at this; simp at this; exact hpos this
  have hfail : rxRead c (idle c o) (headBytes c.kind n) = rxFail ⟨headBytes c.kind n, 0, none, 0, o⟩ Err.emsgsize := by
    unfold rxRead idle
    simp only [List.nil_append, headBytes_length, Nat.sub_self, Nat.lt_irrefl, ↓reduceIte]
    obtain ⟨kind, rcvmax⟩ := c
    simp only [Fits] at hbad
    cases kind with
    | tcp =>
      unfold rxHeader
      simp only [headBytes, Kind.headLen, Generated.c01TcpHeadLen, Nat.sub_self, List.drop_zero, hdec]
      rw [if_neg (by simp)]
      by_cases hv : n ≤ Generated.c01MaxStreamMsgSz
      · have : sizeValid n = true := by simp [sizeValid, hv]
        simp only [this, Bool.not_true, Bool.false_eq_true, ↓reduceIte]
        rw [if_pos (by omega)]
      · have : sizeValid n = false := by simp [sizeValid, hv]
        simp [this]
    | ipc =>
      unfold rxHeader
      simp only [headBytes, Kind.headLen, Generated.c01IpcHeadLen, List.headD_cons]
      rw [if_neg (by simp)]
      have hd : List.drop (9 - 8) (UInt8.ofNat Generated.c01IpcMsgType :: be64 n) = be64 n := by simp
      by_cases hv : n ≤ Generated.c01MaxStreamMsgSz
      · have : sizeValid n = true := by simp [sizeValid, hv]
        simp only [hd, hdec, this, Bool.not_true, Bool.false_eq_true, ↓reduceIte]
        rw [if_pos (by omega)]
      · have : sizeValid n = false := by simp [sizeValid, hv]
        simp [hd, hdec, this]
  have hstep : rxFeed c (idle c o) (headBytes c.kind n) = rxFail ⟨headBytes c.kind n, 0, none, 0, o⟩ Err.emsgsize := by
    rw [rxFeed_step c _ _ rfl hne hpos]
    have : min (headBytes c.kind n).length (idle c o).want = (headBytes c.kind n).length := by
      simp [idle, headBytes_length]
    rw [this, List.take_length, List.drop_length, rxFeed_nil, hfail]
  have herr : (rxFail ⟨headBytes c.kind n, 0, none, 0, o⟩ Err.emsgsize).err ≠ 0 := by
    simp [rxFail, Err.emsgsize]
  have : rxRun c (idle c o) (headBytes c.kind n :: more) = rxFail ⟨headBytes c.kind n, 0, none, 0, o⟩ Err.emsgsize := by
    rw [rxRun_eq_feed, List.flatten_cons, rxFeed_append, hstep, rxFeed_err c _ _ herr]
  rw [this]; simp [rxFail]

/-- T5. nni_aio_iov_advance by any `n` up to nni_aio_iov_count: no a_iov index leaves the
    array, exactly the first `n` designated bytes are consumed, the count drops by `n`, the
    entry count stays within the array, and the function returns 0. -/
theorem iov_advance_exact (a : Aio) (n : Nat) (hwf : AWF a) (hs : a.safe = true) (hn : n ≤ iovCount a) :
    (iovAdvance a n).1.safe = true ∧ AWF (iovAdvance a n).1 ∧
    pending (iovAdvance a n).1 = (pending a).drop n ∧
    iovCount (iovAdvance a n).1 = iovCount a - n ∧ (iovAdvance a n).2 = 0 := by
  obtain ⟨h1, h2, _, h4, h5, h6⟩ := iovAdvance_spec a n hwf hs hn
  exact ⟨h1, h2, h4, h5, h6⟩

/-- T6. The iov built by *_pipe_send_start designates exactly the frame encoding, whatever
    the transmit aio held before. -/
theorem tx_start_is_encoding (k : Kind) (prev : Aio) (m : SpMsg) (hlen : prev.iov.length = maxIov)
    (hs : prev.safe = true) :
    pending (txStart k prev m) = encode k m ∧ iovCount (txStart k prev m) = (encode k m).length ∧
    AWF (txStart k prev m) ∧ (txStart k prev m).safe = true := by
  obtain ⟨h1, h2, _, h4⟩ := txStart_spec k prev m hlen hs
  exact ⟨h4, by rw [iovCount_eq_length, h4], h2, h1⟩

/-- T7. Send side, any partial writes.  For every sequence of completion counts the stream
    layer can report (each at most what was still pending; 0 included), the bytes put on the
    wire followed by the bytes still pending are always exactly the frame; every iov access is
    in range; and the residual count is 0 exactly when the whole frame — no more, no less —
    is on the wire. -/
theorem tx_partial_writes (k : Kind) (prev : Aio) (m : SpMsg) (ns : List Nat)
    (hlen : prev.iov.length = maxIov) (hs : prev.safe = true)
    (hadm : Admissible (encode k m).length ns) :
    (txRun (txStart k prev m) ns).1.safe = true ∧
    (txRun (txStart k prev m) ns).2 ++ pending (txRun (txStart k prev m) ns).1 = encode k m ∧
    (iovCount (txRun (txStart k prev m) ns).1 = 0 ↔ (txRun (txStart k prev m) ns).2 = encode k m) ∧
    (txRun (txStart k prev m) ns).1.iov.length = maxIov := by
  obtain ⟨h1, h2, h3, h4⟩ := txStart_spec k prev m hlen hs
  have hadm' : Admissible (iovCount (txStart k prev m)) ns := by rw [iovCount_eq_length, h4]; exact hadm
  obtain ⟨r1, r2, r3, r4⟩ := txRun_spec ns (txStart k prev m) h2 h1 hadm'
  rw [h4] at r4
  refine ⟨r1, r4, ?_, by rw [r3, h3]⟩
  constructor
  · intro h0
    rw [pending_eq_nil_of_count _ h0, List.append_nil] at r4
    exact r4
  · intro hw
    rw [hw] at r4
    have : pending (txRun (txStart k prev m) ns).1 = [] := by simpa using r4
    rw [iovCount_eq_length, this]; rfl

/-- T8. Progress: if every completion moves at least one byte, the count reaches 0 after at
    most as many completions as there are bytes. -/
theorem tx_completes (ns : List Nat) (a : Aio) (hwf : AWF a) (hs : a.safe = true)
    (hadm : Admissible (iovCount a) ns) (hpos : ∀ n ∈ ns, 0 < n) (hlong : iovCount a ≤ ns.length) :
    iovCount (txRun a ns).1 = 0 := by
  induction ns generalizing a with
  | nil => simp [txRun] at hlong ⊢; exact hlong
  | cons n ns ih =>
    obtain ⟨hle, hrest⟩ := hadm
    obtain ⟨h1, h2, _, _, h5, _⟩ := iovAdvance_spec a n hwf hs hle
    have hn : 0 < n := hpos n (by simp)
    unfold txRun
    simp only []
    by_cases hc : iovCount (iovAdvance a n).1 > 0
    · rw [if_pos hc]
      simp only []
      apply ih _ h2 h1
      · rw [h5]; exact hrest (by omega)
      · intro x hx; exact hpos x (by simp [hx])
      · rw [h5]; simp at hlong; omega
    · rw [if_neg hc]; simp only []; omega

/-- T9. Both directions composed: a sequence of messages sent on one pipe, each written in
    any number of partial writes that make progress, read by the peer in any segmentation:
    the peer's receive path delivers exactly the sent messages in order. -/
theorem end_to_end (c : Cfg) (prev : Aio) (sends : List (SpMsg × List Nat)) (chunks : List Bytes)
    (hlen : prev.iov.length = maxIov) (hs : prev.safe = true)
    (hfit : ∀ s ∈ sends, Fits c s.1.size)
    (hadm : ∀ s ∈ sends, Admissible (encode c.kind s.1).length s.2 ∧ (∀ n ∈ s.2, 0 < n) ∧
              (encode c.kind s.1).length ≤ s.2.length)
    (hcut : chunks.flatten = (txSeq c.kind prev sends).2) :
    SpSpec.Delivered (sentOf (sends.map Prod.fst)) (rxRun c (rxInit c.kind) chunks).out := by
  have hwire : ∀ (sends : List (SpMsg × List Nat)) (prev : Aio), prev.iov.length = maxIov → prev.safe = true →
      (∀ s ∈ sends, Admissible (encode c.kind s.1).length s.2 ∧ (∀ n ∈ s.2, 0 < n) ∧
              (encode c.kind s.1).length ≤ s.2.length) →
      (txSeq c.kind prev sends).2 = stream c.kind (sends.map Prod.fst) := by
    intro sends
    induction sends with
    | nil => intro prev _ _ _; simp [txSeq, stream]
    | cons s rest ih =>
      intro prev hlen hs hadm
      obtain ⟨m, ns⟩ := s
      obtain ⟨ha, hp, hl⟩ := hadm (m, ns) (by simp)
      obtain ⟨t1, t2, t3, t4⟩ := tx_partial_writes c.kind prev m ns hlen hs ha
      obtain ⟨s1, s2, _, s4⟩ := txStart_spec c.kind prev m hlen hs
      have hdone : iovCount (txRun (txStart c.kind prev m) ns).1 = 0 :=
        tx_completes ns _ s2 s1 (by rw [iovCount_eq_length, s4]; exact ha) hp
          (by rw [iovCount_eq_length, s4]; exact hl)
      have hw := t3.mp hdone
      simp only [txSeq, List.map_cons]
      rw [hw, ih _ t4 t1 (fun x hx => hadm x (by simp [hx]))]
      simp [stream]
  have := hwire sends prev hlen hs hadm
  rw [this] at hcut
  exact (rx_delivers_exactly c (sends.map Prod.fst) chunks
    (by intro m hm; obtain ⟨s, hs', rfl⟩ := List.mem_map.mp hm; exact hfit s hs') hcut).1

/-- T10. inproc: nni_msg_pull_up of a message (header h, body b) gives NULL — the message is
    then dropped whole — or a message with empty header and body h ++ b; every memory access
    is inside the two messages. -/
theorem pull_up_merges (m : Msg.Msg) (h : Msg.MWF m) (refcnt : Nat) (fail : Option Nat)
    (hsz : m.body.len + m.hlen + 64 ≤ Msg.sizeMax) :
    (pullUp m refcnt fail).2 = true ∧
    ((pullUp m refcnt fail).1 = none ∨
     ∃ m', (pullUp m refcnt fail).1 = some m' ∧ Msg.MWF m' ∧
        Msg.abs m' = ⟨[], SpSpec.payload (Msg.abs m).hdr (Msg.abs m).body⟩) := by
  obtain ⟨hs, hr⟩ := pullUp_spec m h refcnt fail hsz
  refine ⟨hs, ?_⟩
  rcases hr with hn | ⟨m', h1, h2, h3, h4⟩
  · exact Or.inl hn
  · exact Or.inr ⟨m', h1, h2, by simp [Msg.abs, h3, h4, SpSpec.payload]⟩

/-- T11. The 8 negotiation bytes pass the peer's check and carry the protocol number. -/
theorem handshake_round_trip (p : Nat) (hp : p < 65536) : handshakeCheck (handshake p) = some p := by
  have h2 : beDecode (beEncode 2 p) = p := by
    rw [Msg.beDecode_beEncode]; exact Nat.mod_eq_of_lt (by simpa using hp)
  unfold handshakeCheck handshake
  simp only [Generated.c01HandshakePrefix, Generated.c01HandshakeLen, List.map_cons, List.map_nil]
  have e : beEncode 2 p = [UInt8.ofNat (p / 256 % 256), UInt8.ofNat (p % 256)] := by
    simp [beEncode]
  rw [e] at h2 ⊢
  simp [h2]

/-! ### the hypotheses are satisfiable, the statements are not vacuous -/

/-- T2's hypotheses hold for two messages (one empty, one with a raw header) cut in the middle of
    the length field, at the header/body boundary and with empty chunks in between; so they are
    delivered as sent -/
example :
    let ms : List SpMsg := [⟨[], []⟩, ⟨[0x80, 0, 0, 1], [1, 2, 3]⟩]
    let s := stream .ipc ms
    (rxRun ⟨.ipc, 16⟩ (rxInit .ipc) [s.take 3, [], (s.drop 3).take 15, [], s.drop 18]).out
      = [[], [0x80, 0, 0, 1, 1, 2, 3]] := by
  intro ms s
  have h := (rx_delivers_exactly ⟨.ipc, 16⟩ ms [s.take 3, [], (s.drop 3).take 15, [], s.drop 18]
    (by intro m hm; simp [ms] at hm; rcases hm with rfl | rfl <;>
          simp [Fits, SpMsg.size, Generated.c01MaxStreamMsgSz])
    (by decide)).2
  rw [h]; rfl

example : Fits ⟨.tcp, 0⟩ (SpMsg.size ⟨[1, 2], [3]⟩) := by
  simp [Fits, SpMsg.size, Generated.c01MaxStreamMsgSz]

/-- a partial-write schedule (3, 0, 6, 2 bytes) of an 11-byte frame is admissible, makes the
    hypotheses of T7 true, and T7 + T8-style completion give the whole frame on the wire -/
example : Admissible (encode .tcp ⟨[9], [7, 7]⟩).length [3, 0, 6, 2] := by
  simp [Admissible, encode, encodeTcp, be64]

example : Aio.fresh.iov.length = maxIov ∧ Aio.fresh.safe = true := by
  simp [Aio.fresh, maxIov]

/-- a well-formed message with a header exists (hypotheses of T10) -/
example : Msg.MWF ⟨Msg.zeros Msg.hdrCap, 4, ⟨8, 3, 2, Msg.zeros 8⟩⟩ :=
  ⟨⟨by simp, by decide, by decide⟩, by simp, by decide⟩

end Nng.C01
