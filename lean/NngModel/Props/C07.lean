/-
  C07 — SURVEYOR / RESPONDENT.  Property theorems about the executable models
  (Model/Survey.lean, Model/Respond.lean); helper lemmas are in Proofs/Survey*.lean.
  All statements quantify over every state / every event sequence.
-/
import NngModel.Proofs.SurveyLocal
import NngModel.Proofs.SurveyOut
import NngModel.Proofs.SurveyPoll
import NngModel.Proofs.SurveyRespPoll
import NngModel.Spec.Survey
import NngModel.Generated.C07
namespace Nng.C07
open Nng Nng.Proto

/-- the protocol numbers used by the models are those of the C source -/
theorem proto_ids : Nng.Survey.peerResp = Nng.Proto.protoId 6 3 ∧ Nng.Respond.peerSurv = Nng.Proto.protoId 6 2 := by decide

/-- the source has the shapes the models mirror: only negative timeouts are clamped to the survey
    deadline (F9 repaired); resp0_ctx_send clears the socket's send pollable, then calls
    nni_aio_start, and only then looks at its state (F8 is open: the repository's own test pins that
    order), refuses a second send while one is parked (R1), pipe loss clears a stale receive
    pollable (R2), the send pollable follows the pipe of the socket's pending survey (R3) -/
theorem code_shapes : Nng.Generated.survRecvClampBelow = 0 ∧ Nng.Generated.respSendStartsFirst = 1 ∧
    Nng.Generated.respSendClearsFirst = 1 ∧
    Nng.Generated.respSendRefusesSecond = 1 ∧ Nng.Generated.respCloseClearsReadable = 1 ∧
    Nng.Generated.respWritableTracksPipe = 1 := by decide

/-! ### SURVEYOR -/

/-- S1: along every event sequence, a message handed to the application carries the id the
    context is registered under at that moment (its current survey), that id is a real one,
    and the survey deadline has not passed (`<` when the receive call takes it from the queue;
    `≤` when it is handed to a receive parked earlier: the aio expiry fires only *after* the
    deadline instant, the one point where the C code still delivers) -/
theorem S1_delivery_sound (evs : List Ev) :
    ∀ d ∈ (Survey.run {} evs).1.delivered,
      d.msgId = d.curId ∧ d.curId ≠ 0 ∧ (d.now : Int) ≤ d.expire ∧ (d.direct = true → (d.now : Int) < d.expire) :=
  (Survey.run_inv {} evs Survey.inv_init).delOK

/-- S1: the ghost list misses nothing: in every state, a completion that hands a message to the
    application is a success and appends exactly one record (for that aio) to `delivered`; no
    other step touches the list in a way that hides a delivery -/
theorem S1_every_message_recorded (s : Survey.State) (ev : Ev) :
    ∀ a rv m b, Out.done a rv (some m) b ∈ (Survey.step s ev).2 →
      ∃ d, (Survey.step s ev).1.delivered = s.delivered ++ [d] ∧ d.aio = a ∧ rv = 0 :=
  Survey.step_recorded s ev

/-- S1/S5: in every reachable state everything queued in a context is a response to the survey
    it is registered under; receivers wait only with an empty queue; a parked receive expires
    between now and the survey deadline -/
theorem S1_state (evs : List Ev) :
    ∀ c ∈ (Survey.run {} evs).1.ctxs,
      (∀ m ∈ c.recvQ, m.id = c.surveyId) ∧ (c.rq ≠ [] → c.recvQ = []) ∧
      (∀ pk ∈ c.rq, (((Survey.run {} evs).1.now : Nat) : Int) ≤ pk.deadline ∧ pk.deadline ≤ c.expire) := by
  intro c hc
  have h := (Survey.run_inv {} evs Survey.inv_init).ctxsOK c hc
  exact ⟨h.qid, h.excl, h.dl⟩

/-- S2: when time passes, every parked receive whose expiry (≤ the survey deadline by
    `S1_state`) is now behind completes with NNG_ETIMEDOUT in that step -/
theorem S2_timeout (s : Survey.State) (ms : Nat) (c : Survey.Ctx) (pk : Survey.Parked) (hc : c ∈ s.ctxs) (hpk : pk ∈ c.rq)
    (hd : pk.deadline < ((s.now + ms : Nat) : Int)) :
    Out.done pk.aio Err.etimedout none false ∈ (Survey.expire { s with now := s.now + ms }).2 :=
  Survey.advance_times_out s ms c pk hc hpk hd

/-- S3: receive with no live survey (none registered, or deadline reached) fails with NNG_ESTATE
    and changes nothing -/
theorem S3_estate (s : Survey.State) (c : Survey.Ctx) (a : Nat) (mode : Mode)
    (h : c.surveyId = 0 ∨ (s.now : Int) ≥ c.expire) :
    Survey.ctxRecv s c a mode = (s, [Out.done a Err.estate none false]) :=
  Survey.recv_estate s c a mode h

/-- S4: a new survey completes every receive parked on the context with NNG_ECANCELED … -/
theorem S4_cancels (s : Survey.State) (c : Survey.Ctx) (a : Nat) (m : WMsg) :
    ∀ pk ∈ c.rq, Out.done pk.aio Err.ecanceled none false ∈ (Survey.ctxSend s c a m).2 :=
  Survey.send_cancels s c a m

/-- … leaves the context with nothing parked and nothing queued, registered (if at all) under
    the id issued last … -/
theorem S4_resets (s : Survey.State) (c : Survey.Ctx) (a : Nat) (m : WMsg) :
    ∀ q ∈ (Survey.ctxSend s c a m).1.ctxs, q.key = c.key → q.rq = [] ∧ q.recvQ = [] ∧
      (q.surveyId = 0 ∨ (Survey.ctxSend s c a m).1.issued.getLast? = some q.surveyId) :=
  Survey.send_resets s c a m

/-- … and that id is registered to no context at the moment it is chosen -/
theorem S4_fresh (s : Survey.State) (f v id dv : Nat) (h : Survey.idScan s f v = some (id, dv)) :
    Survey.idInUse s id = false :=
  Survey.idScan_fresh s f v id dv h

/-- S5: an arriving response changes at most contexts registered under exactly its id … -/
theorem S5_frame (s : Survey.State) (p : Nat) (b : Bytes) :
    ∀ q ∈ (Survey.pipeRecv s p b).1.ctxs, q ∈ s.ctxs ∨
      (4 ≤ b.length ∧ q.surveyId ≠ 0 ∧ q.surveyId = beDecode (b.take 4)) :=
  Survey.response_frame s p b

/-- … a short one changes no context, an id nobody is registered under changes nothing at all
    (stale ids, other sockets' ids, ids without the high bit are all of this kind) -/
theorem S5_ignored (s : Survey.State) (p : Nat) (b : Bytes) :
    (b.length < 4 → (Survey.pipeRecv s p b).1.ctxs = s.ctxs) ∧
    (¬ b.length < 4 → Survey.lookup s (beDecode (b.take 4)) = none →
      (Survey.pipeRecv s p b).1 = { s with narrive := s.narrive + 1 }) :=
  ⟨Survey.short_response_ignored s p b, Survey.unknown_response_ignored s p b⟩

/-- S7: a non-blocking (or zero-timeout) receive completes in the call, it is never parked -/
theorem S7_surveyor_nonblocking (s : Survey.State) (c : Survey.Ctx) (a : Nat) (mode : Mode)
    (hz : Survey.timeoutOf mode = 0) : ∃ rv m, (Survey.ctxRecv s c a mode).2 = [Out.done a rv m false] :=
  Survey.recv_zero_completes s c a mode hz

/-- S7 (pollable): along every event sequence the receive pollable is raised exactly when the
    socket's own context has a queued response, and there is at most one such context -/
theorem S7_surveyor_readable (evs : List Ev) :
    let s := (Survey.run {} evs).1
    (s.readable = true ↔ ∃ c ∈ s.ctxs, c.key = none ∧ c.recvQ ≠ []) ∧
    (∀ c1 ∈ s.ctxs, ∀ c2 ∈ s.ctxs, c1.key = none → c2.key = none → c1 = c2) := by
  have h := Survey.run_pinv {} evs Survey.pinv_init Survey.inv_init
  exact ⟨h.rd, h.uniq⟩

/-- S7: what a non-blocking receive does with that queue.  Together with `S7_surveyor_readable`:
    readable ⇒ the call does not return NNG_EAGAIN (a response, or NNG_ESTATE once the survey is
    over — the queue of an expired survey is only flushed by the next survey, so the descriptor
    stays readable meanwhile: that is the one case where "readable" does not mean "would succeed");
    would succeed ⇒ queue non-empty ⇒ readable -/
theorem S7_surveyor_nb_outcomes (s : Survey.State) (c : Survey.Ctx) (a : Nat) :
    ((c.surveyId = 0 ∨ (s.now : Int) ≥ c.expire) ∧ (Survey.ctxRecv s c a .nb).2 = [Out.done a Err.estate none false]) ∨
    (¬(c.surveyId = 0 ∨ (s.now : Int) ≥ c.expire) ∧ c.recvQ = [] ∧ (Survey.ctxRecv s c a .nb).2 = [Out.done a Err.eagain none false]) ∨
    (¬(c.surveyId = 0 ∨ (s.now : Int) ≥ c.expire) ∧ ∃ gm rest, c.recvQ = gm :: rest ∧
      (Survey.ctxRecv s c a .nb).2 = [Out.done a 0 (some gm.m) false]) :=
  Survey.recv_nb_cases s c a

/-! ### RESPONDENT -/

/-- S6, full statement: every response handed to a pipe carries the backtrace of, and goes to
    the pipe of, the survey its context had received last when the send was submitted -/
def S6_wire_statement : Prop :=
  ∀ evs : List Ev, ∀ w ∈ (Respond.run {} evs).1.wire, w.expected = some (w.pipe, w.m.hdr)

/-- S6, proved part: the backtrace always; the pipe for responses handed over by the send call
    itself.  Missing for the full statement: that a response which had to wait for a busy pipe is
    later sent on the pipe it was queued for (needs the invariant `k ∈ p.sendq → saio(k).pipe = p`,
    i.e. that cancel/close/pipe-loss keep the per-pipe wait lists and `ctx->spipe` consistent). -/
theorem S6_wire_partial (evs : List Ev) :
    ∀ w ∈ (Respond.run {} evs).1.wire,
      ∃ p, w.expected = some (p, w.m.hdr) ∧ (w.direct = true → p = w.pipe) :=
  (Respond.run_rinv {} evs Respond.rinv_init).wireOK

/-- S6: in every reachable state a context's saved backtrace and pipe are those of the survey
    it received last -/
theorem S6_state (evs : List Ev) :
    ∀ c ∈ (Respond.run {} evs).1.ctxs, c.btrace ≠ [] → ∃ p, c.pipeId = some p ∧ c.last = some (p, c.btrace) :=
  fun c hc => ((Respond.run_rinv {} evs Respond.rinv_init).ctxsOK c hc).bt

/-- S6: sending (with a timeout that lets the send wait) with no pending survey fails with
    NNG_ESTATE; contexts, pipes and wire unchanged.  (A zero-timeout send never gets as far as
    this test: `S7_respondent_zero_timeout`.) -/
theorem S6_estate (s : Respond.State) (c : Respond.Ctx) (a : Nat) (m : WMsg) (mode : Mode)
    (hz : Respond.zeroRv mode = none) (h : c.btrace = []) :
    (Respond.ctxSend s c a m mode).2 = [Out.done a Err.estate none true] ∧
    (Respond.ctxSend s c a m mode).1.ctxs = s.ctxs ∧ (Respond.ctxSend s c a m mode).1.pipes = s.pipes ∧
    (Respond.ctxSend s c a m mode).1.wire = s.wire :=
  Respond.send_estate s c a m mode hz h

/-- S6: an accepted send consumes the pending survey (one response per survey) -/
theorem S6_consumes (s : Respond.State) (c : Respond.Ctx) (a : Nat) (m : WMsg) (mode : Mode)
    (hz : Respond.zeroRv mode = none) (hb : c.btrace ≠ []) (hs : c.saio = none) :
    ∀ q ∈ (Respond.ctxSend s c a m mode).1.ctxs, q.key = c.key → q.btrace = [] ∧ q.pipeId = none :=
  Respond.send_consumes s c a m mode hz hb hs

/-- S7 as the code is (F8 open, reported under C15): a zero-timeout send — NNG_FLAG_NONBLOCK, or an
    aio with timeout 0 — never parks and never sends.  It fails at once, NNG_EAGAIN resp.
    NNG_ETIMEDOUT, with the message left to the caller, in every state (also when it could have
    sent); contexts (so a pending survey is *not* consumed), pipes and wire are untouched, only the
    socket context's send pollable has already been cleared.  A zero-timeout receive completes in
    the call. -/
theorem S7_respondent_zero_timeout (s : Respond.State) (c : Respond.Ctx) (a : Nat) (m : WMsg) (mode : Mode) (rv : Nat)
    (hz : Respond.zeroRv mode = some rv) :
    ((Respond.ctxSend s c a m mode).2 = [Out.done a rv none true] ∧
     (Respond.ctxSend s c a m mode).1.ctxs = s.ctxs ∧ (Respond.ctxSend s c a m mode).1.pipes = s.pipes ∧
     (Respond.ctxSend s c a m mode).1.wire = s.wire ∧
     (Respond.ctxSend s c a m mode).1.writable = (if c.key == none then false else s.writable)) ∧
    (Respond.ctxRecv s c a mode).2 ≠ [] :=
  ⟨Respond.send_zero_fails s c a m mode rv hz, Respond.recv_zero_completes s c a mode rv hz⟩

/-- S7 (send pollable): every send attempt on the socket's own context leaves the send pollable
    down — accepted, parked, refused, or failed on a zero timeout (the clear sits at the top of
    resp0_ctx_send, before nni_aio_start).  Consequence with F8 open: a poll loop that reacts to
    "writable" with a non-blocking send gets NNG_EAGAIN and then sees the descriptor *not* writable
    although the survey is still pending and its pipe idle: the flag is stale in the other
    direction until the next survey is received or the pipe completes a send or closes. -/
theorem S7_respondent_send_clears_writable (s : Respond.State) (c : Respond.Ctx) (a : Nat) (m : WMsg) (mode : Mode)
    (hk : c.key = none) : (Respond.ctxSend s c a m mode).1.writable = false :=
  Respond.send_clears_writable s c a m mode hk

/-- S7 (pollable): along every event sequence the respondent's receive pollable is raised exactly
    when some pipe holds a survey nobody has taken; with none a non-blocking receive returns
    NNG_EAGAIN, with one it succeeds -/
theorem S7_respondent_readable (evs : List Ev) :
    ((Respond.run {} evs).1.readable = true ↔ (Respond.run {} evs).1.recvpipes ≠ []) :=
  Respond.run_rd {} evs Respond.rd_init

theorem S7_respondent_nb_recv (s : Respond.State) (c : Respond.Ctx) (a : Nat) :
    (s.recvpipes = [] → (Respond.ctxRecv s c a .nb).2 = [Out.done a Err.eagain none false]) ∧
    (∀ p rest pp wm, s.recvpipes = p :: rest → Respond.getPipe s p = some pp → pp.held = some wm →
      Out.done a 0 (some ⟨[], wm.body⟩) false ∈ (Respond.ctxRecv s c a .nb).2) :=
  ⟨Respond.recv_empty_gives_up s c a, fun p rest pp wm h1 h2 h3 => Respond.recv_succeeds_iff s c a p rest pp wm .nb h1 h2 h3⟩

/-- S7 (send pollable of the respondent): "raised ⇒ a non-blocking send does not return
    NNG_EAGAIN" is FALSE for the code as it is (F8): the reachable state after one received survey
    polls writable and the non-blocking send returns NNG_EAGAIN (and leaves the flag down). -/
theorem S7_respondent_writable_nb_counterexample :
    let evs : List Ev := [.openSock "respondent" false, .pipeAdd 98,
      .recvDone 0 (.ok [0x80, 0, 0, 2, 9]), .recv none 0 .inf]
    let s := (Respond.run {} evs).1
    s.writable = true ∧
    (Respond.step s (.send none 1 ⟨[], [5]⟩ .nb)).2 = [Out.done 1 Err.eagain none true] ∧
    (Respond.step s (.send none 1 ⟨[], [5]⟩ .nb)).1.writable = false := by decide

/-- what remains true of the send pollable, not proved (judged on no trace either: C07's judge is
    silent about non-blocking sends, the generic C15 poll judge owns them): raised ⇒ a send that
    may wait completes in the call (the pending survey's pipe is idle or gone) -/
def S7_respondent_writable_statement : Prop :=
  ∀ evs : List Ev, let s := (Respond.run {} evs).1
    s.writable = true → ∀ c ∈ s.ctxs, c.key = none → ∀ a m, (Respond.ctxSend s c a m .inf).2 ≠ []

/-! ### non-vacuity: the hypotheses are met by concrete runs -/

def surveyDemo : List Ev :=
  [.openSock "surveyor" false, .pipeAdd 99, .send none 0 ⟨[], [1]⟩ .inf, .recv none 1 .inf,
   .recvDone 0 (.ok [0x80, 0, 0, 0, 7]), .recvDone 0 (.ok [0x80, 0, 0, 0, 8]), .recv none 2 .nb]

example : ((Survey.run {} surveyDemo).1.delivered.map fun d => (d.aio, d.direct)) = [(1, false), (2, true)] := by decide

def respondDemo : List Ev :=
  [.openSock "respondent" false, .pipeAdd 98, .recvDone 0 (.ok [0, 0, 0, 1, 0x80, 0, 0, 2, 9]), .recv none 0 .inf,
   .send none 1 ⟨[], [5]⟩ .inf, .send none 2 ⟨[], [6]⟩ .inf]

example : ((Respond.run {} respondDemo).1.wire.map fun w => (w.pipe, w.m.hdr.length, w.direct)) = [(0, 8, true)] := by decide

example : (Respond.run {} respondDemo).2.getLast? = some [Out.done 2 Err.estate none true] := by decide

end Nng.C07
